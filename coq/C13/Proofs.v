(* C13 - lemmas and proofs. *)
From ASV Require Import Base.
From ASV.C13 Require Import Model.
From Coq Require Import Sorting.Sorted Sorting.Permutation ZifyBool.

(* ------------------------------------------------------------------ generic: sets as lists *)
Lemma filter_sub_In {A} (f : A -> bool) x l : In x (filter f l) -> In x l.
Proof. intros H. apply filter_In in H. tauto. Qed.

Lemma dedupe_In {A} (eqb : A -> A -> bool) (Heq : forall a b, eqb a b = true <-> a = b) :
  forall l x, In x (dedupe eqb l) <-> In x l.
Proof.
  induction l as [|y ys IH]; intros x; cbn [dedupe]; [tauto|].
  split.
  - intros [H|H]; [left; exact H|]. apply filter_In in H. right. apply IH. tauto.
  - intros [H|H]; [left; exact H|].
    destruct (eqb y x) eqn:E.
    + left. apply Heq. exact E.
    + right. apply filter_In. split; [apply IH; exact H|]. rewrite E. reflexivity.
Qed.

Lemma dedupe_NoDup {A} (eqb : A -> A -> bool) (Heq : forall a b, eqb a b = true <-> a = b) :
  forall l, NoDup (dedupe eqb l).
Proof.
  induction l as [|y ys IH]; cbn [dedupe]; [constructor|].
  constructor.
  - intros H. apply filter_In in H. destruct H as [_ H].
    assert (E : eqb y y = true) by (apply Heq; reflexivity). rewrite E in H. discriminate.
  - apply NoDup_filter. exact IH.
Qed.

(* ------------------------------------------------------------------ generic: insertion sort *)
Lemma insert_by_In {A} (lt : A -> A -> bool) x : forall l z, In z (insert_by lt x l) <-> z = x \/ In z l.
Proof.
  induction l as [|y ys IH]; intros z; cbn [insert_by].
  - cbn. intuition.
  - destruct (lt x y); cbn [In].
    + intuition.
    + rewrite IH. intuition.
Qed.

Lemma fold_insert_In {A} (lt : A -> A -> bool) : forall l acc z,
  In z (fold_left (fun acc x => insert_by lt x acc) l acc) <-> In z l \/ In z acc.
Proof.
  induction l as [|x xs IH]; intros acc z; cbn [fold_left].
  - cbn. tauto.
  - rewrite IH. rewrite insert_by_In. cbn [In]. intuition.
Qed.

Lemma sort_by_In {A} (lt : A -> A -> bool) l z : In z (sort_by lt l) <-> In z l.
Proof. unfold sort_by. rewrite fold_insert_In. cbn. tauto. Qed.

Definition ssorted {A} (lt : A -> A -> bool) (l : list A) : Prop :=
  StronglySorted (fun a b => lt a b = true) l.

Lemma insert_by_ssorted {A} (lt : A -> A -> bool)
  (Htrans : forall a b c, lt a b = true -> lt b c = true -> lt a c = true) x :
  forall l, ssorted lt l -> (forall y, In y l -> lt x y = false -> lt y x = true) ->
  ssorted lt (insert_by lt x l).
Proof.
  induction l as [|y ys IH]; intros Hs Hx; cbn [insert_by].
  - constructor; [constructor|constructor].
  - inversion Hs as [|? ? Hs' Hall]; subst.
    destruct (lt x y) eqn:E.
    + constructor; [exact Hs|].
      constructor; [exact E|].
      rewrite Forall_forall in *. intros z Hz. apply Htrans with y; [exact E|apply Hall; exact Hz].
    + constructor.
      * apply IH; [exact Hs'|]. intros z Hz. apply Hx. right. exact Hz.
      * rewrite Forall_forall in *. intros z Hz. apply insert_by_In in Hz. destruct Hz as [Hz|Hz].
        -- subst z. apply Hx; [left; reflexivity|exact E].
        -- apply Hall. exact Hz.
Qed.

Lemma fold_insert_ssorted {A} (lt : A -> A -> bool)
  (Htrans : forall a b c, lt a b = true -> lt b c = true -> lt a c = true)
  (Htotal : forall a b, lt a b = false -> lt b a = false -> a = b) :
  forall l acc, NoDup l -> (forall x, In x l -> ~ In x acc) -> ssorted lt acc ->
  ssorted lt (fold_left (fun acc x => insert_by lt x acc) l acc).
Proof.
  induction l as [|x xs IH]; intros acc Hnd Hdis Hs; cbn [fold_left]; [exact Hs|].
  inversion Hnd as [|? ? Hnx Hnd']; subst.
  apply IH; [exact Hnd'| |].
  - intros z Hz Hin. apply insert_by_In in Hin. destruct Hin as [Hin|Hin].
    + subst z. contradiction.
    + apply (Hdis z); [right; exact Hz|exact Hin].
  - apply insert_by_ssorted; [exact Htrans|exact Hs|].
    intros y Hy Hxy. destruct (lt y x) eqn:E; [reflexivity|].
    exfalso. apply (Hdis x); [left; reflexivity|].
    rewrite (Htotal x y Hxy E). exact Hy.
Qed.

Lemma ssorted_unique {A} (lt : A -> A -> bool)
  (Hirr : forall a, lt a a = false)
  (Htrans : forall a b c, lt a b = true -> lt b c = true -> lt a c = true) :
  forall l1 l2, ssorted lt l1 -> ssorted lt l2 -> (forall x, In x l1 <-> In x l2) -> l1 = l2.
Proof.
  induction l1 as [|a t1 IH]; intros l2 H1 H2 Hin.
  - destruct l2 as [|b t2]; [reflexivity|]. exfalso. apply (Hin b). left. reflexivity.
  - destruct l2 as [|b t2]; [exfalso; apply (Hin a); left; reflexivity|].
    inversion H1 as [|? ? H1' Ha]; subst. inversion H2 as [|? ? H2' Hb]; subst.
    rewrite Forall_forall in Ha, Hb.
    assert (Hab : a = b).
    { destruct (proj1 (Hin a) (or_introl eq_refl)) as [E|E]; [symmetry; exact E|].
      destruct (proj2 (Hin b) (or_introl eq_refl)) as [E'|E']; [exact E'|].
      pose proof (Hb a E) as X. pose proof (Ha b E') as Y.
      pose proof (Htrans _ _ _ X Y) as Z1. rewrite Hirr in Z1. discriminate. }
    subst b. f_equal. apply IH; [exact H1'|exact H2'|].
    intros x. split; intros Hx.
    + destruct (proj1 (Hin x) (or_intror Hx)) as [E|E]; [|exact E].
      subst x. pose proof (Ha a Hx) as X. rewrite Hirr in X. discriminate.
    + destruct (proj2 (Hin x) (or_intror Hx)) as [E|E]; [|exact E].
      subst x. pose proof (Hb a Hx) as X. rewrite Hirr in X. discriminate.
Qed.

(* sorting the set of a list by a strict total order depends on the set only *)
Lemma sort_dedupe_ext {A} (eqb lt : A -> A -> bool)
  (Heq : forall a b, eqb a b = true <-> a = b)
  (Hirr : forall a, lt a a = false)
  (Htrans : forall a b c, lt a b = true -> lt b c = true -> lt a c = true)
  (Htotal : forall a b, lt a b = false -> lt b a = false -> a = b) :
  forall l l', (forall x, In x l <-> In x l') ->
  sort_by lt (dedupe eqb l) = sort_by lt (dedupe eqb l').
Proof.
  intros l l' Hin.
  assert (S : forall m, ssorted lt (sort_by lt (dedupe eqb m))).
  { intros m. unfold sort_by. apply fold_insert_ssorted; [exact Htrans|exact Htotal| | |constructor].
    - apply dedupe_NoDup. exact Heq.
    - intros x _ H. exact H. }
  apply (ssorted_unique lt Hirr Htrans); [apply S|apply S|].
  intros x. rewrite !sort_by_In. rewrite !(dedupe_In eqb Heq). apply Hin.
Qed.

(* insertion sort by an integer key gives a list ordered by the key *)
Lemma insert_by_key_sorted {A} (f : A -> Z) x : forall l,
  StronglySorted Z.le (map f l) ->
  StronglySorted Z.le (map f (insert_by (fun a b => f a <? f b) x l)).
Proof.
  induction l as [|y ys IH]; intros Hs; cbn [insert_by map].
  - constructor; constructor.
  - cbn [map] in Hs. inversion Hs as [|? ? Hs' Hall]; subst.
    destruct (f x <? f y) eqn:E; cbn [map].
    + constructor; [exact Hs|]. constructor; [lia|].
      rewrite Forall_forall in *. intros z Hz. specialize (Hall z Hz). lia.
    + constructor; [apply IH; exact Hs'|].
      rewrite Forall_forall in *. intros z Hz. apply in_map_iff in Hz. destruct Hz as [w [Hw Hz]].
      apply insert_by_In in Hz. destruct Hz as [Hz|Hz].
      * subst. lia.
      * apply Hall. apply in_map_iff. exists w. tauto.
Qed.

Lemma sort_by_key_sorted {A} (f : A -> Z) (l : list A) :
  StronglySorted Z.le (map f (sort_by (fun a b => f a <? f b) l)).
Proof.
  unfold sort_by.
  assert (G : forall l acc, StronglySorted Z.le (map f acc) ->
              StronglySorted Z.le (map f (fold_left (fun acc x => insert_by (fun a b => f a <? f b) x acc) l acc))).
  { clear l. induction l as [|x xs IH]; intros acc Hs; cbn [fold_left]; [exact Hs|].
    apply IH. apply insert_by_key_sorted. exact Hs. }
  apply G. constructor.
Qed.

(* insertion sort by a comparison that refines an integer key gives a list ordered by the key *)
Lemma insert_by_key_sorted_gen {A} (f : A -> Z) (lt : A -> A -> bool)
  (H1 : forall a b, lt a b = true -> f a <= f b) (H2 : forall a b, lt a b = false -> f b <= f a) x : forall l,
  StronglySorted Z.le (map f l) -> StronglySorted Z.le (map f (insert_by lt x l)).
Proof.
  induction l as [|y ys IH]; intros Hs; cbn [insert_by map].
  - constructor; constructor.
  - cbn [map] in Hs. inversion Hs as [|? ? Hs' Hall]; subst.
    destruct (lt x y) eqn:E; cbn [map].
    + apply H1 in E. constructor; [exact Hs|]. constructor; [lia|].
      rewrite Forall_forall in *. intros z Hz. specialize (Hall z Hz). lia.
    + apply H2 in E. constructor; [apply IH; exact Hs'|].
      rewrite Forall_forall in *. intros z Hz. apply in_map_iff in Hz. destruct Hz as [w [Hw Hz]].
      apply insert_by_In in Hz. destruct Hz as [Hz|Hz].
      * subst. lia.
      * apply Hall. apply in_map_iff. exists w. tauto.
Qed.

Lemma sort_by_key_sorted_gen {A} (f : A -> Z) (lt : A -> A -> bool)
  (H1 : forall a b, lt a b = true -> f a <= f b) (H2 : forall a b, lt a b = false -> f b <= f a) (l : list A) :
  StronglySorted Z.le (map f (sort_by lt l)).
Proof.
  unfold sort_by.
  assert (G : forall l acc, StronglySorted Z.le (map f acc) ->
              StronglySorted Z.le (map f (fold_left (fun acc x => insert_by lt x acc) l acc))).
  { clear l. induction l as [|x xs IH]; intros acc Hs; cbn [fold_left]; [exact Hs|].
    apply IH. apply insert_by_key_sorted_gen; assumption. }
  apply G. constructor.
Qed.

(* the insertion sort permutes its input *)
Lemma insert_by_perm {A} (lt : A -> A -> bool) x : forall l, Permutation (insert_by lt x l) (x :: l).
Proof.
  induction l as [|y ys IH]; cbn [insert_by]; [apply Permutation_refl|].
  destruct (lt x y); [apply Permutation_refl|].
  apply Permutation_trans with (y :: x :: ys); [apply perm_skip; exact IH|apply perm_swap].
Qed.

Lemma sort_by_perm {A} (lt : A -> A -> bool) (l : list A) : Permutation (sort_by lt l) l.
Proof.
  unfold sort_by.
  assert (G : forall l acc, Permutation (fold_left (fun acc x => insert_by lt x acc) l acc) (l ++ acc)).
  { clear l. induction l as [|x xs IH]; intros acc; cbn [fold_left app]; [apply Permutation_refl|].
    apply Permutation_trans with (xs ++ insert_by lt x acc); [apply IH|].
    apply Permutation_trans with (xs ++ x :: acc); [apply Permutation_app_head; apply insert_by_perm|].
    apply Permutation_sym. apply Permutation_middle. }
  rewrite <- (app_nil_r l) at 2. apply G.
Qed.

(* ... and, for a strict order that is total on the elements (ties are equal elements), the result
   depends on the multiset only: duplicates allowed *)
Definition wsorted {A} (lt : A -> A -> bool) (l : list A) : Prop :=
  StronglySorted (fun a b => lt b a = false) l.

Lemma insert_by_wsorted {A} (lt : A -> A -> bool) (P : A -> Prop)
  (Hirr : forall a, lt a a = false)
  (Htrans : forall a b c, P a -> P b -> P c -> lt a b = true -> lt b c = true -> lt a c = true) x :
  forall l, P x -> Forall P l -> wsorted lt l -> wsorted lt (insert_by lt x l).
Proof.
  induction l as [|y ys IH]; intros Px HP Hs; cbn [insert_by].
  - constructor; [constructor|constructor].
  - inversion Hs as [|? ? Hs' Hall]; subst. inversion HP as [|? ? Py HP']; subst.
    rewrite Forall_forall in Hall, HP'.
    destruct (lt x y) eqn:E.
    + constructor; [exact Hs|]. constructor.
      * destruct (lt y x) eqn:E2; [|reflexivity].
        pose proof (Htrans x y x Px Py Px E E2) as X. rewrite Hirr in X. discriminate.
      * rewrite Forall_forall. intros z Hz. destruct (lt z x) eqn:E2; [|reflexivity].
        pose proof (Htrans z x y (HP' z Hz) Px Py E2 E) as X. rewrite (Hall z Hz) in X. discriminate.
    + constructor; [apply IH; [exact Px|rewrite Forall_forall; exact HP'|exact Hs']|].
      rewrite Forall_forall. intros z Hz. apply insert_by_In in Hz. destruct Hz as [->|Hz]; [exact E|apply Hall; exact Hz].
Qed.

Lemma sort_by_wsorted {A} (lt : A -> A -> bool) (P : A -> Prop)
  (Hirr : forall a, lt a a = false)
  (Htrans : forall a b c, P a -> P b -> P c -> lt a b = true -> lt b c = true -> lt a c = true) (l : list A) :
  Forall P l -> wsorted lt (sort_by lt l).
Proof.
  unfold sort_by.
  assert (G : forall l acc, Forall P l -> Forall P acc -> wsorted lt acc ->
              wsorted lt (fold_left (fun acc x => insert_by lt x acc) l acc)).
  { clear l. induction l as [|x xs IH]; intros acc Hl Ha Hs; cbn [fold_left]; [exact Hs|].
    inversion Hl as [|? ? Px Hxs]; subst. apply IH; [exact Hxs| |].
    - rewrite Forall_forall in *. intros z Hz. apply insert_by_In in Hz. destruct Hz as [->|Hz]; [exact Px|apply Ha; exact Hz].
    - apply (insert_by_wsorted lt P Hirr Htrans); assumption. }
  intros Hl. apply G; [exact Hl|constructor|constructor].
Qed.

Lemma wsorted_perm_eq {A} (lt : A -> A -> bool) (P : A -> Prop)
  (Htotal : forall a b, P a -> P b -> lt a b = false -> lt b a = false -> a = b) :
  forall l1 l2, Forall P l1 -> wsorted lt l1 -> wsorted lt l2 -> Permutation l1 l2 -> l1 = l2.
Proof.
  induction l1 as [|a t1 IH]; intros l2 HP H1 H2 Hp.
  - apply Permutation_nil in Hp. symmetry. exact Hp.
  - destruct l2 as [|b t2]; [apply Permutation_sym in Hp; apply Permutation_nil in Hp; discriminate|].
    inversion H1 as [|? ? H1' Ha]; subst. inversion H2 as [|? ? H2' Hb]; subst.
    inversion HP as [|? ? Pa HP']; subst.
    rewrite Forall_forall in Ha, Hb.
    assert (Pb : P b).
    { rewrite Forall_forall in HP. apply HP. apply (Permutation_in _ (Permutation_sym Hp)). left. reflexivity. }
    assert (Hab : a = b).
    { pose proof (Permutation_in _ Hp (or_introl eq_refl)) as Ia.
      pose proof (Permutation_in _ (Permutation_sym Hp) (or_introl eq_refl)) as Ib.
      destruct Ia as [E|Ia]; [symmetry; exact E|]. destruct Ib as [E|Ib]; [exact E|].
      apply Htotal; [exact Pa|exact Pb|apply Hb; exact Ia|apply Ha; exact Ib]. }
    subst b. f_equal. apply IH; [exact HP'|exact H1'|exact H2'|].
    apply (Permutation_cons_inv Hp).
Qed.

Lemma sort_by_perm_eq {A} (lt : A -> A -> bool) (P : A -> Prop)
  (Hirr : forall a, lt a a = false)
  (Htrans : forall a b c, P a -> P b -> P c -> lt a b = true -> lt b c = true -> lt a c = true)
  (Htotal : forall a b, P a -> P b -> lt a b = false -> lt b a = false -> a = b) :
  forall l l', Forall P l -> Permutation l l' -> sort_by lt l = sort_by lt l'.
Proof.
  intros l l' HP Hp.
  assert (HP' : Forall P l').
  { rewrite Forall_forall in *. intros x Hx. apply HP. apply (Permutation_in _ (Permutation_sym Hp)). exact Hx. }
  apply (wsorted_perm_eq lt P Htotal).
  - rewrite Forall_forall in *. intros x Hx. apply HP. apply (Permutation_in _ (sort_by_perm lt l)). exact Hx.
  - apply (sort_by_wsorted lt P Hirr Htrans). exact HP.
  - apply (sort_by_wsorted lt P Hirr Htrans). exact HP'.
  - apply Permutation_trans with l; [apply sort_by_perm|].
    apply Permutation_trans with l'; [exact Hp|apply Permutation_sym; apply sort_by_perm].
Qed.

(* sublists *)
Inductive sub {A} : list A -> list A -> Prop :=
| sub_nil : sub [] []
| sub_skip x l1 l2 : sub l1 l2 -> sub l1 (x :: l2)
| sub_keep x l1 l2 : sub l1 l2 -> sub (x :: l1) (x :: l2).

Lemma sub_refl {A} (l : list A) : sub l l.
Proof. induction l; constructor; assumption. Qed.
Lemma sub_nil_l {A} (l : list A) : sub [] l.
Proof. induction l; constructor; assumption. Qed.
Lemma sub_In {A} (l1 l2 : list A) : sub l1 l2 -> forall x, In x l1 -> In x l2.
Proof.
  induction 1 as [|y l1 l2 H IH|y l1 l2 H IH]; intros x Hx.
  - exact Hx.
  - right. apply IH. exact Hx.
  - destruct Hx as [Hx|Hx]; [left; exact Hx|right; apply IH; exact Hx].
Qed.
Lemma sub_trans {A} (l1 l2 l3 : list A) : sub l1 l2 -> sub l2 l3 -> sub l1 l3.
Proof.
  intros H12 H23. revert l1 H12.
  induction H23 as [|y l2 l3 H IH|y l2 l3 H IH]; intros l1 H12.
  - exact H12.
  - constructor. apply IH. exact H12.
  - inversion H12 as [|? ? ? H'|? ? ? H']; subst.
    + apply sub_skip. apply IH. exact H'.
    + apply sub_keep. apply IH. exact H'.
Qed.
Lemma sub_app_skip {A} (x : A) : forall p l r, sub l (p ++ r) -> sub l (p ++ x :: r).
Proof.
  induction p as [|a p IH]; intros l r H; cbn [app] in *.
  - apply sub_skip. exact H.
  - inversion H as [|? ? ? H'|? ? ? H']; subst.
    + apply sub_skip. apply IH. exact H'.
    + apply sub_keep. apply IH. exact H'.
Qed.
Lemma sub_filter {A} (f : A -> bool) (l : list A) : sub (filter f l) l.
Proof. induction l as [|x xs IH]; cbn [filter]; [constructor|]. destruct (f x); constructor; exact IH. Qed.
Lemma sub_map {A B} (f : A -> B) (l1 l2 : list A) : sub l1 l2 -> sub (map f l1) (map f l2).
Proof. induction 1; cbn [map]; constructor; assumption. Qed.
Lemma sub_sorted (l1 l2 : list Z) : sub l1 l2 -> StronglySorted Z.le l2 -> StronglySorted Z.le l1.
Proof.
  induction 1 as [|y l1 l2 H IH|y l1 l2 H IH]; intros Hs.
  - constructor.
  - inversion Hs; subst. apply IH. assumption.
  - inversion Hs as [|? ? Hs' Hall]; subst. constructor; [apply IH; exact Hs'|].
    rewrite Forall_forall in *. intros z Hz. apply Hall. apply (sub_In _ _ H). exact Hz.
Qed.

(* ------------------------------------------------------------------ the total key *)
Lemma hit_eqb_eq a b : hit_eqb a b = true <-> a = b.
Proof.
  unfold hit_eqb. split.
  - intros H. destruct a, b. cbn in H. f_equal; lia.
  - intros ->. destruct b. cbn. lia.
Qed.
Lemma key_lt_irrefl a : key_lt a a = false.
Proof. unfold key_lt. lia. Qed.
Lemma key_lt_trans a b c : key_lt a b = true -> key_lt b c = true -> key_lt a c = true.
Proof. unfold key_lt. lia. Qed.
Lemma key_lt_total a b : key_lt a b = false -> key_lt b a = false -> a = b.
Proof.
  unfold key_lt. intros H1 H2. destruct a, b. cbn in *. f_equal; lia.
Qed.
Lemma key_lt_start a b : key_lt a b = true -> st a <= st b.
Proof. unfold key_lt. lia. Qed.

Lemma canonical_ext l l' : (forall x, In x l <-> In x l') -> canonical l = canonical l'.
Proof.
  unfold canonical. apply sort_dedupe_ext.
  - exact hit_eqb_eq.
  - exact key_lt_irrefl.
  - exact key_lt_trans.
  - exact key_lt_total.
Qed.

Lemma canonical_In l x : In x (canonical l) <-> In x l.
Proof. unfold canonical. rewrite sort_by_In. apply dedupe_In. exact hit_eqb_eq. Qed.

Lemma canonical_ssorted l : ssorted key_lt (canonical l).
Proof.
  unfold canonical, sort_by. apply fold_insert_ssorted.
  - exact key_lt_trans.
  - exact key_lt_total.
  - apply dedupe_NoDup. exact hit_eqb_eq.
  - intros x _ H. exact H.
  - constructor.
Qed.

Definition sorted_st (l : list hit) : Prop := StronglySorted Z.le (map st l).

Lemma canonical_sorted_st l : sorted_st (canonical l).
Proof.
  unfold sorted_st. pose proof (canonical_ssorted l) as H. unfold ssorted in H.
  induction H as [|a t Hs IH Hall]; cbn [map]; constructor; [exact IH|].
  rewrite Forall_forall in *. intros z Hz. apply in_map_iff in Hz. destruct Hz as [w [<- Hw]].
  apply key_lt_start. apply Hall. exact Hw.
Qed.

(* ------------------------------------------------------------------ order independence *)
Lemma refine_gene_ext nb L reg l l' :
  (forall x, In x l <-> In x l') -> refine_gene nb L reg l = refine_gene nb L reg l'.
Proof. intros H. unfold refine_gene. rewrite (canonical_ext l l' H). reflexivity. Qed.

Lemma refine_gene_perm nb L reg l l' :
  Permutation l l' -> refine_gene nb L reg l = refine_gene nb L reg l'.
Proof.
  intros H. apply refine_gene_ext. intros x. split; intros Hx.
  - apply (Permutation_in _ H). exact Hx.
  - apply (Permutation_in _ (Permutation_sym H)). exact Hx.
Qed.

Lemma Zeqb_eq a b : Z.eqb a b = true <-> a = b.
Proof. apply Z.eqb_eq. Qed.

Lemma genes_of_ext l l' : (forall x, In x l <-> In x l') -> genes_of l = genes_of l'.
Proof.
  intros H. unfold genes_of. apply sort_dedupe_ext.
  - exact Zeqb_eq.
  - intros a. unfold gene_lt. lia.
  - intros a b c. unfold gene_lt. lia.
  - intros a b. unfold gene_lt. lia.
  - intros g. rewrite !in_map_iff. split; intros [x [E Hx]]; exists x; (split; [exact E|apply H; exact Hx]).
Qed.

Lemma hits_of_In g l h : In h (hits_of g l) <-> In (g, h) l.
Proof.
  unfold hits_of. rewrite in_map_iff. split.
  - intros [[g' h'] [E Hx]]. cbn in E. subst h'. apply filter_In in Hx. destruct Hx as [Hx Hg].
    cbn in Hg. assert (g' = g) by lia. subst. exact Hx.
  - intros Hx. exists (g, h). split; [reflexivity|]. apply filter_In. split; [exact Hx|]. cbn. lia.
Qed.

Lemma mapM_ext {A B} (f g : A -> res B) l : (forall x, In x l -> f x = g x) -> mapM f l = mapM g l.
Proof.
  induction l as [|x xs IH]; intros H; cbn [mapM]; [reflexivity|].
  rewrite (H x (or_introl eq_refl)). rewrite IH; [reflexivity|]. intros y Hy. apply H. right. exact Hy.
Qed.

Lemma refine_all_ext nb L reg l l' :
  (forall x, In x l <-> In x l') -> refine_all nb L reg l = refine_all nb L reg l'.
Proof.
  intros H. unfold refine_all. rewrite (genes_of_ext l l' H).
  rewrite (mapM_ext _ (fun g => do r <- refine_gene nb L reg (hits_of g l'); Ok (g, r))); [reflexivity|].
  intros g _. rewrite (refine_gene_ext nb L reg (hits_of g l) (hits_of g l')); [reflexivity|].
  intros h. rewrite !hits_of_In. apply H.
Qed.

Lemma refine_table_perm nb t l l' : Permutation l l' -> refine_table nb t l = refine_table nb t l'.
Proof.
  intros H.
  assert (E : forall x, In x l <-> In x l').
  { intros x. split; intros Hx; [apply (Permutation_in _ H)|apply (Permutation_in _ (Permutation_sym H))]; exact Hx. }
  unfold refine_table.
  assert (F : forallb (fun gh => ppresent t (prof (snd gh))) l = forallb (fun gh => ppresent t (prof (snd gh))) l').
  { apply eq_true_iff_eq. rewrite !forallb_forall. split; intros G x Hx; apply G; apply E; exact Hx. }
  rewrite F. rewrite (refine_all_ext nb (plen t) (preg t) l l' E). reflexivity.
Qed.

(* ------------------------------------------------------------------ outputs are ordered by start *)
Lemma ro_sub L : forall rest prev, sub (ro L prev rest) (prev :: rest).
Proof.
  induction rest as [|r rs IH]; intros prev; cbn [ro].
  - apply sub_refl.
  - destruct (ovl L r prev).
    + destruct (sc prev <? sc r).
      * apply sub_skip. apply IH.
      * specialize (IH prev). inversion IH as [|? ? ? H'|? ? ? H']; subst.
        -- apply sub_skip. apply sub_skip. exact H'.
        -- apply sub_keep. apply sub_skip. exact H'.
    + apply sub_keep. apply IH.
Qed.

Lemma ro_nonempty L rest prev : ro L prev rest <> [].
Proof.
  revert prev. induction rest as [|r rs IH]; intros prev; cbn [ro]; [discriminate|].
  destruct (ovl L r prev); [destruct (sc prev <? sc r); apply IH|discriminate].
Qed.

Lemma sorted_st_sub l1 l2 : sub l1 l2 -> sorted_st l2 -> sorted_st l1.
Proof. unfold sorted_st. intros H. apply sub_sorted. apply sub_map. exact H. Qed.

Lemma merge_st a b : st (merge a b) = Z.min (st a) (st b).
Proof. reflexivity. Qed.
Lemma merge_en a b : en (merge a b) = Z.max (en a) (en b).
Proof. reflexivity. Qed.
Lemma merge_sc a b : sc (merge a b) = Z.max (sc a) (sc b).
Proof. reflexivity. Qed.
Lemma merge_ev a b : ev (merge a b) = Z.min (ev a) (ev b).
Proof. reflexivity. Qed.
Lemma merge_prof a b : prof (merge a b) = prof a.
Proof. reflexivity. Qed.

Lemma mn_starts L : forall rest cur, sorted_st (cur :: rest) ->
  sub (map st (mn L cur rest)) (map st (cur :: rest)).
Proof.
  induction rest as [|d ds IH]; intros cur Hs; cbn [mn].
  - apply sub_refl.
  - unfold sorted_st in Hs. cbn [map] in Hs.
    inversion Hs as [|? ? Hs' Hall]; subst.
    destruct (negb (prof d =? prof cur)).
    + cbn [map]. apply sub_keep. apply IH. exact Hs'.
    + destruct (2 * (en d - st cur) <? 3 * L (prof d)).
      * assert (E : st (merge cur d) = st cur).
        { rewrite merge_st. inversion Hall; subst. lia. }
        cbn [map]. rewrite <- E.
        apply sub_trans with (map st (merge cur d :: ds)).
        -- apply IH. unfold sorted_st. cbn [map]. rewrite E.
           inversion Hs' as [|? ? Hs'' Hall']; subst. inversion Hall as [|? ? Hle Hall'']; subst.
           constructor; [exact Hs''|exact Hall''].
        -- cbn [map]. apply sub_keep. apply sub_skip. apply sub_refl.
      * cbn [map]. apply sub_keep. apply IH. exact Hs'.
Qed.

Lemma mn_sorted L rest cur : sorted_st (cur :: rest) -> sorted_st (mn L cur rest).
Proof. intros H. unfold sorted_st. apply (sub_sorted _ _ (mn_starts L rest cur H)). exact H. Qed.

Lemma remove_incomplete_sub L reg l : sub (remove_incomplete L reg l) l.
Proof.
  unfold remove_incomplete.
  destruct (filter (is_complete L) l) as [|c cs] eqn:E.
  - destruct (longest L l) as [[num den] best] eqn:El.
    assert (Hbest : forall d, best = Some d -> In d l).
    { unfold longest in El.
      assert (G : forall l0 s d, snd (fold_left (longest_step L) l0 s) = Some d ->
                  snd s = Some d \/ In d l0).
      { induction l0 as [|x xs IH]; intros s d H; cbn [fold_left] in H; [left; exact H|].
        apply IH in H. destruct H as [H|H]; [|right; right; exact H].
        destruct s as [[n dn] b]. unfold longest_step in H.
        destruct (n * L (prof x) <? hlen x * dn); cbn [snd] in H.
        - inversion H; subst. right. left. reflexivity.
        - left. exact H. }
      intros d Hd. specialize (G l (0, 1, None) d). rewrite El in G. cbn [snd] in G.
      destruct (G Hd) as [X|X]; [discriminate|exact X]. }
    assert (S1 : forall d, In d l -> sub [d] l).
    { clear. induction l as [|x xs IH]; intros d Hd; [destruct Hd|]. destruct Hd as [Hd|Hd].
      - subst. apply sub_keep. apply sub_nil_l.
      - apply sub_skip. apply IH. exact Hd. }
    destruct (if den <? 3 * num then best else None) as [d|] eqn:Eb.
    + apply S1. apply Hbest. destruct (den <? 3 * num); [exact Eb|discriminate].
    + destruct (filter (fun d => reg (prof d)) l) as [|d ds] eqn:Er.
      * apply sub_nil_l.
      * apply S1. apply (filter_sub_In (fun d => reg (prof d))). rewrite Er. left. reflexivity.
  - rewrite <- E. apply sub_filter.
Qed.

Lemma merge_domain_list_sorted L l : sorted_st (merge_domain_list L l).
Proof. unfold merge_domain_list, sorted_st, start_lt. apply sort_by_key_sorted. Qed.

Lemma StronglySorted_le_bool : forall l, sorted_st l -> sorted_by_start l = true.
Proof.
  induction l as [|a t IH]; intros H; [reflexivity|].
  unfold sorted_st in H. cbn [map] in H. inversion H as [|? ? Hs Hall]; subst.
  destruct t as [|b t']; [reflexivity|].
  pose proof (IH Hs) as IH'. cbn [map] in Hall. inversion Hall; subst.
  change (sorted_by_start (a :: b :: t')) with ((st a <=? st b) && sorted_by_start (b :: t')).
  rewrite IH'. lia.
Qed.

Lemma refine_gene_sorted nb L reg l out : refine_gene nb L reg l = Ok out -> sorted_st out.
Proof.
  unfold refine_gene. destruct nb.
  - destruct (canonical l) as [|h t] eqn:E; cbn [remove_overlapping_l bind]; [discriminate|].
    destruct (ro L h t) as [|h' t'] eqn:Er; cbn [merge_neighbours_l bind]; [discriminate|].
    intros H. inversion H; subst.
    apply (sorted_st_sub _ _ (remove_incomplete_sub L reg _)).
    apply mn_sorted. rewrite <- Er.
    apply (sorted_st_sub _ _ (ro_sub L t h)). rewrite <- E. apply canonical_sorted_st.
  - destruct (merge_domain_list L (canonical l)) as [|h t] eqn:E; cbn [remove_overlapping_l bind]; [discriminate|].
    intros H. inversion H; subst.
    apply (sorted_st_sub _ _ (remove_incomplete_sub L reg _)).
    apply (sorted_st_sub _ _ (ro_sub L t h)). rewrite <- E. apply merge_domain_list_sorted.
Qed.

Lemma mapM_In {A B} (f : A -> res B) : forall l out y, mapM f l = Ok out -> In y out ->
  exists x, In x l /\ f x = Ok y.
Proof.
  induction l as [|x xs IH]; intros out y H Hy; cbn [mapM] in H.
  - inversion H; subst. destruct Hy.
  - destruct (f x) as [b|k] eqn:Ef; cbn [bind] in H; [|discriminate].
    destruct (mapM f xs) as [bs|k] eqn:Em; cbn [bind] in H; [|discriminate].
    inversion H; subst. destruct Hy as [Hy|Hy].
    + subst. exists x. split; [left; reflexivity|exact Ef].
    + destruct (IH bs y eq_refl Hy) as [x' [Hx' Hf]]. exists x'. split; [right; exact Hx'|exact Hf].
Qed.

Lemma refine_all_gene nb L reg l out g hs : refine_all nb L reg l = Ok out -> In (g, hs) out ->
  refine_gene nb L reg (hits_of g l) = Ok hs /\ hs <> [].
Proof.
  unfold refine_all. intros H Hin.
  destruct (mapM _ (genes_of l)) as [per|k] eqn:Em; cbn [bind] in H; [|discriminate].
  inversion H; subst. apply filter_In in Hin. destruct Hin as [Hin Hne].
  destruct (mapM_In _ _ _ _ Em Hin) as [g' [_ Hf]].
  destruct (refine_gene nb L reg (hits_of g' l)) as [r|k] eqn:Er; cbn [bind] in Hf; [|discriminate].
  inversion Hf; subst. split; [exact Er|]. cbn [snd] in Hne. destruct hs; [discriminate|discriminate].
Qed.

(* ------------------------------------------------------------------ provenance *)
(* a returned hit is an input hit, or the merge of a (merged) hit with a further input hit of the
   same profile whose end lies less than 1.5 profile lengths after the start of the merged hit *)
Inductive frag (L : Z -> Z) (inp : list hit) : hit -> Prop :=
| frag_in h : In h inp -> frag L inp h
| frag_merge a b : frag L inp a -> In b inp -> prof a = prof b ->
    2 * (en b - st a) < 3 * L (prof b) -> frag L inp (merge a b).

Lemma frag_incl L inp inp' h : (forall x, In x inp -> In x inp') -> frag L inp h -> frag L inp' h.
Proof.
  intros Hi H. induction H as [h Hh|a b Ha IH Hb Hp Hs].
  - apply frag_in. apply Hi. exact Hh.
  - apply frag_merge; [exact IH|apply Hi; exact Hb|exact Hp|exact Hs].
Qed.

Lemma mn_frag L inp : forall rest cur, frag L inp cur -> (forall x, In x rest -> In x inp) ->
  forall h, In h (mn L cur rest) -> frag L inp h.
Proof.
  induction rest as [|d ds IH]; intros cur Hc Hr h Hh; cbn [mn] in Hh.
  - destruct Hh as [<-|[]]. exact Hc.
  - assert (Hd : In d inp) by (apply Hr; left; reflexivity).
    assert (Hds : forall x, In x ds -> In x inp) by (intros x Hx; apply Hr; right; exact Hx).
    destruct (negb (prof d =? prof cur)) eqn:Ep.
    + destruct Hh as [<-|Hh]; [exact Hc|]. apply (IH d); [apply frag_in; exact Hd|exact Hds|exact Hh].
    + destruct (2 * (en d - st cur) <? 3 * L (prof d)) eqn:Es.
      * apply (IH (merge cur d)); [|exact Hds|exact Hh].
        apply frag_merge; [exact Hc|exact Hd|lia|lia].
      * destruct Hh as [<-|Hh]; [exact Hc|]. apply (IH d); [apply frag_in; exact Hd|exact Hds|exact Hh].
Qed.

Lemma mcat_frag L inp p : forall rest merged, frag L inp merged ->
  (forall x, In x rest -> In x inp /\ prof x = p) -> prof merged = p ->
  forall h, In h (mcat L p merged rest) -> frag L inp h.
Proof.
  induction rest as [|o os IH]; intros merged Hm Hr Hp h Hh; cbn [mcat] in Hh.
  - destruct Hh as [<-|[]]. exact Hm.
  - destruct (Hr o (or_introl eq_refl)) as [Ho Hpo].
    assert (Hos : forall x, In x os -> In x inp /\ prof x = p) by (intros x Hx; apply Hr; right; exact Hx).
    destruct (2 * (en o - st merged) <? 3 * L p) eqn:Es.
    + apply (IH (merge merged o)); [|exact Hos|rewrite merge_prof; exact Hp|exact Hh].
      apply frag_merge; [exact Hm|exact Ho|congruence|rewrite Hpo; lia].
    + destruct Hh as [<-|Hh]; [exact Hm|].
      apply (IH o); [apply frag_in; exact Ho|exact Hos|exact Hpo|exact Hh].
Qed.

Lemma merge_domain_list_frag L l h : In h (merge_domain_list L l) -> frag L l h.
Proof.
  unfold merge_domain_list. rewrite sort_by_In. rewrite in_flat_map. intros [p [_ Hh]].
  destruct (category p l) as [|c0 cs] eqn:Ec; [destruct Hh|].
  assert (Hc : forall x, In x (c0 :: cs) -> In x l /\ prof x = p).
  { intros x Hx. rewrite <- Ec in Hx. unfold category in Hx. apply filter_In in Hx. split; [tauto|lia]. }
  apply (mcat_frag L l p cs c0).
  - apply frag_in. apply Hc. left. reflexivity.
  - intros x Hx. apply Hc. right. exact Hx.
  - apply Hc. left. reflexivity.
  - exact Hh.
Qed.

Lemma refine_gene_frag nb L reg l out h : refine_gene nb L reg l = Ok out -> In h out -> frag L l h.
Proof.
  unfold refine_gene. destruct nb.
  - destruct (canonical l) as [|c t] eqn:E; cbn [remove_overlapping_l bind]; [discriminate|].
    destruct (ro L c t) as [|h' t'] eqn:Er; cbn [merge_neighbours_l bind]; [discriminate|].
    intros H Hh. inversion H; subst.
    apply (sub_In _ _ (remove_incomplete_sub L reg _)) in Hh.
    assert (Hro : forall x, In x (h' :: t') -> In x l).
    { intros x Hx. rewrite <- Er in Hx. apply (sub_In _ _ (ro_sub L t c)) in Hx. rewrite <- E in Hx.
      apply canonical_In. exact Hx. }
    apply (mn_frag L l t' h'); [apply frag_in; apply Hro; left; reflexivity| |exact Hh].
    intros x Hx. apply Hro. right. exact Hx.
  - destruct (merge_domain_list L (canonical l)) as [|c t] eqn:E; cbn [remove_overlapping_l bind]; [discriminate|].
    intros H Hh. inversion H; subst.
    apply (sub_In _ _ (remove_incomplete_sub L reg _)) in Hh.
    apply (sub_In _ _ (ro_sub L t c)) in Hh. rewrite <- E in Hh.
    apply merge_domain_list_frag in Hh.
    apply (frag_incl L (canonical l)); [|exact Hh]. intros x. apply canonical_In.
Qed.

(* what a fragment-merge is made of: profile, start, end, score and e-value each come from an
   input hit of the same profile; start is the least start, score the best, e-value the least of
   the hits merged *)
Lemma frag_from_input L inp h : frag L inp h -> from_input inp h = true.
Proof.
  intros H. induction H as [h Hh|a b Ha IH Hb Hp Hs].
  - unfold from_input. rewrite !andb_true_iff. repeat split; apply existsb_exists; exists h; (split; [exact Hh|lia]).
  - unfold from_input in *. rewrite !andb_true_iff in *. destruct IH as [[[I1 I2] I3] I4].
    apply existsb_exists in I1, I2, I3, I4.
    destruct I1 as [x1 [X1 Y1]]. destruct I2 as [x2 [X2 Y2]]. destruct I3 as [x3 [X3 Y3]]. destruct I4 as [x4 [X4 Y4]].
    rewrite merge_prof.
    repeat split; apply existsb_exists.
    + rewrite merge_st. destruct (Z.min_spec (st a) (st b)) as [[_ ->]|[_ ->]].
      * exists x1. split; [exact X1|lia].
      * exists b. split; [exact Hb|lia].
    + rewrite merge_en. destruct (Z.max_spec (en a) (en b)) as [[_ ->]|[_ ->]].
      * exists b. split; [exact Hb|lia].
      * exists x2. split; [exact X2|lia].
    + rewrite merge_sc. destruct (Z.max_spec (sc a) (sc b)) as [[_ ->]|[_ ->]].
      * exists b. split; [exact Hb|lia].
      * exists x3. split; [exact X3|lia].
    + rewrite merge_ev. destruct (Z.min_spec (ev a) (ev b)) as [[_ ->]|[_ ->]].
      * exists x4. split; [exact X4|lia].
      * exists b. split; [exact Hb|lia].
Qed.

(* ------------------------------------------------------------------ the merge spans its fragments *)
Definition coversP (h x : hit) : Prop := prof h = prof x /\ st h <= st x /\ en x <= en h.

Lemma covers_iff h x : covers h x = true <-> coversP h x.
Proof. unfold covers, coversP. lia. Qed.
Lemma coversP_refl x : coversP x x.
Proof. unfold coversP. lia. Qed.
Lemma coversP_trans a b c : coversP a b -> coversP b c -> coversP a c.
Proof. unfold coversP. lia. Qed.
Lemma merge_covers_l a b : coversP (merge a b) a.
Proof. unfold coversP. rewrite merge_prof, merge_st, merge_en. lia. Qed.
Lemma merge_covers_r a b : prof a = prof b -> coversP (merge a b) b.
Proof. unfold coversP. rewrite merge_prof, merge_st, merge_en. lia. Qed.

(* _merge_immediate_neigbours loses no residue: whatever the current hit covers, and every later
   hit, lies inside a hit of the result *)
Lemma mn_covers L : forall rest cur,
  (forall y, coversP cur y -> exists h, In h (mn L cur rest) /\ coversP h y) /\
  (forall x, In x rest -> exists h, In h (mn L cur rest) /\ coversP h x).
Proof.
  induction rest as [|d ds IH]; intros cur; cbn [mn].
  - split; [intros y Hy; exists cur; split; [left; reflexivity|exact Hy]|intros x []].
  - assert (Keep : (forall y, coversP cur y -> exists h, In h (cur :: mn L d ds) /\ coversP h y) /\
                   (forall x, In x (d :: ds) -> exists h, In h (cur :: mn L d ds) /\ coversP h x)).
    { destruct (IH d) as [I1 I2]. split.
      - intros y Hy. exists cur. split; [left; reflexivity|exact Hy].
      - intros x [<-|Hx].
        + destruct (I1 d (coversP_refl d)) as [h [Hh Hc]]. exists h. split; [right; exact Hh|exact Hc].
        + destruct (I2 x Hx) as [h [Hh Hc]]. exists h. split; [right; exact Hh|exact Hc]. }
    destruct (negb (prof d =? prof cur)) eqn:Ep; [exact Keep|].
    destruct (2 * (en d - st cur) <? 3 * L (prof d)) eqn:Es; [|exact Keep].
    destruct (IH (merge cur d)) as [I1 I2]. split.
    + intros y Hy. apply I1. apply coversP_trans with cur; [apply merge_covers_l|exact Hy].
    + intros x [<-|Hx]; [apply I1; apply merge_covers_r; lia|apply I2; exact Hx].
Qed.

(* the same for one category of _merge_domain_list *)
Lemma mcat_covers L p : forall rest merged, prof merged = p -> (forall x, In x rest -> prof x = p) ->
  (forall y, coversP merged y -> exists h, In h (mcat L p merged rest) /\ coversP h y) /\
  (forall x, In x rest -> exists h, In h (mcat L p merged rest) /\ coversP h x).
Proof.
  induction rest as [|o os IH]; intros merged Hp Hr; cbn [mcat].
  - split; [intros y Hy; exists merged; split; [left; reflexivity|exact Hy]|intros x []].
  - assert (Ho : prof o = p) by (apply Hr; left; reflexivity).
    assert (Hos : forall x, In x os -> prof x = p) by (intros x Hx; apply Hr; right; exact Hx).
    destruct (2 * (en o - st merged) <? 3 * L p) eqn:Es.
    + destruct (IH (merge merged o)) as [I1 I2]; [rewrite merge_prof; exact Hp|exact Hos|]. split.
      * intros y Hy. apply I1. apply coversP_trans with merged; [apply merge_covers_l|exact Hy].
      * intros x [<-|Hx]; [apply I1; apply merge_covers_r; congruence|apply I2; exact Hx].
    + destruct (IH o Ho Hos) as [I1 I2]. split.
      * intros y Hy. exists merged. split; [left; reflexivity|exact Hy].
      * intros x [<-|Hx].
        -- destruct (I1 o (coversP_refl o)) as [h [Hh Hc]]. exists h. split; [right; exact Hh|exact Hc].
        -- destruct (I2 x Hx) as [h [Hh Hc]]. exists h. split; [right; exact Hh|exact Hc].
Qed.

Lemma merge_domain_list_covers L l x : In x l -> exists h, In h (merge_domain_list L l) /\ coversP h x.
Proof.
  intros Hx. unfold merge_domain_list.
  assert (Hc : In x (category (prof x) l)) by (unfold category; apply filter_In; split; [exact Hx|lia]).
  destruct (category (prof x) l) as [|c0 cs] eqn:Ec; [destruct Hc|].
  assert (Hall : forall y, In y (c0 :: cs) -> prof y = prof x).
  { intros y Hy. rewrite <- Ec in Hy. unfold category in Hy. apply filter_In in Hy. lia. }
  destruct (mcat_covers L (prof x) cs c0) as [I1 I2];
    [apply Hall; left; reflexivity|intros y Hy; apply Hall; right; exact Hy|].
  assert (exists h, In h (mcat L (prof x) c0 cs) /\ coversP h x) as [h [Hh Hcov]].
  { destruct Hc as [<-|Hc]; [apply I1; apply coversP_refl|apply I2; exact Hc]. }
  exists h. split; [|exact Hcov]. rewrite sort_by_In. apply in_flat_map. exists (prof x). split.
  - unfold profiles_of. apply (dedupe_In Z.eqb Z.eqb_eq). apply in_map. exact Hx.
  - rewrite Ec. exact Hh.
Qed.

(* ------------------------------------------------------------------ remove_incomplete *)
Lemma remove_incomplete_spec L reg l :
  let out := remove_incomplete L reg l in
  (forall h, In h out -> In h l) /\
  (forall h, In h l -> is_complete L h = true -> In h out) /\
  (forall h, In h l -> ~ In h out -> is_complete L h = false) /\
  ((exists h, In h l /\ is_complete L h = true) -> forall h, In h out -> is_complete L h = true).
Proof.
  cbn zeta. split; [apply sub_In; apply remove_incomplete_sub|].
  unfold remove_incomplete.
  destruct (filter (is_complete L) l) as [|c cs] eqn:E.
  - assert (N : forall h, In h l -> is_complete L h = false).
    { intros h Hh. destruct (is_complete L h) eqn:Ec; [|reflexivity].
      assert (X : In h (filter (is_complete L) l)) by (apply filter_In; tauto). rewrite E in X. destruct X. }
    split; [|split].
    + intros h Hh Hc. rewrite (N h Hh) in Hc. discriminate.
    + intros h Hh _. apply N. exact Hh.
    + intros [h [Hh Hc]]. rewrite (N h Hh) in Hc. discriminate.
  - rewrite <- E. split; [|split].
    + intros h Hh Hc. apply filter_In. tauto.
    + intros h Hh Hn. destruct (is_complete L h) eqn:Ec; [|reflexivity]. exfalso. apply Hn. apply filter_In. tauto.
    + intros _ h Hh. apply filter_In in Hh. tauto.
Qed.

(* neighbour mode: a complete hit that survives the overlap pass lies inside a returned hit *)
Lemma refine_gene_coverage L reg l out : refine_gene true L reg l = Ok out -> gene_coverage L l out = true.
Proof.
  unfold refine_gene, gene_coverage.
  destruct (canonical l) as [|c t] eqn:E; cbn [remove_overlapping_l bind]; [discriminate|].
  destruct (ro L c t) as [|h' t'] eqn:Er; cbn [merge_neighbours_l bind]; [discriminate|].
  intros H. inversion H; subst out. clear H.
  apply forallb_forall. intros x Hx.
  destruct (is_complete L x) eqn:Ec; [cbn [negb orb]|reflexivity].
  apply existsb_exists.
  destruct (mn_covers L t' h') as [I1 I2].
  assert (exists h, In h (mn L h' t') /\ coversP h x) as [h [Hh Hc]].
  { destruct Hx as [<-|Hx]; [apply I1; apply coversP_refl|apply I2; exact Hx]. }
  exists h. split; [|apply covers_iff; exact Hc].
  pose proof (remove_incomplete_spec L reg (mn L h' t')) as R. cbn zeta in R. destruct R as [_ [K _]].
  apply K; [exact Hh|].
  unfold is_complete, hlen in *. destruct Hc as [Hp [H1 H2]]. rewrite Hp. lia.
Qed.

Lemma find_none_intro {A} (f : A -> bool) : forall l, (forall x, In x l -> f x = false) -> find f l = None.
Proof.
  induction l as [|y ys IH]; intros H; cbn [find]; [reflexivity|].
  rewrite (H y (or_introl eq_refl)). apply IH. intros x Hx. apply H. right. exact Hx.
Qed.

Definition nonempty_res (gr : Z * list hit) : bool := match snd gr with [] => false | _ => true end.

Lemma mapM_refine_out_of nb L reg l : forall gs per, NoDup gs ->
  mapM (fun g => do r <- refine_gene nb L reg (hits_of g l); Ok (g, r)) gs = Ok per ->
  (forall gr, In gr per -> In (fst gr) gs) /\
  forall g, In g gs -> exists r, refine_gene nb L reg (hits_of g l) = Ok r /\ out_of g (filter nonempty_res per) = r.
Proof.
  induction gs as [|g0 gs IH]; intros per Hnd H; cbn [mapM] in H.
  - inversion H; subst. split; [intros gr []|intros g []].
  - destruct (refine_gene nb L reg (hits_of g0 l)) as [r0|k] eqn:Er; cbn [bind] in H; [|discriminate].
    destruct (mapM _ gs) as [per'|k] eqn:Em; cbn [bind] in H; [|discriminate].
    inversion H; subst per. clear H. inversion Hnd as [|? ? Hn0 Hnd']; subst.
    destruct (IH per' Hnd' eq_refl) as [J1 J2]. split.
    + intros gr [<-|Hgr]; [left; reflexivity|right; apply J1; exact Hgr].
    + assert (Hskip : forall g, g <> g0 ->
                out_of g (filter nonempty_res ((g0, r0) :: per')) = out_of g (filter nonempty_res per')).
      { intros g Hg. cbn [filter]. destruct (nonempty_res (g0, r0)); [|reflexivity].
        unfold out_of. cbn [find fst]. destruct (g0 =? g) eqn:Eg; [lia|reflexivity]. }
      intros g [<-|Hg].
      * exists r0. split; [exact Er|]. cbn [filter]. destruct r0 as [|x xs].
        -- cbn. unfold out_of. rewrite find_none_intro; [reflexivity|].
           intros gr Hgr. apply filter_In in Hgr. destruct Hgr as [Hgr _].
           destruct (fst gr =? g0) eqn:Eg; [|reflexivity]. exfalso. apply Hn0.
           assert (fst gr = g0) by lia. subst g0. apply J1. exact Hgr.
        -- cbn. unfold out_of. cbn [find fst]. rewrite Z.eqb_refl. reflexivity.
      * destruct (J2 g Hg) as [r [R1 R2]]. exists r. split; [exact R1|].
        rewrite Hskip; [exact R2|]. intros ->. contradiction.
Qed.

Lemma genes_of_NoDup l : NoDup (genes_of l).
Proof.
  unfold genes_of. apply (Permutation_NoDup (Permutation_sym (sort_by_perm gene_lt _))).
  apply dedupe_NoDup. exact Z.eqb_eq.
Qed.

Lemma refine_all_coverage L reg l out : refine_all true L reg l = Ok out -> coverage_all L l out = true.
Proof.
  unfold refine_all, coverage_all. intros H.
  destruct (mapM _ (genes_of l)) as [per|k] eqn:Em; cbn [bind] in H; [|discriminate].
  inversion H; subst out. clear H.
  destruct (mapM_refine_out_of true L reg l (genes_of l) per (genes_of_NoDup l) Em) as [_ J].
  apply forallb_forall. intros g Hg. destruct (J g Hg) as [r [R1 R2]].
  change (fun gr : Z * list hit => match snd gr with [] => false | _ :: _ => true end) with nonempty_res.
  rewrite R2. exact (refine_gene_coverage L reg _ r R1).
Qed.

(* ------------------------------------------------------------------ the greedy pass *)
(* x descends from p: x = p, or p was replaced by a strictly better overlapping hit from which x descends *)
Inductive desc (L : Z -> Z) : hit -> hit -> Prop :=
| desc_refl p : desc L p p
| desc_step p r x : ovl L r p = true -> sc p < sc r -> desc L r x -> desc L p x.

Lemma desc_score L p x : desc L p x -> sc p <= sc x.
Proof. induction 1; lia. Qed.

Definition adjacent {A} (p x : A) (l : list A) : Prop := exists l1 l2, l = l1 ++ p :: x :: l2.

Lemma adjacent_cons {A} (a p x : A) l : adjacent p x (a :: l) ->
  (exists t, l = x :: t /\ a = p) \/ adjacent p x l.
Proof.
  intros [l1 [l2 H]]. destruct l1 as [|b l1]; cbn in H; inversion H; subst.
  - left. exists l2. split; reflexivity.
  - right. exists l1, l2. reflexivity.
Qed.

Lemma ro_adjacent L : forall rest prev,
  (exists x tl, ro L prev rest = x :: tl /\ desc L prev x) /\
  (forall p x, adjacent p x (ro L prev rest) ->
     exists b, In b rest /\ ovl L b p = false /\ desc L b x).
Proof.
  induction rest as [|r rs IH]; intros prev; cbn [ro].
  - split.
    + exists prev, []. split; [reflexivity|constructor].
    + intros p x [l1 [l2 H]]. destruct l1 as [|? [|? ?]]; cbn in H; discriminate.
  - destruct (ovl L r prev) eqn:Eo.
    + destruct (sc prev <? sc r) eqn:Es.
      * destruct (IH r) as [[x [tl [E D]]] A]. split.
        -- exists x, tl. split; [exact E|]. apply desc_step with r; [exact Eo|lia|exact D].
        -- intros p y Hadj. destruct (A p y Hadj) as [b [Hb Hrest]]. exists b. split; [right; exact Hb|exact Hrest].
      * destruct (IH prev) as [[x [tl [E D]]] A]. split.
        -- exists x, tl. split; [exact E|exact D].
        -- intros p y Hadj. destruct (A p y Hadj) as [b [Hb Hrest]]. exists b. split; [right; exact Hb|exact Hrest].
    + destruct (IH r) as [[x [tl [E D]]] A]. split.
      * exists prev, (ro L r rs). split; [reflexivity|constructor].
      * intros p y Hadj. apply adjacent_cons in Hadj. destruct Hadj as [[t [Et Ep]]|Hadj].
        -- subst p. rewrite E in Et. inversion Et; subst. exists r. split; [left; reflexivity|]. split; [exact Eo|exact D].
        -- destruct (A p y Hadj) as [b [Hb Hrest]]. exists b. split; [right; exact Hb|exact Hrest].
Qed.

Lemma ro_dropped L : forall rest prev h, In h (prev :: rest) -> ~ In h (ro L prev rest) ->
  exists q, In q (prev :: rest) /\
    ((ovl L h q = true /\ sc h <= sc q) \/ (ovl L q h = true /\ sc h < sc q)).
Proof.
  induction rest as [|r rs IH]; intros prev h Hin Hout; cbn [ro] in Hout.
  - exfalso. apply Hout. destruct Hin as [<-|[]]. left. reflexivity.
  - destruct (ovl L r prev) eqn:Eo.
    + destruct (sc prev <? sc r) eqn:Es.
      * destruct Hin as [<-|Hin].
        -- exists r. split; [right; left; reflexivity|]. right. split; [exact Eo|lia].
        -- destruct (IH r h Hin Hout) as [q [Hq Hd]]. exists q. split; [right; exact Hq|exact Hd].
      * destruct Hin as [<-|[<-|Hin]].
        -- destruct (IH prev prev (or_introl eq_refl) Hout) as [q [Hq Hd]]. exists q. split; [|exact Hd].
           destruct Hq as [Hq|Hq]; [left; exact Hq|right; right; exact Hq].
        -- exists prev. split; [left; reflexivity|]. left. split; [exact Eo|lia].
        -- destruct (IH prev h (or_intror Hin) Hout) as [q [Hq Hd]]. exists q. split; [|exact Hd].
           destruct Hq as [Hq|Hq]; [left; exact Hq|right; right; exact Hq].
    + destruct Hin as [<-|Hin]; [exfalso; apply Hout; left; reflexivity|].
      assert (Hout' : ~ In h (ro L r rs)) by (intros X; apply Hout; right; exact X).
      destruct (IH r h Hin Hout') as [q [Hq Hd]]. exists q. split; [right; exact Hq|exact Hd].
Qed.

(* ------------------------------------------------------------------ hmmer.remove_overlapping *)
Lemma conflict_sym limit a b : conflict limit a b = conflict limit b a.
Proof. unfold conflict. lia. Qed.

Definition noconf (limit : Z) (l : list hhit) : Prop :=
  forall a b, In a l -> In b l -> a <> b -> conflict limit a b = false.

Lemma best_fold_noconf limit : forall l acc, noconf limit acc ->
  noconf limit (fold_left (best_step limit) l acc) /\
  (forall x, In x (fold_left (best_step limit) l acc) -> In x acc \/ In x l) /\
  (forall x, In x acc -> In x (fold_left (best_step limit) l acc)).
Proof.
  induction l as [|h hs IH]; intros acc Hn; cbn [fold_left].
  - split; [exact Hn|]. split; [intros x Hx; left; exact Hx|intros x Hx; exact Hx].
  - assert (Hn' : noconf limit (best_step limit acc h)).
    { unfold best_step. destruct (existsb (conflict limit h) acc) eqn:E; [exact Hn|].
      intros a b Ha Hb Hab. apply in_app_or in Ha. apply in_app_or in Hb.
      assert (F : forall o, In o acc -> conflict limit h o = false).
      { intros o Ho. destruct (conflict limit h o) eqn:Ec; [|reflexivity].
        assert (X : existsb (conflict limit h) acc = true) by (apply existsb_exists; exists o; tauto).
        rewrite X in E. discriminate. }
      destruct Ha as [Ha|[<-|[]]]; destruct Hb as [Hb|[<-|[]]].
      - apply Hn; assumption.
      - rewrite conflict_sym. apply F. exact Ha.
      - apply F. exact Hb.
      - contradiction. }
    destruct (IH _ Hn') as [I1 [I2 I3]]. split; [exact I1|]. split.
    + intros x Hx. destruct (I2 x Hx) as [Hx'|Hx']; [|right; right; exact Hx'].
      unfold best_step in Hx'. destruct (existsb (conflict limit h) acc); [left; exact Hx'|].
      apply in_app_or in Hx'. destruct Hx' as [Hx'|[<-|[]]]; [left; exact Hx'|right; left; reflexivity].
    + intros x Hx. apply I3. unfold best_step. destruct (existsb (conflict limit h) acc); [exact Hx|].
      apply in_or_app. left. exact Hx.
Qed.

Lemma best_of_group_noconf limit cut g : noconf limit (best_of_group limit cut g).
Proof. unfold best_of_group. apply best_fold_noconf. intros a b []. Qed.

Lemma best_of_group_In limit cut g x : In x (best_of_group limit cut g) -> In x g.
Proof.
  unfold best_of_group. intros Hx.
  destruct (best_fold_noconf limit (sort_by (rank_lt cut) g) [] (fun a b (H : In a []) => match H with end)) as [_ [I2 _]].
  destruct (I2 x Hx) as [[]|H]. apply sort_by_In in H. exact H.
Qed.

(* the best-ranked hit of a group is kept *)
Lemma best_of_group_head limit cut g b rest :
  sort_by (rank_lt cut) g = b :: rest -> In b (best_of_group limit cut g).
Proof.
  unfold best_of_group. intros E. rewrite E. cbn [fold_left].
  assert (N : noconf limit (best_step limit [] b)) by (unfold best_step; cbn; intros x y [<-|[]] [<-|[]] H; contradiction).
  destruct (best_fold_noconf limit rest _ N) as [_ [_ I3]]. apply I3. unfold best_step. cbn. left. reflexivity.
Qed.

(* groups: every hit of a later group starts after (end - limit) of every hit of an earlier group *)
Definition before (limit : Z) (G G' : list hhit) : Prop :=
  forall o c, In o G -> In c G' -> h_en o - limit < h_st c.

Lemma FOP_snoc {A} (R : A -> A -> Prop) : forall l y, ForallOrdPairs R l -> (forall x, In x l -> R x y) ->
  ForallOrdPairs R (l ++ [y]).
Proof.
  induction l as [|a t IH]; intros y H Hy; cbn [app].
  - constructor; [constructor|constructor].
  - inversion H as [|? ? Ha Ht]; subst. constructor.
    + apply Forall_app. split; [exact Ha|]. constructor; [apply Hy; left; reflexivity|constructor].
    + apply IH; [exact Ht|]. intros x Hx. apply Hy. right. exact Hx.
Qed.

Lemma set_add_In x s z : In z (set_add x s) -> z = x \/ In z s.
Proof.
  unfold set_add. destruct (mem hh_eqb x s); [right; assumption|].
  intros H. apply in_app_or in H. destruct H as [H|[<-|[]]]; [right; exact H|left; reflexivity].
Qed.

Lemma group_fold_inv limit : forall rest groups current maxc,
  StronglySorted Z.le (map h_st rest) ->
  (forall o, In o current -> h_en o <= maxc) ->
  (forall G, In G groups -> forall o c, In o G -> (In c current \/ In c rest) -> h_en o - limit < h_st c) ->
  ForallOrdPairs (before limit) groups ->
  forall groups' current' maxc',
  fold_left (group_step limit) rest (groups, current, maxc) = (groups', current', maxc') ->
  ForallOrdPairs (before limit) (groups' ++ [current']) /\
  (forall G, In G (groups' ++ [current']) -> forall x, In x G ->
     In x current \/ In x rest \/ exists G0, In G0 groups /\ In x G0).
Proof.
  induction rest as [|h hs IH]; intros groups current maxc Hs Ha Hb Hd groups' current' maxc' E; cbn [fold_left] in E.
  - inversion E; subst. split.
    + apply FOP_snoc; [exact Hd|]. intros G HG o c Ho Hc. apply (Hb G HG o c Ho). left. exact Hc.
    + intros G HG x Hx. apply in_app_or in HG. destruct HG as [HG|[<-|[]]].
      * right. right. exists G. tauto.
      * left. exact Hx.
  - cbn [map] in Hs. inversion Hs as [|? ? Hs' Hall]; subst. rewrite Forall_forall in Hall.
    assert (Hge : forall c, In c hs -> h_st h <= h_st c).
    { intros c Hc. apply Hall. apply in_map. exact Hc. }
    unfold group_step at 2 in E. destruct (maxc - limit <? h_st h) eqn:Et.
    + specialize (IH (groups ++ [current]) [h] (h_en h) Hs').
      destruct (IH) with (groups' := groups') (current' := current') (maxc' := maxc') as [I1 I2].
      * intros o [<-|[]]. lia.
      * intros G HG o c Ho Hc. apply in_app_or in HG. destruct HG as [HG|[<-|[]]].
        -- apply (Hb G HG o c Ho). right. destruct Hc as [[<-|[]]|Hc]; [left; reflexivity|right; exact Hc].
        -- specialize (Ha o Ho). destruct Hc as [[<-|[]]|Hc]; [lia|]. specialize (Hge c Hc). lia.
      * apply FOP_snoc; [exact Hd|]. intros G HG o c Ho Hc. apply (Hb G HG o c Ho). left. exact Hc.
      * exact E.
      * split; [exact I1|]. intros G HG x Hx. destruct (I2 G HG x Hx) as [[<-|[]]|[Hr|[G0 [HG0 Hx0]]]].
        -- right. left. left. reflexivity.
        -- right. left. right. exact Hr.
        -- apply in_app_or in HG0. destruct HG0 as [HG0|[<-|[]]].
           ++ right. right. exists G0. tauto.
           ++ left. exact Hx0.
    + specialize (IH groups (set_add h current) (Z.max maxc (h_en h)) Hs').
      destruct (IH) with (groups' := groups') (current' := current') (maxc' := maxc') as [I1 I2].
      * intros o Ho. apply set_add_In in Ho. destruct Ho as [->|Ho]; [lia|]. specialize (Ha o Ho). lia.
      * intros G HG o c Ho Hc. apply (Hb G HG o c Ho). destruct Hc as [Hc|Hc]; [|right; right; exact Hc].
        apply set_add_In in Hc. destruct Hc as [->|Hc]; [right; left; reflexivity|left; exact Hc].
      * exact Hd.
      * exact E.
      * split; [exact I1|]. intros G HG x Hx. destruct (I2 G HG x Hx) as [Hc|[Hr|Hg]].
        -- apply set_add_In in Hc. destruct Hc as [->|Hc]; [right; left; left; reflexivity|left; exact Hc].
        -- right. left. right. exact Hr.
        -- right. right. exact Hg.
Qed.

Lemma hh_groups_spec limit sorted : StronglySorted Z.le (map h_st sorted) ->
  ForallOrdPairs (before limit) (hh_groups limit sorted) /\
  (forall G x, In G (hh_groups limit sorted) -> In x G -> In x sorted).
Proof.
  intros Hs. unfold hh_groups. destruct sorted as [|h0 t]; [split; [constructor|intros G x []]|].
  cbn [map] in Hs. inversion Hs as [|? ? Hs' _]; subst.
  destruct (fold_left (group_step limit) t ([], [h0], h_en h0)) as [[groups current] maxc] eqn:Ef.
  destruct (group_fold_inv limit t [] [h0] (h_en h0) Hs') with (groups' := groups) (current' := current) (maxc' := maxc)
    as [I1 I2].
  - intros o [<-|[]]. lia.
  - intros G [].
  - constructor.
  - exact Ef.
  - split; [exact I1|]. intros G x HG Hx. destruct (I2 G HG x Hx) as [[<-|[]]|[Hr|[G0 [[] _]]]].
    + left. reflexivity.
    + right. exact Hr.
Qed.

Lemma hh_sort_lt_le cut a b : hh_sort_lt cut a b = true -> h_st a <= h_st b.
Proof. unfold hh_sort_lt. destruct (rank_lt cut a b); lia. Qed.
Lemma hh_sort_lt_ge cut a b : hh_sort_lt cut a b = false -> h_st b <= h_st a.
Proof. unfold hh_sort_lt. destruct (rank_lt cut a b); lia. Qed.

Lemma hh_sorted_by_start cut l : StronglySorted Z.le (map h_st (sort_by (hh_sort_lt cut) l)).
Proof. apply sort_by_key_sorted_gen; [apply hh_sort_lt_le|apply hh_sort_lt_ge]. Qed.

Lemma hmmer_no_overlap limit cutoffs hits out :
  hmmer_remove_overlapping limit cutoffs hits = Ok out -> noconf limit out /\ (forall x, In x out -> In x hits).
Proof.
  unfold hmmer_remove_overlapping. destruct hits as [|h0 t] eqn:Eh; [discriminate|]. rewrite <- Eh.
  destruct (forallb _ hits); [|discriminate]. intros H. inversion H; subst out. clear H.
  set (cut := cut_of cutoffs).
  set (sorted := sort_by (hh_sort_lt cut) hits).
  assert (Hs : StronglySorted Z.le (map h_st sorted)) by (apply hh_sorted_by_start).
  destruct (hh_groups_spec limit sorted Hs) as [G1 G2].
  split.
  - intros a b Ha Hb Hab. rewrite sort_by_In in Ha, Hb. rewrite in_flat_map in Ha, Hb.
    destruct Ha as [Ga [HGa Ha]]. destruct Hb as [Gb [HGb Hb]].
    destruct (ForallOrdPairs_In G1 _ _ HGa HGb) as [Eq|[Hlt|Hgt]].
    + subst Gb. apply (best_of_group_noconf limit cut Ga); assumption.
    + apply best_of_group_In in Ha, Hb. specialize (Hlt a b Ha Hb). rewrite conflict_sym. unfold conflict. lia.
    + apply best_of_group_In in Ha, Hb. specialize (Hgt b a Hb Ha). unfold conflict. lia.
  - intros x Hx. rewrite sort_by_In in Hx. rewrite in_flat_map in Hx. destruct Hx as [G [HG Hx]].
    apply best_of_group_In in Hx. apply (G2 G x HG) in Hx. unfold sorted in Hx. rewrite sort_by_In in Hx. exact Hx.
Qed.

Lemma hmmer_best_kept limit cutoffs hits out :
  hmmer_remove_overlapping limit cutoffs hits = Ok out ->
  let cut := cut_of cutoffs in
  forall G b rest, In G (hh_groups limit (sort_by (hh_sort_lt cut) hits)) ->
    sort_by (rank_lt cut) G = b :: rest -> In b out.
Proof.
  unfold hmmer_remove_overlapping. destruct hits as [|h0 t] eqn:Eh; [discriminate|]. rewrite <- Eh.
  destruct (forallb _ hits); [|discriminate]. intros H. inversion H; subst out. clear H.
  cbn zeta. intros G b rest HG Hb. rewrite sort_by_In. rewrite in_flat_map. exists G. split; [exact HG|].
  apply (best_of_group_head _ _ _ _ rest). exact Hb.
Qed.

(* multiplicity: no hit is returned more often than the input list holds it *)
Lemma hh_eqb_eq a b : hh_eqb a b = true <-> a = b.
Proof.
  unfold hh_eqb. split.
  - intros H. destruct a, b. cbn in H. f_equal; lia.
  - intros ->. destruct b. cbn. lia.
Qed.
Lemma hcount_app x l m : hcount x (l ++ m) = hcount x l + hcount x m.
Proof. induction l as [|y ys IH]; cbn [app hcount]; lia. Qed.
Lemma hcount_nonneg x l : 0 <= hcount x l.
Proof. induction l as [|y ys IH]; cbn [hcount]; [lia|]. destruct (hh_eqb x y); lia. Qed.
Lemma hcount_perm x l m : Permutation l m -> hcount x l = hcount x m.
Proof. induction 1; cbn [hcount]; lia. Qed.
Lemma sub_hcount x l m : sub l m -> hcount x l <= hcount x m.
Proof.
  induction 1 as [|y l1 l2 H IH|y l1 l2 H IH]; cbn [hcount]; [lia| |lia].
  destruct (hh_eqb x y); lia.
Qed.

Lemma concat_snoc {A} (gs : list (list A)) g : concat (gs ++ [g]) = concat gs ++ g.
Proof. rewrite concat_app. cbn [concat]. rewrite app_nil_r. reflexivity. Qed.

(* the groups, read in order, are the sorted list with repeated set members left out *)
Lemma group_fold_sub limit : forall rest groups current maxc groups' current' maxc',
  fold_left (group_step limit) rest (groups, current, maxc) = (groups', current', maxc') ->
  sub (concat (groups' ++ [current'])) (concat (groups ++ [current]) ++ rest).
Proof.
  induction rest as [|h hs IH]; intros groups current maxc groups' current' maxc' E; cbn [fold_left] in E.
  - inversion E; subst. rewrite app_nil_r. apply sub_refl.
  - unfold group_step at 2 in E. destruct (maxc - limit <? h_st h).
    + apply IH in E.
      replace (concat ((groups ++ [current]) ++ [[h]]) ++ hs) with (concat (groups ++ [current]) ++ h :: hs) in E;
        [exact E|].
      rewrite (concat_snoc (groups ++ [current]) [h]). rewrite <- app_assoc. reflexivity.
    + apply IH in E. unfold set_add in E. destruct (mem hh_eqb h current).
      * apply sub_app_skip. exact E.
      * replace (concat (groups ++ [current ++ [h]]) ++ hs) with (concat (groups ++ [current]) ++ h :: hs) in E;
          [exact E|].
        rewrite !concat_snoc. rewrite <- !app_assoc. reflexivity.
Qed.

Lemma hh_groups_sub limit sorted : sub (concat (hh_groups limit sorted)) sorted.
Proof.
  unfold hh_groups. destruct sorted as [|h0 t]; [constructor|].
  destruct (fold_left (group_step limit) t ([], [h0], h_en h0)) as [[groups current] maxc] eqn:Ef.
  apply group_fold_sub in Ef. exact Ef.
Qed.

Lemma best_fold_sub limit : forall l acc, exists m, fold_left (best_step limit) l acc = acc ++ m /\ sub m l.
Proof.
  induction l as [|h hs IH]; intros acc; cbn [fold_left].
  - exists []. split; [rewrite app_nil_r; reflexivity|constructor].
  - unfold best_step at 2. destruct (existsb (conflict limit h) acc).
    + destruct (IH acc) as [m [E S]]. exists m. split; [exact E|apply sub_skip; exact S].
    + destruct (IH (acc ++ [h])) as [m [E S]]. exists (h :: m). split; [rewrite E, <- app_assoc; reflexivity|apply sub_keep; exact S].
Qed.

Lemma best_of_group_hcount limit cut x g : hcount x (best_of_group limit cut g) <= hcount x g.
Proof.
  unfold best_of_group. destruct (best_fold_sub limit (sort_by (rank_lt cut) g) []) as [m [E S]].
  rewrite E. cbn [app]. rewrite <- (hcount_perm x _ _ (sort_by_perm (rank_lt cut) g)). apply sub_hcount. exact S.
Qed.

Lemma hcount_flat_map x (f : list hhit -> list hhit) : (forall g, hcount x (f g) <= hcount x g) ->
  forall gs, hcount x (flat_map f gs) <= hcount x (concat gs).
Proof.
  intros Hf. induction gs as [|g gs IH]; cbn [flat_map concat]; [lia|].
  rewrite !hcount_app. specialize (Hf g). lia.
Qed.

Lemma hmmer_multiplicity limit cutoffs hits out :
  hmmer_remove_overlapping limit cutoffs hits = Ok out -> forall x, hcount x out <= hcount x hits.
Proof.
  unfold hmmer_remove_overlapping. destruct hits as [|h0 t] eqn:Eh; [discriminate|]. rewrite <- Eh.
  destruct (forallb _ hits); [|discriminate]. intros H. inversion H; subst out. clear H. intros x.
  set (cut := cut_of cutoffs).
  rewrite (hcount_perm x _ _ (sort_by_perm (hh_sort_lt cut) _)).
  apply Z.le_trans with (hcount x (concat (hh_groups limit (sort_by (hh_sort_lt cut) hits)))).
  - apply hcount_flat_map. intros g. apply best_of_group_hcount.
  - rewrite <- (hcount_perm x _ _ (sort_by_perm (hh_sort_lt cut) hits)). apply sub_hcount. apply hh_groups_sub.
Qed.

Lemma hmmer_nomult limit cutoffs hits out :
  hmmer_remove_overlapping limit cutoffs hits = Ok out -> hh_nomult hits out = true.
Proof.
  intros H. unfold hh_nomult. apply forallb_forall. intros x _.
  pose proof (hmmer_multiplicity limit cutoffs hits out H x). lia.
Qed.

(* order independence: on hits with positive scores and cutoffs the sort key
   (protein_start, ranking_stats) is a strict total order *)
Definition hh_pos (cut : Z -> Z) (h : hhit) : Prop := 0 < h_sc h /\ 0 < cut (h_id h).

Lemma hh_sort_lt_irrefl cut a : hh_sort_lt cut a a = false.
Proof. unfold hh_sort_lt, rank_lt. lia. Qed.

Lemma ratio_lt_le ca cb cc sa sb sc : 0 < sa -> 0 < sb -> 0 < sc ->
  ca * sb < cb * sa -> cb * sc <= cc * sb -> ca * sc < cc * sa.
Proof.
  intros Ha Hb Hc H1 H2.
  assert (X1 : ca * sb * sc < cb * sa * sc) by (apply Z.mul_lt_mono_pos_r; assumption).
  assert (X2 : cb * sc * sa <= cc * sb * sa) by (apply Z.mul_le_mono_nonneg_r; lia).
  apply (Z.mul_lt_mono_pos_r sb); [exact Hb|].
  replace (ca * sc * sb) with (ca * sb * sc) by ring.
  replace (cc * sa * sb) with (cc * sb * sa) by ring.
  replace (cb * sa * sc) with (cb * sc * sa) in X1 by ring. lia.
Qed.
Lemma ratio_le_lt ca cb cc sa sb sc : 0 < sa -> 0 < sb -> 0 < sc ->
  ca * sb <= cb * sa -> cb * sc < cc * sb -> ca * sc < cc * sa.
Proof.
  intros Ha Hb Hc H1 H2.
  assert (X1 : ca * sb * sc <= cb * sa * sc) by (apply Z.mul_le_mono_nonneg_r; lia).
  assert (X2 : cb * sc * sa < cc * sb * sa) by (apply Z.mul_lt_mono_pos_r; assumption).
  apply (Z.mul_lt_mono_pos_r sb); [exact Hb|].
  replace (ca * sc * sb) with (ca * sb * sc) by ring.
  replace (cc * sa * sb) with (cc * sb * sa) by ring.
  replace (cb * sa * sc) with (cb * sc * sa) in X1 by ring. lia.
Qed.
Lemma ratio_eq_eq ca cb cc sa sb sc : 0 < sb ->
  ca * sb = cb * sa -> cb * sc = cc * sb -> ca * sc = cc * sa.
Proof.
  intros Hb H1 H2. apply (Z.mul_reg_r _ _ sb); [lia|].
  replace (ca * sc * sb) with (ca * sb * sc) by ring. rewrite H1.
  replace (cb * sa * sc) with (cb * sc * sa) by ring. rewrite H2. ring.
Qed.

Lemma hh_sort_lt_trans cut a b c : hh_pos cut a -> hh_pos cut b -> hh_pos cut c ->
  hh_sort_lt cut a b = true -> hh_sort_lt cut b c = true -> hh_sort_lt cut a c = true.
Proof.
  unfold hh_pos, hh_sort_lt, rank_lt. intros [Sa _] [Sb _] [Sc _].
  pose proof (ratio_lt_le (cut (h_id a)) (cut (h_id b)) (cut (h_id c)) (h_sc a) (h_sc b) (h_sc c) Sa Sb Sc) as T1.
  pose proof (ratio_le_lt (cut (h_id a)) (cut (h_id b)) (cut (h_id c)) (h_sc a) (h_sc b) (h_sc c) Sa Sb Sc) as T2.
  pose proof (ratio_eq_eq (cut (h_id a)) (cut (h_id b)) (cut (h_id c)) (h_sc a) (h_sc b) (h_sc c) Sb) as T3.
  unfold hh_len. lia.
Qed.

Lemma hh_sort_lt_total cut a b : hh_pos cut a -> hh_pos cut b ->
  hh_sort_lt cut a b = false -> hh_sort_lt cut b a = false -> a = b.
Proof.
  unfold hh_pos, hh_sort_lt, rank_lt, hh_len. intros [_ Ca] [_ Cb] H1 H2.
  assert (Ei : h_id a = h_id b) by lia.
  assert (Es : h_st a = h_st b) by lia.
  assert (Ee : h_en a = h_en b) by lia.
  assert (En : cut (h_id a) * h_sc b = cut (h_id b) * h_sc a) by lia.
  rewrite <- Ei in En. apply Z.mul_reg_l in En; [|lia].
  destruct a, b. cbn in *. f_equal; lia.
Qed.

Lemma hmmer_perm limit cutoffs l l' :
  (forall h, In h l -> hh_pos (cut_of cutoffs) h) -> Permutation l l' ->
  hmmer_remove_overlapping limit cutoffs l = hmmer_remove_overlapping limit cutoffs l'.
Proof.
  intros Hpos Hp. unfold hmmer_remove_overlapping.
  assert (Es : sort_by (hh_sort_lt (cut_of cutoffs)) l = sort_by (hh_sort_lt (cut_of cutoffs)) l').
  { apply (sort_by_perm_eq _ (hh_pos (cut_of cutoffs)) (hh_sort_lt_irrefl _) (hh_sort_lt_trans _) (hh_sort_lt_total _));
      [apply Forall_forall; exact Hpos|exact Hp]. }
  assert (Ef : forall f, forallb f l = forallb f l').
  { intros f. apply eq_true_iff_eq. rewrite !forallb_forall. split; intros G x Hx; apply G.
    - apply (Permutation_in _ (Permutation_sym Hp)). exact Hx.
    - apply (Permutation_in _ Hp). exact Hx. }
  destruct l as [|a t]; destruct l' as [|a' t'].
  - reflexivity.
  - apply Permutation_nil in Hp. discriminate.
  - apply Permutation_sym in Hp. apply Permutation_nil in Hp. discriminate.
  - rewrite Ef. cbn zeta. rewrite Es. reflexivity.
Qed.

(* ------------------------------------------------------------------ docking domains *)
Lemma docking_keep_iff len h : docking_keep len h = true <->
  (d_dock h = 0 \/ len - Z.max (d_s h) (d_e h) < 50 \/ Z.min (d_s h) (d_e h) < 50).
Proof. unfold docking_keep. lia. Qed.

Lemma filter_docking_spec cds len hs : In (len, hs) (filter_docking cds) ->
  hs <> [] /\ exists hs0, In (len, hs0) cds /\
    forall h, In h hs <-> (In h hs0 /\ (d_dock h = 0 \/ len - Z.max (d_s h) (d_e h) < 50 \/ Z.min (d_s h) (d_e h) < 50)).
Proof.
  unfold filter_docking. intros H. apply filter_In in H. destruct H as [H Hne].
  apply in_map_iff in H. destruct H as [[len0 hs0] [E Hc]]. cbn [fst snd] in E. inversion E; subst.
  split; [cbn [snd] in Hne; destruct (filter (docking_keep len) hs0); [discriminate|discriminate]|].
  exists hs0. split; [exact Hc|]. intros h. rewrite filter_In. rewrite docking_keep_iff. tauto.
Qed.

(* ------------------------------------------------------------------ filter_result_multiple *)
Definition qkeys (qs : list (Z * (Z * mhit))) : list Z := map fst qs.

Lemma qs_get_In p : forall qs v, qs_get p qs = Some v -> In (p, v) qs.
Proof.
  induction qs as [|[q w] r IH]; intros v H; cbn [qs_get] in H; [discriminate|].
  destruct (q =? p) eqn:E.
  - inversion H; subst. left. f_equal. lia.
  - right. apply IH. exact H.
Qed.

Lemma qs_get_None p : forall qs, qs_get p qs = None -> ~ In p (qkeys qs).
Proof.
  induction qs as [|[q w] r IH]; intros H; cbn [qs_get] in H; [intros []|].
  destruct (q =? p) eqn:E; [discriminate|].
  intros [X|X]; [cbn in X; lia|]. apply (IH H). exact X.
Qed.

Lemma In_qs_get p v : forall qs, NoDup (qkeys qs) -> In (p, v) qs -> qs_get p qs = Some v.
Proof.
  induction qs as [|[q w] r IH]; intros Hn Hin; [destruct Hin|].
  cbn [qkeys map fst] in Hn. inversion Hn as [|? ? Hq Hn']; subst. cbn [qs_get].
  destruct Hin as [Hin|Hin].
  - inversion Hin; subst. rewrite Z.eqb_refl. reflexivity.
  - destruct (q =? p) eqn:E.
    + exfalso. apply Hq. assert (q = p) by lia. subst. apply in_map_iff. exists (p, v). split; [reflexivity|exact Hin].
    + apply IH; assumption.
Qed.

Lemma qs_set_spec p v : forall qs, NoDup (qkeys qs) ->
  NoDup (qkeys (qs_set p v qs)) /\
  (forall q w, In (q, w) (qs_set p v qs) <-> ((q = p /\ w = v) \/ (q <> p /\ In (q, w) qs))).
Proof.
  induction qs as [|[q0 w0] r IH]; intros Hn; cbn [qs_set].
  - split; [cbn; constructor; [intros []|constructor]|].
    intros q w. cbn. split.
    + intros [H|[]]. inversion H; subst. left. tauto.
    + intros [[-> ->]|[_ []]]. left. reflexivity.
  - cbn [qkeys map fst] in Hn. inversion Hn as [|? ? Hq Hn']; subst.
    destruct (q0 =? p) eqn:E.
    + assert (q0 = p) by lia. subst q0. split; [cbn [qkeys map fst]; constructor; assumption|].
      intros q w. cbn [In]. split.
      * intros [H|H].
        -- inversion H; subst. left. tauto.
        -- right. split; [|right; exact H]. intros ->. apply Hq. apply in_map_iff. exists (p, w). tauto.
      * intros [[-> ->]|[Hne [H|H]]].
        -- left. reflexivity.
        -- inversion H; subst. contradiction.
        -- right. exact H.
    + destruct (IH Hn') as [I1 I2]. split.
      * cbn [qkeys map fst]. constructor; [|exact I1].
        intros X. apply in_map_iff in X. destruct X as [[q w] [Eq X]]. cbn in Eq. subst q.
        apply I2 in X. destruct X as [[-> _]|[_ X]]; [lia|]. apply Hq. apply in_map_iff. exists (q0, w). tauto.
      * intros q w. cbn [In]. rewrite I2. split.
        -- intros [H|[H|H]]; [inversion H; subst; right; split; [lia|left; reflexivity]|left; exact H|right; tauto].
        -- intros [H|[Hne [H|H]]]; [right; left; exact H|left; exact H|right; right; tauto].
Qed.

Definition frm_inv (qs : list (Z * (Z * mhit))) (pre : list mhit) : Prop :=
  NoDup (qkeys qs) /\
  (forall p i h, In (p, (i, h)) qs ->
     In h pre /\ m_prof h = p /\ -2 < m_sc h /\ forall h', In h' pre -> m_prof h' = p -> m_sc h' <= m_sc h) /\
  (forall h', In h' pre -> -2 < m_sc h' -> In (m_prof h') (qkeys qs)).

Lemma frm_fold_inv : forall rest qs i pre, frm_inv qs pre ->
  frm_inv (fst (fold_left frm_step rest (qs, i))) (pre ++ rest).
Proof.
  induction rest as [|h hs IH]; intros qs i pre Hinv; cbn [fold_left].
  - rewrite app_nil_r. exact Hinv.
  - replace (pre ++ h :: hs) with ((pre ++ [h]) ++ hs) by (rewrite <- app_assoc; reflexivity).
    unfold frm_step at 2.
    destruct Hinv as [Hn [H1 H2]].
    set (old := match qs_get (m_prof h) qs with Some (_, b) => m_sc b | None => -2 end).
    destruct (old <? m_sc h) eqn:E.
    + apply IH. destruct (qs_set_spec (m_prof h) (i, h) qs Hn) as [S1 S2].
      split; [exact S1|]. split.
      * intros p j x Hx. apply S2 in Hx. destruct Hx as [[Hp Ev]|[Hne Hx]].
        -- assert (Ej : j = i) by congruence. assert (Exh : x = h) by congruence. subst j x p. clear Ev.
           split; [apply in_or_app; right; left; reflexivity|]. split; [reflexivity|].
           assert (Hold : -2 <= old /\ forall h', In h' pre -> m_prof h' = m_prof h -> m_sc h' <= old).
           { unfold old. destruct (qs_get (m_prof h) qs) as [[j b]|] eqn:Eg.
             - apply qs_get_In in Eg. destruct (H1 _ _ _ Eg) as [_ [_ [Hb Hmax]]]. split; [lia|].
               intros h' Hh' Hp. specialize (Hmax h' Hh' Hp). lia.
             - split; [lia|]. intros h' Hh' Hp. destruct (Z_lt_le_dec (-2) (m_sc h')) as [Hlt|Hle]; [|lia].
               exfalso. apply (qs_get_None _ _ Eg). rewrite <- Hp. apply H2; assumption. }
           destruct Hold as [Ho1 Ho2]. split; [lia|].
           intros h' Hh' Hp. apply in_app_or in Hh'. destruct Hh' as [Hh'|[<-|[]]]; [|lia].
           specialize (Ho2 h' Hh' Hp). lia.
        -- destruct (H1 _ _ _ Hx) as [A [B [C D]]]. split; [apply in_or_app; left; exact A|]. split; [exact B|]. split; [exact C|].
           intros h' Hh' Hp. apply in_app_or in Hh'. destruct Hh' as [Hh'|[<-|[]]]; [apply D; assumption|congruence].
      * intros h' Hh' Hs. apply in_app_or in Hh'.
        destruct (Z.eq_dec (m_prof h') (m_prof h)) as [Ep|Ep].
        -- rewrite Ep. apply in_map_iff. exists (m_prof h, (i, h)). split; [reflexivity|]. apply S2. left. tauto.
        -- destruct Hh' as [Hh'|[<-|[]]]; [|contradiction].
           specialize (H2 h' Hh' Hs). apply in_map_iff in H2. destruct H2 as [[q w] [Eq Hq]]. cbn in Eq. subst q.
           apply in_map_iff. exists (m_prof h', w). split; [reflexivity|]. apply S2. right. tauto.
    + apply IH. split; [exact Hn|]. split.
      * intros p j x Hx. destruct (H1 _ _ _ Hx) as [A [B [C D]]]. split; [apply in_or_app; left; exact A|]. split; [exact B|]. split; [exact C|].
        intros h' Hh' Hp. apply in_app_or in Hh'. destruct Hh' as [Hh'|[<-|[]]]; [apply D; assumption|].
        assert (Hx' : In (m_prof h, (j, x)) qs) by (rewrite Hp; exact Hx).
        unfold old in E. rewrite (In_qs_get (m_prof h) (j, x) qs Hn Hx') in E. lia.
      * intros h' Hh' Hs. apply in_app_or in Hh'. destruct Hh' as [Hh'|[<-|[]]]; [apply H2; assumption|].
        unfold old in E. destruct (qs_get (m_prof h) qs) as [[j b]|] eqn:Eg; [|lia].
        apply qs_get_In in Eg. apply in_map_iff. exists (m_prof h, (j, b)). tauto.
Qed.

Lemma frm_cds_spec hits :
  (forall h, In h (frm_cds hits) ->
     In h hits /\ -2 < m_sc h /\ forall h', In h' hits -> m_prof h' = m_prof h -> m_sc h' <= m_sc h) /\
  (forall h', In h' hits -> -2 < m_sc h' -> exists h, In h (frm_cds hits) /\ m_prof h = m_prof h').
Proof.
  assert (Hinv : frm_inv (fst (fold_left frm_step hits ([], 0))) hits).
  { apply (frm_fold_inv hits [] 0 []). split; [constructor|]. split; [intros p i h []|intros h' []]. }
  destruct Hinv as [Hn [H1 H2]]. unfold frm_cds. split.
  - intros h Hh. apply in_map_iff in Hh. destruct Hh as [[i x] [Ex Hx]]. cbn in Ex. subst x.
    apply sort_by_In in Hx. apply in_map_iff in Hx. destruct Hx as [[p w] [Ew Hx]]. cbn in Ew. subst w.
    destruct (H1 _ _ _ Hx) as [A [B [C D]]]. split; [exact A|]. split; [exact C|]. intros h' Hh' Hp. apply D; [exact Hh'|congruence].
  - intros h' Hh' Hs. specialize (H2 h' Hh' Hs). apply in_map_iff in H2. destruct H2 as [[q [i h]] [Eq Hq]]. cbn in Eq. subst q.
    exists h. split.
    + apply in_map_iff. exists (i, h). split; [reflexivity|]. apply sort_by_In. apply in_map_iff. exists (m_prof h', (i, h)). tauto.
    + destruct (H1 _ _ _ Hq) as [_ [B _]]. exact B.
Qed.

(* ------------------------------------------------------------------ statements of Theorems.v proved here *)
Lemma C13_sorted_proof : forall neighbour L reg hits out,
  refine_gene neighbour L reg hits = Ok out -> sorted_by_start out = true.
Proof. intros nb L reg hits out H. apply StronglySorted_le_bool. exact (refine_gene_sorted nb L reg hits out H). Qed.

Lemma C13_sorted_all_proof : forall neighbour L reg ghits out g hs,
  refine_all neighbour L reg ghits = Ok out -> In (g, hs) out ->
  sorted_by_start hs = true /\ hs <> [].
Proof.
  intros nb L reg ghits out g hs H Hin. destruct (refine_all_gene nb L reg ghits out g hs H Hin) as [Hg Hne].
  split; [|exact Hne]. apply StronglySorted_le_bool. exact (refine_gene_sorted nb L reg _ hs Hg).
Qed.

Lemma C13_provenance_all_proof : forall neighbour L reg ghits out g hs h,
  refine_all neighbour L reg ghits = Ok out -> In (g, hs) out -> In h hs ->
  frag L (hits_of g ghits) h /\ from_input (hits_of g ghits) h = true.
Proof.
  intros nb L reg ghits out g hs h H Hin Hh. destruct (refine_all_gene nb L reg ghits out g hs H Hin) as [Hg _].
  pose proof (refine_gene_frag nb L reg _ hs h Hg Hh) as F. split; [exact F|exact (frag_from_input _ _ _ F)].
Qed.

Lemma C13_pairwise_margin_refuted_proof : exists L reg hits out,
  refine_gene true L reg hits = Ok out /\ pairwise_margin L out = false.
Proof.
  exists (fun p => if p =? 1 then 100 else 10), (fun _ => false),
         [mkHit 0 0 30 1 100; mkHit 1 15 120 1 80; mkHit 2 16 40 1 120].
  eexists. split; vm_compute; reflexivity.
Qed.

Lemma C13_adjacent_margin_partial_proof : forall L l out p x,
  remove_overlapping_l L l = Ok out -> adjacent p x out ->
  exists b, In b l /\ ovl L b p = false /\ desc L b x /\ sc b <= sc x.
Proof.
  intros L l out p x H Hadj. destruct l as [|h t]; [discriminate|]. cbn in H. inversion H; subst.
  destruct (ro_adjacent L t h) as [_ A]. destruct (A p x Hadj) as [b [Hb [Ho Hd]]].
  exists b. split; [right; exact Hb|]. split; [exact Ho|]. split; [exact Hd|exact (desc_score L b x Hd)].
Qed.

Lemma C13_dropped_has_better_partial_proof : forall L l out h,
  remove_overlapping_l L l = Ok out -> In h l -> ~ In h out ->
  exists q, In q l /\ ((ovl L h q = true /\ sc h <= sc q) \/ (ovl L q h = true /\ sc h < sc q)).
Proof.
  intros L l out h H Hin Hout. destruct l as [|p t]; [discriminate|]. cbn in H. inversion H; subst.
  exact (ro_dropped L t p h Hin Hout).
Qed.

Lemma C13_dropped_has_kept_better_refuted_proof : exists L reg hits out h,
  refine_gene true L reg hits = Ok out /\ In h hits /\ is_complete L h = true /\
  forall k, In k out -> en k <= st h \/ en h <= st k.
Proof.
  exists (fun _ => 10), (fun _ => false),
         [mkHit 0 0 100 1 100; mkHit 1 10 40 1 20; mkHit 2 90 200 1 120], [mkHit 2 90 200 1 120], (mkHit 1 10 40 1 20).
  split; [vm_compute; reflexivity|]. split; [right; left; reflexivity|]. split; [vm_compute; reflexivity|].
  intros k [<-|[]]. cbn. lia.
Qed.

Lemma C13_merge_spans_proof : forall a b, prof a = prof b ->
  covers (merge a b) a = true /\ covers (merge a b) b = true.
Proof. intros a b H. split; apply covers_iff; [apply merge_covers_l|apply merge_covers_r; exact H]. Qed.

Lemma C13_merge_keeps_complete_proof : forall L reg hits out r1 x,
  refine_gene true L reg hits = Ok out -> remove_overlapping_l L (canonical hits) = Ok r1 ->
  In x r1 -> is_complete L x = true ->
  exists h, In h out /\ prof h = prof x /\ st h <= st x /\ en x <= en h.
Proof.
  intros L reg hits out r1 x H Hr Hx Hc. pose proof (refine_gene_coverage L reg hits out H) as G.
  unfold gene_coverage in G. destruct (canonical hits) as [|c t]; [discriminate|].
  cbn [remove_overlapping_l] in Hr. inversion Hr; subst r1.
  rewrite forallb_forall in G. specialize (G x Hx). rewrite Hc in G. cbn [negb orb] in G.
  apply existsb_exists in G. destruct G as [h [Hh Hcov]]. exists h. split; [exact Hh|].
  apply covers_iff in Hcov. exact Hcov.
Qed.
