(* C13 - property theorems (statements about the model of coq/C13/Model.v). *)
From ASV Require Import Base.
From ASV.C13 Require Import Model Proofs.
From Coq Require Import Sorting.Permutation.

(* ---- "refinement returns hits ordered by position": both modes, every input list, every
   length table *)
Theorem C13_sorted : forall neighbour L reg hits out,
  refine_gene neighbour L reg hits = Ok out -> sorted_by_start out = true.
Proof. exact C13_sorted_proof. Qed.
Print Assumptions C13_sorted.

Theorem C13_sorted_all : forall neighbour L reg ghits out g hs,
  refine_all neighbour L reg ghits = Ok out -> In (g, hs) out ->
  sorted_by_start hs = true /\ hs <> [].
Proof. exact C13_sorted_all_proof. Qed.
Print Assumptions C13_sorted_all.

(* ---- "every returned hit is an input hit or the merge of same-profile fragments close enough to
   be one domain": frag = input hit, or merge of such a hit with a further input hit of the same
   profile ending less than 1.5 profile lengths after its start *)
Theorem C13_provenance : forall neighbour L reg hits out h,
  refine_gene neighbour L reg hits = Ok out -> In h out -> frag L hits h.
Proof. exact refine_gene_frag. Qed.
Print Assumptions C13_provenance.

(* ... whose profile, start, end, score and e-value are those of input hits of that profile (the
   same boolean the check evaluates on every output of the implementation) *)
Theorem C13_provenance_fields : forall L hits h, frag L hits h -> from_input hits h = true.
Proof. exact frag_from_input. Qed.
Print Assumptions C13_provenance_fields.

Theorem C13_provenance_all : forall neighbour L reg ghits out g hs h,
  refine_all neighbour L reg ghits = Ok out -> In (g, hs) out -> In h hs ->
  frag L (hits_of g ghits) h /\ from_input (hits_of g ghits) h = true.
Proof. exact C13_provenance_all_proof. Qed.
Print Assumptions C13_provenance_all.

(* ---- remove_incomplete: returns input hits only; keeps every hit longer than half its profile;
   drops only hits that are not; and if any such hit exists returns nothing else *)
Theorem C13_incomplete_only : forall L reg l,
  (forall h, In h (remove_incomplete L reg l) -> In h l) /\
  (forall h, In h l -> is_complete L h = true -> In h (remove_incomplete L reg l)) /\
  (forall h, In h l -> ~ In h (remove_incomplete L reg l) -> is_complete L h = false) /\
  ((exists h, In h l /\ is_complete L h = true) ->
     forall h, In h (remove_incomplete L reg l) -> is_complete L h = true).
Proof. exact remove_incomplete_spec. Qed.
Print Assumptions C13_incomplete_only.

(* ---- "the result is the same for every ordering of the input" (and for every duplication:
   only the set of hits matters), whole call incl. the KeyError outcome *)
Theorem C13_order_independent : forall neighbour table ghits ghits',
  Permutation ghits ghits' -> refine_table neighbour table ghits = refine_table neighbour table ghits'.
Proof. exact refine_table_perm. Qed.
Print Assumptions C13_order_independent.

Theorem C13_order_independent_set : forall neighbour L reg hits hits',
  (forall x, In x hits <-> In x hits') -> refine_gene neighbour L reg hits = refine_gene neighbour L reg hits'.
Proof. exact refine_gene_ext. Qed.
Print Assumptions C13_order_independent_set.

(* ---- "no two returned hits overlap by more than the margin" is FALSE of the greedy pass
   (finding class greedy_replacement_margin): Z[0,30) A[15,120) B[16,40), lengths 10/100/10 *)
Theorem C13_pairwise_margin_refuted : exists L reg hits out,
  refine_gene true L reg hits = Ok out /\ pairwise_margin L out = false.
Proof. exact C13_pairwise_margin_refuted_proof. Qed.
Print Assumptions C13_pairwise_margin_refuted.

(* what does hold: the hit after p in the output descends (by strictly better overlapping
   replacements) from an input hit b that respected the margin with respect to p *)
Theorem C13_adjacent_margin_partial : forall L l out p x,
  remove_overlapping_l L l = Ok out -> adjacent p x out ->
  exists b, In b l /\ ovl L b p = false /\ desc L b x /\ sc b <= sc x.
Proof. exact C13_adjacent_margin_partial_proof. Qed.
Print Assumptions C13_adjacent_margin_partial.

(* "a hit is dropped only if a better-ranked overlapping hit is kept": the dropped hit was beaten -
   it overlapped (beyond the margin) a hit scoring at least as high that came before it, or was
   replaced by a strictly better overlapping later hit.  Partial: that hit is an input hit, not
   necessarily a kept one ... *)
Theorem C13_dropped_has_better_partial : forall L l out h,
  remove_overlapping_l L l = Ok out -> In h l -> ~ In h out ->
  exists q, In q l /\ ((ovl L h q = true /\ sc h <= sc q) \/ (ovl L q h = true /\ sc h < sc q)).
Proof. exact C13_dropped_has_better_partial_proof. Qed.
Print Assumptions C13_dropped_has_better_partial.

(* ... and the full clause is FALSE (same finding class): P[0,100) beats H[10,40), then R[90,200)
   replaces P; H is complete, dropped, and no returned hit shares a residue with it *)
Theorem C13_dropped_has_kept_better_refuted : exists L reg hits out h,
  refine_gene true L reg hits = Ok out /\ In h hits /\ is_complete L h = true /\
  forall k, In k out -> en k <= st h \/ en h <= st k.
Proof. exact C13_dropped_has_kept_better_refuted_proof. Qed.
Print Assumptions C13_dropped_has_kept_better_refuted.

(* "the merge ... spanning them" (finding class merge_truncates, repaired: HMMResult.merge takes the
   least start and the greatest end): the merge of two hits of a profile contains both *)
Theorem C13_merge_spans : forall a b, prof a = prof b ->
  covers (merge a b) a = true /\ covers (merge a b) b = true.
Proof. exact C13_merge_spans_proof. Qed.
Print Assumptions C13_merge_spans.

(* ... so merging loses no residue.  Neighbour mode: a complete hit that survives the overlap pass
   lies inside a returned hit of its profile (before the repair A[10,20) + A[10,80) gave A[10,20), which
   was then dropped as incomplete) *)
Theorem C13_merge_keeps_complete : forall L reg hits out r1 x,
  refine_gene true L reg hits = Ok out -> remove_overlapping_l L (canonical hits) = Ok r1 ->
  In x r1 -> is_complete L x = true ->
  exists h, In h out /\ prof h = prof x /\ st h <= st x /\ en x <= en h.
Proof. exact C13_merge_keeps_complete_proof. Qed.
Print Assumptions C13_merge_keeps_complete.

(* the same as the boolean the check evaluates on every neighbour-mode output of the implementation *)
Theorem C13_merge_keeps_complete_all : forall L reg ghits out,
  refine_all true L reg ghits = Ok out -> coverage_all L ghits out = true.
Proof. exact refine_all_coverage. Qed.
Print Assumptions C13_merge_keeps_complete_all.

(* default mode: every hit handed to _merge_domain_list lies inside a hit it returns *)
Theorem C13_merge_list_covers : forall L l x, In x l ->
  exists h, In h (merge_domain_list L l) /\ prof h = prof x /\ st h <= st x /\ en x <= en h.
Proof. intros L l x H. destruct (merge_domain_list_covers L l x H) as [h [Hh Hc]]. exists h. split; [exact Hh|exact Hc]. Qed.
Print Assumptions C13_merge_list_covers.

(* ---- hmmer.remove_overlapping: no two different returned hits overlap by overlap_limit or more
   (whole output, across groups), and every returned hit is an input hit *)
Theorem C13_hmmer_no_overlap : forall limit cutoffs hits out,
  hmmer_remove_overlapping limit cutoffs hits = Ok out ->
  (forall a b, In a out -> In b out -> a <> b -> conflict limit a b = false) /\
  (forall x, In x out -> In x hits).
Proof. exact hmmer_no_overlap. Qed.
Print Assumptions C13_hmmer_no_overlap.

(* the best-ranked hit of every group survives *)
Theorem C13_hmmer_best_kept : forall limit cutoffs hits out,
  hmmer_remove_overlapping limit cutoffs hits = Ok out ->
  let cut := cut_of cutoffs in
  forall G b rest, In G (hh_groups limit (sort_by (hh_sort_lt cut) hits)) ->
    sort_by (rank_lt cut) G = b :: rest -> In b out.
Proof. exact hmmer_best_kept. Qed.
Print Assumptions C13_hmmer_best_kept.

(* "every returned hit is an input hit", with multiplicity (finding class
   hmmer_first_short_duplicate, repaired: the grouping loop starts at hits[1]): no hit is returned
   more often than the input list holds it - the boolean the check evaluates on every output *)
Theorem C13_hmmer_no_extra_copies : forall limit cutoffs hits out,
  hmmer_remove_overlapping limit cutoffs hits = Ok out ->
  (forall x, hcount x out <= hcount x hits) /\ hh_nomult hits out = true.
Proof.
  intros limit cutoffs hits out H. split; [exact (hmmer_multiplicity limit cutoffs hits out H)|exact (hmmer_nomult limit cutoffs hits out H)].
Qed.
Print Assumptions C13_hmmer_no_extra_copies.

(* order independence of hmmer.remove_overlapping as a list (finding class hmmer_equal_start_order,
   repaired: both sorts use (protein_start, ranking_stats)); scores and cutoffs positive is the
   domain on which the model's integer comparison is the code's float comparison *)
Theorem C13_hmmer_order_independent : forall limit cutoffs l l',
  (forall h, In h l -> 0 < h_sc h /\ 0 < cut_of cutoffs (h_id h)) -> Permutation l l' ->
  hmmer_remove_overlapping limit cutoffs l = hmmer_remove_overlapping limit cutoffs l'.
Proof. exact hmmer_perm. Qed.
Print Assumptions C13_hmmer_order_independent.

(* ---- docking domains: a gene's hit survives iff it is not a docking domain or lies within 50
   residues of either end; genes left without hits are absent *)
Theorem C13_docking : forall cds len hs, In (len, hs) (filter_docking cds) ->
  hs <> [] /\ exists hs0, In (len, hs0) cds /\
    forall h, In h hs <-> (In h hs0 /\ (d_dock h = 0 \/ len - Z.max (d_s h) (d_e h) < 50 \/ Z.min (d_s h) (d_e h) < 50)).
Proof. exact filter_docking_spec. Qed.
Print Assumptions C13_docking.

(* ---- filter_result_multiple, "the single best-scoring hit ... of each profile survives": every
   survivor of a gene is one of its hits, scores above the default -1 (= -2 on the doubled scale)
   and at least as high as every hit of its profile in that gene; and every profile with a hit
   above -1 has a survivor *)
Theorem C13_frm_best_per_profile : forall hits,
  (forall h, In h (frm_cds hits) ->
     In h hits /\ -2 < m_sc h /\ forall h', In h' hits -> m_prof h' = m_prof h -> m_sc h' <= m_sc h) /\
  (forall h', In h' hits -> -2 < m_sc h' -> exists h, In h (frm_cds hits) /\ m_prof h = m_prof h').
Proof. exact frm_cds_spec. Qed.
Print Assumptions C13_frm_best_per_profile.

(* ---- non-vacuity: the hypotheses of the implications above are met by concrete inputs *)
(* neighbour mode with an overlap removal, a fragment merge and an incomplete hit *)
Example C13_ex_refine_neighbour :
  refine_gene true (fun _ => 100) (fun _ => false)
    [mkHit 0 0 60 3 40; mkHit 1 10 70 2 60; mkHit 1 75 130 1 50; mkHit 0 200 210 1 10; mkHit 1 10 70 2 60]
  = Ok [mkHit 1 10 130 1 60].
Proof. vm_compute. reflexivity. Qed.
Example C13_ex_refine_default :
  exists out, refine_gene false (fun _ => 100) (fun _ => false)
    [mkHit 0 0 60 3 40; mkHit 1 10 70 2 60; mkHit 1 75 130 1 50; mkHit 0 200 290 1 10] = Ok out /\ length out = 2%nat.
Proof. eexists. split; [vm_compute; reflexivity|reflexivity]. Qed.
Example C13_ex_frag_merge : frag (fun _ => 100) [mkHit 1 10 70 2 60; mkHit 1 75 130 1 50] (mkHit 1 10 130 1 60).
Proof.
  change (mkHit 1 10 130 1 60) with (merge (mkHit 1 10 70 2 60) (mkHit 1 75 130 1 50)).
  apply frag_merge; [apply frag_in; left; reflexivity|right; left; reflexivity|reflexivity|cbn; lia].
Qed.
Example C13_ex_all :
  exists out, refine_all true (fun _ => 100) (fun _ => false)
    [(2, mkHit 0 0 60 3 40); (1, mkHit 1 10 70 2 60); (2, mkHit 1 75 130 1 50); (1, mkHit 1 10 70 2 60)] = Ok out
  /\ In (2, [mkHit 0 0 60 3 40; mkHit 1 75 130 1 50]) out.
Proof. eexists. split; [vm_compute; reflexivity|right; left; reflexivity]. Qed.
Example C13_ex_incomplete :
  remove_incomplete (fun _ => 100) (fun _ => false) [mkHit 0 0 60 1 1; mkHit 0 100 140 1 1] = [mkHit 0 0 60 1 1]
  /\ remove_incomplete (fun _ => 100) (fun _ => false) [mkHit 0 0 30 1 1; mkHit 0 100 140 1 1] = [mkHit 0 100 140 1 1]
  /\ remove_incomplete (fun _ => 100) (fun p => p =? 3) [mkHit 0 0 30 1 1; mkHit 3 100 110 1 1] = [mkHit 3 100 110 1 1].
Proof. repeat split; vm_compute; reflexivity. Qed.
Example C13_ex_perm :
  Permutation [(0, mkHit 0 5 20 1 20); (0, mkHit 1 5 30 1 20)] [(0, mkHit 1 5 30 1 20); (0, mkHit 0 5 20 1 20)].
Proof. apply perm_swap. Qed.
Example C13_ex_adjacent :
  exists out, remove_overlapping_l (fun _ => 10) [mkHit 0 0 30 1 10; mkHit 1 29 60 1 10; mkHit 2 40 70 1 30] = Ok out
  /\ adjacent (mkHit 0 0 30 1 10) (mkHit 2 40 70 1 30) out.
Proof. eexists. split; [vm_compute; reflexivity|]. exists [], []. reflexivity. Qed.
Example C13_ex_dropped :
  exists out, remove_overlapping_l (fun _ => 10) [mkHit 0 0 30 1 10; mkHit 1 29 60 1 10; mkHit 2 40 70 1 30] = Ok out
  /\ ~ In (mkHit 1 29 60 1 10) out.
Proof. eexists. split; [vm_compute; reflexivity|]. intros [H|[H|[]]]; discriminate. Qed.
Example C13_ex_hmmer :
  hmmer_remove_overlapping 10 [Some 40; Some 100]
    [mkHH 0 0 50 80; mkHH 1 20 70 100; mkHH 0 45 90 60; mkHH 1 100 130 40; mkHH 0 0 50 80]
  = Ok [mkHH 0 0 50 80; mkHH 0 45 90 60; mkHH 1 100 130 40].
Proof. vm_compute. reflexivity. Qed.
Example C13_ex_hmmer_group :
  In [mkHH 0 0 50 80; mkHH 1 20 70 100; mkHH 0 45 90 60]
     (hh_groups 10 (sort_by (hh_sort_lt (cut_of [Some 40; Some 100])) [mkHH 0 0 50 80; mkHH 1 20 70 100; mkHH 0 45 90 60; mkHH 1 100 130 40; mkHH 0 0 50 80])).
Proof. vm_compute. left. reflexivity. Qed.
(* the witnesses of the repaired findings *)
Example C13_ex_merge_witness :
  refine_gene true (fun _ => 100) (fun _ => false) [mkHit 0 10 20 5 20; mkHit 0 10 80 1 100] = Ok [mkHit 0 10 80 1 100]
  /\ refine_gene false (fun _ => 100) (fun _ => false) [mkHit 0 0 100 5 20; mkHit 0 10 50 1 100] = Ok [mkHit 0 0 100 1 100].
Proof. split; vm_compute; reflexivity. Qed.
Example C13_ex_hmmer_short_first :
  hmmer_remove_overlapping 10 [Some 10] [mkHH 0 0 5 20] = Ok [mkHH 0 0 5 20].
Proof. vm_compute. reflexivity. Qed.
Example C13_ex_hmmer_equal_start :
  hmmer_remove_overlapping 10 [Some 100; Some 100] [mkHH 1 43 52 20; mkHH 0 43 45 20] = Ok [mkHH 1 43 52 20; mkHH 0 43 45 20]
  /\ hmmer_remove_overlapping 10 [Some 100; Some 100] [mkHH 0 43 45 20; mkHH 1 43 52 20] = Ok [mkHH 1 43 52 20; mkHH 0 43 45 20].
Proof. split; vm_compute; reflexivity. Qed.
Example C13_ex_docking :
  filter_docking [(300, [mkDH 0 1 10 40; mkDH 1 1 100 150; mkDH 2 0 100 150; mkDH 3 1 200 260]); (300, [mkDH 4 1 100 150])]
  = [(300, [mkDH 0 1 10 40; mkDH 2 0 100 150; mkDH 3 1 200 260])].
Proof. vm_compute. reflexivity. Qed.
Example C13_ex_frm :
  frm_cds [mkMH 0 0 10 20; mkMH 1 1 5 40; mkMH 2 0 30 40; mkMH 3 0 0 40; mkMH 4 2 7 (-2)] = [mkMH 1 1 5 40; mkMH 2 0 30 40].
Proof. vm_compute. reflexivity. Qed.

(* ====================================================================== deepening round *)
(* ---- filter_results, one gene under one equivalence group (fr_cds).  Domain fwf: hit_start <
   hit_end, distinct objects.  fov a b = "different objects with hsp_overlap_size > 20";
   fconn cds = chains of fov through the gene's hits (connected components);
   fr_groups cds = the groups the pair loop builds (= overlapping_groups, first conjunct).
   The code is the one after the repair of FC13a: a pair touching several groups unites them. *)

(* (a) what the groups are, for EVERY input order: non-empty sets of the gene's hits, each chained
   together by overlaps (so inside one component), and every overlapping pair lies in one of them *)
Theorem C13_filter_groups_partial : forall cds, fwf cds = true ->
  overlapping_groups cds = Ok (fr_groups cds) /\
  (forall g, In g (fr_groups cds) -> incl g cds /\ (forall x y, In x g -> In y g -> fconn cds x y) /\ g <> []) /\
  (forall h o, In h cds -> In o cds -> fov h o = true -> exists g, In g (fr_groups cds) /\ In h g /\ In o g).
Proof. exact C13_filter_groups_proof. Qed.
Print Assumptions C13_filter_groups_partial.

(* (a) no hit lies in two groups: a pair that touches several groups unites them (repair of the
   finding filter_groups_not_merged, FC13a) *)
Theorem C13_filter_groups_disjoint : forall cds g1 g2, fwf cds = true ->
  In g1 (fr_groups cds) -> In g2 (fr_groups cds) -> g1 = g2 \/ forall x, In x g1 -> In x g2 -> False.
Proof. exact C13_filter_groups_disjoint_proof. Qed.
Print Assumptions C13_filter_groups_disjoint.

(* (a) every group IS the connected component of its members, for every input order (replaces
   C13_filter_results_components_refuted; the hypothesis "the group contains every group it meets"
   is gone) *)
Theorem C13_filter_results_components : forall cds g h, fwf cds = true -> In g (fr_groups cds) ->
  In h g -> forall x, In x g <-> fconn cds h x.
Proof. exact C13_filter_components_proof. Qed.
Print Assumptions C13_filter_results_components.

(* the recorded witness of FC13a, a chain of five hits listed as v0 v3 v1 v4 v2 (it used to keep both
   chain ends v3 and v4, and only v4 in the positional order): one group of five, and for both
   orders exactly the best hit v4 survives *)
Theorem C13_filter_results_witness_repaired :
  fwf fr_wit = true /\ distinct_scores fr_wit = true /\ competing [0; 1; 2; 3; 4] fr_wit = true /\
  (exists g, overlapping_groups fr_wit = Ok [g] /\ length g = 5%nat) /\
  (exists rem, fr_cds [0; 1; 2; 3; 4] (Ok (fr_wit, [])) fr_wit = (Ok ([fr_w4], rem), [fr_w4])) /\
  (exists rem, fr_cds [0; 1; 2; 3; 4] (Ok (fr_wit, [])) fr_wit_sorted = (Ok ([fr_w4], rem), [fr_w4])).
Proof. exact fr_witness_repaired. Qed.
Print Assumptions C13_filter_results_witness_repaired.

(* (b) for every input of the domain: the gene's list and the global list are FILTERED (order kept,
   nothing else touched) by fr_keep; the assert fires iff nothing is kept ... *)
Theorem C13_filter_results_survivors : forall eqg results removed mine,
  fwf mine = true -> competing eqg mine = true -> fr_J (results, mine, removed) ->
  exists removed',
    fr_cds eqg (Ok (results, removed)) mine
    = (match filter (fr_keep mine) mine with
       | [] => Err E_Assert
       | _ => Ok (filter (fr_keep mine) results, removed')
       end, filter (fr_keep mine) mine).
Proof. exact fr_cds_survivors. Qed.
Print Assumptions C13_filter_results_survivors.

(* ... a hit is removed iff it belongs to a group whose best is another hit (so hits outside every
   group stay, and exactly the best of a group survives that group); the best hit of a group is searched in the
   order of the gene's hit list (hit_order: `[hit for hit in cdsresults if hit in group]`, repair of
   filter_results_score_tie_set_order) ... *)
Theorem C13_filter_results_removed_iff : forall mine r, fwf mine = true -> In r mine ->
  (fr_keep mine r = false <-> exists g b, In g (fr_groups mine) /\ In r g /\ best_of (hit_order mine g) = Some b /\ b <> r).
Proof. exact C13_filter_keep_iff. Qed.
Print Assumptions C13_filter_results_removed_iff.

(* ... best_of picks a member of the group with the highest score, and there always is one (`ordered[0]` does not
   raise) ... *)
Theorem C13_filter_results_best_of : forall mine g, fwf mine = true -> In g (fr_groups mine) ->
  exists b, best_of (hit_order mine g) = Some b /\ In b g /\ forall x, In x g -> f_sc x <= f_sc b.
Proof. exact C13_filter_best_of_proof. Qed.
Print Assumptions C13_filter_results_best_of.

(* ... namely, when several hits tie on the highest score, the one listed first in the gene's hit list: every hit of
   the group listed before the best one scores strictly less (the deterministic tie rule; before the repair the
   set-iteration order of identity-hashed objects decided) ... *)
Theorem C13_filter_results_tie_rule : forall l b, best_of l = Some b ->
  exists l1 l2, l = l1 ++ b :: l2 /\ (forall x, In x l1 -> f_sc x < f_sc b) /\ (forall x, In x l2 -> f_sc x <= f_sc b).
Proof. exact fr_best_of_first_max. Qed.
Print Assumptions C13_filter_results_tie_rule.

(* ... and the live list `cdsresults`, from which earlier groups have removed their losers, gives the same best hit
   as the gene's original list ... *)
Theorem C13_filter_results_live_list : forall mine g done, fwf mine = true -> In g (fr_groups mine) ->
  incl done (fr_groups mine) ->
  best_of (hit_order (filter (fun r => negb (fr_bad mine done r)) mine) g) = best_of (hit_order mine g).
Proof. exact C13_filter_live_list_proof. Qed.
Print Assumptions C13_filter_results_live_list.

(* ... and a gene with fewer than two profiles of the equivalence group is left alone *)
Theorem C13_filter_results_untouched : forall eqg s mine, competing eqg mine = false ->
  fr_cds eqg (Ok s) mine = (Ok s, mine).
Proof. exact fr_cds_not_competing. Qed.
Print Assumptions C13_filter_results_untouched.

(* no two survivors of a gene overlap by more than 20 (every input order, ties included) *)
Theorem C13_filter_results_no_overlap : forall mine x y, fwf mine = true ->
  In x (filter (fr_keep mine) mine) -> In y (filter (fr_keep mine) mine) -> fov x y = false.
Proof. exact fr_survivors_disjoint. Qed.
Print Assumptions C13_filter_results_no_overlap.

(* the best hit of a connected component survives, for every input order (scores pairwise distinct) *)
Theorem C13_filter_results_best_survives : forall mine h, fwf mine = true -> distinct_scores mine = true ->
  In h mine -> comp_best mine h = true -> fr_keep mine h = true.
Proof. exact fr_best_survives. Qed.
Print Assumptions C13_filter_results_best_survives.

(* the decidable specification is the mathematical one: fcomp is the connected component, comp_best
   = "scores at least as high as every hit connected to it" *)
Theorem C13_filter_results_spec_sound : forall cds h, fwf cds = true -> In h cds ->
  (forall x, In x (fcomp cds h) <-> fconn cds h x) /\
  (comp_best cds h = true <-> forall o, fconn cds h o -> f_sc o <= f_sc h).
Proof. exact C13_comp_best_proof. Qed.
Print Assumptions C13_filter_results_spec_sound.

(* (a)+(b) for every input of the domain with pairwise distinct scores: the step returns exactly what
   the property demands - of every component the best hit, everything else untouched (fr_step_spec,
   the function the check evaluates, fn 105).  Was C13_filter_results_guarded; the guard is gone *)
Theorem C13_filter_results_spec : forall eqg results removed mine r' m' app,
  fr_step_spec eqg results mine = (r', m', app) -> app = true ->
  fr_J (results, mine, removed) ->
  exists removed', fr_cds eqg (Ok (results, removed)) mine = (Ok (r', removed'), m').
Proof. exact fr_cds_meets_spec. Qed.
Print Assumptions C13_filter_results_spec.

(* the survivors are exactly the best hits of the connected components *)
Theorem C13_filter_results_keep_iff_best : forall mine h, fwf mine = true -> distinct_scores mine = true ->
  In h mine -> (fr_keep mine h = true <-> forall o, fconn mine h o -> f_sc o <= f_sc h).
Proof.
  intros mine h W D Hh. rewrite (fr_keep_spec mine h W D Hh).
  exact (proj2 (C13_comp_best_proof mine h W Hh)).
Qed.
Print Assumptions C13_filter_results_keep_iff_best.

(* (c) the survivors are the same for every order of the gene's hit list (replaces
   C13_filter_results_order_refuted and C13_filter_results_order_independent_guarded) *)
Theorem C13_filter_results_order_independent : forall mine mine2,
  Permutation mine mine2 -> fwf mine = true -> fwf mine2 = true ->
  distinct_scores mine = true -> distinct_scores mine2 = true ->
  forall h, In h (filter (fr_keep mine) mine) <-> In h (filter (fr_keep mine2) mine2).
Proof. exact fr_order_independent. Qed.
Print Assumptions C13_filter_results_order_independent.

(* ---- hmmer.remove_overlapping: ranking_stats is a strict total order on hits with positive score
   and cutoff ... *)
Theorem C13_hmmer_rank_total_order : forall cut,
  (forall a, rank_lt cut a a = false) /\
  (forall a b c, hh_pos cut a -> hh_pos cut b -> hh_pos cut c ->
     rank_lt cut a b = true -> rank_lt cut b c = true -> rank_lt cut a c = true) /\
  (forall a b, hh_pos cut a -> hh_pos cut b -> rank_lt cut a b = false -> rank_lt cut b a = false -> a = b).
Proof. exact C13_rank_order_proof. Qed.
Print Assumptions C13_hmmer_rank_total_order.

(* ... the hit C13_hmmer_best_kept keeps is the best of its group: highest score/cutoff, then longest,
   then earliest, then least identifier *)
Theorem C13_hmmer_rank_head_best : forall cut G b rest,
  (forall h, In h G -> hh_pos cut h) -> sort_by (rank_lt cut) G = b :: rest ->
  In b G /\ forall x, In x G ->
    cut (h_id b) * h_sc x <= cut (h_id x) * h_sc b /\
    (cut (h_id b) * h_sc x = cut (h_id x) * h_sc b -> hh_len x <= hh_len b /\
     (hh_len x = hh_len b -> h_st b <= h_st x /\ (h_st b = h_st x -> h_id b <= h_id x))).
Proof. exact rank_head_best_spelled. Qed.
Print Assumptions C13_hmmer_rank_head_best.

(* "a hit is dropped only if a better-ranked overlapping hit is kept", in full for hmmer *)
Theorem C13_hmmer_dropped_has_better_kept : forall limit cutoffs hits out,
  hmmer_remove_overlapping limit cutoffs hits = Ok out ->
  (forall h, In h hits -> hh_pos (cut_of cutoffs) h) ->
  forall x, In x hits -> ~ In x out ->
  exists k, In k out /\ conflict limit x k = true /\ rank_lt (cut_of cutoffs) k x = true.
Proof. exact hmmer_dropped_has_better_kept. Qed.
Print Assumptions C13_hmmer_dropped_has_better_kept.

(* within a group: kept iff no better-ranked kept hit conflicts *)
Theorem C13_hmmer_kept_iff : forall limit cut G, (forall h, In h G -> hh_pos cut h) ->
  forall x, In x (best_of_group limit cut G) <->
    (In x G /\ forall k, In k (best_of_group limit cut G) -> rank_lt cut k x = true -> conflict limit x k = false).
Proof. exact hmmer_kept_iff. Qed.
Print Assumptions C13_hmmer_kept_iff.

(* ---- "the merge of same-profile fragments ..., spanning them, with their best score": every
   returned hit has a non-empty list of input fragments of its profile whose least start, greatest
   end, best score and least e-value it carries (after the repair 690258f7) *)
Theorem C13_merge_best_score : forall nb L reg l out h, refine_gene nb L reg l = Ok out -> In h out ->
  exists cs, cs <> [] /\
    (forall c, In c cs -> In c l /\ prof c = prof h /\ sc c <= sc h /\ ev h <= ev c /\ st h <= st c /\ en c <= en h) /\
    (exists c, In c cs /\ sc c = sc h) /\ (exists c, In c cs /\ ev c = ev h) /\
    (exists c, In c cs /\ st c = st h) /\ (exists c, In c cs /\ en c = en h).
Proof. exact refine_gene_best_of_fragments. Qed.
Print Assumptions C13_merge_best_score.

Theorem C13_merge_fields : forall a b,
  sc (merge a b) = Z.max (sc a) (sc b) /\ ev (merge a b) = Z.min (ev a) (ev b) /\
  st (merge a b) = Z.min (st a) (st b) /\ en (merge a b) = Z.max (en a) (en b).
Proof. exact merge_best_score. Qed.
Print Assumptions C13_merge_fields.

(* ---- F21 narrowed: "no two returned hits overlap by more than the margin" HOLDS whenever the list
   handed to _remove_overlapping has monotone overlap (in list order a..b..c: c overlaps a beyond the
   margin only if b does) - whole call, both modes; the finding class is the complement *)
Theorem C13_pairwise_margin_guarded : forall nb t l out g hs,
  refine_table nb t l = Ok out -> margin_guard_all nb (plen t) l = true -> In (g, hs) out ->
  pairwise_margin (plen t) hs = true.
Proof. exact refine_table_pairwise_guarded. Qed.
Print Assumptions C13_pairwise_margin_guarded.

Theorem C13_pairwise_margin_guarded_gene : forall nb L reg l out,
  refine_gene nb L reg l = Ok out -> margin_guard nb L l = true -> pairwise_margin L out = true.
Proof. exact refine_gene_pairwise_guarded. Qed.
Print Assumptions C13_pairwise_margin_guarded_gene.

(* the guard is exactly the stated condition ... *)
Theorem C13_margin_guard_iff : forall L l, mono_ovl L l = true <->
  (forall a b c, sub [a; b; c] l -> ovl L c a = true -> ovl L b a = true).
Proof. exact mono_ovl_iff. Qed.
Print Assumptions C13_margin_guard_iff.

(* ... and holds in particular when all profiles of the gene's hits have one length *)
Theorem C13_pairwise_margin_uniform : forall nb L reg l out,
  refine_gene nb L reg l = Ok out -> uniform_len L l = true -> pairwise_margin L out = true.
Proof. exact refine_gene_pairwise_uniform. Qed.
Print Assumptions C13_pairwise_margin_uniform.

(* ---- non-vacuity of the new implications *)
(* a chain A-B-C-D listed as A D B C: the groups {A,B} and {D,C} are opened and then united by the
   pair (B, C): one group, one survivor *)
Example C13_ex_filter_united :
  let mine := [mkFH 0 0 0 100 20 0; mkFH 3 3 210 310 200 3; mkFH 1 1 70 170 40 1; mkFH 2 2 140 240 60 2] in
  fwf mine = true /\ distinct_scores mine = true /\ competing [0; 1] mine = true /\
  map (map f_id) (fr_groups mine) = [[0; 1; 2; 3]] /\
  fr_step_spec [0; 1] mine mine = ([mkFH 3 3 210 310 200 3], [mkFH 3 3 210 310 200 3], true) /\
  fst (fr_cds [0; 1] (Ok (mine, [])) mine) = Ok ([mkFH 3 3 210 310 200 3], [2; 1; 0]).
Proof. vm_compute. repeat split; reflexivity. Qed.
(* two components: two groups, the best of each survives *)
Example C13_ex_filter_two_components :
  let mine := [mkFH 0 0 0 100 20 0; mkFH 1 1 300 400 30 1; mkFH 2 1 70 170 40 2; mkFH 3 0 370 470 10 3] in
  fwf mine = true /\ distinct_scores mine = true /\ competing [0; 1] mine = true /\
  map (map f_id) (fr_groups mine) = [[0; 2]; [1; 3]] /\
  map f_id (snd (fr_cds [0; 1] (Ok (mine, [])) mine)) = [1; 2].
Proof. vm_compute. repeat split; reflexivity. Qed.
Example C13_ex_filter_J : fr_J ([mkFH 0 0 0 100 20 0], [mkFH 0 0 0 100 20 0], []).
Proof. intros i []. Qed.
Example C13_ex_hmmer_dropped :
  hmmer_remove_overlapping 10 [Some 40; Some 100] [mkHH 0 0 50 80; mkHH 1 20 70 100] = Ok [mkHH 0 0 50 80]
  /\ conflict 10 (mkHH 1 20 70 100) (mkHH 0 0 50 80) = true
  /\ rank_lt (cut_of [Some 40; Some 100]) (mkHH 0 0 50 80) (mkHH 1 20 70 100) = true.
Proof. vm_compute. repeat split; reflexivity. Qed.
Example C13_ex_margin_guard_true :
  let L := fun p => if p =? 1 then 100 else 10 in
  let l := [mkHit 0 0 30 1 100; mkHit 1 28 120 1 80; mkHit 2 29 140 1 120] in
  margin_guard true L l = true /\ uniform_len L l = false /\
  refine_gene true L (fun _ => false) l = Ok [mkHit 0 0 30 1 100; mkHit 2 29 140 1 120].
Proof. vm_compute. repeat split; reflexivity. Qed.
Example C13_ex_margin_guard_false_F21 :
  margin_guard true (fun p => if p =? 1 then 100 else 10)
    [mkHit 0 0 30 1 100; mkHit 1 15 120 1 80; mkHit 2 16 40 1 120] = false.
Proof. vm_compute. reflexivity. Qed.

(* the same as the boolean the check evaluates on every hmmer output (fourth bit of fn 103) *)
Theorem C13_hmmer_dropped_ok : forall limit cutoffs hits out,
  hmmer_remove_overlapping limit cutoffs hits = Ok out ->
  (forall h, In h hits -> hh_pos (cut_of cutoffs) h) ->
  hh_dropped_ok limit (cut_of cutoffs) hits out = true.
Proof. exact hmmer_dropped_ok. Qed.
Print Assumptions C13_hmmer_dropped_ok.


(* ---- find_hmmer_hits applies the two filters in this order: the competition of equivalent profiles (filter_results),
   then the best hit of each profile among what the competition left (filter_result_multiple).  Per gene the outcome is
   frm_cds of the competition's survivors, so C13_frm_best_per_profile holds relative to THOSE: a survivor is a survivor of
   the competition and the best of its profile among them, and every profile that the competition left a hit above -1
   keeps one.  In the other order (seeded change of round 6) a profile can disappear although one of its hits lost to
   nothing *)
Theorem C13_find_hits_filters_spec : forall eqgs results by_id r,
  filter_results eqgs results by_id = Ok r ->
  exists out, find_hits_filters eqgs results by_id = Ok out /\
    snd out = map (fun g => frm_cds (map to_mhit g)) (snd r) /\
    forall g, In g (snd r) ->
      (forall h, In h (frm_cds (map to_mhit g)) ->
         In h (map to_mhit g) /\ -2 < m_sc h /\
         forall h', In h' (map to_mhit g) -> m_prof h' = m_prof h -> m_sc h' <= m_sc h) /\
      (forall h', In h' (map to_mhit g) -> -2 < m_sc h' -> exists h, In h (frm_cds (map to_mhit g)) /\ m_prof h = m_prof h').
Proof. exact find_hits_filters_spec. Qed.
Print Assumptions C13_find_hits_filters_spec.

Theorem C13_find_hits_filters_swapped_refuted : exists eqgs results by_id out,
  find_hits_filters eqgs results by_id = Ok out /\ map (map m_id) (snd out) = [[0; 3]] /\
  find_hits_filters_swapped eqgs results by_id = Ok ([3], [[3]]).
Proof. exact find_hits_filters_swapped_differs. Qed.
Print Assumptions C13_find_hits_filters_swapped_refuted.
