(* C07: detection is invariant under origin rotation and rule order.
   (1) Rotation: the expected image of an area under a change of origin is computed with the model
       of offset_location (Common/Loc.v; C04_offset_simple_ring proves it rotates exactly the bases);
       the correspondence run compares it with what the real pipeline reports on the rotated record.
   (2) Rule order: an abstract model of the per-cutoff cache of apply_cluster_rules, and a
       transcription of remove_redundant_protoclusters (the only function of find_protoclusters
       that reads the clusters of another rule). *)
From ASV Require Export Base Loc.

Definition rotate_loc (N k : Z) (l : loc) : res loc := offset_location l k (Some N).

(* the per-gene loop of apply_cluster_rules: the neighbourhood information depends on the rule only
   through its cutoff and is cached by cutoff; [info] computes it, [detect] evaluates one rule *)
Section Cache.
Context {R I O : Type}.
Variable cutoff_of : R -> Z.
Variable info : Z -> I.            (* nearby features, nearby results, circular_origin *)
Variable detect : R -> I -> O.

Fixpoint lookup (k : Z) (cache : list (Z * I)) : option I :=
  match cache with [] => None | (k', v) :: r => if k =? k' then Some v else lookup k r end.

Fixpoint eval_rules (cache : list (Z * I)) (rules : list R) : list O :=
  match rules with
  | [] => []
  | r :: rest =>
    let k := cutoff_of r in
    match lookup k cache with
    | Some v => detect r v :: eval_rules cache rest
    | None => let v := info k in detect r v :: eval_rules ((k, v) :: cache) rest
    end
  end.
End Cache.

(* ---------- remove_redundant_protoclusters: the only sanctioned cross-rule effect ----------
   A protocluster is carried as: rule (numbered), core location, and the positions (in the sorted
   CDS list of the record) of the first and the last CDS inside the core.  [sup] is the parsed
   SUPERIORS table (rule -> names of its superiors, as closed by the parser). *)
Record pc := mkPc { pc_rule : Z; pc_core : loc; pc_first : Z; pc_last : Z }.

Fixpoint superiors_of (sup : list (Z * list Z)) (r : Z) : list Z :=
  match sup with [] => [] | (k, v) :: rest => if r =? k then v else superiors_of rest r end.

(* for other_cluster in clusters_by_rule.get(superior, []): ... (flag = is_redundant so far;
   the containment test sets the flag and continues, an intersection of the CDS ranges breaks) *)
Fixpoint redundant_inner (c : pc) (others : list pc) (flag : bool) : bool :=
  match others with
  | [] => flag
  | o :: rest =>
    if contains (pc_core o) (pc_core c) then redundant_inner c rest true
    else if pc_last o <? pc_first c then redundant_inner c rest flag
    else if pc_last c <? pc_first o then redundant_inner c rest flag
    else true
  end.

(* for superior in rules_by_name[rule_name].superiors: ...; if is_redundant: break *)
Fixpoint redundant_outer (c : pc) (sups : list Z) (by_rule : Z -> list pc) : bool :=
  match sups with
  | [] => false
  | s :: rest => if redundant_inner c (by_rule s) false then true else redundant_outer c rest by_rule
  end.

Definition clusters_by_rule (cs : list pc) (r : Z) : list pc := filter (fun o => pc_rule o =? r) cs.

Definition remove_redundant (sup : list (Z * list Z)) (cs : list pc) : list pc :=
  filter (fun c => negb (redundant_outer c (superiors_of sup (pc_rule c)) (clusters_by_rule cs))) cs.

Definition dPc : dec pc := fun l =>
  match dPair (dPair dZ dLoc) (dPair dZ dZ) l with
  | Some ((r, c, (f, la)), rest) => Some (mkPc r c f la, rest)
  | None => None
  end.
Definition ePc (c : pc) : list Z := pc_rule c :: eLoc (pc_core c) ++ [pc_first c; pc_last c].

(* ---------- get_ruleset / Ruleset / create_rules: rule objects are shared BY REFERENCE ----------
   antismash/detection/hmm_detection/__init__.py:get_ruleset keeps a module-level cache of the
   rulesets it has handed out; Ruleset.__post_init__ (as repaired for C07-K2 / C01-H1) applies the
   distance multipliers to COPIES of the DetectionRule objects it is given (copy.copy: a new object
   per rule) and remembers the objects as given; copy_with_replacements hands the new instance the
   remembered objects in place of this instance's own scaled copies.  The parser still scales the
   objects it creates in place (create_rules(..., multipliers)).
   So the model has an object store: a rule object is an address, [h_get] reads it, [h_set]
   mutates it, [h_new] allocates.  Names, categories, strictness levels are numbered. *)
Record rule := mkRule { r_name : Z; r_cat : Z; r_cutoff : Z; r_nb : Z }.
Definition ratio := (Z * Z)%type.     (* a float multiplier as numerator / denominator *)
Record mults := mkMults { m_cutoff : ratio; m_nb : ratio }.
Definition unit_mults : mults := mkMults (1, 1) (1, 1).        (* Multipliers() *)
(* int(distance * multiplier): truncation towards zero *)
Definition scale (d : Z) (m : ratio) : Z := Z.quot (d * fst m) (snd m).
Definition scale_rule (m : mults) (r : rule) : rule :=
  mkRule (r_name r) (r_cat r) (scale (r_cutoff r) (m_cutoff m)) (scale (r_nb r) (m_nb m)).
(* Multipliers.__post_init__: ValueError unless both are positive *)
Definition mults_valid (m : mults) : bool :=
  (0 <? fst (m_cutoff m) * snd (m_cutoff m)) && (0 <? fst (m_nb m) * snd (m_nb m)).

Record heap := mkHeap { h_next : nat; h_get : nat -> rule }.
Definition h_set (h : heap) (i : nat) (r : rule) : heap :=
  mkHeap (h_next h) (fun j => if Nat.eqb j i then r else h_get h j).
Definition h_new (h : heap) (r : rule) : heap * nat :=
  (mkHeap (S (h_next h)) (fun j => if Nat.eqb j (h_next h) then r else h_get h j), h_next h).
Definition deref (h : heap) (refs : list nat) : list rule := map (h_get h) refs.

Fixpoint mem (x : Z) (l : list Z) : bool := match l with [] => false | y :: r => (x =? y) || mem x r end.
Fixpoint nodupb (l : list Z) : bool := match l with [] => true | x :: r => negb (mem x r) && nodupb r end.

(* create_rules + Parser.__init__: every rule of the rule files becomes a NEW object; the parser
   scales its cutoff and neighbourhood once (rules of earlier files are carried along unscaled);
   a second rule of the same name is a ValueError.  [base]: the rules of the files, in file order,
   with the distances as written (CUTOFF/NEIGHBOURHOOD in kb * 1000) *)
Fixpoint parse_rules (m : mults) (base : list rule) (seen : list Z) (h : heap) : res (heap * list nat) :=
  match base with
  | [] => Ok (h, [])
  | b :: rest =>
    if mem (r_name b) seen then Err E_Value
    else let (h1, i) := h_new h (scale_rule m b) in
         match parse_rules m rest (r_name b :: seen) h1 with
         | Ok (h2, refs) => Ok (h2, i :: refs)
         | Err k => Err k
         end
  end.

(* Ruleset.__post_init__:
     self._unscaled_rules = {rule.name: rule for rule in self._rules}        (the objects as given)
     for rule in self._rules: rule = copy.copy(rule); rule.cutoff = int(rule.cutoff * multipliers.cutoff) ...
     self._rules = tuple(scaled_rules)
   - one NEW object per rule given, no update of any existing object; then rule names must be
   unique (ValueError).  (The checks on profiles and equivalence groups do not depend on the rules
   and are not modelled.) *)
Fixpoint scaled_copies (m : mults) (refs : list nat) (h : heap) : heap * list nat :=
  match refs with
  | [] => (h, [])
  | i :: rest =>
    let (h1, j) := h_new h (scale_rule m (h_get h i)) in
    let (h2, out) := scaled_copies m rest h1 in (h2, j :: out)
  end.
Definition post_init (m : mults) (refs : list nat) (h : heap) : res (heap * list nat) :=
  let (h', own) := scaled_copies m refs h in
  if nodupb (map r_name (deref h' own)) then Ok (h', own) else Err E_Value.

(* a Ruleset: the rule objects it detects with (its scaled copies), the objects it was given, in the
   same order (_unscaled_rules), and its multipliers *)
Record ruleset := mkRs { rs_rules : list nat; rs_given : list nat; rs_mults : mults }.
Definition ruleset_init (refs : list nat) (m : mults) (h : heap) : res (heap * ruleset) :=
  match post_init m refs h with Ok (h', own) => Ok (h', mkRs own refs m) | Err k => Err k end.
(* Ruleset.from_files: create_rules(...) WITHOUT multipliers and then cls(..., multipliers=multipliers) *)
Definition from_files (base : list rule) (m : mults) (h : heap) : res (heap * ruleset) :=
  match parse_rules unit_mults base [] h with
  | Ok (h1, refs) => ruleset_init refs m h1
  | Err k => Err k
  end.
(* copy_with_replacements(rules=..., multipliers=...):
     kwargs["_rules"] = tuple(self._unscaled_rules[rule.name] if self._rules_by_name.get(rule.name) is rule else rule ...)
   - a rule object OF THIS INSTANCE is replaced by the object this instance was given for it (the
   names of an instance are unique, so the lookup by name and identity is the lookup of the object's
   position among the instance's rules), any other object is passed on as it is; then
   dataclasses.replace builds a new Ruleset (__post_init__ again) *)
Fixpoint given_of (own given : list nat) (i : nat) : nat :=
  match own, given with
  | o :: own', g :: given' => if Nat.eqb i o then g else given_of own' given' i
  | _, _ => i
  end.
Definition copy_with_replacements (rs : ruleset) (refs : list nat) (m : mults) (h : heap) : res (heap * ruleset) :=
  ruleset_init (map (given_of (rs_rules rs) (rs_given rs)) refs) m h.

(* the options get_ruleset reads: strictness, limit_to_rules / limit_to_categories (as the tuples
   of the sets built from them), taxon == "fungi", the two fungal multipliers *)
Record request := mkReq { q_strict : Z; q_names : list Z; q_cats : list Z; q_fungi : bool; q_mults : mults }.
Definition effective (q : request) : mults := if q_fungi q then q_mults q else unit_mults.
Record key := mkKey { k_strict : Z; k_names : list Z; k_cats : list Z; k_mults : mults }.
Definition key_of (q : request) : key := mkKey (q_strict q) (q_names q) (q_cats q) (effective q).
Definition ratio_eqb (a b : ratio) : bool := (fst a =? fst b) && (snd a =? snd b).
Definition mults_eqb (a b : mults) : bool := ratio_eqb (m_cutoff a) (m_cutoff b) && ratio_eqb (m_nb a) (m_nb b).
Definition key_eqb (a b : key) : bool :=
  (k_strict a =? k_strict b) && list_eqb Z.eqb (k_names a) (k_names b) && list_eqb Z.eqb (k_cats a) (k_cats b)
  && mults_eqb (k_mults a) (k_mults b).

(* _get_rule_files_for_strictness: the files of the levels up to and including the requested one *)
Definition rule_files (files : list (list rule)) (s : Z) : list rule := concat (firstn (S (Z.to_nat s)) files).

Record state := mkState { st_heap : heap; st_cache : list (key * ruleset) }.     (* _RULESETS *)
Definition init_state : state := mkState (mkHeap 0 (fun _ => mkRule 0 0 0 0)) [].
Fixpoint cache_get (k : key) (c : list (key * ruleset)) : option ruleset :=
  match c with [] => None | (k', v) :: r => if key_eqb k k' then Some v else cache_get k r end.

Definition get_ruleset (files : list (list rule)) (st : state) (q : request) : res (state * ruleset) :=
  let m := effective q in
  if negb (mults_valid m) then Err E_Value else
  let k := key_of q in
  match cache_get k (st_cache st) with
  | Some rs => Ok (st, rs)
  | None =>
    match from_files (rule_files files (q_strict q)) unit_mults (st_heap st) with
    | Err e => Err e
    | Ok (h1, rs0) =>
      let by_name := match q_names q with
                     | [] => rs_rules rs0
                     | _ => filter (fun i => mem (r_name (h_get h1 i)) (q_names q)) (rs_rules rs0) end in
      let by_cat := match q_cats q with
                    | [] => by_name
                    | _ => filter (fun i => mem (r_cat (h_get h1 i)) (q_cats q)) by_name end in
      match copy_with_replacements rs0 by_cat m h1 with
      | Err e => Err e
      | Ok (h2, rs) => Ok (mkState h2 ((k, rs) :: st_cache st), rs)
      end
    end
  end.

(* a history of calls in one process; a call that raises leaves the cache as it was *)
Fixpoint run_requests (files : list (list rule)) (st : state) (qs : list request) : state * list (res ruleset) :=
  match qs with
  | [] => (st, [])
  | q :: rest =>
    match get_ruleset files st q with
    | Err e => let (st2, out) := run_requests files st rest in (st2, Err e :: out)
    | Ok (st1, rs) => let (st2, out) := run_requests files st1 rest in (st2, Ok rs :: out)
    end
  end.

(* specification: what a request must give, whatever was requested before or after *)
Definition select (names cats : list Z) (base : list rule) : list rule :=
  let l1 := match names with [] => base | _ => filter (fun r => mem (r_name r) names) base end in
  match cats with [] => l1 | _ => filter (fun r => mem (r_cat r) cats) l1 end.
Definition selected (names cats : list Z) (r : rule) : bool :=
  match names with [] => true | _ => mem (r_name r) names end && match cats with [] => true | _ => mem (r_cat r) cats end.
Definition expected_rules (files : list (list rule)) (q : request) : list rule :=
  map (scale_rule (effective q)) (select (q_names q) (q_cats q) (rule_files files (q_strict q))).

(* observation: after the whole history, every ruleset handed out so far, read NOW: which object
   it is (numbered by creation, = position in the cache) and the rules it holds *)
Fixpoint created_before (k : key) (c : list (key * ruleset)) : option Z :=
  match c with [] => None | (k', _) :: r => if key_eqb k k' then Some (zlen r) else created_before k r end.
Definition dRule : dec rule := fun l =>
  match l with n :: c :: d :: b :: r => Some (mkRule n c d b, r) | _ => None end.
Definition eRule (r : rule) : list Z := [r_name r; r_cat r; r_cutoff r; r_nb r].
Definition dRatio : dec ratio := dPair dZ dZ.
Definition dMults : dec mults := fun l =>
  match dPair dRatio dRatio l with Some ((a, b), r) => Some (mkMults a b, r) | None => None end.
Definition dReq : dec request := fun l =>
  match dPair (dPair dZ (dList dZ)) (dPair (dList dZ) (dPair dBool dMults)) l with
  | Some ((s, ns, (cs, (f, m))), r) => Some (mkReq s ns cs f m, r)
  | None => None
  end.
Definition observe (files : list (list rule)) (qs : list request) : list Z :=
  let (st, outs) := run_requests files init_state qs in
  eList (fun qo : request * res ruleset =>
           match snd qo with
           | Ok rs => 0 :: match created_before (key_of (fst qo)) (st_cache st) with Some n => n | None => -1 end
                        :: eList eRule (deref (st_heap st) (rs_rules rs))
           | Err e => [1; e]
           end) (combine qs outs).

(* the public constructors used directly (correspondence of Ruleset(...), from_files and
   copy_with_replacements; before the repair of C07-K2 these gave history-dependent distances): a
   sequence of
     Ruleset.from_files(files of a strictness, multipliers=m)
     made[j].copy_with_replacements(rules=[those named], multipliers=m)   (or without multipliers=)
     Ruleset(tuple(those named of made[j].rules), ..., multipliers=m)     (the constructor itself, over
                                                      the rule objects another ruleset detects with) *)
Inductive apiop :=
| OpFromFiles (s : Z) (m : mults)
| OpCopy (j : Z) (names : list Z) (keep : bool) (m : mults)
| OpInit (j : Z) (names : list Z) (m : mults).

Definition named_refs (h : heap) (names : list Z) (refs : list nat) : list nat :=
  match names with [] => refs | _ => filter (fun i => mem (r_name (h_get h i)) names) refs end.

Fixpoint run_api (files : list (list rule)) (h : heap) (made : list (res ruleset)) (ops : list apiop)
  : heap * list (res ruleset) :=
  match ops with
  | [] => (h, made)
  | OpFromFiles s m :: rest =>
    match from_files (rule_files files s) m h with
    | Ok (h1, rs) => run_api files h1 (made ++ [Ok rs]) rest
    | Err e => run_api files h (made ++ [Err e]) rest
    end
  | OpCopy j names keep m :: rest =>
    match nth_error made (Z.to_nat j) with
    | Some (Ok rs) =>
      match copy_with_replacements rs (named_refs h names (rs_rules rs)) (if keep then rs_mults rs else m) h with
      | Ok (h1, rs') => run_api files h1 (made ++ [Ok rs']) rest
      | Err e => run_api files h (made ++ [Err e]) rest
      end
    | _ => run_api files h (made ++ [Err E_Index]) rest
    end
  | OpInit j names m :: rest =>
    match nth_error made (Z.to_nat j) with
    | Some (Ok rs) =>
      match ruleset_init (named_refs h names (rs_rules rs)) m h with
      | Ok (h1, rs') => run_api files h1 (made ++ [Ok rs']) rest
      | Err e => run_api files h (made ++ [Err e]) rest
      end
    | _ => run_api files h (made ++ [Err E_Index]) rest
    end
  end.

(* specification of such a sequence: for every ruleset made, the rules it was GIVEN (for from_files
   and every copy derived from it: the selected rules of the files with the distances as written;
   for the bare constructor: the rules the other ruleset detects with) and its own multipliers *)
Definition named_rules (names : list Z) (l : list rule) : list rule :=
  match names with [] => l | _ => filter (fun r => mem (r_name r) names) l end.
Fixpoint api_spec (files : list (list rule)) (made : list (option (list rule * mults))) (ops : list apiop)
  : list (option (list rule * mults)) :=
  match ops with
  | [] => made
  | OpFromFiles s m :: rest => api_spec files (made ++ [Some (rule_files files s, m)]) rest
  | OpCopy j names keep m :: rest =>
    match nth_error made (Z.to_nat j) with
    | Some (Some (w, mj)) => api_spec files (made ++ [Some (named_rules names w, if keep then mj else m)]) rest
    | _ => api_spec files (made ++ [None]) rest
    end
  | OpInit j names m :: rest =>
    match nth_error made (Z.to_nat j) with
    | Some (Some (w, mj)) => api_spec files (made ++ [Some (named_rules names (map (scale_rule mj) w), m)]) rest
    | _ => api_spec files (made ++ [None]) rest
    end
  end.

Definition dApiOp : dec apiop := fun l =>
  match l with
  | 0 :: r => match dPair dZ dMults r with Some ((s, m), r') => Some (OpFromFiles s m, r') | None => None end
  | 1 :: r => match dPair (dPair dZ (dList dZ)) (dPair dBool dMults) r with
              | Some ((j, ns, (k, m)), r') => Some (OpCopy j ns k m, r') | None => None end
  | 2 :: r => match dPair (dPair dZ (dList dZ)) dMults r with
              | Some ((j, ns, m), r') => Some (OpInit j ns m, r') | None => None end
  | _ => None
  end.
Definition eMults (m : mults) : list Z := [fst (m_cutoff m); snd (m_cutoff m); fst (m_nb m); snd (m_nb m)].
Definition observe_api (files : list (list rule)) (ops : list apiop) : list Z :=
  let (h, made) := run_api files (st_heap init_state) [] ops in
  eList (fun o : res ruleset =>
           match o with
           | Ok rs => 0 :: eMults (rs_mults rs) ++ eList eRule (deref h (rs_rules rs))
           | Err e => [1; e]
           end) made.

Definition run_C07 (fn : Z) (l : list Z) : list Z :=
  match fn with
  | 1 => match dPair (dPair dZ dZ) (dList dLoc) l with
         | Some ((N, k, locs), []) => eList (fun a => eRes eLoc (rotate_loc N k a)) locs
         | _ => bad_input end
  | 2 => match dPair (dList (dPair dZ (dList dZ))) (dList dPc) l with
         | Some ((sup, cs), []) => eList ePc (remove_redundant sup cs)
         | _ => bad_input end
  | 3 => match dPair (dList (dList dRule)) (dList dReq) l with
         | Some ((files, qs), []) => observe files qs
         | _ => bad_input end
  | 4 => match dPair (dList (dList dRule)) (dList dApiOp) l with
         | Some ((files, ops), []) => observe_api files ops
         | _ => bad_input end
  | _ => bad_input
  end.
