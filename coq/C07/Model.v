(* C07: detection is invariant under origin rotation and rule order.
   (1) Rotation: the expected image of an area under a change of origin is computed with the model
       of offset_location (Common/Loc.v; C04_offset_simple_ring proves it rotates exactly the bases);
       the correspondence run compares it with what the real pipeline reports on the rotated record.
   (2) Rule order: an abstract model of the per-cutoff cache of apply_cluster_rules. *)
From ASV Require Export Base Loc.

Definition rotate_loc (N k : Z) (l : loc) : res loc := offset_location l k (Some N).

(* the per-gene loop of apply_cluster_rules: the neighbourhood information depends on the rule only
   through its cutoff and is cached by cutoff; [info] computes it, [detect] evaluates one rule *)
Section Cache.
Context {R I O : Type}.
Variable cutoff_of : R -> Z.
Variable info : Z -> I.            (* nearby features, nearby results, circular_origin *)
Variable detect : R -> I -> O.

Fixpoint lookup (k : Z) (cache : list (Z * I)) : option I :=
  match cache with [] => None | (k', v) :: r => if k =? k' then Some v else lookup k r end.

Fixpoint eval_rules (cache : list (Z * I)) (rules : list R) : list O :=
  match rules with
  | [] => []
  | r :: rest =>
    let k := cutoff_of r in
    match lookup k cache with
    | Some v => detect r v :: eval_rules cache rest
    | None => let v := info k in detect r v :: eval_rules ((k, v) :: cache) rest
    end
  end.
End Cache.

Definition run_C07 (fn : Z) (l : list Z) : list Z :=
  match fn with
  | 1 => match dPair (dPair dZ dZ) (dList dLoc) l with
         | Some ((N, k, locs), []) => eList (fun a => eRes eLoc (rotate_loc N k a)) locs
         | _ => bad_input end
  | _ => bad_input
  end.
