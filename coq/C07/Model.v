(* C07: detection is invariant under origin rotation and rule order.
   (1) Rotation: the expected image of an area under a change of origin is computed with the model
       of offset_location (Common/Loc.v; C04_offset_simple_ring proves it rotates exactly the bases);
       the correspondence run compares it with what the real pipeline reports on the rotated record.
   (2) Rule order: an abstract model of the per-cutoff cache of apply_cluster_rules, and a
       transcription of remove_redundant_protoclusters (the only function of find_protoclusters
       that reads the clusters of another rule). *)
From ASV Require Export Base Loc.

Definition rotate_loc (N k : Z) (l : loc) : res loc := offset_location l k (Some N).

(* the per-gene loop of apply_cluster_rules: the neighbourhood information depends on the rule only
   through its cutoff and is cached by cutoff; [info] computes it, [detect] evaluates one rule *)
Section Cache.
Context {R I O : Type}.
Variable cutoff_of : R -> Z.
Variable info : Z -> I.            (* nearby features, nearby results, circular_origin *)
Variable detect : R -> I -> O.

Fixpoint lookup (k : Z) (cache : list (Z * I)) : option I :=
  match cache with [] => None | (k', v) :: r => if k =? k' then Some v else lookup k r end.

Fixpoint eval_rules (cache : list (Z * I)) (rules : list R) : list O :=
  match rules with
  | [] => []
  | r :: rest =>
    let k := cutoff_of r in
    match lookup k cache with
    | Some v => detect r v :: eval_rules cache rest
    | None => let v := info k in detect r v :: eval_rules ((k, v) :: cache) rest
    end
  end.
End Cache.

(* ---------- remove_redundant_protoclusters: the only sanctioned cross-rule effect ----------
   A protocluster is carried as: rule (numbered), core location, and the positions (in the sorted
   CDS list of the record) of the first and the last CDS inside the core.  [sup] is the parsed
   SUPERIORS table (rule -> names of its superiors, as closed by the parser). *)
Record pc := mkPc { pc_rule : Z; pc_core : loc; pc_first : Z; pc_last : Z }.

Fixpoint superiors_of (sup : list (Z * list Z)) (r : Z) : list Z :=
  match sup with [] => [] | (k, v) :: rest => if r =? k then v else superiors_of rest r end.

(* for other_cluster in clusters_by_rule.get(superior, []): ... (flag = is_redundant so far;
   the containment test sets the flag and continues, an intersection of the CDS ranges breaks) *)
Fixpoint redundant_inner (c : pc) (others : list pc) (flag : bool) : bool :=
  match others with
  | [] => flag
  | o :: rest =>
    if contains (pc_core o) (pc_core c) then redundant_inner c rest true
    else if pc_last o <? pc_first c then redundant_inner c rest flag
    else if pc_last c <? pc_first o then redundant_inner c rest flag
    else true
  end.

(* for superior in rules_by_name[rule_name].superiors: ...; if is_redundant: break *)
Fixpoint redundant_outer (c : pc) (sups : list Z) (by_rule : Z -> list pc) : bool :=
  match sups with
  | [] => false
  | s :: rest => if redundant_inner c (by_rule s) false then true else redundant_outer c rest by_rule
  end.

Definition clusters_by_rule (cs : list pc) (r : Z) : list pc := filter (fun o => pc_rule o =? r) cs.

Definition remove_redundant (sup : list (Z * list Z)) (cs : list pc) : list pc :=
  filter (fun c => negb (redundant_outer c (superiors_of sup (pc_rule c)) (clusters_by_rule cs))) cs.

Definition dPc : dec pc := fun l =>
  match dPair (dPair dZ dLoc) (dPair dZ dZ) l with
  | Some ((r, c, (f, la)), rest) => Some (mkPc r c f la, rest)
  | None => None
  end.
Definition ePc (c : pc) : list Z := pc_rule c :: eLoc (pc_core c) ++ [pc_first c; pc_last c].

Definition run_C07 (fn : Z) (l : list Z) : list Z :=
  match fn with
  | 1 => match dPair (dPair dZ dZ) (dList dLoc) l with
         | Some ((N, k, locs), []) => eList (fun a => eRes eLoc (rotate_loc N k a)) locs
         | _ => bad_input end
  | 2 => match dPair (dList (dPair dZ (dList dZ))) (dList dPc) l with
         | Some ((sup, cs), []) => eList ePc (remove_redundant sup cs)
         | _ => bad_input end
  | _ => bad_input
  end.
