(* C07 - property theorems only *)
From Coq Require Import Sorting.Permutation.
From ASV.C07 Require Import Model Proofs.

(* Rule order and sub-selection: in the per-gene loop of apply_cluster_rules every rule is
   evaluated on exactly the neighbourhood information of its own cutoff, whatever rules precede
   it - for every rule list, every information function and every detector. *)
Theorem C07_cache_transparent : forall (R I O : Type) (cutoff_of : R -> Z) (info : Z -> I) (detect : R -> I -> O) rules,
  eval_rules cutoff_of info detect [] rules = map (fun r => detect r (info (cutoff_of r))) rules.
Proof. exact @cache_transparent_nil. Qed.
Print Assumptions C07_cache_transparent.

Theorem C07_rule_order : forall (R I O : Type) (cutoff_of : R -> Z) (info : Z -> I) (detect : R -> I -> O) rules rules',
  Permutation rules rules' ->
  Permutation (combine rules (eval_rules cutoff_of info detect [] rules))
              (combine rules' (eval_rules cutoff_of info detect [] rules')).
Proof. exact @eval_rules_perm. Qed.
Print Assumptions C07_rule_order.

Theorem C07_rule_subselection : forall (R I O : Type) (cutoff_of : R -> Z) (info : Z -> I) (detect : R -> I -> O) rules r,
  In r rules -> In (r, detect r (info (cutoff_of r))) (combine rules (eval_rules cutoff_of info detect [] rules)).
Proof. exact @eval_rules_subselection. Qed.
Print Assumptions C07_rule_subselection.

(* The sanctioned cross-rule effect.  remove_redundant_protoclusters (transcribed with its
   flag/continue/break loops) keeps exactly the clusters for which no cluster of a superior rule
   contains the core or meets its range of core genes - a condition on the SET of clusters ... *)
Theorem C07_redundancy_spec : forall sup cs c,
  In c (remove_redundant sup cs) <->
  In c cs /\ ~ (exists o, In o cs /\ In (pc_rule o) (superiors_of sup (pc_rule c)) /\
                  (contains (pc_core o) (pc_core c) = true \/
                   (pc_first c <= pc_last o /\ pc_first o <= pc_last c))).
Proof. exact remove_redundant_spec. Qed.
Print Assumptions C07_redundancy_spec.

(* ... hence the surviving clusters do not depend on the order in which clusters (that is: rules,
   cluster_type_hits follows the rule list) are listed, and a rule without superiors keeps all
   of its clusters whatever other rules are in the ruleset *)
Theorem C07_redundancy_order : forall sup cs cs',
  Permutation cs cs' -> Permutation (remove_redundant sup cs) (remove_redundant sup cs').
Proof. exact remove_redundant_perm. Qed.
Print Assumptions C07_redundancy_order.

Theorem C07_redundancy_no_superiors : forall sup cs c,
  In c cs -> superiors_of sup (pc_rule c) = [] -> In c (remove_redundant sup cs).
Proof. exact remove_redundant_no_superiors. Qed.
Print Assumptions C07_redundancy_no_superiors.

(* non-vacuity: the chain low(2) < mid(1) < top(0) with the parser's closed SUPERIORS lists; mid
   overlaps top and covers low, top and low do not touch: only top survives, in both orders *)
Example C07_redundancy_chain_example :
  let sup := [(0, []); (1, [0]); (2, [0; 1])] in
  let top := mkPc 0 [mkPart 3200 3800 1] 1 1 in
  let mid := mkPc 1 [mkPart 2000 3800 1] 0 1 in
  let low := mkPc 2 [mkPart 2000 3000 1] 0 0 in
  remove_redundant sup [top; mid; low] = [top] /\ remove_redundant sup [low; mid; top] = [top].
Proof. split; vm_compute; reflexivity. Qed.

(* Rotation, primitive level (partial: parts that do not cross the new origin): distance between
   two parts is unchanged when both are moved by the same amount, on a line and on a ring of any
   length - hence "closer than the cutoff", and with C01_met the truth value of every rule
   condition, is the same in both frames.  The image of an area under rotation is
   C04_offset_simple_ring (same bases, rotated; same length and strand). *)
Theorem C07_rotation_distance_partial : forall k a b w, pdist (shiftp k a) (shiftp k b) w = pdist a b w.
Proof. exact pdist_shift. Qed.
Print Assumptions C07_rotation_distance_partial.

(* C07_rotation_primitives.  (a) overlap and containment of locations (any number of parts) are
   unchanged when every part moves by the same amount; *)
Theorem C07_rotation_overlap_contains_partial : forall k a b,
  overlap (shiftl k a) (shiftl k b) = overlap a b /\ contains (shiftl k a) (shiftl k b) = contains a b.
Proof. exact rotation_overlap_contains. Qed.
Print Assumptions C07_rotation_overlap_contains_partial.

(* (b) for every rotation 0 <= k < N of the origin and every two parts of the record that the new
   origin does not cut - including a pair that the new origin SEPARATES (one part moves by k, the
   other by k - N): overlap, containment and the ring distance are the same in both frames.  With
   C01_met ("closer than the cutoff" is all a rule condition sees of coordinates) and C03_chain
   (cores = components of the proximity graph) this is the rotation invariance of the proximity
   graph on uncut genes. *)
Theorem C07_rotation_ring_primitives : forall N k a b,
  0 <= k < N -> in_rec N a -> in_rec N b -> uncut N k a -> uncut N k b ->
  in_rec N (rotp N k a) /\
  part_overlap (rotp N k a) (rotp N k b) = part_overlap a b /\
  part_contains (rotp N k a) (rotp N k b) = part_contains a b /\
  pdist (rotp N k a) (rotp N k b) (Some N) = pdist a b (Some N) /\
  dist [rotp N k a] [rotp N k b] (Some N) = dist [a] [b] (Some N).
Proof. exact rotation_ring_primitives. Qed.
Print Assumptions C07_rotation_ring_primitives.

(* (c) connect_locations on a ring: single-part areas whose hull is at most half the record are
   connected into the same hull as on a line (no wrap is chosen), and connecting commutes with
   moving all of them by k (partial: the hull does not span the origin in either frame) *)
Theorem C07_rotation_connect_partial : forall locs N k,
  locs <> [] -> P4.simple_locs locs -> Forall P4.wf_loc locs -> 0 < N ->
  lmax (map lend locs) - lmin (map lstart locs) <= N / 2 ->
  connect_locations locs (Some N) = connect_locations locs None /\
  exists h, connect_locations locs (Some N) = Ok [h] /\
            connect_locations (map (shiftl k) locs) (Some N) = Ok [shiftp k h].
Proof. exact rotation_connect. Qed.
Print Assumptions C07_rotation_connect_partial.

(* (d) Record.extend_location on a circular record (cutoff window, neighbourhood) commutes with the
   move while the extension stays inside the record in both frames (partial: no wrap) *)
Theorem C07_rotation_extend_partial : forall p d N k,
  0 <= d -> ps p < pe p -> 0 <= ps p - d -> pe p + d <= N -> 0 <= ps p + k - d -> pe p + k + d <= N ->
  exists r, extend_location [p] d N true = Ok r /\ extend_location (shiftl k [p]) d N true = Ok (shiftl k r).
Proof. exact extend_shift_ring. Qed.
Print Assumptions C07_rotation_extend_partial.

(* C07_rotation_chain (partial: both origins lie outside the span of the rule's anchoring genes, so
   the change of frame moves every anchor by the same k): the sweep of find_protoclusters (model of
   C03) forms the same groups with the same members, moved by k - for every cutoff and every set
   of anchors.  With C03_chain_linear the groups are the maximal cutoff-chains in both frames.
   The origin-spanning paths (first/last core merge, merge_over_origin) are not modelled. *)
Theorem C07_rotation_chain_partial : forall N c k anchors,
  Forall (P3.wf N) anchors -> Forall (P3.wf N) (map (shifti k) anchors) ->
  M3.sweep N c (sort_by M3.itv_lt (map (shifti k) anchors))
  = map (shiftg k) (M3.sweep N c (sort_by M3.itv_lt anchors)).
Proof. exact sweep_shift. Qed.
Print Assumptions C07_rotation_chain_partial.

(* non-vacuity: a pair separated by the new origin (ring distance 15 in both frames, the line
   distance changes from 75 to 15); a chain moved by 5000; connect/extend away from the origin,
   and - outside the proved domain - an origin-spanning connect computed by the model *)
Example C07_rotation_examples :
  let a := mkPart 5 10 1 in let b := mkPart 90 95 1 in
  (in_rec 100 a /\ in_rec 100 b /\ uncut 100 10 a /\ uncut 100 10 b) /\
  rotp 100 10 a = mkPart 15 20 1 /\ rotp 100 10 b = mkPart 0 5 1 /\
  pdist a b (Some 100) = 10 /\ pdist (rotp 100 10 a) (rotp 100 10 b) (Some 100) = 10 /\
  pdist_line a b = 80 /\ pdist_line (rotp 100 10 a) (rotp 100 10 b) = 10.
Proof. cbv zeta. split; [unfold in_rec, uncut; cbn; lia|]. repeat split; vm_compute; reflexivity. Qed.

Example C07_rotation_chain_example :
  let anchors := [M3.mkItv 2099 2150; M3.mkItv 100 1100; M3.mkItv 9000 9100] in
  Forall (P3.wf 100000) anchors /\ Forall (P3.wf 100000) (map (shifti 5000) anchors) /\
  M3.sweep 100000 1000 (sort_by M3.itv_lt (map (shifti 5000) anchors))
  = [(14000, 14100, [M3.mkItv 14000 14100]); (5100, 7150, [M3.mkItv 7099 7150; M3.mkItv 5100 6100])].
Proof. cbv zeta. split; [repeat constructor; cbn; lia|]. split; [repeat constructor; cbn; lia|]. vm_compute. reflexivity. Qed.

Example C07_rotation_connect_extend_example :
  connect_locations [[mkPart 10 15 1]; [mkPart 22 25 1]] (Some 100) = Ok [mkPart 10 25 1] /\
  extend_location [mkPart 10 15 1] 5 100 true = Ok [mkPart 5 20 1] /\
  (* outside the proved domain (the result spans the origin), as computed by the model: *)
  connect_locations [[mkPart 90 95 1]; [mkPart 2 5 1]] (Some 100) = Ok [mkPart 90 100 1; mkPart 0 5 1] /\
  extend_location [mkPart 2 5 1] 5 100 true = Ok [mkPart 97 100 1; mkPart 0 10 1].
Proof. repeat split; vm_compute; reflexivity. Qed.

Example C07_rotate_example :
  rotate_loc 100 30 [mkPart 80 95 1] = Ok [mkPart 10 25 1] /\
  rotate_loc 100 30 [mkPart 60 95 1] = Ok [mkPart 90 100 1; mkPart 0 25 1].
Proof. split; vm_compute; reflexivity. Qed.
