(* C07 - property theorems only *)
From Coq Require Import Sorting.Permutation.
From ASV.C07 Require Import Model Proofs.

(* Rule order and sub-selection: in the per-gene loop of apply_cluster_rules every rule is
   evaluated on exactly the neighbourhood information of its own cutoff, whatever rules precede
   it - for every rule list, every information function and every detector. *)
Theorem C07_cache_transparent : forall (R I O : Type) (cutoff_of : R -> Z) (info : Z -> I) (detect : R -> I -> O) rules,
  eval_rules cutoff_of info detect [] rules = map (fun r => detect r (info (cutoff_of r))) rules.
Proof. intros. apply eval_rules_transparent. apply cache_ok_nil. Qed.
Print Assumptions C07_cache_transparent.

Theorem C07_rule_order : forall (R I O : Type) (cutoff_of : R -> Z) (info : Z -> I) (detect : R -> I -> O) rules rules',
  Permutation rules rules' ->
  Permutation (combine rules (eval_rules cutoff_of info detect [] rules))
              (combine rules' (eval_rules cutoff_of info detect [] rules')).
Proof. intros. apply eval_rules_perm. assumption. Qed.
Print Assumptions C07_rule_order.

Theorem C07_rule_subselection : forall (R I O : Type) (cutoff_of : R -> Z) (info : Z -> I) (detect : R -> I -> O) rules r,
  In r rules -> In (r, detect r (info (cutoff_of r))) (combine rules (eval_rules cutoff_of info detect [] rules)).
Proof. intros. apply eval_rules_subselection. assumption. Qed.
Print Assumptions C07_rule_subselection.

(* Rotation, primitive level (partial: parts that do not cross the new origin): distance between
   two parts is unchanged when both are moved by the same amount, on a line and on a ring of any
   length - hence "closer than the cutoff", and with C01_met the truth value of every rule
   condition, is the same in both frames.  The image of an area under rotation is
   C04_offset_simple_ring (same bases, rotated; same length and strand). *)
Theorem C07_rotation_distance_partial : forall k a b w, pdist (shiftp k a) (shiftp k b) w = pdist a b w.
Proof. exact pdist_shift. Qed.
Print Assumptions C07_rotation_distance_partial.

Example C07_rotate_example :
  rotate_loc 100 30 [mkPart 80 95 1] = Ok [mkPart 10 25 1] /\
  rotate_loc 100 30 [mkPart 60 95 1] = Ok [mkPart 90 100 1; mkPart 0 25 1].
Proof. split; vm_compute; reflexivity. Qed.
