(* C07 - property theorems only *)
From Coq Require Import Sorting.Permutation.
From ASV.C07 Require Import Model Proofs.

(* Rule order and sub-selection: in the per-gene loop of apply_cluster_rules every rule is
   evaluated on exactly the neighbourhood information of its own cutoff, whatever rules precede
   it - for every rule list, every information function and every detector. *)
Theorem C07_cache_transparent : forall (R I O : Type) (cutoff_of : R -> Z) (info : Z -> I) (detect : R -> I -> O) rules,
  eval_rules cutoff_of info detect [] rules = map (fun r => detect r (info (cutoff_of r))) rules.
Proof. exact @cache_transparent_nil. Qed.
Print Assumptions C07_cache_transparent.

Theorem C07_rule_order : forall (R I O : Type) (cutoff_of : R -> Z) (info : Z -> I) (detect : R -> I -> O) rules rules',
  Permutation rules rules' ->
  Permutation (combine rules (eval_rules cutoff_of info detect [] rules))
              (combine rules' (eval_rules cutoff_of info detect [] rules')).
Proof. exact @eval_rules_perm. Qed.
Print Assumptions C07_rule_order.

Theorem C07_rule_subselection : forall (R I O : Type) (cutoff_of : R -> Z) (info : Z -> I) (detect : R -> I -> O) rules r,
  In r rules -> In (r, detect r (info (cutoff_of r))) (combine rules (eval_rules cutoff_of info detect [] rules)).
Proof. exact @eval_rules_subselection. Qed.
Print Assumptions C07_rule_subselection.

(* The sanctioned cross-rule effect.  remove_redundant_protoclusters (transcribed with its
   flag/continue/break loops) keeps exactly the clusters for which no cluster of a superior rule
   contains the core or meets its range of core genes - a condition on the SET of clusters ... *)
Theorem C07_redundancy_spec : forall sup cs c,
  In c (remove_redundant sup cs) <->
  In c cs /\ ~ (exists o, In o cs /\ In (pc_rule o) (superiors_of sup (pc_rule c)) /\
                  (contains (pc_core o) (pc_core c) = true \/
                   (pc_first c <= pc_last o /\ pc_first o <= pc_last c))).
Proof. exact remove_redundant_spec. Qed.
Print Assumptions C07_redundancy_spec.

(* ... hence the surviving clusters do not depend on the order in which clusters (that is: rules,
   cluster_type_hits follows the rule list) are listed, and a rule without superiors keeps all
   of its clusters whatever other rules are in the ruleset *)
Theorem C07_redundancy_order : forall sup cs cs',
  Permutation cs cs' -> Permutation (remove_redundant sup cs) (remove_redundant sup cs').
Proof. exact remove_redundant_perm. Qed.
Print Assumptions C07_redundancy_order.

Theorem C07_redundancy_no_superiors : forall sup cs c,
  In c cs -> superiors_of sup (pc_rule c) = [] -> In c (remove_redundant sup cs).
Proof. exact remove_redundant_no_superiors. Qed.
Print Assumptions C07_redundancy_no_superiors.

(* non-vacuity: the chain low(2) < mid(1) < top(0) with the parser's closed SUPERIORS lists; mid
   overlaps top and covers low, top and low do not touch: only top survives, in both orders *)
Example C07_redundancy_chain_example :
  let sup := [(0, []); (1, [0]); (2, [0; 1])] in
  let top := mkPc 0 [mkPart 3200 3800 1] 1 1 in
  let mid := mkPc 1 [mkPart 2000 3800 1] 0 1 in
  let low := mkPc 2 [mkPart 2000 3000 1] 0 0 in
  remove_redundant sup [top; mid; low] = [top] /\ remove_redundant sup [low; mid; top] = [top].
Proof. split; vm_compute; reflexivity. Qed.

(* Rotation, primitive level (partial: parts that do not cross the new origin): distance between
   two parts is unchanged when both are moved by the same amount, on a line and on a ring of any
   length - hence "closer than the cutoff", and with C01_met the truth value of every rule
   condition, is the same in both frames.  The image of an area under rotation is
   C04_offset_simple_ring (same bases, rotated; same length and strand). *)
Theorem C07_rotation_distance_partial : forall k a b w, pdist (shiftp k a) (shiftp k b) w = pdist a b w.
Proof. exact pdist_shift. Qed.
Print Assumptions C07_rotation_distance_partial.

(* C07_rotation_primitives.  (a) overlap and containment of locations (any number of parts) are
   unchanged when every part moves by the same amount; *)
Theorem C07_rotation_overlap_contains_partial : forall k a b,
  overlap (shiftl k a) (shiftl k b) = overlap a b /\ contains (shiftl k a) (shiftl k b) = contains a b.
Proof. exact rotation_overlap_contains. Qed.
Print Assumptions C07_rotation_overlap_contains_partial.

(* (b) for every rotation 0 <= k < N of the origin and every two parts of the record that the new
   origin does not cut - including a pair that the new origin SEPARATES (one part moves by k, the
   other by k - N): overlap, containment and the ring distance are the same in both frames.  With
   C01_met ("closer than the cutoff" is all a rule condition sees of coordinates) and C03_chain
   (cores = components of the proximity graph) this is the rotation invariance of the proximity
   graph on uncut genes. *)
Theorem C07_rotation_ring_primitives : forall N k a b,
  0 <= k < N -> in_rec N a -> in_rec N b -> uncut N k a -> uncut N k b ->
  in_rec N (rotp N k a) /\
  part_overlap (rotp N k a) (rotp N k b) = part_overlap a b /\
  part_contains (rotp N k a) (rotp N k b) = part_contains a b /\
  pdist (rotp N k a) (rotp N k b) (Some N) = pdist a b (Some N) /\
  dist [rotp N k a] [rotp N k b] (Some N) = dist [a] [b] (Some N).
Proof. exact rotation_ring_primitives. Qed.
Print Assumptions C07_rotation_ring_primitives.

(* (c) connect_locations on a ring: single-part areas whose hull is at most half the record are
   connected into the same hull as on a line (no wrap is chosen), and connecting commutes with
   moving all of them by k (partial: the hull does not span the origin in either frame) *)
Theorem C07_rotation_connect_partial : forall locs N k,
  locs <> [] -> P4.simple_locs locs -> Forall P4.wf_loc locs -> 0 < N ->
  lmax (map lend locs) - lmin (map lstart locs) <= N / 2 ->
  connect_locations locs (Some N) = connect_locations locs None /\
  exists h, connect_locations locs (Some N) = Ok [h] /\
            connect_locations (map (shiftl k) locs) (Some N) = Ok [shiftp k h].
Proof. exact rotation_connect. Qed.
Print Assumptions C07_rotation_connect_partial.

(* (d) Record.extend_location on a circular record (cutoff window, neighbourhood) commutes with the
   move while the extension stays inside the record in both frames (partial: no wrap) *)
Theorem C07_rotation_extend_partial : forall p d N k,
  0 <= d -> ps p < pe p -> 0 <= ps p - d -> pe p + d <= N -> 0 <= ps p + k - d -> pe p + k + d <= N ->
  exists r, extend_location [p] d N true = Ok r /\ extend_location (shiftl k [p]) d N true = Ok (shiftl k r).
Proof. exact extend_shift_ring. Qed.
Print Assumptions C07_rotation_extend_partial.

(* C07_rotation_chain (partial: both origins lie outside the span of the rule's anchoring genes, so
   the change of frame moves every anchor by the same k): the sweep of find_protoclusters (model of
   C03) forms the same groups with the same members, moved by k - for every cutoff and every set
   of anchors.  With C03_chain_linear the groups are the maximal cutoff-chains in both frames.
   The origin-spanning paths (first/last core merge, merge_over_origin) are not modelled. *)
Theorem C07_rotation_chain_partial : forall N c k anchors,
  Forall (P3.wf N) anchors -> Forall (P3.wf N) (map (shifti k) anchors) ->
  M3.sweep N c (sort_by M3.itv_lt (map (shifti k) anchors))
  = map (shiftg k) (M3.sweep N c (sort_by M3.itv_lt anchors)).
Proof. exact sweep_shift. Qed.
Print Assumptions C07_rotation_chain_partial.

(* non-vacuity: a pair separated by the new origin (ring distance 15 in both frames, the line
   distance changes from 75 to 15); a chain moved by 5000; connect/extend away from the origin,
   and - outside the proved domain - an origin-spanning connect computed by the model *)
Example C07_rotation_examples :
  let a := mkPart 5 10 1 in let b := mkPart 90 95 1 in
  (in_rec 100 a /\ in_rec 100 b /\ uncut 100 10 a /\ uncut 100 10 b) /\
  rotp 100 10 a = mkPart 15 20 1 /\ rotp 100 10 b = mkPart 0 5 1 /\
  pdist a b (Some 100) = 10 /\ pdist (rotp 100 10 a) (rotp 100 10 b) (Some 100) = 10 /\
  pdist_line a b = 80 /\ pdist_line (rotp 100 10 a) (rotp 100 10 b) = 10.
Proof. cbv zeta. split; [unfold in_rec, uncut; cbn; lia|]. repeat split; vm_compute; reflexivity. Qed.

Example C07_rotation_chain_example :
  let anchors := [M3.mkItv 2099 2150; M3.mkItv 100 1100; M3.mkItv 9000 9100] in
  Forall (P3.wf 100000) anchors /\ Forall (P3.wf 100000) (map (shifti 5000) anchors) /\
  M3.sweep 100000 1000 (sort_by M3.itv_lt (map (shifti 5000) anchors))
  = [(14000, 14100, [M3.mkItv 14000 14100]); (5100, 7150, [M3.mkItv 7099 7150; M3.mkItv 5100 6100])].
Proof. cbv zeta. split; [repeat constructor; cbn; lia|]. split; [repeat constructor; cbn; lia|]. vm_compute. reflexivity. Qed.

Example C07_rotation_connect_extend_example :
  connect_locations [[mkPart 10 15 1]; [mkPart 22 25 1]] (Some 100) = Ok [mkPart 10 25 1] /\
  extend_location [mkPart 10 15 1] 5 100 true = Ok [mkPart 5 20 1] /\
  (* outside the proved domain (the result spans the origin), as computed by the model: *)
  connect_locations [[mkPart 90 95 1]; [mkPart 2 5 1]] (Some 100) = Ok [mkPart 90 100 1; mkPart 0 5 1] /\
  extend_location [mkPart 2 5 1] 5 100 true = Ok [mkPart 97 100 1; mkPart 0 10 1].
Proof. repeat split; vm_compute; reflexivity. Qed.

Example C07_rotate_example :
  rotate_loc 100 30 [mkPart 80 95 1] = Ok [mkPart 10 25 1] /\
  rotate_loc 100 30 [mkPart 60 95 1] = Ok [mkPart 90 100 1; mkPart 0 25 1].
Proof. split; vm_compute; reflexivity. Qed.

(* ---------- get_ruleset: the rulesets handed out do not depend on the history of calls ----------
   hmm_detection.get_ruleset caches the rulesets it builds; Ruleset.__post_init__ (as repaired for
   C07-K2) scales COPIES of the rule objects it is given and remembers the objects as given,
   copy_with_replacements hands those on; the model (Model.v: object store, parse_rules, post_init,
   from_files, copy_with_replacements, get_ruleset) keeps the sharing that is left.  For every list
   of rule files without duplicate rule names and EVERY
   sequence of calls in one process (any strictness, name and category selections, taxon,
   multipliers), every call that returns gives a ruleset that holds - read after the LAST call of
   the sequence, so no later call has touched it - exactly the rules its own request selects, in
   file order, each with cutoff/neighbourhood = int(written distance * its own multiplier); a call
   raises (ValueError) only for a non-positive multiplier.  Invariant behind it: no constructor
   changes an object that exists already. *)
Theorem C07_get_ruleset_history_independent : forall files qs st outs,
  (forall s, NoDup (map r_name (rule_files files s))) ->
  run_requests files init_state qs = (st, outs) ->
  Forall2 (fun q o => match o with
                      | Ok rs => deref (st_heap st) (rs_rules rs) = expected_rules files q /\ rs_mults rs = effective q
                      | Err e => e = E_Value /\ mults_valid (effective q) = false
                      end) qs outs.
Proof. exact get_ruleset_history. Qed.
Print Assumptions C07_get_ruleset_history_independent.

(* selection by names / categories (as get_ruleset does it) commutes with rule evaluation: the
   results of the selected, scaled rules are the results the same rules have in the unrestricted
   ruleset of the same multipliers - for every information function and detector *)
Theorem C07_selection_then_detection : forall (I O : Type) (info : Z -> I) (detect : rule -> I -> O) files q,
  let full := map (scale_rule (effective q)) (rule_files files (q_strict q)) in
  combine (expected_rules files q) (eval_rules r_cutoff info detect [] (expected_rules files q))
  = filter (fun x => selected (q_names q) (q_cats q) (fst x)) (combine full (eval_rules r_cutoff info detect [] full)).
Proof. exact @selection_then_detection. Qed.
Print Assumptions C07_selection_then_detection.

(* ... and with the removal of covered clusters, "modulo SUPERIORS": if the selection contains the
   superiors of the rules it contains, removing on the selected clusters = selecting the kept ones *)
Theorem C07_subselection_superiors_closed : forall sup cs (p : Z -> bool),
  (forall c o, In c cs -> In o cs -> p (pc_rule c) = true ->
               In (pc_rule o) (superiors_of sup (pc_rule c)) -> p (pc_rule o) = true) ->
  remove_redundant sup (filter (fun c => p (pc_rule c)) cs) = filter (fun c => p (pc_rule c)) (remove_redundant sup cs).
Proof. exact remove_redundant_subselection. Qed.
Print Assumptions C07_subselection_superiors_closed.

(* in general a sub-selection keeps every cluster of a selected rule that the full ruleset keeps,
   and whatever it keeps in addition is covered by a cluster of a superior rule left out *)
Theorem C07_subselection_keeps_more : forall sup cs (p : Z -> bool) c,
  (In c (filter (fun c => p (pc_rule c)) (remove_redundant sup cs)) ->
   In c (remove_redundant sup (filter (fun c => p (pc_rule c)) cs))) /\
  (In c (remove_redundant sup (filter (fun c => p (pc_rule c)) cs)) -> ~ In c (remove_redundant sup cs) ->
   exists o, In o cs /\ p (pc_rule o) = false /\ In (pc_rule o) (superiors_of sup (pc_rule c)) /\
             (contains (pc_core o) (pc_core c) = true \/ (pc_first c <= pc_last o /\ pc_first o <= pc_last c))).
Proof. exact remove_redundant_subselection_more. Qed.
Print Assumptions C07_subselection_keeps_more.

(* non-vacuity: two rule files (terpene-like rule 7: 20000/10000, category 1; rule 8: 5000/20000,
   category 2; rule 9 in the second file), fungal multipliers 1 and 3/2: full ruleset, then the
   selection {7}, then the category 2 with other multipliers, then the full ruleset again (a cache
   hit).  Every answer, read at the end, is what its own request asks for. *)
Example C07_get_ruleset_example :
  let files := [[mkRule 7 1 20000 10000; mkRule 8 2 5000 20000]; [mkRule 9 2 10000 10000]] in
  let fungal := mkMults (1, 1) (3, 2) in
  let qs := [mkReq 1 [] [] true fungal; mkReq 1 [7] [] true fungal; mkReq 0 [] [2] true (mkMults (5, 2) (1, 2));
             mkReq 1 [] [] true fungal; mkReq 1 [7] [] false fungal] in
  (forall s, NoDup (map r_name (rule_files files s))) /\
  observe files qs =
    [5; 0; 0; 3; 7; 1; 20000; 15000; 8; 2; 5000; 30000; 9; 2; 10000; 15000;
        0; 1; 1; 7; 1; 20000; 15000;
        0; 2; 1; 8; 2; 12500; 10000;
        0; 0; 3; 7; 1; 20000; 15000; 8; 2; 5000; 30000; 9; 2; 10000; 15000;
        0; 3; 1; 7; 1; 20000; 10000].
Proof.
  cbv zeta. split; [|vm_compute; reflexivity].
  intros s. unfold rule_files. destruct (Z.to_nat s) as [|[|n]]; cbn; repeat constructor; cbn; intuition discriminate.
Qed.

(* Finding C07-K2 ruleset_copy_rescales_shared_rules (REPAIRED): the statement "a ruleset holds the
   distances it was given * its own multipliers, whatever else is built from it" now holds for the
   public constructors outside get_ruleset too (before the repair both statements below were
   refuted: a copy of the fungal ruleset turned the terpene neighbourhood 15000 of the ORIGINAL
   into 22500, and from_files(multipliers=m) applied m twice).
   (a) After any history of get_ruleset calls, copying ANY ruleset handed out - any sub-selection
   by names, any multipliers - gives a ruleset with that selection of the written rules times ITS
   multipliers, and every ruleset handed out still holds what its own request asks for. *)
Theorem C07_ruleset_copy_history_independent : forall files qs st outs,
  (forall s, NoDup (map r_name (rule_files files s))) ->
  run_requests files init_state qs = (st, outs) ->
  forall q rs names m, In (q, Ok rs) (combine qs outs) ->
  exists h' rs',
    copy_with_replacements rs (named_refs (st_heap st) names (rs_rules rs)) m (st_heap st) = Ok (h', rs') /\
    deref h' (rs_rules rs') = map (scale_rule m) (named_rules names (select (q_names q) (q_cats q) (rule_files files (q_strict q)))) /\
    rs_mults rs' = m /\
    Forall2 (fun q o => match o with
                        | Ok rs => deref h' (rs_rules rs) = expected_rules files q /\ rs_mults rs = effective q
                        | Err e => e = E_Value /\ mults_valid (effective q) = false
                        end) qs outs.
Proof. exact ruleset_copy_history. Qed.
Print Assumptions C07_ruleset_copy_history_independent.

(* (b) Ruleset.from_files(..., multipliers=m), from any state of the object store: the rules of the
   files times m, once - and no existing object changes *)
Theorem C07_from_files_multipliers_once : forall base m h, NoDup (map r_name base) ->
  exists h' rs, from_files base m h = Ok (h', rs) /\ deref h' (rs_rules rs) = map (scale_rule m) base /\ rs_mults rs = m /\
                forall j, (j < h_next h)%nat -> h_get h' j = h_get h j.
Proof. exact from_files_scales_once. Qed.
Print Assumptions C07_from_files_multipliers_once.

(* (c) the constructor itself over rule objects that somebody else holds (another ruleset, the
   caller's list): the new ruleset holds those rules times its multipliers on objects of its own,
   and every object that existed - so every other holder's view - is unchanged *)
Theorem C07_ruleset_constructor_shared_objects : forall refs m h, (forall i, In i refs -> (i < h_next h)%nat) ->
  NoDup (map r_name (deref h refs)) ->
  exists h' rs, ruleset_init refs m h = Ok (h', rs) /\ deref h' (rs_rules rs) = map (scale_rule m) (deref h refs) /\
                rs_mults rs = m /\ forall j, (j < h_next h)%nat -> h_get h' j = h_get h j.
Proof. exact ruleset_init_shared. Qed.
Print Assumptions C07_ruleset_constructor_shared_objects.

(* (d) EVERY sequence of from_files / copy_with_replacements / Ruleset(...) calls (the sequences
   family (D) of the harness runs on the real constructors): read after the last call, every
   ruleset made holds the rules [api_spec] lists for it - for from_files and everything copied
   from it, the selected rules of the files as WRITTEN - times its own multipliers; the only
   error is a reference to a ruleset that was not made *)
Theorem C07_constructors_history_independent : forall files ops h made,
  (forall s, NoDup (map r_name (rule_files files s))) ->
  run_api files (st_heap init_state) [] ops = (h, made) ->
  Forall2 (fun o s => match o, s with
                      | Ok rs, Some (w, m) => deref h (rs_rules rs) = map (scale_rule m) w /\ rs_mults rs = m
                      | Err e, None => e = E_Index
                      | _, _ => False
                      end) made (api_spec files [] ops).
Proof. exact constructors_history. Qed.
Print Assumptions C07_constructors_history_independent.

(* non-vacuity, and the witnesses of the repaired finding as regression examples: from_files with
   1 and 3/2 gives 15000 (was 22500); a copy with the same multipliers gives 15000 again and leaves
   the first at 15000 (was 22500 / 22500); a copy of the copy with 2 and 2 gives 40000/20000; the
   bare constructor over the objects of the first with 2 and 2 scales what it is given: 40000/30000 *)
Example C07_constructors_example :
  let files := [[mkRule 7 1 20000 10000; mkRule 8 2 5000 20000]] in
  let fungal := mkMults (1, 1) (3, 2) in
  let ops := [OpFromFiles 0 fungal; OpCopy 0 [7] true unit_mults; OpCopy 1 [] false (mkMults (2, 1) (2, 1));
              OpInit 0 [7] (mkMults (2, 1) (2, 1)); OpCopy 7 [] true unit_mults] in
  api_spec files [] ops =
    [Some (rule_files files 0, fungal); Some ([mkRule 7 1 20000 10000], fungal);
     Some ([mkRule 7 1 20000 10000], mkMults (2, 1) (2, 1)); Some ([mkRule 7 1 20000 15000], mkMults (2, 1) (2, 1)); None] /\
  observe_api files ops =
    [5; 0; 1; 1; 3; 2; 2; 7; 1; 20000; 15000; 8; 2; 5000; 30000;
        0; 1; 1; 3; 2; 1; 7; 1; 20000; 15000;
        0; 2; 1; 2; 1; 1; 7; 1; 40000; 20000;
        0; 2; 1; 2; 1; 1; 7; 1; 40000; 30000;
        1; E_Index].
Proof. split; vm_compute; reflexivity. Qed.

(* the cache itself: asking again for what was just answered returns the same ruleset and leaves
   the state (cache and rule objects) as it is *)
Theorem C07_get_ruleset_repeat : forall files st q st' rs,
  get_ruleset files st q = Ok (st', rs) -> get_ruleset files st' q = Ok (st', rs).
Proof. exact get_ruleset_repeat. Qed.
Print Assumptions C07_get_ruleset_repeat.

(* the rules a request must give depend only on WHICH names and categories it lists, not on the
   order they are listed in (the cache key does: tuple(set(...)) - a different order is at worst a
   cache miss, and by C07_get_ruleset_history_independent the rebuilt ruleset holds the same rules) *)
Theorem C07_selection_order : forall files s ns ns' cs cs' f m, Permutation ns ns' -> Permutation cs cs' ->
  expected_rules files (mkReq s ns cs f m) = expected_rules files (mkReq s ns' cs' f m).
Proof. exact expected_rules_perm. Qed.
Print Assumptions C07_selection_order.
