(* C07 proofs *)
From Coq Require Import Lia ZifyBool Sorting.Permutation.
From ASV.C07 Require Import Model.

Section Cache.
Context {R I O : Type}.
Variable cutoff_of : R -> Z.
Variable info : Z -> I.
Variable detect : R -> I -> O.

Definition cache_ok (cache : list (Z * I)) : Prop := forall k v, lookup k cache = Some v -> v = info k.

(* with the cache every rule is evaluated on exactly the information computed for its own cutoff *)
Lemma eval_rules_transparent : forall rules cache, cache_ok cache ->
  eval_rules cutoff_of info detect cache rules = map (fun r => detect r (info (cutoff_of r))) rules.
Proof.
  induction rules as [|r rest IH]; intros cache Hok; cbn [eval_rules map]; [reflexivity|].
  destruct (lookup (cutoff_of r) cache) as [v|] eqn:Hl.
  - rewrite (Hok _ _ Hl). f_equal. apply IH. exact Hok.
  - f_equal. apply IH. intros k v. cbn [lookup]. destruct (k =? cutoff_of r) eqn:Hk.
    + intros Hs. inversion Hs; subst. f_equal. lia.
    + apply Hok.
Qed.

Lemma cache_ok_nil : cache_ok [].
Proof. intros k v H. discriminate. Qed.

(* so the result of a rule does not depend on which other rules are evaluated, nor in which order *)
Lemma eval_rules_perm rules rules' :
  Permutation rules rules' ->
  Permutation (combine rules (eval_rules cutoff_of info detect [] rules))
              (combine rules' (eval_rules cutoff_of info detect [] rules')).
Proof.
  intros Hp. rewrite !eval_rules_transparent by apply cache_ok_nil.
  assert (Hc : forall l, combine l (map (fun r => detect r (info (cutoff_of r))) l)
                         = map (fun r => (r, detect r (info (cutoff_of r)))) l).
  { induction l as [|x l IH]; cbn; [reflexivity|]. rewrite IH. reflexivity. }
  rewrite !Hc. apply Permutation_map. exact Hp.
Qed.

Lemma eval_rules_subselection rules r :
  In r rules -> In (r, detect r (info (cutoff_of r))) (combine rules (eval_rules cutoff_of info detect [] rules)).
Proof.
  intros Hin. rewrite eval_rules_transparent by apply cache_ok_nil.
  induction rules as [|x l IH]; [destruct Hin|]. cbn. destruct Hin as [->|Hin]; [left; reflexivity|right; apply IH; exact Hin].
Qed.
End Cache.

(* rotation: the distance between two parts depends only on coordinate differences, so moving
   both by the same amount (no part crossing the new origin) leaves it unchanged, on a line and
   on a ring of any length *)
Definition shiftp (k : Z) (p : part) : part := mkPart (ps p + k) (pe p + k) (pst p).

Lemma part_overlap_shift k a b : part_overlap (shiftp k a) (shiftp k b) = part_overlap a b.
Proof. unfold part_overlap, in_part, shiftp. cbn [ps pe]. lia. Qed.

Lemma pdist_line_shift k a b : pdist_line (shiftp k a) (shiftp k b) = pdist_line a b.
Proof.
  unfold pdist_line. rewrite part_overlap_shift. destruct (part_overlap a b); [reflexivity|].
  unfold shiftp. cbn [ps pe].
  replace (ps a + k - (pe b + k)) with (ps a - pe b) by lia.
  replace (pe a + k - (ps b + k)) with (pe a - ps b) by lia.
  replace (ps b + k - (pe a + k)) with (ps b - pe a) by lia.
  replace (pe b + k - (ps a + k)) with (pe b - ps a) by lia.
  reflexivity.
Qed.

Lemma pdist_shift k a b w : pdist (shiftp k a) (shiftp k b) w = pdist a b w.
Proof.
  unfold pdist. rewrite part_overlap_shift, pdist_line_shift. destruct (part_overlap a b); [reflexivity|].
  destruct w as [w|]; [|reflexivity]. destruct (w =? 0); [reflexivity|].
  unfold shiftp. cbn [ps pe].
  replace (ps a + k - (pe b + k) + w) with (ps a - pe b + w) by lia.
  replace (pe a + k - (ps b + k) + w) with (pe a - ps b + w) by lia.
  replace (ps b + k - (pe a + k) + w) with (ps b - pe a + w) by lia.
  replace (pe b + k - (ps a + k) + w) with (pe b - ps a + w) by lia.
  reflexivity.
Qed.
