(* C07 proofs *)
From Coq Require Import Lia ZifyBool Sorting.Permutation.
From ASV.C07 Require Import Model.
From ASV.C04 Require Proofs.
From ASV.C03 Require Model Proofs.

Section Cache.
Context {R I O : Type}.
Variable cutoff_of : R -> Z.
Variable info : Z -> I.
Variable detect : R -> I -> O.

Definition cache_ok (cache : list (Z * I)) : Prop := forall k v, lookup k cache = Some v -> v = info k.

(* with the cache every rule is evaluated on exactly the information computed for its own cutoff *)
Lemma eval_rules_transparent : forall rules cache, cache_ok cache ->
  eval_rules cutoff_of info detect cache rules = map (fun r => detect r (info (cutoff_of r))) rules.
Proof.
  induction rules as [|r rest IH]; intros cache Hok; cbn [eval_rules map]; [reflexivity|].
  destruct (lookup (cutoff_of r) cache) as [v|] eqn:Hl.
  - rewrite (Hok _ _ Hl). f_equal. apply IH. exact Hok.
  - f_equal. apply IH. intros k v. cbn [lookup]. destruct (k =? cutoff_of r) eqn:Hk.
    + intros Hs. inversion Hs; subst. f_equal. lia.
    + apply Hok.
Qed.

Lemma cache_ok_nil : cache_ok [].
Proof. intros k v H. discriminate. Qed.

(* so the result of a rule does not depend on which other rules are evaluated, nor in which order *)
Lemma eval_rules_perm rules rules' :
  Permutation rules rules' ->
  Permutation (combine rules (eval_rules cutoff_of info detect [] rules))
              (combine rules' (eval_rules cutoff_of info detect [] rules')).
Proof.
  intros Hp. rewrite !eval_rules_transparent by apply cache_ok_nil.
  assert (Hc : forall l, combine l (map (fun r => detect r (info (cutoff_of r))) l)
                         = map (fun r => (r, detect r (info (cutoff_of r)))) l).
  { induction l as [|x l IH]; cbn; [reflexivity|]. rewrite IH. reflexivity. }
  rewrite !Hc. apply Permutation_map. exact Hp.
Qed.

Lemma eval_rules_subselection rules r :
  In r rules -> In (r, detect r (info (cutoff_of r))) (combine rules (eval_rules cutoff_of info detect [] rules)).
Proof.
  intros Hin. rewrite eval_rules_transparent by apply cache_ok_nil.
  induction rules as [|x l IH]; [destruct Hin|]. cbn. destruct Hin as [->|Hin]; [left; reflexivity|right; apply IH; exact Hin].
Qed.
End Cache.

(* rotation: the distance between two parts depends only on coordinate differences, so moving
   both by the same amount (no part crossing the new origin) leaves it unchanged, on a line and
   on a ring of any length *)
Definition shiftp (k : Z) (p : part) : part := mkPart (ps p + k) (pe p + k) (pst p).

Lemma part_overlap_shift k a b : part_overlap (shiftp k a) (shiftp k b) = part_overlap a b.
Proof. unfold part_overlap, in_part, shiftp. cbn [ps pe]. lia. Qed.

Lemma pdist_line_shift k a b : pdist_line (shiftp k a) (shiftp k b) = pdist_line a b.
Proof.
  unfold pdist_line. rewrite part_overlap_shift. destruct (part_overlap a b); [reflexivity|].
  unfold shiftp. cbn [ps pe].
  replace (ps a + k - (pe b + k)) with (ps a - pe b) by lia.
  replace (pe a + k - (ps b + k)) with (pe a - ps b) by lia.
  replace (ps b + k - (pe a + k)) with (ps b - pe a) by lia.
  replace (pe b + k - (ps a + k)) with (pe b - ps a) by lia.
  reflexivity.
Qed.

Lemma pdist_shift k a b w : pdist (shiftp k a) (shiftp k b) w = pdist a b w.
Proof.
  unfold pdist. rewrite part_overlap_shift, pdist_line_shift. destruct (part_overlap a b); [reflexivity|].
  destruct w as [w|]; [|reflexivity]. destruct (w =? 0); [reflexivity|].
  unfold shiftp. cbn [ps pe].
  replace (ps a + k - (pe b + k) + w) with (ps a - pe b + w) by lia.
  replace (pe a + k - (ps b + k) + w) with (pe a - ps b + w) by lia.
  replace (ps b + k - (pe a + k) + w) with (ps b - pe a + w) by lia.
  replace (pe b + k - (ps a + k) + w) with (pe b - ps a + w) by lia.
  reflexivity.
Qed.

(* ---------- remove_redundant_protoclusters ---------- *)
(* the CDS ranges of the two cores meet: neither lies wholly before the other *)
Definition cds_ranges_meet (o c : pc) : Prop := pc_first c <= pc_last o /\ pc_first o <= pc_last c.
(* "a superior covering the same (or larger) region" *)
Definition covers (o c : pc) : Prop := contains (pc_core o) (pc_core c) = true \/ cds_ranges_meet o c.
Definition coversb (o c : pc) : bool :=
  contains (pc_core o) (pc_core c) || (negb (pc_last o <? pc_first c) && negb (pc_last c <? pc_first o)).

Lemma coversb_spec o c : coversb o c = true <-> covers o c.
Proof. unfold coversb, covers, cds_ranges_meet. destruct (contains (pc_core o) (pc_core c)); cbn; [tauto|]. split; [intros H; right; lia|intros [H|H]; [discriminate|lia]]. Qed.

Lemma redundant_inner_spec c : forall others flag,
  redundant_inner c others flag = flag || existsb (fun o => coversb o c) others.
Proof.
  induction others as [|o rest IH]; intros flag; cbn [redundant_inner existsb].
  - rewrite orb_false_r. reflexivity.
  - unfold coversb at 1. destruct (contains (pc_core o) (pc_core c)); cbn [orb].
    + rewrite IH. cbn. rewrite orb_true_r. reflexivity.
    + destruct (pc_last o <? pc_first c); cbn [negb andb orb]; [apply IH|].
      destruct (pc_last c <? pc_first o); cbn [negb andb orb]; [apply IH|]. rewrite orb_true_r. reflexivity.
Qed.

Lemma redundant_outer_spec c by_rule : forall sups,
  redundant_outer c sups by_rule = existsb (fun s => existsb (fun o => coversb o c) (by_rule s)) sups.
Proof.
  induction sups as [|s rest IH]; cbn [redundant_outer existsb]; [reflexivity|].
  rewrite redundant_inner_spec. cbn [orb]. destruct (existsb (fun o => coversb o c) (by_rule s)); cbn [orb]; [reflexivity|apply IH].
Qed.

(* the order-free meaning of the removal: some cluster of a superior rule covers this one *)
Definition redundant (sup : list (Z * list Z)) (cs : list pc) (c : pc) : Prop :=
  exists o, In o cs /\ In (pc_rule o) (superiors_of sup (pc_rule c)) /\ covers o c.

Lemma redundant_iff sup cs c :
  redundant_outer c (superiors_of sup (pc_rule c)) (clusters_by_rule cs) = true <-> redundant sup cs c.
Proof.
  rewrite redundant_outer_spec, existsb_exists. unfold redundant, clusters_by_rule. split.
  - intros (s & Hs & Hex). apply existsb_exists in Hex. destruct Hex as (o & Ho & Hc).
    apply filter_In in Ho. destruct Ho as [Ho Hr]. exists o. split; [exact Ho|]. split.
    + replace (pc_rule o) with s by lia. exact Hs.
    + apply coversb_spec. exact Hc.
  - intros (o & Ho & Hs & Hc). exists (pc_rule o). split; [exact Hs|]. apply existsb_exists. exists o. split.
    + apply filter_In. split; [exact Ho|lia].
    + apply coversb_spec. exact Hc.
Qed.

Lemma remove_redundant_spec sup cs c :
  In c (remove_redundant sup cs) <-> In c cs /\ ~ redundant sup cs c.
Proof.
  unfold remove_redundant. rewrite filter_In, negb_true_iff, <- redundant_iff.
  destruct (redundant_outer c (superiors_of sup (pc_rule c)) (clusters_by_rule cs)); split; intros [H1 H2]; split; auto; try discriminate.
  exfalso. apply H2. reflexivity.
Qed.

Lemma perm_filter {A} (f : A -> bool) l l' : Permutation l l' -> Permutation (filter f l) (filter f l').
Proof.
  induction 1 as [|x l l' Hp IH|x y l|l l' l'' H1 IH1 H2 IH2]; cbn.
  - constructor.
  - destruct (f x); [constructor|]; exact IH.
  - destruct (f x), (f y); try apply Permutation_refl. apply perm_swap.
  - eapply Permutation_trans; eassumption.
Qed.

Lemma filter_ext_in' {A} (f g : A -> bool) l : (forall a, In a l -> f a = g a) -> filter f l = filter g l.
Proof.
  induction l as [|x l IH]; intros H; cbn; [reflexivity|].
  rewrite (H x (or_introl eq_refl)), IH; [reflexivity|]. intros a Ha. apply H. right. exact Ha.
Qed.

Lemma redundant_perm sup cs cs' c : Permutation cs cs' -> redundant sup cs c -> redundant sup cs' c.
Proof. intros Hp (o & Ho & H). exists o. split; [eapply Permutation_in; eassumption|exact H]. Qed.

(* the kept clusters do not depend on the order in which the clusters (hence the rules) are listed *)
Lemma remove_redundant_perm sup cs cs' :
  Permutation cs cs' -> Permutation (remove_redundant sup cs) (remove_redundant sup cs').
Proof.
  intros Hp. unfold remove_redundant.
  eapply Permutation_trans; [apply perm_filter; exact Hp|].
  erewrite filter_ext_in'; [apply Permutation_refl|].
  intros c _. apply (f_equal negb). apply eq_iff_eq_true. rewrite !redundant_iff.
  split; apply redundant_perm; [|apply Permutation_sym]; exact Hp.
Qed.

(* a cluster of a rule without superiors is never removed; removal never invents clusters *)
Lemma remove_redundant_no_superiors sup cs c :
  In c cs -> superiors_of sup (pc_rule c) = [] -> In c (remove_redundant sup cs).
Proof. intros Hin Hs. apply remove_redundant_spec. split; [exact Hin|]. intros (o & _ & Ho & _). rewrite Hs in Ho. destruct Ho. Qed.

(* ---------- rotation primitives: overlap and containment ---------- *)
Lemma existsb_map {A B} (f : B -> bool) (g : A -> B) l : existsb f (map g l) = existsb (fun x => f (g x)) l.
Proof. induction l as [|x l IH]; cbn; [reflexivity|]. rewrite IH. reflexivity. Qed.
Lemma forallb_map {A B} (f : B -> bool) (g : A -> B) l : forallb f (map g l) = forallb (fun x => f (g x)) l.
Proof. induction l as [|x l IH]; cbn; [reflexivity|]. rewrite IH. reflexivity. Qed.
Lemma existsb_ext' {A} (f g : A -> bool) l : (forall x, f x = g x) -> existsb f l = existsb g l.
Proof. intros H. induction l as [|x l IH]; cbn; [reflexivity|]. rewrite H, IH. reflexivity. Qed.
Lemma forallb_ext' {A} (f g : A -> bool) l : (forall x, f x = g x) -> forallb f l = forallb g l.
Proof. intros H. induction l as [|x l IH]; cbn; [reflexivity|]. rewrite H, IH. reflexivity. Qed.

Definition shiftl (k : Z) (l : loc) : loc := map (shiftp k) l.

Lemma part_contains_shift k o i : part_contains (shiftp k o) (shiftp k i) = part_contains o i.
Proof. unfold part_contains, shiftp. cbn [ps pe]. lia. Qed.

Lemma overlap_shift k a b : overlap (shiftl k a) (shiftl k b) = overlap a b.
Proof.
  unfold overlap, shiftl. rewrite existsb_map. apply existsb_ext'. intros p.
  rewrite existsb_map. apply existsb_ext'. intros q. apply part_overlap_shift.
Qed.

Lemma contains_shift k o i : contains (shiftl k o) (shiftl k i) = contains o i.
Proof.
  unfold contains, shiftl. rewrite forallb_map. apply forallb_ext'. intros p.
  rewrite existsb_map. apply existsb_ext'. intros q. apply part_contains_shift.
Qed.

(* ---------- rotation of the origin by k on a ring of length N ----------
   a part that the new origin does not cut moves by k, or by k - N when it lies behind the cut *)
Definition in_rec (N : Z) (p : part) : Prop := 0 <= ps p /\ ps p < pe p /\ pe p <= N.
Definition uncut (N k : Z) (p : part) : Prop := pe p + k <= N \/ N <= ps p + k.
Definition rotp (N k : Z) (p : part) : part := if pe p + k <=? N then shiftp k p else shiftp (k - N) p.

Lemma rotp_in_rec N k p : 0 <= k < N -> in_rec N p -> uncut N k p -> in_rec N (rotp N k p).
Proof. unfold in_rec, uncut, rotp. intros Hk Hp Hu. destruct (pe p + k <=? N) eqn:E; unfold shiftp; cbn [ps pe]; lia. Qed.

Lemma part_overlap_rot N k a b : 0 <= k < N -> in_rec N a -> in_rec N b -> uncut N k a -> uncut N k b ->
  part_overlap (rotp N k a) (rotp N k b) = part_overlap a b.
Proof.
  unfold in_rec, uncut, rotp. intros Hk Ha Hb Hua Hub.
  destruct (pe a + k <=? N) eqn:Ea; destruct (pe b + k <=? N) eqn:Eb;
    unfold part_overlap, in_part, shiftp; cbn [ps pe]; lia.
Qed.

Lemma part_contains_rot N k o i : 0 <= k < N -> in_rec N o -> in_rec N i -> uncut N k o -> uncut N k i ->
  part_contains (rotp N k o) (rotp N k i) = part_contains o i.
Proof.
  unfold in_rec, uncut, rotp. intros Hk Ha Hb Hua Hub.
  destruct (pe o + k <=? N) eqn:Ea; destruct (pe i + k <=? N) eqn:Eb;
    unfold part_contains, shiftp; cbn [ps pe]; lia.
Qed.

Lemma ring_gap_rot N k a b : 0 <= k < N -> in_rec N a -> in_rec N b -> uncut N k a -> uncut N k b ->
  part_overlap a b = false ->
  Z.min (ASV.C04.Model.wrap_gap N (rotp N k a) (rotp N k b)) (ASV.C04.Model.gap (rotp N k a) (rotp N k b))
  = Z.min (ASV.C04.Model.wrap_gap N a b) (ASV.C04.Model.gap a b).
Proof.
  intros Hk Ha Hb Hua Hub Ho.
  apply C04.Proofs.part_overlap_false in Ho; [|unfold C04.Proofs.wf_part, in_rec in *; lia|unfold C04.Proofs.wf_part, in_rec in *; lia].
  unfold in_rec, uncut, rotp in *.
  destruct (pe a + k <=? N) eqn:Ea; destruct (pe b + k <=? N) eqn:Eb;
    unfold ASV.C04.Model.wrap_gap, ASV.C04.Model.gap, shiftp; cbn [ps pe];
    repeat match goal with |- context [?x <=? ?y] => destruct (x <=? y) eqn:? end; lia.
Qed.

(* ring distance is the same in both frames, also for a pair separated by the new origin *)
Lemma pdist_rot N k a b : 0 <= k < N -> in_rec N a -> in_rec N b -> uncut N k a -> uncut N k b ->
  pdist (rotp N k a) (rotp N k b) (Some N) = pdist a b (Some N).
Proof.
  intros Hk Ha Hb Hua Hub.
  pose proof (rotp_in_rec N k a Hk Ha Hua) as Ha'. pose proof (rotp_in_rec N k b Hk Hb Hub) as Hb'.
  rewrite (C04.Proofs.pdist_ring_spec N (rotp N k a) (rotp N k b)); try (unfold C04.Proofs.wf_part, in_rec in *; lia).
  rewrite (C04.Proofs.pdist_ring_spec N a b); try (unfold C04.Proofs.wf_part, in_rec in *; lia).
  rewrite part_overlap_rot by assumption.
  destruct (part_overlap a b) eqn:Ho; [reflexivity|]. apply ring_gap_rot; assumption.
Qed.

Lemma dist_rot_simple N k a b : 0 <= k < N -> in_rec N a -> in_rec N b -> uncut N k a -> uncut N k b ->
  dist [rotp N k a] [rotp N k b] (Some N) = dist [a] [b] (Some N).
Proof.
  intros Hk Ha Hb Hua Hub. unfold dist, overlap. cbn [existsb]. rewrite !orb_false_r.
  rewrite part_overlap_rot by assumption. rewrite pdist_rot by assumption. reflexivity.
Qed.

(* ---------- chain level: the sweep of C03 commutes with a change of frame that moves every
   anchoring gene by the same amount (both origins outside the span of the anchors) ---------- *)
Module M3 := ASV.C03.Model.
Module P3 := ASV.C03.Proofs.

Definition shifti (k : Z) (i : M3.itv) : M3.itv := M3.mkItv (M3.s i + k) (M3.e i + k).
Definition shiftg (k : Z) (g : M3.group) : M3.group :=
  let '(cs, he, ms) := g in (cs + k, he + k, map (shifti k) ms).

Lemma itv_lt_shift k a b : M3.itv_lt (shifti k a) (shifti k b) = M3.itv_lt a b.
Proof. unfold M3.itv_lt, shifti. cbn [M3.s M3.e]. lia. Qed.

Lemma insert_shift k x : forall l,
  insert_by M3.itv_lt (shifti k x) (map (shifti k) l) = map (shifti k) (insert_by M3.itv_lt x l).
Proof.
  induction l as [|y l IH]; cbn [insert_by map]; [reflexivity|].
  rewrite itv_lt_shift. destruct (M3.itv_lt x y); cbn [map]; [reflexivity|]. rewrite IH. reflexivity.
Qed.

Lemma sort_shift_acc k : forall l acc,
  fold_left (fun acc x => insert_by M3.itv_lt x acc) (map (shifti k) l) (map (shifti k) acc)
  = map (shifti k) (fold_left (fun acc x => insert_by M3.itv_lt x acc) l acc).
Proof.
  induction l as [|x l IH]; intros acc; cbn [fold_left map]; [reflexivity|].
  rewrite insert_shift. apply IH.
Qed.

Lemma sort_shift k l : sort_by M3.itv_lt (map (shifti k) l) = map (shifti k) (sort_by M3.itv_lt l).
Proof. unfold sort_by. apply (sort_shift_acc k l []). Qed.

Lemma step_shift N c k gs i : P3.wf N i -> P3.wf N (shifti k i) ->
  M3.step N c (map (shiftg k) gs) (shifti k i) = map (shiftg k) (M3.step N c gs i).
Proof.
  unfold P3.wf, shifti. cbn [M3.s M3.e]. intros Hi Hk.
  destruct gs as [|[[cs he] ms] rest]; cbn [M3.step map shiftg M3.s M3.e]; [reflexivity|].
  assert (Ht : ((M3.s i + k <? Z.min N (he + k + c)) && (Z.max 0 (cs + k - c) <? M3.e i + k))
               = ((M3.s i <? Z.min N (he + c)) && (Z.max 0 (cs - c) <? M3.e i))) by lia.
  rewrite Ht. destruct ((M3.s i <? Z.min N (he + c)) && (Z.max 0 (cs - c) <? M3.e i)); cbn [map shiftg]; [|reflexivity].
  rewrite Z.add_min_distr_r, Z.add_max_distr_r. reflexivity.
Qed.

Lemma sweep_shift_acc N c k : forall l gs, Forall (P3.wf N) l -> Forall (P3.wf N) (map (shifti k) l) ->
  fold_left (M3.step N c) (map (shifti k) l) (map (shiftg k) gs) = map (shiftg k) (fold_left (M3.step N c) l gs).
Proof.
  induction l as [|x l IH]; intros gs H1 H2; cbn [fold_left map]; [reflexivity|].
  inversion H1; subst. cbn [map] in H2. inversion H2; subst.
  rewrite step_shift by assumption. apply IH; assumption.
Qed.

Lemma sweep_shift N c k anchors : Forall (P3.wf N) anchors -> Forall (P3.wf N) (map (shifti k) anchors) ->
  M3.sweep N c (sort_by M3.itv_lt (map (shifti k) anchors))
  = map (shiftg k) (M3.sweep N c (sort_by M3.itv_lt anchors)).
Proof.
  intros H1 H2. rewrite sort_shift. unfold M3.sweep.
  apply (sweep_shift_acc N c k (sort_by M3.itv_lt anchors) []).
  - eapply Permutation_Forall; [apply P3.sort_perm|exact H1].
  - rewrite <- sort_shift. eapply Permutation_Forall; [apply P3.sort_perm|exact H2].
Qed.

(* ---------- connect_locations / extend_location on a ring, away from the origin ---------- *)
Module P4 := ASV.C04.Proofs.

Lemma mapM_reduce_simple_wrap w locs : P4.simple_locs locs ->
  mapM (fun l => reduce_parts l w) locs = Ok locs.
Proof.
  induction 1 as [|l locs [p ->] _ IH]; simpl; [reflexivity|].
  rewrite IH. reflexivity.
Qed.

Lemma simple_bounds locs x : P4.simple_locs locs -> Forall P4.wf_loc locs -> In x locs ->
  lmin (map lstart locs) <= lstart x /\ lstart x < lend x /\ lend x <= lmax (map lend locs).
Proof.
  intros Hs Hwf Hin. split; [apply P4.lmin_le, in_map, Hin|]. split; [|apply P4.lmax_ge, in_map, Hin].
  unfold P4.simple_locs in Hs. rewrite Forall_forall in Hs, Hwf.
  destruct (Hs x Hin) as [p ->]. destruct (Hwf [p] Hin) as [_ Hw]. inversion Hw; subst. unfold P4.wf_part in *. cbn. assumption.
Qed.

Lemma wrapping_shorter_short locs N : P4.simple_locs locs -> Forall P4.wf_loc locs ->
  lmax (map lend locs) - lmin (map lstart locs) <= N / 2 -> wrapping_shorter locs N = false.
Proof.
  intros Hs Hwf Hspan. unfold wrapping_shorter. rewrite P4.existsb_bridges_simple by assumption.
  pose proof (ASV.C03.Proofs.sort_perm key_lt locs) as Hp.
  destruct (sort_by key_lt locs) as [|first rest]; [reflexivity|].
  destruct (existsb (fun second => N / 2 <? lstart second - lend first) rest) eqn:E; [|reflexivity].
  apply existsb_exists in E. destruct E as (second & Hin & Hlt).
  assert (H1 : In first locs) by (eapply Permutation_in; [apply Permutation_sym, Hp|left; reflexivity]).
  assert (H2 : In second locs) by (eapply Permutation_in; [apply Permutation_sym, Hp|right; exact Hin]).
  pose proof (simple_bounds locs first Hs Hwf H1). pose proof (simple_bounds locs second Hs Hwf H2). lia.
Qed.

Lemma connect_ring_short locs N : locs <> [] -> P4.simple_locs locs -> Forall P4.wf_loc locs -> 0 < N ->
  lmax (map lend locs) - lmin (map lstart locs) <= N / 2 ->
  connect_locations locs (Some N) = connect_locations locs None.
Proof.
  intros Hne Hs Hwf HN Hspan.
  destruct (P4.connect_line_simple locs Hne Hs Hwf) as (h & Hh & _).
  assert (Hline : connect_line locs = Ok [h]).
  { rewrite <- Hh. unfold connect_locations, connect_fuel.
    destruct locs as [|l0 locs']; [congruence|].
    replace (2 * length (l0 :: locs') + 8)%nat with (S (2 * length (l0 :: locs') + 7))%nat by lia.
    reflexivity. }
  rewrite Hh. unfold connect_locations, connect_fuel.
  destruct locs as [|l0 locs']; [congruence|].
  set (locs := l0 :: locs') in *.
  replace (2 * length locs + 8)%nat with (S (2 * length locs + 7))%nat by lia.
  cbn [connect]. fold locs.
  rewrite P4.existsb_bridges_simple by assumption.
  rewrite mapM_reduce_simple_wrap by assumption. cbn [bind].
  destruct (N <=? 0) eqn:EN; [lia|].
  unfold merge_over_origin, split_sections. rewrite wrapping_shorter_short by assumption.
  cbn [negb bind]. unfold locs at 1. fold locs. rewrite Hline. cbn [bind is_compound]. reflexivity.
Qed.


Lemma lmin_shift k l : l <> [] -> lmin (map (fun x => x + k) l) = lmin l + k.
Proof.
  intros Hne. assert (Hne' : map (fun x => x + k) l <> []) by (destruct l; [congruence|discriminate]).
  pose proof (P4.lmin_in _ Hne') as Hin. apply in_map_iff in Hin. destruct Hin as (y & Hy & Hyl).
  pose proof (P4.lmin_le l y Hyl).
  pose proof (P4.lmin_le (map (fun x => x + k) l) (lmin l + k)) as H2.
  specialize (H2 (in_map (fun x => x + k) l _ (P4.lmin_in l Hne))). lia.
Qed.
Lemma lmax_shift k l : l <> [] -> lmax (map (fun x => x + k) l) = lmax l + k.
Proof.
  intros Hne. assert (Hne' : map (fun x => x + k) l <> []) by (destruct l; [congruence|discriminate]).
  pose proof (P4.lmax_in _ Hne') as Hin. apply in_map_iff in Hin. destruct Hin as (y & Hy & Hyl).
  pose proof (P4.lmax_ge l y Hyl).
  pose proof (P4.lmax_ge (map (fun x => x + k) l) (lmax l + k)) as H2.
  specialize (H2 (in_map (fun x => x + k) l _ (P4.lmax_in l Hne))). lia.
Qed.

Lemma simple_shift k locs : P4.simple_locs locs -> P4.simple_locs (map (shiftl k) locs).
Proof. induction 1 as [|l locs [p ->] _ IH]; constructor; [exists (shiftp k p); reflexivity|exact IH]. Qed.
Lemma wf_shift k locs : P4.simple_locs locs -> Forall P4.wf_loc locs -> Forall P4.wf_loc (map (shiftl k) locs).
Proof.
  induction 1 as [|l locs [p ->] _ IH]; intros Hwf; inversion Hwf as [|x xs [_ Hw] Hr]; subst; constructor; [|apply IH; exact Hr].
  split; [discriminate|]. inversion Hw; subst. repeat constructor. unfold P4.wf_part, shiftp in *. cbn [ps pe]. lia.
Qed.
Lemma starts_shift k locs : P4.simple_locs locs ->
  map lstart (map (shiftl k) locs) = map (fun x => x + k) (map lstart locs).
Proof. induction 1 as [|l locs [p ->] _ IH]; cbn [map]; [reflexivity|]. rewrite IH. reflexivity. Qed.
Lemma ends_shift k locs : P4.simple_locs locs ->
  map lend (map (shiftl k) locs) = map (fun x => x + k) (map lend locs).
Proof. induction 1 as [|l locs [p ->] _ IH]; cbn [map]; [reflexivity|]. rewrite IH. reflexivity. Qed.
Lemma strand_shift k locs : P4.simple_locs locs -> common_strand (map (shiftl k) locs) = common_strand locs.
Proof.
  intros Hs. destruct Hs as [|l locs [p ->] Hr]; [reflexivity|]. cbn [map common_strand].
  replace (lstrand (shiftl k [p])) with (lstrand [p]) by reflexivity.
  rewrite forallb_map.
  rewrite (forallb_ext' _ (fun q => lstrand q =? lstrand [p])); [reflexivity|].
  intros q. destruct q as [|q0 qr]; [reflexivity|]. cbn [shiftl map lstrand].
  rewrite forallb_map. reflexivity.
Qed.

(* connecting single-part areas whose hull is at most half the ring commutes with moving them all by k *)
Lemma connect_shift_ring locs N k : locs <> [] -> P4.simple_locs locs -> Forall P4.wf_loc locs -> 0 < N ->
  lmax (map lend locs) - lmin (map lstart locs) <= N / 2 ->
  exists h, connect_locations locs (Some N) = Ok [h] /\
            connect_locations (map (shiftl k) locs) (Some N) = Ok [shiftp k h].
Proof.
  intros Hne Hs Hwf HN Hspan.
  assert (Hne' : map (shiftl k) locs <> []) by (destruct locs; [congruence|discriminate]).
  assert (Hm1 : map lstart locs <> []) by (destruct locs; [congruence|discriminate]).
  assert (Hm2 : map lend locs <> []) by (destruct locs; [congruence|discriminate]).
  pose proof (simple_shift k locs Hs) as Hs'. pose proof (wf_shift k locs Hs Hwf) as Hwf'.
  rewrite (connect_ring_short locs N) by assumption.
  rewrite (connect_ring_short (map (shiftl k) locs) N); try assumption.
  2:{ rewrite starts_shift, ends_shift by assumption. rewrite lmin_shift, lmax_shift by assumption. lia. }
  destruct (P4.connect_line_simple locs Hne Hs Hwf) as (h & Hh & H1 & H2 & H3 & _).
  destruct (P4.connect_line_simple _ Hne' Hs' Hwf') as (h' & Hh' & H1' & H2' & H3' & _).
  exists h. split; [exact Hh|]. rewrite Hh'. f_equal. f_equal.
  rewrite starts_shift, lmin_shift in H1' by assumption. rewrite ends_shift, lmax_shift in H2' by assumption.
  rewrite strand_shift in H3' by assumption.
  destruct h as [a b c], h' as [a' b' c']. unfold shiftp. cbn [ps pe pst] in *. subst. reflexivity.
Qed.

Lemma extend_ring_inner p d N :
  0 <= d -> 0 <= ps p - d -> ps p < pe p -> pe p + d <= N ->
  extend_location [p] d N true = Ok [mkPart (ps p - d) (pe p + d) (pst p)].
Proof.
  intros Hd H0 Hlt HN. unfold extend_location.
  assert (Hst : lstrand [p] = pst p) by reflexivity. rewrite Hst.
  assert (Hrev : (if pst p =? -1 then rev [p] else [p]) = [p]) by (destruct (pst p =? -1); reflexivity).
  rewrite Hrev. cbn [last_opt rev app].
  assert (E0 : (ps p - d <? 0) = false) by lia. rewrite E0. cbn [andb].
  cbn [length merge_ends last_opt rev app tl removelast].
  rewrite E0. cbn [andb].
  unfold mkFL. cbn [ps pe pst].
  destruct (pe p <? Z.max 0 (ps p - d)) eqn:E1; [lia|]. cbn [bind last_opt rev app].
  cbn [ps pe pst].
  assert (E2 : (N <? pe p + d) = false) by lia. rewrite E2. cbn [andb].
  destruct (Z.min (pe p + d) N <? Z.max 0 (ps p - d)) eqn:E3; [lia|].
  cbn [bind removelast app length merge_ends last_opt rev].
  rewrite Z.max_r by lia. rewrite Z.min_l by lia. reflexivity.
Qed.

(* extending a single part by the cutoff/neighbourhood commutes with moving it, as long as the
   extension stays inside the record in both frames *)
Lemma extend_shift_ring p d N k :
  0 <= d -> ps p < pe p -> 0 <= ps p - d -> pe p + d <= N -> 0 <= ps p + k - d -> pe p + k + d <= N ->
  exists r, extend_location [p] d N true = Ok r /\ extend_location (shiftl k [p]) d N true = Ok (shiftl k r).
Proof.
  intros Hd Hlt H0 HN H0' HN'. eexists. split; [apply extend_ring_inner; assumption|].
  cbn [shiftl map]. rewrite extend_ring_inner; unfold shiftp; cbn [ps pe pst]; try lia.
  f_equal. f_equal. f_equal; lia.
Qed.

(* ---------- conjunctions stated as theorems ---------- *)
Lemma rotation_overlap_contains k a b :
  overlap (shiftl k a) (shiftl k b) = overlap a b /\ contains (shiftl k a) (shiftl k b) = contains a b.
Proof. split; [apply overlap_shift|apply contains_shift]. Qed.

Lemma rotation_ring_primitives N k a b :
  0 <= k < N -> in_rec N a -> in_rec N b -> uncut N k a -> uncut N k b ->
  in_rec N (rotp N k a) /\
  part_overlap (rotp N k a) (rotp N k b) = part_overlap a b /\
  part_contains (rotp N k a) (rotp N k b) = part_contains a b /\
  pdist (rotp N k a) (rotp N k b) (Some N) = pdist a b (Some N) /\
  dist [rotp N k a] [rotp N k b] (Some N) = dist [a] [b] (Some N).
Proof.
  intros Hk Ha Hb Hua Hub.
  split; [apply rotp_in_rec; assumption|]. split; [apply part_overlap_rot; assumption|].
  split; [apply part_contains_rot; assumption|]. split; [apply pdist_rot; assumption|apply dist_rot_simple; assumption].
Qed.

Lemma rotation_connect locs N k :
  locs <> [] -> P4.simple_locs locs -> Forall P4.wf_loc locs -> 0 < N ->
  lmax (map lend locs) - lmin (map lstart locs) <= N / 2 ->
  connect_locations locs (Some N) = connect_locations locs None /\
  exists h, connect_locations locs (Some N) = Ok [h] /\
            connect_locations (map (shiftl k) locs) (Some N) = Ok [shiftp k h].
Proof. intros. split; [apply connect_ring_short; assumption|apply connect_shift_ring; assumption]. Qed.

Lemma cache_transparent_nil {R I O : Type} (cutoff_of : R -> Z) (info : Z -> I) (detect : R -> I -> O) rules :
  eval_rules cutoff_of info detect [] rules = map (fun r => detect r (info (cutoff_of r))) rules.
Proof. apply eval_rules_transparent. apply cache_ok_nil. Qed.

(* ================= get_ruleset: history independence ================= *)

Lemma scale_unit : forall d, scale d (1, 1) = d.
Proof. intros d. unfold scale. cbn [fst snd]. rewrite Z.mul_1_r. apply Z.quot_1_r. Qed.

Lemma scale_rule_unit : forall r, scale_rule unit_mults r = r.
Proof. intros [n c d b]. unfold scale_rule, unit_mults. cbn. rewrite !scale_unit. reflexivity. Qed.

Lemma map_scale_rule_unit : forall l, map (scale_rule unit_mults) l = l.
Proof. induction l as [|a l IH]; cbn; [reflexivity|]. rewrite scale_rule_unit, IH. reflexivity. Qed.

Lemma scale_rule_name : forall m r, r_name (scale_rule m r) = r_name r.
Proof. reflexivity. Qed.

Lemma mem_In : forall x l, mem x l = true <-> In x l.
Proof.
  induction l as [|y l IH]; cbn; [split; [discriminate|tauto]|].
  rewrite Bool.orb_true_iff, IH, Z.eqb_eq. split; intros [H|H]; auto.
Qed.

Lemma nodupb_NoDup : forall l, NoDup l -> nodupb l = true.
Proof.
  induction 1 as [|x l Hn Hd IH]; cbn; [reflexivity|].
  rewrite IH, Bool.andb_true_r. destruct (mem x l) eqn:E; [|reflexivity].
  apply mem_In in E. contradiction.
Qed.

(* ---- the object store *)
Lemma h_get_set : forall h i r j, h_get (h_set h i r) j = if Nat.eqb j i then r else h_get h j.
Proof. reflexivity. Qed.

Lemma deref_ext : forall h h' refs, (forall i, In i refs -> h_get h' i = h_get h i) -> deref h' refs = deref h refs.
Proof. intros h h' refs H. unfold deref. apply map_ext_in. exact H. Qed.

(* parse_rules allocates consecutive new objects and touches no existing one *)
Lemma parse_rules_ok : forall m base seen h,
  NoDup (map r_name base) -> (forall x, In x (map r_name base) -> ~ In x seen) ->
  exists h2, parse_rules m base seen h = Ok (h2, seq (h_next h) (length base)) /\
             h_next h2 = (h_next h + length base)%nat /\
             (forall j, (j < h_next h)%nat -> h_get h2 j = h_get h j) /\
             deref h2 (seq (h_next h) (length base)) = map (scale_rule m) base.
Proof.
  induction base as [|b rest IH]; intros seen h Hnd Hseen.
  - exists h. cbn. repeat split; auto.
  - cbn [parse_rules]. destruct (mem (r_name b) seen) eqn:Em.
    { apply mem_In in Em. exfalso. apply (Hseen (r_name b)); [left; reflexivity|exact Em]. }
    cbn [map] in Hnd. inversion Hnd as [|x l Hnotin Hnd']; subst.
    unfold h_new.
    set (h1 := mkHeap (S (h_next h)) (fun j => if Nat.eqb j (h_next h) then scale_rule m b else h_get h j)).
    destruct (IH (r_name b :: seen) h1 Hnd') as [h2 [Hp [Hn [Hfr Hd]]]].
    { intros x Hx [He|Hs]; [subst x; contradiction|]. apply (Hseen x); [right; exact Hx|exact Hs]. }
    exists h2. rewrite Hp. cbn [length seq]. subst h1. cbn [h_next] in *. repeat split.
    + lia.
    + intros j Hj. rewrite Hfr by lia. cbn [h_get]. destruct (Nat.eqb j (h_next h)) eqn:E; [|reflexivity].
      apply Nat.eqb_eq in E. lia.
    + unfold deref in *. cbn [map]. rewrite Hd. f_equal. rewrite Hfr by lia. cbn [h_get].
      rewrite Nat.eqb_refl. reflexivity.
Qed.

(* ---- an operation that only allocates: every existing object is left as it is *)
Definition frame (h h' : heap) : Prop :=
  (h_next h <= h_next h')%nat /\ forall j, (j < h_next h)%nat -> h_get h' j = h_get h j.

Lemma frame_refl : forall h, frame h h.
Proof. intros h. split; [lia|auto]. Qed.

Lemma frame_trans : forall h1 h2 h3, frame h1 h2 -> frame h2 h3 -> frame h1 h3.
Proof.
  intros h1 h2 h3 [Hn1 Hg1] [Hn2 Hg2]. split; [lia|]. intros j Hj. rewrite Hg2 by lia. apply Hg1. exact Hj.
Qed.

Lemma frame_deref : forall h h' refs, frame h h' -> (forall i, In i refs -> (i < h_next h)%nat) -> deref h' refs = deref h refs.
Proof. intros h h' refs [_ Hg] Hlt. apply deref_ext. intros i Hi. apply Hg. apply Hlt. exact Hi. Qed.

(* the repaired __post_init__: one new object per rule given, holding the scaled rule; no object
   that existed before is changed *)
Lemma scaled_copies_ok : forall m refs h h' own, scaled_copies m refs h = (h', own) ->
  (forall i, In i refs -> (i < h_next h)%nat) ->
  own = seq (h_next h) (length refs) /\ h_next h' = (h_next h + length refs)%nat /\
  (forall j, (j < h_next h)%nat -> h_get h' j = h_get h j) /\
  deref h' own = map (scale_rule m) (deref h refs).
Proof.
  induction refs as [|i rest IH]; intros h h' own Hs Hlt; cbn [scaled_copies] in Hs.
  - inversion Hs; subst. cbn. repeat split; auto.
  - unfold h_new in Hs.
    set (h1 := mkHeap (S (h_next h)) (fun j => if Nat.eqb j (h_next h) then scale_rule m (h_get h i) else h_get h j)) in Hs.
    destruct (scaled_copies m rest h1) as [h2 out] eqn:E. inversion Hs; subst h' own; clear Hs.
    assert (Hlt1 : forall x, In x rest -> (x < h_next h1)%nat).
    { intros x Hx. subst h1. cbn [h_next]. specialize (Hlt x (or_intror Hx)). lia. }
    destruct (IH h1 h2 out E Hlt1) as [Hout [Hn [Hfr Hd]]].
    subst h1. cbn [h_next h_get] in *. cbn [length seq]. repeat split.
    + rewrite Hout. reflexivity.
    + lia.
    + intros j Hj. rewrite Hfr by lia. destruct (Nat.eqb j (h_next h)) eqn:Ej; [|reflexivity].
      apply Nat.eqb_eq in Ej. lia.
    + unfold deref in *. cbn [h_get] in Hd. cbn [map]. rewrite Hd. f_equal.
      * rewrite Hfr by lia. rewrite Nat.eqb_refl. reflexivity.
      * f_equal. apply map_ext_in. intros x Hx. specialize (Hlt x (or_intror Hx)).
        destruct (Nat.eqb x (h_next h)) eqn:Ex; [|reflexivity]. apply Nat.eqb_eq in Ex. lia.
Qed.

Lemma map_name_scale : forall m l, map r_name (map (scale_rule m) l) = map r_name l.
Proof. intros m l. rewrite map_map. apply map_ext. intros r. reflexivity. Qed.

Lemma ruleset_init_ok : forall refs m h, (forall i, In i refs -> (i < h_next h)%nat) ->
  NoDup (map r_name (deref h refs)) ->
  exists h' rs, ruleset_init refs m h = Ok (h', rs) /\ frame h h' /\
    rs_rules rs = seq (h_next h) (length refs) /\ rs_given rs = refs /\ rs_mults rs = m /\
    h_next h' = (h_next h + length refs)%nat /\
    deref h' (rs_rules rs) = map (scale_rule m) (deref h refs).
Proof.
  intros refs m h Hlt Hnames. unfold ruleset_init, post_init.
  destruct (scaled_copies m refs h) as [h' own] eqn:E.
  destruct (scaled_copies_ok m refs h h' own E Hlt) as [Hown [Hn [Hfr Hd]]].
  rewrite Hd, map_name_scale, (nodupb_NoDup _ Hnames).
  exists h', (mkRs own refs m). cbn [rs_rules rs_given rs_mults].
  split; [reflexivity|]. split; [split; [lia|exact Hfr]|]. repeat split; auto.
Qed.

(* what a ruleset is: its own objects are distinct and hold, NOW, the rules [w] it was given times
   its own multipliers; the objects it was given still hold [w] *)
Definition holds (h : heap) (rs : ruleset) (w : list rule) : Prop :=
  (forall i, In i (rs_rules rs) -> (i < h_next h)%nat) /\
  (forall i, In i (rs_given rs) -> (i < h_next h)%nat) /\
  NoDup (rs_rules rs) /\ length (rs_given rs) = length (rs_rules rs) /\
  deref h (rs_given rs) = w /\
  deref h (rs_rules rs) = map (scale_rule (rs_mults rs)) w.

Lemma holds_frame : forall h h' rs w, holds h rs w -> frame h h' -> holds h' rs w.
Proof.
  intros h h' rs w [Ho [Hg [Hnd [Hlen [Hdg Hdo]]]]] Hf. destruct Hf as [Hn Hfr].
  repeat split; auto.
  - intros i Hi. specialize (Ho i Hi). lia.
  - intros i Hi. specialize (Hg i Hi). lia.
  - rewrite <- Hdg. apply frame_deref; [split; assumption|exact Hg].
  - rewrite <- Hdo. apply frame_deref; [split; assumption|exact Ho].
Qed.

Lemma ruleset_init_holds : forall refs m h, (forall i, In i refs -> (i < h_next h)%nat) ->
  NoDup (map r_name (deref h refs)) ->
  exists h' rs, ruleset_init refs m h = Ok (h', rs) /\ frame h h' /\ holds h' rs (deref h refs) /\ rs_mults rs = m.
Proof.
  intros refs m h Hlt Hnames.
  destruct (ruleset_init_ok refs m h Hlt Hnames) as [h' [rs [Hi [Hf [Hown [Hgiven [Hm [Hn Hd]]]]]]]].
  exists h', rs. split; [exact Hi|]. split; [exact Hf|]. split; [|exact Hm].
  unfold holds. rewrite Hown, Hgiven, Hm. rewrite Hown in Hd. repeat split.
  - intros i Hi'. apply in_seq in Hi'. lia.
  - intros i Hi'. specialize (Hlt i Hi'). lia.
  - apply seq_NoDup.
  - rewrite seq_length. reflexivity.
  - apply frame_deref; assumption.
  - exact Hd.
Qed.

(* copy_with_replacements: an object of the instance is replaced by the object given for it *)
Lemma given_of_In : forall own given i, length given = length own -> In i own -> In (given_of own given i) given.
Proof.
  induction own as [|o own IH]; intros given i Hlen Hi; [destruct Hi|].
  destruct given as [|g given]; [discriminate|]. cbn [given_of].
  destruct (Nat.eqb i o) eqn:E; [left; reflexivity|]. right. apply IH; [cbn in Hlen; lia|].
  destruct Hi as [Hi|Hi]; [subst; rewrite Nat.eqb_refl in E; discriminate|exact Hi].
Qed.

Lemma given_of_filter : forall h (p : rule -> bool) m own given,
  NoDup own -> deref h own = map (scale_rule m) (deref h given) -> (forall r, p (scale_rule m r) = p r) ->
  deref h (map (given_of own given) (filter (fun i => p (h_get h i)) own)) = filter p (deref h given).
Proof.
  intros h p m. induction own as [|o own IH]; intros given Hnd Hd Hp.
  - destruct given; [reflexivity|discriminate].
  - destruct given as [|g given]; [discriminate|].
    unfold deref in Hd. cbn [map] in Hd. inversion Hd as [[Ho Hrest]]. inversion Hnd as [|x l Hnotin Hnd']; subst.
    assert (Htail : map (given_of (o :: own) (g :: given)) (filter (fun i => p (h_get h i)) own)
                    = map (given_of own given) (filter (fun i => p (h_get h i)) own)).
    { apply map_ext_in. intros i Hi. apply filter_In in Hi. destruct Hi as [Hi _]. cbn [given_of].
      destruct (Nat.eqb i o) eqn:E; [|reflexivity]. apply Nat.eqb_eq in E. subst. contradiction. }
    cbn [filter]. rewrite Ho, Hp. unfold deref at 2. cbn [map filter]. fold (deref h given).
    destruct (p (h_get h g)).
    + cbn [map]. rewrite Htail. unfold deref at 1. cbn [map given_of]. rewrite Nat.eqb_refl. f_equal.
      apply (IH given Hnd' Hrest Hp).
    + rewrite Htail. apply (IH given Hnd' Hrest Hp).
Qed.

Lemma deref_filter : forall h (p : rule -> bool) refs,
  deref h (filter (fun i => p (h_get h i)) refs) = filter p (deref h refs).
Proof.
  intros h p. unfold deref. induction refs as [|i rest IH]; cbn [filter map]; [reflexivity|].
  destruct (p (h_get h i)); cbn [map]; rewrite IH; reflexivity.
Qed.

Lemma NoDup_map_filter : forall (f : rule -> Z) (p : rule -> bool) l, NoDup (map f l) -> NoDup (map f (filter p l)).
Proof.
  intros f p. induction l as [|a l IH]; cbn; intros H; [constructor|].
  inversion H as [|x y Hn Hd]; subst. destruct (p a); cbn; [|apply IH; exact Hd].
  constructor; [|apply IH; exact Hd]. intros Hin. apply Hn.
  apply in_map_iff in Hin. destruct Hin as [b [Hb Hf]]. apply filter_In in Hf. apply in_map_iff. exists b. tauto.
Qed.

Lemma seq_lt : forall a n i, In i (seq a n) -> (a <= i < a + n)%nat.
Proof. intros a n i H. apply in_seq in H. exact H. Qed.

(* ---- keys *)
Lemma list_eqb_Z : forall a b, list_eqb Z.eqb a b = true -> a = b.
Proof.
  induction a as [|x a IH]; destruct b as [|y b]; cbn; try discriminate; [reflexivity|].
  intros H. apply Bool.andb_true_iff in H. destruct H as [H1 H2]. apply Z.eqb_eq in H1. subst. f_equal. apply IH. exact H2.
Qed.

Lemma ratio_eqb_eq : forall a b, ratio_eqb a b = true -> a = b.
Proof.
  intros [a1 a2] [b1 b2]. unfold ratio_eqb. cbn. intros H. apply Bool.andb_true_iff in H. destruct H as [H1 H2].
  apply Z.eqb_eq in H1, H2. subst. reflexivity.
Qed.

Lemma key_eqb_eq : forall a b, key_eqb a b = true -> a = b.
Proof.
  intros [s n c [mc mn]] [s' n' c' [mc' mn']]. unfold key_eqb, mults_eqb. cbn.
  intros H. apply Bool.andb_true_iff in H. destruct H as [H Hm]. apply Bool.andb_true_iff in H. destruct H as [H Hc].
  apply Bool.andb_true_iff in H. destruct H as [Hs Hn]. apply Bool.andb_true_iff in Hm. destruct Hm as [Hm1 Hm2].
  apply Z.eqb_eq in Hs. apply list_eqb_Z in Hn, Hc. apply ratio_eqb_eq in Hm1, Hm2. subst. reflexivity.
Qed.

Lemma cache_get_In : forall k c rs, cache_get k c = Some rs -> In (k, rs) c.
Proof.
  induction c as [|[k' v] c IH]; cbn; intros rs H; [discriminate|].
  destruct (key_eqb k k') eqn:E.
  - inversion H; subst. apply key_eqb_eq in E. subst. left. reflexivity.
  - right. apply IH. exact H.
Qed.

(* ---- the invariant of the cache: every ruleset handed out so far holds, NOW, the selected rules
   of the files with the distances as written times its own multipliers *)
Definition exp_key (files : list (list rule)) (k : key) : list rule :=
  map (scale_rule (k_mults k)) (select (k_names k) (k_cats k) (rule_files files (k_strict k))).

Definition cache_inv (files : list (list rule)) (st : state) : Prop :=
  forall k rs, In (k, rs) (st_cache st) ->
    holds (st_heap st) rs (select (k_names k) (k_cats k) (rule_files files (k_strict k))) /\
    rs_mults rs = k_mults k.

Definition files_ok (files : list (list rule)) : Prop := forall s, NoDup (map r_name (rule_files files s)).

Lemma select_names_nodup : forall ns cs base, NoDup (map r_name base) -> NoDup (map r_name (select ns cs base)).
Proof.
  intros ns cs base H. unfold select.
  assert (H1 : NoDup (map r_name (match ns with [] => base | _ => filter (fun r => mem (r_name r) ns) base end))).
  { destruct ns; [exact H|]. apply NoDup_map_filter. exact H. }
  destruct cs; [exact H1|]. apply NoDup_map_filter. exact H1.
Qed.

(* the two filters of get_ruleset (names, then categories) as one filter, on rules and on objects *)
Lemma filter_true {A} (l : list A) : filter (fun _ => true) l = l.
Proof. induction l as [|a l IH]; cbn; [reflexivity|]. rewrite IH. reflexivity. Qed.

Lemma filter_filter_and {A} (f g : A -> bool) l : filter f (filter g l) = filter (fun x => g x && f x) l.
Proof.
  induction l as [|a l IH]; cbn; [reflexivity|].
  destruct (g a); cbn; [destruct (f a)|]; rewrite IH; reflexivity.
Qed.

Lemma select_gen {A} (f : A -> rule) ns cs (l : list A) :
  match cs with
  | [] => match ns with [] => l | _ => filter (fun i => mem (r_name (f i)) ns) l end
  | _ => filter (fun i => mem (r_cat (f i)) cs) (match ns with [] => l | _ => filter (fun i => mem (r_name (f i)) ns) l end)
  end = filter (fun i => selected ns cs (f i)) l.
Proof.
  unfold selected. destruct ns as [|n ns]; destruct cs as [|c cs].
  - symmetry. apply filter_true.
  - apply filter_ext_in'. intros a _. reflexivity.
  - apply filter_ext_in'. intros a _. rewrite andb_true_r. reflexivity.
  - apply filter_filter_and.
Qed.

Lemma select_filter ns cs base : select ns cs base = filter (selected ns cs) base.
Proof. unfold select. exact (select_gen (fun r => r) ns cs base). Qed.

(* a sub-selection of a ruleset by a condition on name / category, copied with any multipliers *)
Lemma copy_filter_ok : forall h rs w (p : rule -> bool) m,
  holds h rs w -> NoDup (map r_name w) -> (forall m' r, p (scale_rule m' r) = p r) ->
  exists h' rs', copy_with_replacements rs (filter (fun i => p (h_get h i)) (rs_rules rs)) m h = Ok (h', rs') /\
                 frame h h' /\ holds h' rs' (filter p w) /\ rs_mults rs' = m.
Proof.
  intros h rs w p m [Ho [Hg [Hnd [Hlen [Hdg Hdo]]]]] Hw Hp. unfold copy_with_replacements.
  set (refs := map (given_of (rs_rules rs) (rs_given rs)) (filter (fun i => p (h_get h i)) (rs_rules rs))).
  assert (Hd : deref h refs = filter p w).
  { unfold refs. rewrite <- Hdg. apply (given_of_filter h p (rs_mults rs)); [exact Hnd| |apply Hp].
    rewrite Hdo, Hdg. reflexivity. }
  assert (Hlt : forall i, In i refs -> (i < h_next h)%nat).
  { intros i Hi. unfold refs in Hi. apply in_map_iff in Hi. destruct Hi as [x [Hx Hin]]. subst i.
    apply filter_In in Hin. destruct Hin as [Hin _]. apply Hg. apply given_of_In; assumption. }
  destruct (ruleset_init_holds refs m h Hlt) as [h' [rs' [Hi [Hf [Hh Hm]]]]].
  { rewrite Hd. apply NoDup_map_filter. exact Hw. }
  exists h', rs'. rewrite Hd in Hh. auto.
Qed.

Lemma from_files_ok : forall base m h, NoDup (map r_name base) ->
  exists h' rs, from_files base m h = Ok (h', rs) /\ frame h h' /\ holds h' rs base /\ rs_mults rs = m.
Proof.
  intros base m h Hb. unfold from_files.
  destruct (parse_rules_ok unit_mults base [] h Hb) as [h1 [Hp [Hn1 [Hfr1 Hd1]]]].
  { intros x _ []. }
  rewrite Hp. rewrite map_scale_rule_unit in Hd1.
  destruct (ruleset_init_holds (seq (h_next h) (length base)) m h1) as [h' [rs [Hi [Hf [Hh Hm]]]]].
  { intros i Hi. apply in_seq in Hi. lia. }
  { rewrite Hd1. exact Hb. }
  exists h', rs. rewrite Hd1 in Hh. split; [exact Hi|]. split; [|auto].
  apply (frame_trans h h1 h'); [split; [lia|exact Hfr1]|exact Hf].
Qed.

Lemma get_ruleset_step : forall files st q, files_ok files -> cache_inv files st ->
  (mults_valid (effective q) = false /\ get_ruleset files st q = Err E_Value) \/
  (exists st' rs, get_ruleset files st q = Ok (st', rs) /\ cache_inv files st' /\
                  In (key_of q, rs) (st_cache st') /\
                  (forall e, In e (st_cache st) -> In e (st_cache st')) /\
                  frame (st_heap st) (st_heap st')).
Proof.
  intros files st q Hfiles Hinv. unfold get_ruleset.
  destruct (mults_valid (effective q)) eqn:Ev; cbn [negb]; [right|left; split; reflexivity].
  destruct (cache_get (key_of q) (st_cache st)) as [rs|] eqn:Ec.
  { exists st, rs. split; [reflexivity|]. split; [exact Hinv|]. split; [apply cache_get_In; exact Ec|].
    split; [auto|apply frame_refl]. }
  set (base := rule_files files (q_strict q)).
  assert (Hb : NoDup (map r_name base)) by apply Hfiles.
  destruct (from_files_ok base unit_mults (st_heap st) Hb) as [h1 [rs0 [Hff [Hf1 [Hh0 Hm0]]]]].
  rewrite Hff.
  (* the selection, on the objects *)
  rewrite (select_gen (h_get h1) (q_names q) (q_cats q) (rs_rules rs0)).
  destruct (copy_filter_ok h1 rs0 base (selected (q_names q) (q_cats q)) (effective q) Hh0 Hb) as [h2 [rs [Hc [Hf2 [Hh Hm]]]]].
  { intros m' r. reflexivity. }
  rewrite Hc. exists (mkState h2 ((key_of q, rs) :: st_cache st)), rs.
  assert (Hf : frame (st_heap st) h2) by (apply (frame_trans _ h1 _); assumption).
  split; [reflexivity|]. split; [|split; [left; reflexivity|split; [intros e He; right; exact He|exact Hf]]].
  intros k rs' [He|Hin]; cbn [st_heap st_cache] in *.
  - inversion He; subst k rs'. cbn [k_names k_cats k_strict k_mults key_of]. split; [|exact Hm].
    rewrite select_filter. exact Hh.
  - destruct (Hinv k rs' Hin) as [Hh' Hm']. split; [|exact Hm']. apply (holds_frame _ _ _ _ Hh' Hf).
Qed.

Lemma cache_inv_init : forall files, cache_inv files init_state.
Proof. intros files k rs []. Qed.

Definition answer_ok (files : list (list rule)) (st : state) (q : request) (o : res ruleset) : Prop :=
  match o with
  | Ok rs => deref (st_heap st) (rs_rules rs) = expected_rules files q /\ rs_mults rs = effective q
  | Err e => e = E_Value /\ mults_valid (effective q) = false
  end.

Lemma run_requests_inv : forall files qs st st2 outs, files_ok files -> cache_inv files st ->
  run_requests files st qs = (st2, outs) ->
  cache_inv files st2 /\ (forall e, In e (st_cache st) -> In e (st_cache st2)) /\
  Forall2 (fun q o => match o with
                      | Ok rs => In (key_of q, rs) (st_cache st2)
                      | Err e => e = E_Value /\ mults_valid (effective q) = false end) qs outs.
Proof.
  intros files. induction qs as [|q rest IH]; intros st st2 outs Hf Hinv Hrun; cbn [run_requests] in Hrun.
  - inversion Hrun; subst. split; [exact Hinv|]. split; [auto|constructor].
  - destruct (get_ruleset_step files st q Hf Hinv) as [[Hv He]|[st' [rs [He [Hinv' [Hin [Hmono _]]]]]]]; rewrite He in Hrun.
    + destruct (run_requests files st rest) as [st3 out3] eqn:Er. inversion Hrun; subst.
      destruct (IH st st2 out3 Hf Hinv Er) as [H1 [H2 H3]]. split; [exact H1|]. split; [exact H2|].
      constructor; [split; [reflexivity|exact Hv]|exact H3].
    + destruct (run_requests files st' rest) as [st3 out3] eqn:Er. inversion Hrun; subst.
      destruct (IH st' st2 out3 Hf Hinv' Er) as [H1 [H2 H3]]. split; [exact H1|]. split; [auto|].
      constructor; [apply H2; exact Hin|exact H3].
Qed.

Lemma Forall2_imp : forall {A B} (P Q : A -> B -> Prop) l l',
  (forall a b, P a b -> Q a b) -> Forall2 P l l' -> Forall2 Q l l'.
Proof. intros A B P Q l l' H F. induction F; constructor; auto. Qed.

(* history independence: after ANY sequence of calls, every ruleset handed out by any of them
   holds exactly the rules its own request selects, with distances = written distance * its own
   multipliers - read in the FINAL store, so no later call has changed an earlier ruleset *)
Lemma get_ruleset_history : forall files qs st outs, files_ok files ->
  run_requests files init_state qs = (st, outs) -> Forall2 (answer_ok files st) qs outs.
Proof.
  intros files qs st outs Hf Hrun.
  destruct (run_requests_inv files qs init_state st outs Hf (cache_inv_init files) Hrun) as [Hinv [_ Hall]].
  eapply Forall2_imp; [|exact Hall]. intros q [rs|e] H; cbn in *; [|exact H].
  destruct (Hinv _ _ H) as [Hh Hm]. split; [|exact Hm].
  destruct Hh as [_ [_ [_ [_ [_ Hd]]]]]. rewrite Hd, Hm. reflexivity.
Qed.

(* ================= selection commutes with detection and with the removal ================= *)

Lemma filter_filter_comm {A} (f g : A -> bool) l : filter f (filter g l) = filter g (filter f l).
Proof.
  induction l as [|a l IH]; cbn; [reflexivity|].
  destruct (g a) eqn:Eg; destruct (f a) eqn:Ef; cbn; rewrite ?Eg, ?Ef, IH; reflexivity.
Qed.

(* evaluating a sub-selection of the rules = evaluating all of them and keeping the selected ones *)
Lemma eval_rules_filter {R I O : Type} (cutoff_of : R -> Z) (info : Z -> I) (detect : R -> I -> O) (p : R -> bool) rules :
  combine (filter p rules) (eval_rules cutoff_of info detect [] (filter p rules))
  = filter (fun x => p (fst x)) (combine rules (eval_rules cutoff_of info detect [] rules)).
Proof.
  rewrite !cache_transparent_nil. induction rules as [|r rest IH]; cbn [filter map combine]; [reflexivity|].
  cbn [fst]. destruct (p r); cbn [map combine]; rewrite IH; reflexivity.
Qed.

Lemma filter_map_scale m (p : rule -> bool) l : (forall r, p (scale_rule m r) = p r) ->
  filter p (map (scale_rule m) l) = map (scale_rule m) (filter p l).
Proof.
  intros H. induction l as [|a l IH]; cbn [map filter]; [reflexivity|].
  rewrite H. destruct (p a); cbn [map]; rewrite IH; reflexivity.
Qed.

Lemma expected_rules_filter files q :
  expected_rules files q
  = filter (selected (q_names q) (q_cats q)) (map (scale_rule (effective q)) (rule_files files (q_strict q))).
Proof.
  unfold expected_rules. rewrite select_filter. symmetry. apply filter_map_scale. intros r. reflexivity.
Qed.

Lemma selection_then_detection {I O : Type} (info : Z -> I) (detect : rule -> I -> O) files q :
  let full := map (scale_rule (effective q)) (rule_files files (q_strict q)) in
  combine (expected_rules files q) (eval_rules r_cutoff info detect [] (expected_rules files q))
  = filter (fun x => selected (q_names q) (q_cats q) (fst x)) (combine full (eval_rules r_cutoff info detect [] full)).
Proof. cbv zeta. rewrite expected_rules_filter. apply eval_rules_filter. Qed.

(* the removal of covered clusters on a sub-selection that contains the superiors of its rules *)
Lemma remove_redundant_subselection sup cs (p : Z -> bool) :
  (forall c o, In c cs -> In o cs -> p (pc_rule c) = true ->
               In (pc_rule o) (superiors_of sup (pc_rule c)) -> p (pc_rule o) = true) ->
  remove_redundant sup (filter (fun c => p (pc_rule c)) cs) = filter (fun c => p (pc_rule c)) (remove_redundant sup cs).
Proof.
  intros Hclosed. unfold remove_redundant.
  rewrite (filter_filter_comm (fun c => p (pc_rule c))
             (fun c => negb (redundant_outer c (superiors_of sup (pc_rule c)) (clusters_by_rule cs))) cs).
  apply filter_ext_in'.
  intros c Hc. apply filter_In in Hc. destruct Hc as [Hc Hp].
  apply (f_equal negb). apply eq_iff_eq_true. rewrite !redundant_iff. split.
  - intros (o & Ho & Hs & Hcov). apply filter_In in Ho. exists o. tauto.
  - intros (o & Ho & Hs & Hcov). exists o. split; [|tauto]. apply filter_In. split; [exact Ho|].
    exact (Hclosed c o Hc Ho Hp Hs).
Qed.

(* without that condition a sub-selection can only keep more clusters of a selected rule, and what
   it keeps in addition is covered by a cluster of a superior rule that was not selected *)
Lemma remove_redundant_subselection_more sup cs (p : Z -> bool) c :
  (In c (filter (fun c => p (pc_rule c)) (remove_redundant sup cs)) -> In c (remove_redundant sup (filter (fun c => p (pc_rule c)) cs))) /\
  (In c (remove_redundant sup (filter (fun c => p (pc_rule c)) cs)) -> ~ In c (remove_redundant sup cs) ->
   exists o, In o cs /\ p (pc_rule o) = false /\ In (pc_rule o) (superiors_of sup (pc_rule c)) /\ covers o c).
Proof.
  split.
  - intros H. apply filter_In in H. destruct H as [H Hp]. apply remove_redundant_spec in H. destruct H as [Hin Hn].
    apply remove_redundant_spec. split; [apply filter_In; tauto|].
    intros (o & Ho & Hs & Hcov). apply Hn. exists o. apply filter_In in Ho. tauto.
  - intros H Hnot. apply remove_redundant_spec in H. destruct H as [Hin Hn]. apply filter_In in Hin. destruct Hin as [Hin Hp].
    destruct (redundant_outer c (superiors_of sup (pc_rule c)) (clusters_by_rule cs)) eqn:E.
    + apply redundant_iff in E. destruct E as (o & Ho & Hs & Hcov). exists o. split; [exact Ho|]. split; [|tauto].
      destruct (p (pc_rule o)) eqn:Epo; [|reflexivity]. exfalso. apply Hn. exists o. split; [apply filter_In; tauto|tauto].
    + exfalso. apply Hnot. apply remove_redundant_spec. split; [exact Hin|]. intros Hr. apply redundant_iff in Hr. congruence.
Qed.

(* ---- the public constructors outside get_ruleset (the class of the repaired finding C07-K2,
   ruleset_copy_rescales_shared_rules): no constructor changes an existing object, every ruleset
   holds the rules it was given times its own multipliers, whatever is built before or after *)
Definition named (names : list Z) (r : rule) : bool := match names with [] => true | _ => mem (r_name r) names end.

Lemma named_refs_filter h names refs : named_refs h names refs = filter (fun i => named names (h_get h i)) refs.
Proof. unfold named_refs, named. destruct names; [symmetry; apply filter_true|reflexivity]. Qed.

Lemma named_rules_filter names l : named_rules names l = filter (named names) l.
Proof. unfold named_rules, named. destruct names; [symmetry; apply filter_true|reflexivity]. Qed.

Lemma copy_named_ok : forall h rs w names m, holds h rs w -> NoDup (map r_name w) ->
  exists h' rs', copy_with_replacements rs (named_refs h names (rs_rules rs)) m h = Ok (h', rs') /\
                 frame h h' /\ holds h' rs' (named_rules names w) /\ rs_mults rs' = m.
Proof.
  intros h rs w names m Hh Hw. rewrite named_refs_filter, named_rules_filter.
  apply copy_filter_ok; [exact Hh|exact Hw|]. intros m' r. unfold named. destruct names; reflexivity.
Qed.

Lemma holds_deref : forall h rs w, holds h rs w -> deref h (rs_rules rs) = map (scale_rule (rs_mults rs)) w.
Proof. intros h rs w [_ [_ [_ [_ [_ Hd]]]]]. exact Hd. Qed.

Lemma Forall2_combine_In : forall {A B} (P : A -> B -> Prop) l l' a b,
  Forall2 P l l' -> In (a, b) (combine l l') -> P a b.
Proof.
  intros A B P l l' a b F. induction F as [|x y l l' Hxy F IH]; cbn; [intros []|].
  intros [He|Hin]; [inversion He; subst; exact Hxy|apply IH; exact Hin].
Qed.

(* after any history of get_ruleset calls, a copy (any sub-selection by names, any multipliers) of
   any ruleset handed out holds its own selection times its own multipliers and leaves every
   ruleset handed out as it was *)
Lemma ruleset_copy_history : forall files qs st outs, files_ok files ->
  run_requests files init_state qs = (st, outs) ->
  forall q rs names m, In (q, Ok rs) (combine qs outs) ->
  exists h' rs', copy_with_replacements rs (named_refs (st_heap st) names (rs_rules rs)) m (st_heap st) = Ok (h', rs') /\
    deref h' (rs_rules rs') = map (scale_rule m) (named_rules names (select (q_names q) (q_cats q) (rule_files files (q_strict q)))) /\
    rs_mults rs' = m /\
    Forall2 (answer_ok files (mkState h' (st_cache st))) qs outs.
Proof.
  intros files qs st outs Hf Hrun q rs names m Hin.
  destruct (run_requests_inv files qs init_state st outs Hf (cache_inv_init files) Hrun) as [Hinv [_ Hall]].
  pose proof (Forall2_combine_In _ _ _ _ _ Hall Hin) as Hc. cbn in Hc.
  destruct (Hinv _ _ Hc) as [Hh Hm]. cbn [key_of k_names k_cats k_strict k_mults] in Hh.
  destruct (copy_named_ok (st_heap st) rs _ names m Hh) as [h' [rs' [Hcopy [Hfr [Hh' Hm']]]]].
  { apply select_names_nodup. apply Hf. }
  exists h', rs'. split; [exact Hcopy|]. split; [rewrite (holds_deref _ _ _ Hh'), Hm'; reflexivity|]. split; [exact Hm'|].
  eapply Forall2_imp; [|exact Hall]. intros q' [rs''|e] H; cbn in *; [|exact H].
  destruct (Hinv _ _ H) as [Hh'' Hm'']. split; [|exact Hm''].
  rewrite (holds_deref _ _ _ (holds_frame _ _ _ _ Hh'' Hfr)), Hm''. reflexivity.
Qed.

(* Ruleset.from_files(..., multipliers=m): the multipliers are applied once *)
Lemma from_files_scales_once : forall base m h, NoDup (map r_name base) ->
  exists h' rs, from_files base m h = Ok (h', rs) /\ deref h' (rs_rules rs) = map (scale_rule m) base /\ rs_mults rs = m /\
                forall j, (j < h_next h)%nat -> h_get h' j = h_get h j.
Proof.
  intros base m h Hb. destruct (from_files_ok base m h Hb) as [h' [rs [Hff [Hf [Hh Hm]]]]].
  exists h', rs. split; [exact Hff|]. split; [rewrite (holds_deref _ _ _ Hh), Hm; reflexivity|]. split; [exact Hm|apply Hf].
Qed.

(* the constructor itself over rule objects that others hold (another ruleset, the caller) *)
Lemma ruleset_init_shared : forall refs m h, (forall i, In i refs -> (i < h_next h)%nat) ->
  NoDup (map r_name (deref h refs)) ->
  exists h' rs, ruleset_init refs m h = Ok (h', rs) /\ deref h' (rs_rules rs) = map (scale_rule m) (deref h refs) /\
                rs_mults rs = m /\ forall j, (j < h_next h)%nat -> h_get h' j = h_get h j.
Proof.
  intros refs m h Hlt Hn. destruct (ruleset_init_holds refs m h Hlt Hn) as [h' [rs [Hi [Hf [Hh Hm]]]]].
  exists h', rs. split; [exact Hi|]. split; [rewrite (holds_deref _ _ _ Hh), Hm; reflexivity|]. split; [exact Hm|apply Hf].
Qed.

(* any sequence of from_files / copy_with_replacements / Ruleset(...) calls *)
Definition made_ok (h : heap) (o : res ruleset) (s : option (list rule * mults)) : Prop :=
  match o, s with
  | Ok rs, Some (w, m) => holds h rs w /\ rs_mults rs = m /\ NoDup (map r_name w)
  | Err e, None => e = E_Index
  | _, _ => False
  end.

Lemma made_ok_frame : forall h h' o s, frame h h' -> made_ok h o s -> made_ok h' o s.
Proof.
  intros h h' [rs|e] [[w m]|] Hf H; cbn in *; try exact H.
  destruct H as [Hh [Hm Hn]]. split; [apply (holds_frame _ _ _ _ Hh Hf)|auto].
Qed.

Lemma made_extend : forall h h' made spec o s, Forall2 (made_ok h) made spec -> frame h h' -> made_ok h' o s ->
  Forall2 (made_ok h') (made ++ [o]) (spec ++ [s]).
Proof.
  intros h h' made spec o s F Hf Ho. apply Forall2_app; [|constructor; [exact Ho|constructor]].
  eapply Forall2_imp; [|exact F]. intros a b H. apply (made_ok_frame h h'); assumption.
Qed.

Lemma Forall2_nth_error : forall {A B} (P : A -> B -> Prop) l l', Forall2 P l l' -> forall n,
  match nth_error l n, nth_error l' n with
  | Some a, Some b => P a b
  | None, None => True
  | _, _ => False
  end.
Proof.
  intros A B P l l' F. induction F as [|x y l l' Hxy F IH]; intros [|n]; cbn; auto. apply IH.
Qed.

Lemma run_api_inv : forall files ops h made spec h' made', files_ok files -> Forall2 (made_ok h) made spec ->
  run_api files h made ops = (h', made') -> Forall2 (made_ok h') made' (api_spec files spec ops).
Proof.
  intros files. induction ops as [|op rest IH]; intros h made spec h' made' Hfiles F Hrun; cbn [run_api api_spec] in *.
  - inversion Hrun; subst. exact F.
  - destruct op as [s m|j names keep m|j names m].
    + destruct (from_files_ok (rule_files files s) m h (Hfiles s)) as [h1 [rs [Hff [Hf [Hh Hm]]]]].
      rewrite Hff in Hrun. refine (IH h1 _ _ h' made' Hfiles _ Hrun).
      apply (made_extend h h1); [exact F|exact Hf|]. cbn. split; [exact Hh|]. split; [exact Hm|apply Hfiles].
    + pose proof (Forall2_nth_error _ _ _ F (Z.to_nat j)) as Hj.
      destruct (nth_error made (Z.to_nat j)) as [[rs|e]|]; destruct (nth_error spec (Z.to_nat j)) as [[[w mj]|]|];
        cbn in Hj; try contradiction.
      * destruct Hj as [Hh [Hm Hn]].
        destruct (copy_named_ok h rs w names (if keep then rs_mults rs else m) Hh Hn) as [h1 [rs' [Hc [Hf [Hh' Hm']]]]].
        rewrite Hc in Hrun. refine (IH h1 _ _ h' made' Hfiles _ Hrun).
        apply (made_extend h h1); [exact F|exact Hf|]. cbn. split; [exact Hh'|]. split.
        { rewrite Hm', Hm. reflexivity. }
        rewrite named_rules_filter. apply NoDup_map_filter. exact Hn.
      * refine (IH h _ _ h' made' Hfiles _ Hrun).
        apply (made_extend h h); [exact F|apply frame_refl|reflexivity].
      * refine (IH h _ _ h' made' Hfiles _ Hrun).
        apply (made_extend h h); [exact F|apply frame_refl|reflexivity].
    + pose proof (Forall2_nth_error _ _ _ F (Z.to_nat j)) as Hj.
      destruct (nth_error made (Z.to_nat j)) as [[rs|e]|]; destruct (nth_error spec (Z.to_nat j)) as [[[w mj]|]|];
        cbn in Hj; try contradiction.
      * destruct Hj as [Hh [Hm Hn]].
        assert (Hd : deref h (named_refs h names (rs_rules rs)) = named_rules names (map (scale_rule mj) w)).
        { rewrite named_refs_filter, named_rules_filter, (deref_filter h (named names)), (holds_deref _ _ _ Hh), Hm. reflexivity. }
        destruct (ruleset_init_holds (named_refs h names (rs_rules rs)) m h) as [h1 [rs' [Hi [Hf [Hh' Hm']]]]].
        { intros i Hi. rewrite named_refs_filter in Hi. apply filter_In in Hi. destruct Hi as [Hi _].
          destruct Hh as [Ho _]. apply Ho. exact Hi. }
        { rewrite Hd, named_rules_filter. apply NoDup_map_filter. rewrite map_name_scale. exact Hn. }
        rewrite Hi in Hrun. refine (IH h1 _ _ h' made' Hfiles _ Hrun).
        apply (made_extend h h1); [exact F|exact Hf|]. cbn. rewrite Hd in Hh'. split; [exact Hh'|]. split; [exact Hm'|].
        rewrite named_rules_filter. apply NoDup_map_filter. rewrite map_name_scale. exact Hn.
      * refine (IH h _ _ h' made' Hfiles _ Hrun).
        apply (made_extend h h); [exact F|apply frame_refl|reflexivity].
      * refine (IH h _ _ h' made' Hfiles _ Hrun).
        apply (made_extend h h); [exact F|apply frame_refl|reflexivity].
Qed.

Definition api_answer_ok (h : heap) (o : res ruleset) (s : option (list rule * mults)) : Prop :=
  match o, s with
  | Ok rs, Some (w, m) => deref h (rs_rules rs) = map (scale_rule m) w /\ rs_mults rs = m
  | Err e, None => e = E_Index
  | _, _ => False
  end.

Lemma constructors_history : forall files ops h made, files_ok files ->
  run_api files (st_heap init_state) [] ops = (h, made) ->
  Forall2 (api_answer_ok h) made (api_spec files [] ops).
Proof.
  intros files ops h made Hf Hrun.
  pose proof (run_api_inv files ops _ [] [] h made Hf (Forall2_nil _) Hrun) as H.
  eapply Forall2_imp; [|exact H]. intros [rs|e] [[w m]|] Hok; cbn in *; try exact Hok.
  destruct Hok as [Hh [Hm _]]. split; [|exact Hm]. rewrite (holds_deref _ _ _ Hh), Hm. reflexivity.
Qed.

(* ---- the cache: a repeated request is answered with the same ruleset and changes nothing *)
Lemma list_eqb_Z_refl : forall a, list_eqb Z.eqb a a = true.
Proof. induction a as [|x a IH]; cbn; [reflexivity|]. rewrite Z.eqb_refl, IH. reflexivity. Qed.

Lemma key_eqb_refl : forall k, key_eqb k k = true.
Proof.
  intros [s n c [[a b] [a' b']]]. unfold key_eqb, mults_eqb, ratio_eqb. cbn.
  rewrite !Z.eqb_refl, !list_eqb_Z_refl. reflexivity.
Qed.

Lemma get_ruleset_repeat : forall files st q st' rs,
  get_ruleset files st q = Ok (st', rs) -> get_ruleset files st' q = Ok (st', rs).
Proof.
  intros files st q st' rs H. unfold get_ruleset in *.
  destruct (negb (mults_valid (effective q))); [discriminate|].
  destruct (cache_get (key_of q) (st_cache st)) as [rs0|] eqn:Ec.
  - inversion H; subst. rewrite Ec. reflexivity.
  - destruct (from_files (rule_files files (q_strict q)) unit_mults (st_heap st)) as [[h1 rs0]|]; [|discriminate].
    match type of H with match ?X with _ => _ end = _ => destruct X as [[h2 rs2]|]; [|discriminate] end.
    inversion H; subst. cbn [st_cache cache_get]. rewrite key_eqb_refl. reflexivity.
Qed.

(* ---- the selection only depends on WHICH names and categories are asked for *)
Lemma mem_perm : forall x l l', Permutation l l' -> mem x l = mem x l'.
Proof.
  intros x l l' Hp. apply eq_iff_eq_true. rewrite !mem_In. split; apply Permutation_in; [|apply Permutation_sym]; exact Hp.
Qed.

Lemma selected_perm : forall ns ns' cs cs' r, Permutation ns ns' -> Permutation cs cs' ->
  selected ns cs r = selected ns' cs' r.
Proof.
  intros ns ns' cs cs' r Hn Hc. unfold selected. f_equal.
  - destruct ns as [|a ns]; [apply Permutation_nil in Hn; subst; reflexivity|].
    destruct ns' as [|a' ns']; [apply Permutation_sym in Hn; apply Permutation_nil in Hn; discriminate|].
    apply mem_perm. exact Hn.
  - destruct cs as [|a cs]; [apply Permutation_nil in Hc; subst; reflexivity|].
    destruct cs' as [|a' cs']; [apply Permutation_sym in Hc; apply Permutation_nil in Hc; discriminate|].
    apply mem_perm. exact Hc.
Qed.

Lemma expected_rules_perm : forall files s ns ns' cs cs' f m, Permutation ns ns' -> Permutation cs cs' ->
  expected_rules files (mkReq s ns cs f m) = expected_rules files (mkReq s ns' cs' f m).
Proof.
  intros files s ns ns' cs cs' f m Hn Hc. rewrite !expected_rules_filter. cbn [q_names q_cats q_strict effective q_fungi q_mults].
  apply filter_ext_in'. intros r _. apply selected_perm; assumption.
Qed.
