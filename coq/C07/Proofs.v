(* C07 proofs *)
From Coq Require Import Lia ZifyBool Sorting.Permutation.
From ASV.C07 Require Import Model.
From ASV.C04 Require Proofs.
From ASV.C03 Require Model Proofs.

Section Cache.
Context {R I O : Type}.
Variable cutoff_of : R -> Z.
Variable info : Z -> I.
Variable detect : R -> I -> O.

Definition cache_ok (cache : list (Z * I)) : Prop := forall k v, lookup k cache = Some v -> v = info k.

(* with the cache every rule is evaluated on exactly the information computed for its own cutoff *)
Lemma eval_rules_transparent : forall rules cache, cache_ok cache ->
  eval_rules cutoff_of info detect cache rules = map (fun r => detect r (info (cutoff_of r))) rules.
Proof.
  induction rules as [|r rest IH]; intros cache Hok; cbn [eval_rules map]; [reflexivity|].
  destruct (lookup (cutoff_of r) cache) as [v|] eqn:Hl.
  - rewrite (Hok _ _ Hl). f_equal. apply IH. exact Hok.
  - f_equal. apply IH. intros k v. cbn [lookup]. destruct (k =? cutoff_of r) eqn:Hk.
    + intros Hs. inversion Hs; subst. f_equal. lia.
    + apply Hok.
Qed.

Lemma cache_ok_nil : cache_ok [].
Proof. intros k v H. discriminate. Qed.

(* so the result of a rule does not depend on which other rules are evaluated, nor in which order *)
Lemma eval_rules_perm rules rules' :
  Permutation rules rules' ->
  Permutation (combine rules (eval_rules cutoff_of info detect [] rules))
              (combine rules' (eval_rules cutoff_of info detect [] rules')).
Proof.
  intros Hp. rewrite !eval_rules_transparent by apply cache_ok_nil.
  assert (Hc : forall l, combine l (map (fun r => detect r (info (cutoff_of r))) l)
                         = map (fun r => (r, detect r (info (cutoff_of r)))) l).
  { induction l as [|x l IH]; cbn; [reflexivity|]. rewrite IH. reflexivity. }
  rewrite !Hc. apply Permutation_map. exact Hp.
Qed.

Lemma eval_rules_subselection rules r :
  In r rules -> In (r, detect r (info (cutoff_of r))) (combine rules (eval_rules cutoff_of info detect [] rules)).
Proof.
  intros Hin. rewrite eval_rules_transparent by apply cache_ok_nil.
  induction rules as [|x l IH]; [destruct Hin|]. cbn. destruct Hin as [->|Hin]; [left; reflexivity|right; apply IH; exact Hin].
Qed.
End Cache.

(* rotation: the distance between two parts depends only on coordinate differences, so moving
   both by the same amount (no part crossing the new origin) leaves it unchanged, on a line and
   on a ring of any length *)
Definition shiftp (k : Z) (p : part) : part := mkPart (ps p + k) (pe p + k) (pst p).

Lemma part_overlap_shift k a b : part_overlap (shiftp k a) (shiftp k b) = part_overlap a b.
Proof. unfold part_overlap, in_part, shiftp. cbn [ps pe]. lia. Qed.

Lemma pdist_line_shift k a b : pdist_line (shiftp k a) (shiftp k b) = pdist_line a b.
Proof.
  unfold pdist_line. rewrite part_overlap_shift. destruct (part_overlap a b); [reflexivity|].
  unfold shiftp. cbn [ps pe].
  replace (ps a + k - (pe b + k)) with (ps a - pe b) by lia.
  replace (pe a + k - (ps b + k)) with (pe a - ps b) by lia.
  replace (ps b + k - (pe a + k)) with (ps b - pe a) by lia.
  replace (pe b + k - (ps a + k)) with (pe b - ps a) by lia.
  reflexivity.
Qed.

Lemma pdist_shift k a b w : pdist (shiftp k a) (shiftp k b) w = pdist a b w.
Proof.
  unfold pdist. rewrite part_overlap_shift, pdist_line_shift. destruct (part_overlap a b); [reflexivity|].
  destruct w as [w|]; [|reflexivity]. destruct (w =? 0); [reflexivity|].
  unfold shiftp. cbn [ps pe].
  replace (ps a + k - (pe b + k) + w) with (ps a - pe b + w) by lia.
  replace (pe a + k - (ps b + k) + w) with (pe a - ps b + w) by lia.
  replace (ps b + k - (pe a + k) + w) with (ps b - pe a + w) by lia.
  replace (pe b + k - (ps a + k) + w) with (pe b - ps a + w) by lia.
  reflexivity.
Qed.

(* ---------- remove_redundant_protoclusters ---------- *)
(* the CDS ranges of the two cores meet: neither lies wholly before the other *)
Definition cds_ranges_meet (o c : pc) : Prop := pc_first c <= pc_last o /\ pc_first o <= pc_last c.
(* "a superior covering the same (or larger) region" *)
Definition covers (o c : pc) : Prop := contains (pc_core o) (pc_core c) = true \/ cds_ranges_meet o c.
Definition coversb (o c : pc) : bool :=
  contains (pc_core o) (pc_core c) || (negb (pc_last o <? pc_first c) && negb (pc_last c <? pc_first o)).

Lemma coversb_spec o c : coversb o c = true <-> covers o c.
Proof. unfold coversb, covers, cds_ranges_meet. destruct (contains (pc_core o) (pc_core c)); cbn; [tauto|]. split; [intros H; right; lia|intros [H|H]; [discriminate|lia]]. Qed.

Lemma redundant_inner_spec c : forall others flag,
  redundant_inner c others flag = flag || existsb (fun o => coversb o c) others.
Proof.
  induction others as [|o rest IH]; intros flag; cbn [redundant_inner existsb].
  - rewrite orb_false_r. reflexivity.
  - unfold coversb at 1. destruct (contains (pc_core o) (pc_core c)); cbn [orb].
    + rewrite IH. cbn. rewrite orb_true_r. reflexivity.
    + destruct (pc_last o <? pc_first c); cbn [negb andb orb]; [apply IH|].
      destruct (pc_last c <? pc_first o); cbn [negb andb orb]; [apply IH|]. rewrite orb_true_r. reflexivity.
Qed.

Lemma redundant_outer_spec c by_rule : forall sups,
  redundant_outer c sups by_rule = existsb (fun s => existsb (fun o => coversb o c) (by_rule s)) sups.
Proof.
  induction sups as [|s rest IH]; cbn [redundant_outer existsb]; [reflexivity|].
  rewrite redundant_inner_spec. cbn [orb]. destruct (existsb (fun o => coversb o c) (by_rule s)); cbn [orb]; [reflexivity|apply IH].
Qed.

(* the order-free meaning of the removal: some cluster of a superior rule covers this one *)
Definition redundant (sup : list (Z * list Z)) (cs : list pc) (c : pc) : Prop :=
  exists o, In o cs /\ In (pc_rule o) (superiors_of sup (pc_rule c)) /\ covers o c.

Lemma redundant_iff sup cs c :
  redundant_outer c (superiors_of sup (pc_rule c)) (clusters_by_rule cs) = true <-> redundant sup cs c.
Proof.
  rewrite redundant_outer_spec, existsb_exists. unfold redundant, clusters_by_rule. split.
  - intros (s & Hs & Hex). apply existsb_exists in Hex. destruct Hex as (o & Ho & Hc).
    apply filter_In in Ho. destruct Ho as [Ho Hr]. exists o. split; [exact Ho|]. split.
    + replace (pc_rule o) with s by lia. exact Hs.
    + apply coversb_spec. exact Hc.
  - intros (o & Ho & Hs & Hc). exists (pc_rule o). split; [exact Hs|]. apply existsb_exists. exists o. split.
    + apply filter_In. split; [exact Ho|lia].
    + apply coversb_spec. exact Hc.
Qed.

Lemma remove_redundant_spec sup cs c :
  In c (remove_redundant sup cs) <-> In c cs /\ ~ redundant sup cs c.
Proof.
  unfold remove_redundant. rewrite filter_In, negb_true_iff, <- redundant_iff.
  destruct (redundant_outer c (superiors_of sup (pc_rule c)) (clusters_by_rule cs)); split; intros [H1 H2]; split; auto; try discriminate.
  exfalso. apply H2. reflexivity.
Qed.

Lemma perm_filter {A} (f : A -> bool) l l' : Permutation l l' -> Permutation (filter f l) (filter f l').
Proof.
  induction 1 as [|x l l' Hp IH|x y l|l l' l'' H1 IH1 H2 IH2]; cbn.
  - constructor.
  - destruct (f x); [constructor|]; exact IH.
  - destruct (f x), (f y); try apply Permutation_refl. apply perm_swap.
  - eapply Permutation_trans; eassumption.
Qed.

Lemma filter_ext_in' {A} (f g : A -> bool) l : (forall a, In a l -> f a = g a) -> filter f l = filter g l.
Proof.
  induction l as [|x l IH]; intros H; cbn; [reflexivity|].
  rewrite (H x (or_introl eq_refl)), IH; [reflexivity|]. intros a Ha. apply H. right. exact Ha.
Qed.

Lemma redundant_perm sup cs cs' c : Permutation cs cs' -> redundant sup cs c -> redundant sup cs' c.
Proof. intros Hp (o & Ho & H). exists o. split; [eapply Permutation_in; eassumption|exact H]. Qed.

(* the kept clusters do not depend on the order in which the clusters (hence the rules) are listed *)
Lemma remove_redundant_perm sup cs cs' :
  Permutation cs cs' -> Permutation (remove_redundant sup cs) (remove_redundant sup cs').
Proof.
  intros Hp. unfold remove_redundant.
  eapply Permutation_trans; [apply perm_filter; exact Hp|].
  erewrite filter_ext_in'; [apply Permutation_refl|].
  intros c _. apply (f_equal negb). apply eq_iff_eq_true. rewrite !redundant_iff.
  split; apply redundant_perm; [|apply Permutation_sym]; exact Hp.
Qed.

(* a cluster of a rule without superiors is never removed; removal never invents clusters *)
Lemma remove_redundant_no_superiors sup cs c :
  In c cs -> superiors_of sup (pc_rule c) = [] -> In c (remove_redundant sup cs).
Proof. intros Hin Hs. apply remove_redundant_spec. split; [exact Hin|]. intros (o & _ & Ho & _). rewrite Hs in Ho. destruct Ho. Qed.

(* ---------- rotation primitives: overlap and containment ---------- *)
Lemma existsb_map {A B} (f : B -> bool) (g : A -> B) l : existsb f (map g l) = existsb (fun x => f (g x)) l.
Proof. induction l as [|x l IH]; cbn; [reflexivity|]. rewrite IH. reflexivity. Qed.
Lemma forallb_map {A B} (f : B -> bool) (g : A -> B) l : forallb f (map g l) = forallb (fun x => f (g x)) l.
Proof. induction l as [|x l IH]; cbn; [reflexivity|]. rewrite IH. reflexivity. Qed.
Lemma existsb_ext' {A} (f g : A -> bool) l : (forall x, f x = g x) -> existsb f l = existsb g l.
Proof. intros H. induction l as [|x l IH]; cbn; [reflexivity|]. rewrite H, IH. reflexivity. Qed.
Lemma forallb_ext' {A} (f g : A -> bool) l : (forall x, f x = g x) -> forallb f l = forallb g l.
Proof. intros H. induction l as [|x l IH]; cbn; [reflexivity|]. rewrite H, IH. reflexivity. Qed.

Definition shiftl (k : Z) (l : loc) : loc := map (shiftp k) l.

Lemma part_contains_shift k o i : part_contains (shiftp k o) (shiftp k i) = part_contains o i.
Proof. unfold part_contains, shiftp. cbn [ps pe]. lia. Qed.

Lemma overlap_shift k a b : overlap (shiftl k a) (shiftl k b) = overlap a b.
Proof.
  unfold overlap, shiftl. rewrite existsb_map. apply existsb_ext'. intros p.
  rewrite existsb_map. apply existsb_ext'. intros q. apply part_overlap_shift.
Qed.

Lemma contains_shift k o i : contains (shiftl k o) (shiftl k i) = contains o i.
Proof.
  unfold contains, shiftl. rewrite forallb_map. apply forallb_ext'. intros p.
  rewrite existsb_map. apply existsb_ext'. intros q. apply part_contains_shift.
Qed.

(* ---------- rotation of the origin by k on a ring of length N ----------
   a part that the new origin does not cut moves by k, or by k - N when it lies behind the cut *)
Definition in_rec (N : Z) (p : part) : Prop := 0 <= ps p /\ ps p < pe p /\ pe p <= N.
Definition uncut (N k : Z) (p : part) : Prop := pe p + k <= N \/ N <= ps p + k.
Definition rotp (N k : Z) (p : part) : part := if pe p + k <=? N then shiftp k p else shiftp (k - N) p.

Lemma rotp_in_rec N k p : 0 <= k < N -> in_rec N p -> uncut N k p -> in_rec N (rotp N k p).
Proof. unfold in_rec, uncut, rotp. intros Hk Hp Hu. destruct (pe p + k <=? N) eqn:E; unfold shiftp; cbn [ps pe]; lia. Qed.

Lemma part_overlap_rot N k a b : 0 <= k < N -> in_rec N a -> in_rec N b -> uncut N k a -> uncut N k b ->
  part_overlap (rotp N k a) (rotp N k b) = part_overlap a b.
Proof.
  unfold in_rec, uncut, rotp. intros Hk Ha Hb Hua Hub.
  destruct (pe a + k <=? N) eqn:Ea; destruct (pe b + k <=? N) eqn:Eb;
    unfold part_overlap, in_part, shiftp; cbn [ps pe]; lia.
Qed.

Lemma part_contains_rot N k o i : 0 <= k < N -> in_rec N o -> in_rec N i -> uncut N k o -> uncut N k i ->
  part_contains (rotp N k o) (rotp N k i) = part_contains o i.
Proof.
  unfold in_rec, uncut, rotp. intros Hk Ha Hb Hua Hub.
  destruct (pe o + k <=? N) eqn:Ea; destruct (pe i + k <=? N) eqn:Eb;
    unfold part_contains, shiftp; cbn [ps pe]; lia.
Qed.

Lemma ring_gap_rot N k a b : 0 <= k < N -> in_rec N a -> in_rec N b -> uncut N k a -> uncut N k b ->
  part_overlap a b = false ->
  Z.min (ASV.C04.Model.wrap_gap N (rotp N k a) (rotp N k b)) (ASV.C04.Model.gap (rotp N k a) (rotp N k b))
  = Z.min (ASV.C04.Model.wrap_gap N a b) (ASV.C04.Model.gap a b).
Proof.
  intros Hk Ha Hb Hua Hub Ho.
  apply C04.Proofs.part_overlap_false in Ho; [|unfold C04.Proofs.wf_part, in_rec in *; lia|unfold C04.Proofs.wf_part, in_rec in *; lia].
  unfold in_rec, uncut, rotp in *.
  destruct (pe a + k <=? N) eqn:Ea; destruct (pe b + k <=? N) eqn:Eb;
    unfold ASV.C04.Model.wrap_gap, ASV.C04.Model.gap, shiftp; cbn [ps pe];
    repeat match goal with |- context [?x <=? ?y] => destruct (x <=? y) eqn:? end; lia.
Qed.

(* ring distance is the same in both frames, also for a pair separated by the new origin *)
Lemma pdist_rot N k a b : 0 <= k < N -> in_rec N a -> in_rec N b -> uncut N k a -> uncut N k b ->
  pdist (rotp N k a) (rotp N k b) (Some N) = pdist a b (Some N).
Proof.
  intros Hk Ha Hb Hua Hub.
  pose proof (rotp_in_rec N k a Hk Ha Hua) as Ha'. pose proof (rotp_in_rec N k b Hk Hb Hub) as Hb'.
  rewrite (C04.Proofs.pdist_ring_spec N (rotp N k a) (rotp N k b)); try (unfold C04.Proofs.wf_part, in_rec in *; lia).
  rewrite (C04.Proofs.pdist_ring_spec N a b); try (unfold C04.Proofs.wf_part, in_rec in *; lia).
  rewrite part_overlap_rot by assumption.
  destruct (part_overlap a b) eqn:Ho; [reflexivity|]. apply ring_gap_rot; assumption.
Qed.

Lemma dist_rot_simple N k a b : 0 <= k < N -> in_rec N a -> in_rec N b -> uncut N k a -> uncut N k b ->
  dist [rotp N k a] [rotp N k b] (Some N) = dist [a] [b] (Some N).
Proof.
  intros Hk Ha Hb Hua Hub. unfold dist, overlap. cbn [existsb]. rewrite !orb_false_r.
  rewrite part_overlap_rot by assumption. rewrite pdist_rot by assumption. reflexivity.
Qed.

(* ---------- chain level: the sweep of C03 commutes with a change of frame that moves every
   anchoring gene by the same amount (both origins outside the span of the anchors) ---------- *)
Module M3 := ASV.C03.Model.
Module P3 := ASV.C03.Proofs.

Definition shifti (k : Z) (i : M3.itv) : M3.itv := M3.mkItv (M3.s i + k) (M3.e i + k).
Definition shiftg (k : Z) (g : M3.group) : M3.group :=
  let '(cs, he, ms) := g in (cs + k, he + k, map (shifti k) ms).

Lemma itv_lt_shift k a b : M3.itv_lt (shifti k a) (shifti k b) = M3.itv_lt a b.
Proof. unfold M3.itv_lt, shifti. cbn [M3.s M3.e]. lia. Qed.

Lemma insert_shift k x : forall l,
  insert_by M3.itv_lt (shifti k x) (map (shifti k) l) = map (shifti k) (insert_by M3.itv_lt x l).
Proof.
  induction l as [|y l IH]; cbn [insert_by map]; [reflexivity|].
  rewrite itv_lt_shift. destruct (M3.itv_lt x y); cbn [map]; [reflexivity|]. rewrite IH. reflexivity.
Qed.

Lemma sort_shift_acc k : forall l acc,
  fold_left (fun acc x => insert_by M3.itv_lt x acc) (map (shifti k) l) (map (shifti k) acc)
  = map (shifti k) (fold_left (fun acc x => insert_by M3.itv_lt x acc) l acc).
Proof.
  induction l as [|x l IH]; intros acc; cbn [fold_left map]; [reflexivity|].
  rewrite insert_shift. apply IH.
Qed.

Lemma sort_shift k l : sort_by M3.itv_lt (map (shifti k) l) = map (shifti k) (sort_by M3.itv_lt l).
Proof. unfold sort_by. apply (sort_shift_acc k l []). Qed.

Lemma step_shift N c k gs i : P3.wf N i -> P3.wf N (shifti k i) ->
  M3.step N c (map (shiftg k) gs) (shifti k i) = map (shiftg k) (M3.step N c gs i).
Proof.
  unfold P3.wf, shifti. cbn [M3.s M3.e]. intros Hi Hk.
  destruct gs as [|[[cs he] ms] rest]; cbn [M3.step map shiftg M3.s M3.e]; [reflexivity|].
  assert (Ht : ((M3.s i + k <? Z.min N (he + k + c)) && (Z.max 0 (cs + k - c) <? M3.e i + k))
               = ((M3.s i <? Z.min N (he + c)) && (Z.max 0 (cs - c) <? M3.e i))) by lia.
  rewrite Ht. destruct ((M3.s i <? Z.min N (he + c)) && (Z.max 0 (cs - c) <? M3.e i)); cbn [map shiftg]; [|reflexivity].
  rewrite Z.add_min_distr_r, Z.add_max_distr_r. reflexivity.
Qed.

Lemma sweep_shift_acc N c k : forall l gs, Forall (P3.wf N) l -> Forall (P3.wf N) (map (shifti k) l) ->
  fold_left (M3.step N c) (map (shifti k) l) (map (shiftg k) gs) = map (shiftg k) (fold_left (M3.step N c) l gs).
Proof.
  induction l as [|x l IH]; intros gs H1 H2; cbn [fold_left map]; [reflexivity|].
  inversion H1; subst. cbn [map] in H2. inversion H2; subst.
  rewrite step_shift by assumption. apply IH; assumption.
Qed.

Lemma sweep_shift N c k anchors : Forall (P3.wf N) anchors -> Forall (P3.wf N) (map (shifti k) anchors) ->
  M3.sweep N c (sort_by M3.itv_lt (map (shifti k) anchors))
  = map (shiftg k) (M3.sweep N c (sort_by M3.itv_lt anchors)).
Proof.
  intros H1 H2. rewrite sort_shift. unfold M3.sweep.
  apply (sweep_shift_acc N c k (sort_by M3.itv_lt anchors) []).
  - eapply Permutation_Forall; [apply P3.sort_perm|exact H1].
  - rewrite <- sort_shift. eapply Permutation_Forall; [apply P3.sort_perm|exact H2].
Qed.

(* ---------- connect_locations / extend_location on a ring, away from the origin ---------- *)
Module P4 := ASV.C04.Proofs.

Lemma mapM_reduce_simple_wrap w locs : P4.simple_locs locs ->
  mapM (fun l => reduce_parts l w) locs = Ok locs.
Proof.
  induction 1 as [|l locs [p ->] _ IH]; simpl; [reflexivity|].
  rewrite IH. reflexivity.
Qed.

Lemma simple_bounds locs x : P4.simple_locs locs -> Forall P4.wf_loc locs -> In x locs ->
  lmin (map lstart locs) <= lstart x /\ lstart x < lend x /\ lend x <= lmax (map lend locs).
Proof.
  intros Hs Hwf Hin. split; [apply P4.lmin_le, in_map, Hin|]. split; [|apply P4.lmax_ge, in_map, Hin].
  unfold P4.simple_locs in Hs. rewrite Forall_forall in Hs, Hwf.
  destruct (Hs x Hin) as [p ->]. destruct (Hwf [p] Hin) as [_ Hw]. inversion Hw; subst. unfold P4.wf_part in *. cbn. assumption.
Qed.

Lemma wrapping_shorter_short locs N : P4.simple_locs locs -> Forall P4.wf_loc locs ->
  lmax (map lend locs) - lmin (map lstart locs) <= N / 2 -> wrapping_shorter locs N = false.
Proof.
  intros Hs Hwf Hspan. unfold wrapping_shorter. rewrite P4.existsb_bridges_simple by assumption.
  pose proof (ASV.C03.Proofs.sort_perm key_lt locs) as Hp.
  destruct (sort_by key_lt locs) as [|first rest]; [reflexivity|].
  destruct (existsb (fun second => N / 2 <? lstart second - lend first) rest) eqn:E; [|reflexivity].
  apply existsb_exists in E. destruct E as (second & Hin & Hlt).
  assert (H1 : In first locs) by (eapply Permutation_in; [apply Permutation_sym, Hp|left; reflexivity]).
  assert (H2 : In second locs) by (eapply Permutation_in; [apply Permutation_sym, Hp|right; exact Hin]).
  pose proof (simple_bounds locs first Hs Hwf H1). pose proof (simple_bounds locs second Hs Hwf H2). lia.
Qed.

Lemma connect_ring_short locs N : locs <> [] -> P4.simple_locs locs -> Forall P4.wf_loc locs -> 0 < N ->
  lmax (map lend locs) - lmin (map lstart locs) <= N / 2 ->
  connect_locations locs (Some N) = connect_locations locs None.
Proof.
  intros Hne Hs Hwf HN Hspan.
  destruct (P4.connect_line_simple locs Hne Hs Hwf) as (h & Hh & _).
  assert (Hline : connect_line locs = Ok [h]).
  { rewrite <- Hh. unfold connect_locations, connect_fuel.
    destruct locs as [|l0 locs']; [congruence|].
    replace (2 * length (l0 :: locs') + 8)%nat with (S (2 * length (l0 :: locs') + 7))%nat by lia.
    reflexivity. }
  rewrite Hh. unfold connect_locations, connect_fuel.
  destruct locs as [|l0 locs']; [congruence|].
  set (locs := l0 :: locs') in *.
  replace (2 * length locs + 8)%nat with (S (2 * length locs + 7))%nat by lia.
  cbn [connect]. fold locs.
  rewrite P4.existsb_bridges_simple by assumption.
  rewrite mapM_reduce_simple_wrap by assumption. cbn [bind].
  destruct (N <=? 0) eqn:EN; [lia|].
  unfold merge_over_origin, split_sections. rewrite wrapping_shorter_short by assumption.
  cbn [negb bind]. unfold locs at 1. fold locs. rewrite Hline. cbn [bind is_compound]. reflexivity.
Qed.


Lemma lmin_shift k l : l <> [] -> lmin (map (fun x => x + k) l) = lmin l + k.
Proof.
  intros Hne. assert (Hne' : map (fun x => x + k) l <> []) by (destruct l; [congruence|discriminate]).
  pose proof (P4.lmin_in _ Hne') as Hin. apply in_map_iff in Hin. destruct Hin as (y & Hy & Hyl).
  pose proof (P4.lmin_le l y Hyl).
  pose proof (P4.lmin_le (map (fun x => x + k) l) (lmin l + k)) as H2.
  specialize (H2 (in_map (fun x => x + k) l _ (P4.lmin_in l Hne))). lia.
Qed.
Lemma lmax_shift k l : l <> [] -> lmax (map (fun x => x + k) l) = lmax l + k.
Proof.
  intros Hne. assert (Hne' : map (fun x => x + k) l <> []) by (destruct l; [congruence|discriminate]).
  pose proof (P4.lmax_in _ Hne') as Hin. apply in_map_iff in Hin. destruct Hin as (y & Hy & Hyl).
  pose proof (P4.lmax_ge l y Hyl).
  pose proof (P4.lmax_ge (map (fun x => x + k) l) (lmax l + k)) as H2.
  specialize (H2 (in_map (fun x => x + k) l _ (P4.lmax_in l Hne))). lia.
Qed.

Lemma simple_shift k locs : P4.simple_locs locs -> P4.simple_locs (map (shiftl k) locs).
Proof. induction 1 as [|l locs [p ->] _ IH]; constructor; [exists (shiftp k p); reflexivity|exact IH]. Qed.
Lemma wf_shift k locs : P4.simple_locs locs -> Forall P4.wf_loc locs -> Forall P4.wf_loc (map (shiftl k) locs).
Proof.
  induction 1 as [|l locs [p ->] _ IH]; intros Hwf; inversion Hwf as [|x xs [_ Hw] Hr]; subst; constructor; [|apply IH; exact Hr].
  split; [discriminate|]. inversion Hw; subst. repeat constructor. unfold P4.wf_part, shiftp in *. cbn [ps pe]. lia.
Qed.
Lemma starts_shift k locs : P4.simple_locs locs ->
  map lstart (map (shiftl k) locs) = map (fun x => x + k) (map lstart locs).
Proof. induction 1 as [|l locs [p ->] _ IH]; cbn [map]; [reflexivity|]. rewrite IH. reflexivity. Qed.
Lemma ends_shift k locs : P4.simple_locs locs ->
  map lend (map (shiftl k) locs) = map (fun x => x + k) (map lend locs).
Proof. induction 1 as [|l locs [p ->] _ IH]; cbn [map]; [reflexivity|]. rewrite IH. reflexivity. Qed.
Lemma strand_shift k locs : P4.simple_locs locs -> common_strand (map (shiftl k) locs) = common_strand locs.
Proof.
  intros Hs. destruct Hs as [|l locs [p ->] Hr]; [reflexivity|]. cbn [map common_strand].
  replace (lstrand (shiftl k [p])) with (lstrand [p]) by reflexivity.
  rewrite forallb_map.
  rewrite (forallb_ext' _ (fun q => lstrand q =? lstrand [p])); [reflexivity|].
  intros q. destruct q as [|q0 qr]; [reflexivity|]. cbn [shiftl map lstrand].
  rewrite forallb_map. reflexivity.
Qed.

(* connecting single-part areas whose hull is at most half the ring commutes with moving them all by k *)
Lemma connect_shift_ring locs N k : locs <> [] -> P4.simple_locs locs -> Forall P4.wf_loc locs -> 0 < N ->
  lmax (map lend locs) - lmin (map lstart locs) <= N / 2 ->
  exists h, connect_locations locs (Some N) = Ok [h] /\
            connect_locations (map (shiftl k) locs) (Some N) = Ok [shiftp k h].
Proof.
  intros Hne Hs Hwf HN Hspan.
  assert (Hne' : map (shiftl k) locs <> []) by (destruct locs; [congruence|discriminate]).
  assert (Hm1 : map lstart locs <> []) by (destruct locs; [congruence|discriminate]).
  assert (Hm2 : map lend locs <> []) by (destruct locs; [congruence|discriminate]).
  pose proof (simple_shift k locs Hs) as Hs'. pose proof (wf_shift k locs Hs Hwf) as Hwf'.
  rewrite (connect_ring_short locs N) by assumption.
  rewrite (connect_ring_short (map (shiftl k) locs) N); try assumption.
  2:{ rewrite starts_shift, ends_shift by assumption. rewrite lmin_shift, lmax_shift by assumption. lia. }
  destruct (P4.connect_line_simple locs Hne Hs Hwf) as (h & Hh & H1 & H2 & H3 & _).
  destruct (P4.connect_line_simple _ Hne' Hs' Hwf') as (h' & Hh' & H1' & H2' & H3' & _).
  exists h. split; [exact Hh|]. rewrite Hh'. f_equal. f_equal.
  rewrite starts_shift, lmin_shift in H1' by assumption. rewrite ends_shift, lmax_shift in H2' by assumption.
  rewrite strand_shift in H3' by assumption.
  destruct h as [a b c], h' as [a' b' c']. unfold shiftp. cbn [ps pe pst] in *. subst. reflexivity.
Qed.

Lemma extend_ring_inner p d N :
  0 <= d -> 0 <= ps p - d -> ps p < pe p -> pe p + d <= N ->
  extend_location [p] d N true = Ok [mkPart (ps p - d) (pe p + d) (pst p)].
Proof.
  intros Hd H0 Hlt HN. unfold extend_location.
  assert (Hst : lstrand [p] = pst p) by reflexivity. rewrite Hst.
  assert (Hrev : (if pst p =? -1 then rev [p] else [p]) = [p]) by (destruct (pst p =? -1); reflexivity).
  rewrite Hrev. cbn [last_opt rev app].
  assert (E0 : (ps p - d <? 0) = false) by lia. rewrite E0. cbn [andb].
  cbn [length merge_ends last_opt rev app tl removelast].
  rewrite E0. cbn [andb].
  unfold mkFL. cbn [ps pe pst].
  destruct (pe p <? Z.max 0 (ps p - d)) eqn:E1; [lia|]. cbn [bind last_opt rev app].
  cbn [ps pe pst].
  assert (E2 : (N <? pe p + d) = false) by lia. rewrite E2. cbn [andb].
  destruct (Z.min (pe p + d) N <? Z.max 0 (ps p - d)) eqn:E3; [lia|].
  cbn [bind removelast app length merge_ends last_opt rev].
  rewrite Z.max_r by lia. rewrite Z.min_l by lia. reflexivity.
Qed.

(* extending a single part by the cutoff/neighbourhood commutes with moving it, as long as the
   extension stays inside the record in both frames *)
Lemma extend_shift_ring p d N k :
  0 <= d -> ps p < pe p -> 0 <= ps p - d -> pe p + d <= N -> 0 <= ps p + k - d -> pe p + k + d <= N ->
  exists r, extend_location [p] d N true = Ok r /\ extend_location (shiftl k [p]) d N true = Ok (shiftl k r).
Proof.
  intros Hd Hlt H0 HN H0' HN'. eexists. split; [apply extend_ring_inner; assumption|].
  cbn [shiftl map]. rewrite extend_ring_inner; unfold shiftp; cbn [ps pe pst]; try lia.
  f_equal. f_equal. f_equal; lia.
Qed.

(* ---------- conjunctions stated as theorems ---------- *)
Lemma rotation_overlap_contains k a b :
  overlap (shiftl k a) (shiftl k b) = overlap a b /\ contains (shiftl k a) (shiftl k b) = contains a b.
Proof. split; [apply overlap_shift|apply contains_shift]. Qed.

Lemma rotation_ring_primitives N k a b :
  0 <= k < N -> in_rec N a -> in_rec N b -> uncut N k a -> uncut N k b ->
  in_rec N (rotp N k a) /\
  part_overlap (rotp N k a) (rotp N k b) = part_overlap a b /\
  part_contains (rotp N k a) (rotp N k b) = part_contains a b /\
  pdist (rotp N k a) (rotp N k b) (Some N) = pdist a b (Some N) /\
  dist [rotp N k a] [rotp N k b] (Some N) = dist [a] [b] (Some N).
Proof.
  intros Hk Ha Hb Hua Hub.
  split; [apply rotp_in_rec; assumption|]. split; [apply part_overlap_rot; assumption|].
  split; [apply part_contains_rot; assumption|]. split; [apply pdist_rot; assumption|apply dist_rot_simple; assumption].
Qed.

Lemma rotation_connect locs N k :
  locs <> [] -> P4.simple_locs locs -> Forall P4.wf_loc locs -> 0 < N ->
  lmax (map lend locs) - lmin (map lstart locs) <= N / 2 ->
  connect_locations locs (Some N) = connect_locations locs None /\
  exists h, connect_locations locs (Some N) = Ok [h] /\
            connect_locations (map (shiftl k) locs) (Some N) = Ok [shiftp k h].
Proof. intros. split; [apply connect_ring_short; assumption|apply connect_shift_ring; assumption]. Qed.

Lemma cache_transparent_nil {R I O : Type} (cutoff_of : R -> Z) (info : Z -> I) (detect : R -> I -> O) rules :
  eval_rules cutoff_of info detect [] rules = map (fun r => detect r (info (cutoff_of r))) rules.
Proof. apply eval_rules_transparent. apply cache_ok_nil. Qed.

(* ================= get_ruleset: history independence ================= *)

Lemma scale_unit : forall d, scale d (1, 1) = d.
Proof. intros d. unfold scale. cbn [fst snd]. rewrite Z.mul_1_r. apply Z.quot_1_r. Qed.

Lemma scale_rule_unit : forall r, scale_rule unit_mults r = r.
Proof. intros [n c d b]. unfold scale_rule, unit_mults. cbn. rewrite !scale_unit. reflexivity. Qed.

Lemma map_scale_rule_unit : forall l, map (scale_rule unit_mults) l = l.
Proof. induction l as [|a l IH]; cbn; [reflexivity|]. rewrite scale_rule_unit, IH. reflexivity. Qed.

Lemma scale_rule_name : forall m r, r_name (scale_rule m r) = r_name r.
Proof. reflexivity. Qed.

Lemma mem_In : forall x l, mem x l = true <-> In x l.
Proof.
  induction l as [|y l IH]; cbn; [split; [discriminate|tauto]|].
  rewrite Bool.orb_true_iff, IH, Z.eqb_eq. split; intros [H|H]; auto.
Qed.

Lemma nodupb_NoDup : forall l, NoDup l -> nodupb l = true.
Proof.
  induction 1 as [|x l Hn Hd IH]; cbn; [reflexivity|].
  rewrite IH, Bool.andb_true_r. destruct (mem x l) eqn:E; [|reflexivity].
  apply mem_In in E. contradiction.
Qed.

(* ---- the object store *)
Lemma h_get_set : forall h i r j, h_get (h_set h i r) j = if Nat.eqb j i then r else h_get h j.
Proof. reflexivity. Qed.

Lemma deref_ext : forall h h' refs, (forall i, In i refs -> h_get h' i = h_get h i) -> deref h' refs = deref h refs.
Proof. intros h h' refs H. unfold deref. apply map_ext_in. exact H. Qed.

(* parse_rules allocates consecutive new objects and touches no existing one *)
Lemma parse_rules_ok : forall m base seen h,
  NoDup (map r_name base) -> (forall x, In x (map r_name base) -> ~ In x seen) ->
  exists h2, parse_rules m base seen h = Ok (h2, seq (h_next h) (length base)) /\
             h_next h2 = (h_next h + length base)%nat /\
             (forall j, (j < h_next h)%nat -> h_get h2 j = h_get h j) /\
             deref h2 (seq (h_next h) (length base)) = map (scale_rule m) base.
Proof.
  induction base as [|b rest IH]; intros seen h Hnd Hseen.
  - exists h. cbn. repeat split; auto.
  - cbn [parse_rules]. destruct (mem (r_name b) seen) eqn:Em.
    { apply mem_In in Em. exfalso. apply (Hseen (r_name b)); [left; reflexivity|exact Em]. }
    cbn [map] in Hnd. inversion Hnd as [|x l Hnotin Hnd']; subst.
    unfold h_new.
    set (h1 := mkHeap (S (h_next h)) (fun j => if Nat.eqb j (h_next h) then scale_rule m b else h_get h j)).
    destruct (IH (r_name b :: seen) h1 Hnd') as [h2 [Hp [Hn [Hfr Hd]]]].
    { intros x Hx [He|Hs]; [subst x; contradiction|]. apply (Hseen x); [right; exact Hx|exact Hs]. }
    exists h2. rewrite Hp. cbn [length seq]. subst h1. cbn [h_next] in *. repeat split.
    + lia.
    + intros j Hj. rewrite Hfr by lia. cbn [h_get]. destruct (Nat.eqb j (h_next h)) eqn:E; [|reflexivity].
      apply Nat.eqb_eq in E. lia.
    + unfold deref in *. cbn [map]. rewrite Hd. f_equal. rewrite Hfr by lia. cbn [h_get].
      rewrite Nat.eqb_refl. reflexivity.
Qed.

(* the in-place update of post_init: every listed object is scaled exactly once, no other changes *)
Lemma scale_fold : forall m refs h, NoDup refs ->
  let h' := fold_left (fun h' i => h_set h' i (scale_rule m (h_get h' i))) refs h in
  h_next h' = h_next h /\
  (forall j, ~ In j refs -> h_get h' j = h_get h j) /\
  (forall i, In i refs -> h_get h' i = scale_rule m (h_get h i)).
Proof.
  induction refs as [|i rest IH]; intros h Hnd; cbn [fold_left].
  - repeat split; auto. intros i [].
  - inversion Hnd as [|x l Hnotin Hnd']; subst.
    destruct (IH (h_set h i (scale_rule m (h_get h i))) Hnd') as [Hn [Hout Hin]].
    cbv zeta. repeat split.
    + rewrite Hn. reflexivity.
    + intros j Hj. rewrite Hout by (intro; apply Hj; right; assumption).
      rewrite h_get_set. destruct (Nat.eqb j i) eqn:E; [|reflexivity].
      apply Nat.eqb_eq in E. subst. exfalso. apply Hj. left. reflexivity.
    + intros j [He|Hj].
      * subst j. rewrite Hout by exact Hnotin. rewrite h_get_set, Nat.eqb_refl. reflexivity.
      * rewrite Hin by exact Hj. rewrite h_get_set. destruct (Nat.eqb j i) eqn:E; [|reflexivity].
        apply Nat.eqb_eq in E. subst. contradiction.
Qed.

Lemma post_init_ok : forall m refs h, NoDup refs -> NoDup (map r_name (deref h refs)) ->
  exists h', post_init m refs h = Ok h' /\ h_next h' = h_next h /\
             (forall j, ~ In j refs -> h_get h' j = h_get h j) /\
             deref h' refs = map (scale_rule m) (deref h refs).
Proof.
  intros m refs h Hnd Hnames. unfold post_init. rewrite (nodupb_NoDup _ Hnames).
  destruct (scale_fold m refs h Hnd) as [Hn [Hout Hin]].
  eexists. split; [reflexivity|]. split; [exact Hn|]. split; [exact Hout|].
  unfold deref. rewrite map_map. apply map_ext_in. exact Hin.
Qed.

Lemma deref_filter : forall h (p : rule -> bool) refs,
  deref h (filter (fun i => p (h_get h i)) refs) = filter p (deref h refs).
Proof.
  intros h p. unfold deref. induction refs as [|i rest IH]; cbn [filter map]; [reflexivity|].
  destruct (p (h_get h i)); cbn [map]; rewrite IH; reflexivity.
Qed.

Lemma NoDup_map_filter : forall (f : rule -> Z) (p : rule -> bool) l, NoDup (map f l) -> NoDup (map f (filter p l)).
Proof.
  intros f p. induction l as [|a l IH]; cbn; intros H; [constructor|].
  inversion H as [|x y Hn Hd]; subst. destruct (p a); cbn; [|apply IH; exact Hd].
  constructor; [|apply IH; exact Hd]. intros Hin. apply Hn.
  apply in_map_iff in Hin. destruct Hin as [b [Hb Hf]]. apply filter_In in Hf. apply in_map_iff. exists b. tauto.
Qed.

Lemma seq_lt : forall a n i, In i (seq a n) -> (a <= i < a + n)%nat.
Proof. intros a n i H. apply in_seq in H. exact H. Qed.

(* ---- keys *)
Lemma list_eqb_Z : forall a b, list_eqb Z.eqb a b = true -> a = b.
Proof.
  induction a as [|x a IH]; destruct b as [|y b]; cbn; try discriminate; [reflexivity|].
  intros H. apply Bool.andb_true_iff in H. destruct H as [H1 H2]. apply Z.eqb_eq in H1. subst. f_equal. apply IH. exact H2.
Qed.

Lemma ratio_eqb_eq : forall a b, ratio_eqb a b = true -> a = b.
Proof.
  intros [a1 a2] [b1 b2]. unfold ratio_eqb. cbn. intros H. apply Bool.andb_true_iff in H. destruct H as [H1 H2].
  apply Z.eqb_eq in H1, H2. subst. reflexivity.
Qed.

Lemma key_eqb_eq : forall a b, key_eqb a b = true -> a = b.
Proof.
  intros [s n c [mc mn]] [s' n' c' [mc' mn']]. unfold key_eqb, mults_eqb. cbn.
  intros H. apply Bool.andb_true_iff in H. destruct H as [H Hm]. apply Bool.andb_true_iff in H. destruct H as [H Hc].
  apply Bool.andb_true_iff in H. destruct H as [Hs Hn]. apply Bool.andb_true_iff in Hm. destruct Hm as [Hm1 Hm2].
  apply Z.eqb_eq in Hs. apply list_eqb_Z in Hn, Hc. apply ratio_eqb_eq in Hm1, Hm2. subst. reflexivity.
Qed.

Lemma cache_get_In : forall k c rs, cache_get k c = Some rs -> In (k, rs) c.
Proof.
  induction c as [|[k' v] c IH]; cbn; intros rs H; [discriminate|].
  destruct (key_eqb k k') eqn:E.
  - inversion H; subst. apply key_eqb_eq in E. subst. left. reflexivity.
  - right. apply IH. exact H.
Qed.

(* ---- the invariant of the cache: every ruleset handed out so far holds, NOW, the selected rules
   of the files with the distances as written times its own multipliers *)
Definition exp_key (files : list (list rule)) (k : key) : list rule :=
  map (scale_rule (k_mults k)) (select (k_names k) (k_cats k) (rule_files files (k_strict k))).

Definition cache_inv (files : list (list rule)) (st : state) : Prop :=
  forall k rs, In (k, rs) (st_cache st) ->
    (forall i, In i (rs_rules rs) -> (i < h_next (st_heap st))%nat) /\
    rs_mults rs = k_mults k /\
    deref (st_heap st) (rs_rules rs) = exp_key files k.

Definition files_ok (files : list (list rule)) : Prop := forall s, NoDup (map r_name (rule_files files s)).

Lemma select_names_nodup : forall ns cs base, NoDup (map r_name base) -> NoDup (map r_name (select ns cs base)).
Proof.
  intros ns cs base H. unfold select.
  assert (H1 : NoDup (map r_name (match ns with [] => base | _ => filter (fun r => mem (r_name r) ns) base end))).
  { destruct ns; [exact H|]. apply NoDup_map_filter. exact H. }
  destruct cs; [exact H1|]. apply NoDup_map_filter. exact H1.
Qed.

Lemma NoDup_filter_nat : forall (p : nat -> bool) l, NoDup l -> NoDup (filter p l).
Proof.
  intros p. induction l as [|a l IH]; cbn; intros H; [constructor|].
  inversion H as [|x y Hn Hd]; subst. destruct (p a); [|apply IH; exact Hd].
  constructor; [|apply IH; exact Hd]. intros Hin. apply filter_In in Hin. tauto.
Qed.

Lemma get_ruleset_step : forall files st q, files_ok files -> cache_inv files st ->
  (mults_valid (effective q) = false /\ get_ruleset files st q = Err E_Value) \/
  (exists st' rs, get_ruleset files st q = Ok (st', rs) /\ cache_inv files st' /\
                  In (key_of q, rs) (st_cache st') /\
                  (forall e, In e (st_cache st) -> In e (st_cache st'))).
Proof.
  intros files st q Hfiles Hinv. unfold get_ruleset.
  destruct (mults_valid (effective q)) eqn:Ev; cbn [negb]; [right|left; split; reflexivity].
  destruct (cache_get (key_of q) (st_cache st)) as [rs|] eqn:Ec.
  { exists st, rs. split; [reflexivity|]. split; [exact Hinv|]. split; [apply cache_get_In; exact Ec|auto]. }
  set (base := rule_files files (q_strict q)).
  assert (Hb : NoDup (map r_name base)) by apply Hfiles.
  set (h := st_heap st).
  destruct (parse_rules_ok unit_mults base [] h Hb) as [h1 [Hp [Hn1 [Hfr1 Hd1]]]].
  { intros x _ []. }
  unfold from_files. rewrite Hp. unfold ruleset_init.
  set (refs := seq (h_next h) (length base)) in *.
  assert (Hndr : NoDup refs) by apply seq_NoDup.
  rewrite map_scale_rule_unit in Hd1.
  destruct (post_init_ok unit_mults refs h1 Hndr) as [h1' [Hpi [Hn1' [Hout1 Hd1']]]].
  { rewrite Hd1. exact Hb. }
  rewrite Hpi. cbn [rs_rules].
  rewrite Hd1, map_scale_rule_unit in Hd1'.
  (* the selection, on the objects and on the rules *)
  set (by_name := match q_names q with [] => refs | _ => filter (fun i => mem (r_name (h_get h1' i)) (q_names q)) refs end).
  set (by_cat := match q_cats q with [] => by_name | _ => filter (fun i => mem (r_cat (h_get h1' i)) (q_cats q)) by_name end).
  assert (Hsel : deref h1' by_cat = select (q_names q) (q_cats q) base).
  { unfold select, by_cat, by_name.
    assert (H1 : deref h1' (match q_names q with [] => refs | _ => filter (fun i => mem (r_name (h_get h1' i)) (q_names q)) refs end)
                 = match q_names q with [] => base | _ => filter (fun r => mem (r_name r) (q_names q)) base end).
    { destruct (q_names q); [exact Hd1'|].
      rewrite (deref_filter h1' (fun r => mem (r_name r) (z :: l))). rewrite Hd1'. reflexivity. }
    destruct (q_cats q); [exact H1|].
    rewrite (deref_filter h1' (fun r => mem (r_cat r) (z :: l))). rewrite H1. reflexivity. }
  assert (Hsub : forall i, In i by_cat -> In i refs).
  { intros i Hi. unfold by_cat, by_name in Hi.
    destruct (q_cats q); destruct (q_names q); repeat (apply filter_In in Hi; destruct Hi as [Hi _]); exact Hi. }
  assert (Hnd2 : NoDup by_cat).
  { unfold by_cat, by_name. destruct (q_cats q); destruct (q_names q); repeat apply NoDup_filter_nat; exact Hndr. }
  unfold copy_with_replacements, ruleset_init.
  destruct (post_init_ok (effective q) by_cat h1' Hnd2) as [h2 [Hpi2 [Hn2 [Hout2 Hd2]]]].
  { rewrite Hsel. apply select_names_nodup. exact Hb. }
  rewrite Hpi2. eexists. eexists. split; [reflexivity|].
  assert (Hold : forall j, (j < h_next h)%nat -> h_get h2 j = h_get h j).
  { intros j Hj. rewrite Hout2.
    - rewrite Hout1; [apply Hfr1; exact Hj|]. intros Hin. apply seq_lt in Hin. lia.
    - intros Hin. apply Hsub in Hin. apply seq_lt in Hin. lia. }
  split; [|split; [left; reflexivity|intros e He; right; exact He]].
  intros k rs [He|Hin]; cbn [st_heap st_cache] in *.
  - inversion He; subst k rs. cbn [rs_rules rs_mults]. split; [|split; [reflexivity|]].
    + intros i Hi. apply Hsub in Hi. apply seq_lt in Hi. lia.
    + rewrite Hd2, Hsel. reflexivity.
  - destruct (Hinv k rs Hin) as [Hlt [Hm Hd]]. split; [|split; [exact Hm|]].
    + intros i Hi. specialize (Hlt i Hi). fold h in Hlt. lia.
    + rewrite <- Hd. apply deref_ext. intros i Hi. apply Hold. apply Hlt. exact Hi.
Qed.

Lemma cache_inv_init : forall files, cache_inv files init_state.
Proof. intros files k rs []. Qed.

Definition answer_ok (files : list (list rule)) (st : state) (q : request) (o : res ruleset) : Prop :=
  match o with
  | Ok rs => deref (st_heap st) (rs_rules rs) = expected_rules files q /\ rs_mults rs = effective q
  | Err e => e = E_Value /\ mults_valid (effective q) = false
  end.

Lemma run_requests_inv : forall files qs st st2 outs, files_ok files -> cache_inv files st ->
  run_requests files st qs = (st2, outs) ->
  cache_inv files st2 /\ (forall e, In e (st_cache st) -> In e (st_cache st2)) /\
  Forall2 (fun q o => match o with
                      | Ok rs => In (key_of q, rs) (st_cache st2)
                      | Err e => e = E_Value /\ mults_valid (effective q) = false end) qs outs.
Proof.
  intros files. induction qs as [|q rest IH]; intros st st2 outs Hf Hinv Hrun; cbn [run_requests] in Hrun.
  - inversion Hrun; subst. split; [exact Hinv|]. split; [auto|constructor].
  - destruct (get_ruleset_step files st q Hf Hinv) as [[Hv He]|[st' [rs [He [Hinv' [Hin Hmono]]]]]]; rewrite He in Hrun.
    + destruct (run_requests files st rest) as [st3 out3] eqn:Er. inversion Hrun; subst.
      destruct (IH st st2 out3 Hf Hinv Er) as [H1 [H2 H3]]. split; [exact H1|]. split; [exact H2|].
      constructor; [split; [reflexivity|exact Hv]|exact H3].
    + destruct (run_requests files st' rest) as [st3 out3] eqn:Er. inversion Hrun; subst.
      destruct (IH st' st2 out3 Hf Hinv' Er) as [H1 [H2 H3]]. split; [exact H1|]. split; [auto|].
      constructor; [apply H2; exact Hin|exact H3].
Qed.

Lemma Forall2_imp : forall {A B} (P Q : A -> B -> Prop) l l',
  (forall a b, P a b -> Q a b) -> Forall2 P l l' -> Forall2 Q l l'.
Proof. intros A B P Q l l' H F. induction F; constructor; auto. Qed.

(* history independence: after ANY sequence of calls, every ruleset handed out by any of them
   holds exactly the rules its own request selects, with distances = written distance * its own
   multipliers - read in the FINAL store, so no later call has changed an earlier ruleset *)
Lemma get_ruleset_history : forall files qs st outs, files_ok files ->
  run_requests files init_state qs = (st, outs) -> Forall2 (answer_ok files st) qs outs.
Proof.
  intros files qs st outs Hf Hrun.
  destruct (run_requests_inv files qs init_state st outs Hf (cache_inv_init files) Hrun) as [Hinv [_ Hall]].
  eapply Forall2_imp; [|exact Hall]. intros q [rs|e] H; cbn in *; [|exact H].
  destruct (Hinv _ _ H) as [_ [Hm Hd]]. split; [exact Hd|exact Hm].
Qed.

(* ================= selection commutes with detection and with the removal ================= *)

Lemma filter_filter_comm {A} (f g : A -> bool) l : filter f (filter g l) = filter g (filter f l).
Proof.
  induction l as [|a l IH]; cbn; [reflexivity|].
  destruct (g a) eqn:Eg; destruct (f a) eqn:Ef; cbn; rewrite ?Eg, ?Ef, IH; reflexivity.
Qed.

(* evaluating a sub-selection of the rules = evaluating all of them and keeping the selected ones *)
Lemma eval_rules_filter {R I O : Type} (cutoff_of : R -> Z) (info : Z -> I) (detect : R -> I -> O) (p : R -> bool) rules :
  combine (filter p rules) (eval_rules cutoff_of info detect [] (filter p rules))
  = filter (fun x => p (fst x)) (combine rules (eval_rules cutoff_of info detect [] rules)).
Proof.
  rewrite !cache_transparent_nil. induction rules as [|r rest IH]; cbn [filter map combine]; [reflexivity|].
  cbn [fst]. destruct (p r); cbn [map combine]; rewrite IH; reflexivity.
Qed.

Lemma select_filter ns cs base : select ns cs base = filter (selected ns cs) base.
Proof.
  unfold select, selected. destruct ns as [|n ns]; destruct cs as [|c cs].
  - induction base as [|a l IH]; cbn; [reflexivity|]. f_equal. exact IH.
  - apply filter_ext_in'. intros a _. reflexivity.
  - apply filter_ext_in'. intros a _. rewrite andb_true_r. reflexivity.
  - rewrite filter_filter_comm. induction base as [|a l IH]; cbn [filter]; [reflexivity|].
    destruct (mem (r_name a) (n :: ns)) eqn:E1; cbn [andb filter].
    + destruct (mem (r_cat a) (c :: cs)); cbn [filter]; rewrite ?E1, IH; reflexivity.
    + destruct (mem (r_cat a) (c :: cs)); cbn [filter]; rewrite ?E1, IH; reflexivity.
Qed.

Lemma filter_map_scale m (p : rule -> bool) l : (forall r, p (scale_rule m r) = p r) ->
  filter p (map (scale_rule m) l) = map (scale_rule m) (filter p l).
Proof.
  intros H. induction l as [|a l IH]; cbn [map filter]; [reflexivity|].
  rewrite H. destruct (p a); cbn [map]; rewrite IH; reflexivity.
Qed.

Lemma expected_rules_filter files q :
  expected_rules files q
  = filter (selected (q_names q) (q_cats q)) (map (scale_rule (effective q)) (rule_files files (q_strict q))).
Proof.
  unfold expected_rules. rewrite select_filter. symmetry. apply filter_map_scale. intros r. reflexivity.
Qed.

Lemma selection_then_detection {I O : Type} (info : Z -> I) (detect : rule -> I -> O) files q :
  let full := map (scale_rule (effective q)) (rule_files files (q_strict q)) in
  combine (expected_rules files q) (eval_rules r_cutoff info detect [] (expected_rules files q))
  = filter (fun x => selected (q_names q) (q_cats q) (fst x)) (combine full (eval_rules r_cutoff info detect [] full)).
Proof. cbv zeta. rewrite expected_rules_filter. apply eval_rules_filter. Qed.

(* the removal of covered clusters on a sub-selection that contains the superiors of its rules *)
Lemma remove_redundant_subselection sup cs (p : Z -> bool) :
  (forall c o, In c cs -> In o cs -> p (pc_rule c) = true ->
               In (pc_rule o) (superiors_of sup (pc_rule c)) -> p (pc_rule o) = true) ->
  remove_redundant sup (filter (fun c => p (pc_rule c)) cs) = filter (fun c => p (pc_rule c)) (remove_redundant sup cs).
Proof.
  intros Hclosed. unfold remove_redundant.
  rewrite (filter_filter_comm (fun c => p (pc_rule c))
             (fun c => negb (redundant_outer c (superiors_of sup (pc_rule c)) (clusters_by_rule cs))) cs).
  apply filter_ext_in'.
  intros c Hc. apply filter_In in Hc. destruct Hc as [Hc Hp].
  apply (f_equal negb). apply eq_iff_eq_true. rewrite !redundant_iff. split.
  - intros (o & Ho & Hs & Hcov). apply filter_In in Ho. exists o. tauto.
  - intros (o & Ho & Hs & Hcov). exists o. split; [|tauto]. apply filter_In. split; [exact Ho|].
    exact (Hclosed c o Hc Ho Hp Hs).
Qed.

(* without that condition a sub-selection can only keep more clusters of a selected rule, and what
   it keeps in addition is covered by a cluster of a superior rule that was not selected *)
Lemma remove_redundant_subselection_more sup cs (p : Z -> bool) c :
  (In c (filter (fun c => p (pc_rule c)) (remove_redundant sup cs)) -> In c (remove_redundant sup (filter (fun c => p (pc_rule c)) cs))) /\
  (In c (remove_redundant sup (filter (fun c => p (pc_rule c)) cs)) -> ~ In c (remove_redundant sup cs) ->
   exists o, In o cs /\ p (pc_rule o) = false /\ In (pc_rule o) (superiors_of sup (pc_rule c)) /\ covers o c).
Proof.
  split.
  - intros H. apply filter_In in H. destruct H as [H Hp]. apply remove_redundant_spec in H. destruct H as [Hin Hn].
    apply remove_redundant_spec. split; [apply filter_In; tauto|].
    intros (o & Ho & Hs & Hcov). apply Hn. exists o. apply filter_In in Ho. tauto.
  - intros H Hnot. apply remove_redundant_spec in H. destruct H as [Hin Hn]. apply filter_In in Hin. destruct Hin as [Hin Hp].
    destruct (redundant_outer c (superiors_of sup (pc_rule c)) (clusters_by_rule cs)) eqn:E.
    + apply redundant_iff in E. destruct E as (o & Ho & Hs & Hcov). exists o. split; [exact Ho|]. split; [|tauto].
      destruct (p (pc_rule o)) eqn:Epo; [|reflexivity]. exfalso. apply Hn. exists o. split; [apply filter_In; tauto|tauto].
    + exfalso. apply Hnot. apply remove_redundant_spec. split; [exact Hin|]. intros Hr. apply redundant_iff in Hr. congruence.
Qed.

(* ---- what the invariant excludes: the same in-place scaling, reached through the public
   constructors instead of get_ruleset (finding C07-K2, ruleset_copy_rescales_shared_rules) *)
Lemma ruleset_copy_changes_source :
  exists files q st rs h' rs',
    get_ruleset files init_state q = Ok (st, rs) /\
    copy_with_replacements rs (rs_rules rs) (rs_mults rs) (st_heap st) = Ok (h', rs') /\
    deref (st_heap st) (rs_rules rs) = expected_rules files q /\
    deref h' (rs_rules rs) <> expected_rules files q.
Proof.
  pose (files := [[mkRule 7 1 20000 10000]]). pose (q := mkReq 0 [] [] true (mkMults (1, 1) (3, 2))).
  destruct (get_ruleset files init_state q) as [[st rs]|] eqn:E; [|vm_compute in E; discriminate].
  destruct (copy_with_replacements rs (rs_rules rs) (rs_mults rs) (st_heap st)) as [[h' rs']|] eqn:E2.
  - exists files, q, st, rs, h', rs'. split; [exact E|]. split; [exact E2|].
    vm_compute in E. inversion E; subst st rs; clear E. vm_compute in E2. inversion E2; subst h' rs'; clear E2.
    split; [vm_compute; reflexivity|]. vm_compute. discriminate.
  - vm_compute in E. inversion E; subst st rs. vm_compute in E2. discriminate.
Qed.

Lemma from_files_scales_twice :
  exists base m h rs,
    NoDup (map r_name base) /\ mults_valid m = true /\
    from_files base m (st_heap init_state) = Ok (h, rs) /\
    deref h (rs_rules rs) <> map (scale_rule m) base /\
    deref h (rs_rules rs) = map (scale_rule m) (map (scale_rule m) base).
Proof.
  pose (base := [mkRule 7 1 20000 10000]). pose (m := mkMults (1, 1) (3, 2)).
  destruct (from_files base m (st_heap init_state)) as [[h rs]|] eqn:E; [|vm_compute in E; discriminate].
  exists base, m, h, rs. split; [repeat constructor; intros []|]. split; [reflexivity|]. split; [exact E|].
  vm_compute in E. inversion E; subst h rs; clear E. split; [vm_compute; discriminate|vm_compute; reflexivity].
Qed.

(* ---- the cache: a repeated request is answered with the same ruleset and changes nothing *)
Lemma list_eqb_Z_refl : forall a, list_eqb Z.eqb a a = true.
Proof. induction a as [|x a IH]; cbn; [reflexivity|]. rewrite Z.eqb_refl, IH. reflexivity. Qed.

Lemma key_eqb_refl : forall k, key_eqb k k = true.
Proof.
  intros [s n c [[a b] [a' b']]]. unfold key_eqb, mults_eqb, ratio_eqb. cbn.
  rewrite !Z.eqb_refl, !list_eqb_Z_refl. reflexivity.
Qed.

Lemma get_ruleset_repeat : forall files st q st' rs,
  get_ruleset files st q = Ok (st', rs) -> get_ruleset files st' q = Ok (st', rs).
Proof.
  intros files st q st' rs H. unfold get_ruleset in *.
  destruct (negb (mults_valid (effective q))); [discriminate|].
  destruct (cache_get (key_of q) (st_cache st)) as [rs0|] eqn:Ec.
  - inversion H; subst. rewrite Ec. reflexivity.
  - destruct (from_files (rule_files files (q_strict q)) unit_mults (st_heap st)) as [[h1 rs0]|]; [|discriminate].
    match type of H with match ?X with _ => _ end = _ => destruct X as [[h2 rs2]|]; [|discriminate] end.
    inversion H; subst. cbn [st_cache cache_get]. rewrite key_eqb_refl. reflexivity.
Qed.

(* ---- the selection only depends on WHICH names and categories are asked for *)
Lemma mem_perm : forall x l l', Permutation l l' -> mem x l = mem x l'.
Proof.
  intros x l l' Hp. apply eq_iff_eq_true. rewrite !mem_In. split; apply Permutation_in; [|apply Permutation_sym]; exact Hp.
Qed.

Lemma selected_perm : forall ns ns' cs cs' r, Permutation ns ns' -> Permutation cs cs' ->
  selected ns cs r = selected ns' cs' r.
Proof.
  intros ns ns' cs cs' r Hn Hc. unfold selected. f_equal.
  - destruct ns as [|a ns]; [apply Permutation_nil in Hn; subst; reflexivity|].
    destruct ns' as [|a' ns']; [apply Permutation_sym in Hn; apply Permutation_nil in Hn; discriminate|].
    apply mem_perm. exact Hn.
  - destruct cs as [|a cs]; [apply Permutation_nil in Hc; subst; reflexivity|].
    destruct cs' as [|a' cs']; [apply Permutation_sym in Hc; apply Permutation_nil in Hc; discriminate|].
    apply mem_perm. exact Hc.
Qed.

Lemma expected_rules_perm : forall files s ns ns' cs cs' f m, Permutation ns ns' -> Permutation cs cs' ->
  expected_rules files (mkReq s ns cs f m) = expected_rules files (mkReq s ns' cs' f m).
Proof.
  intros files s ns ns' cs cs' f m Hn Hc. rewrite !expected_rules_filter. cbn [q_names q_cats q_strict effective q_fungi q_mults].
  apply filter_ext_in'. intros r _. apply selected_perm; assumption.
Qed.
