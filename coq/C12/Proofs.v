(* C12 - proofs *)
From Coq Require Import Lia ZifyBool.
From ASV.C12 Require Import Model.
From ASV.C04 Require Import Proofs.

(* ---------- mapM ---------- *)
Lemma mapM_length {A B} (f : A -> res B) : forall l r, mapM f l = Ok r -> length r = length l.
Proof.
  induction l as [|x xs IH]; intros r H; cbn in H.
  - injection H as <-. reflexivity.
  - destruct (f x) eqn:Ef; cbn in H; [|discriminate].
    destruct (mapM f xs) eqn:Em; cbn in H; [|discriminate].
    injection H as <-. cbn. f_equal. apply IH. reflexivity.
Qed.

Lemma mapM_Forall2 {A B} (f : A -> res B) : forall l r, mapM f l = Ok r ->
  Forall2 (fun x y => f x = Ok y) l r.
Proof.
  induction l as [|x xs IH]; intros r H; cbn in H.
  - injection H as <-. constructor.
  - destruct (f x) eqn:Ef; cbn in H; [|discriminate].
    destruct (mapM f xs) eqn:Em; cbn in H; [|discriminate].
    injection H as <-. constructor; [assumption|]. apply IH. reflexivity.
Qed.

(* ---------- slicing a sequence ---------- *)
Lemma skipn_nth_cons {A} (d : A) : forall (l : list A) a, (a < length l)%nat ->
  skipn a l = nth a l d :: skipn (S a) l.
Proof.
  induction l as [|x xs IH]; intros a Ha; cbn in Ha; [lia|].
  destruct a as [|a]; [reflexivity|]. cbn [skipn nth]. rewrite (IH a) by lia. reflexivity.
Qed.

Lemma firstn_skipn_map {A} (d : A) (l : list A) : forall n a, (a + n <= length l)%nat ->
  firstn n (skipn a l) = map (fun i => nth (a + i) l d) (seq 0 n).
Proof.
  induction n as [|n IH]; intros a H; [reflexivity|].
  rewrite (skipn_nth_cons d) by lia. cbn [firstn seq map].
  rewrite Nat.add_0_r. f_equal. rewrite IH by lia.
  rewrite <- seq_shift, map_map. apply map_ext. intros i. f_equal. lia.
Qed.

Lemma seq_shift_k k : forall n, seq k n = map (fun i => (k + i)%nat) (seq 0 n).
Proof.
  induction k as [|k IH]; intros n.
  - cbn. rewrite map_id. reflexivity.
  - rewrite <- seq_shift, IH, map_map. reflexivity.
Qed.

Lemma pyslice_map (sq : list Z) a b : 0 <= a -> a <= b -> b <= zlen sq ->
  pyslice sq a b = map (fun i => nth (Z.to_nat (a + Z.of_nat i)) sq (-1)) (seq 0 (Z.to_nat (b - a))).
Proof.
  intros Ha Hab Hb. unfold pyslice, zlen in *.
  rewrite (firstn_skipn_map (-1)) by lia.
  apply map_ext. intros i. f_equal. lia.
Qed.

Lemma clamp_id N x : 0 <= x <= N -> clamp N x = x.
Proof. intros H. unfold clamp. destruct (x <? 0) eqn:E; lia. Qed.

Definition wf_region (r : rdata) (N : Z) : Prop := 0 <= rstart r <= N /\ 0 <= rend r <= N.

Lemma build_base_seq r sq feats s' fs' :
  wf_region r (zlen sq) -> rstart r <> rend r ->
  build_base r sq feats = Ok (s', fs') -> s' = expected_seq r sq.
Proof.
  intros [Hs He] Hne H. unfold build_base in H. unfold expected_seq, out_len.
  set (N := zlen sq) in *.
  destruct (crosses r) eqn:Ec.
  - unfold crosses in Ec. unfold build_cross in H. fold N in H.
    destruct (mapM _ (slice_feats feats 0 (clamp N (rend r)))) eqn:E1; cbn [bind] in H; [|discriminate].
    destruct (mapM _ (filter (cross_kept r) feats)) eqn:E2; cbn [bind] in H; [|discriminate].
    injection H as <- _.
    rewrite !clamp_id by lia.
    rewrite pyslice_map by (fold N; lia). rewrite pyslice_map by (fold N; lia).
    replace (Z.to_nat (N - rstart r + rend r)) with (Z.to_nat (N - rstart r) + Z.to_nat (rend r - 0))%nat by lia.
    rewrite seq_app, map_app. f_equal.
    + apply map_ext_in. intros i Hi. apply in_seq in Hi. f_equal. f_equal.
      rewrite Z.mod_small by lia. reflexivity.
    + cbn [Nat.add]. rewrite (seq_shift_k (Z.to_nat (N - rstart r))).
      rewrite map_map. apply map_ext_in. intros i Hi. apply in_seq in Hi. f_equal. f_equal.
      replace (rstart r + Z.of_nat (Z.to_nat (N - rstart r) + i)) with (Z.of_nat i + 1 * N) by lia.
      rewrite Z.mod_add by lia. rewrite Z.mod_small by lia. lia.
  - unfold crosses in Ec. injection H as <- _.
    destruct (rstart r =? rend r) eqn:Eeq; [lia|].
    rewrite !clamp_id by lia. rewrite pyslice_map by (fold N; lia).
    apply map_ext_in. intros i Hi. apply in_seq in Hi. f_equal. f_equal.
    rewrite Z.mod_small by lia. reflexivity.
Qed.

(* ---------- structure of write_to_genbank ---------- *)
Lemma write_unfold r sq feats o : write_to_genbank r sq feats = Ok o ->
  exists s' fs' c adjusted,
    build_base r sq feats = Ok (s', fs') /\ make_ctx r (zlen sq) = Ok c /\
    mapM (adjust_feat c) fs' = Ok adjusted /\
    o = mkOut s' adjusted (build_annotations r) (restore feats (map floc feats)).
Proof.
  unfold write_to_genbank. intros H.
  destruct (build_base r sq feats) as [[s' fs']|] eqn:Eb; cbn [bind] in H; [|discriminate].
  destruct (make_ctx r (zlen sq)) as [c|] eqn:Ec; cbn [bind] in H; [|discriminate].
  destruct (mapM (adjust_feat c) fs') as [adjusted|] eqn:Ea; cbn [bind] in H; [|discriminate].
  injection H as <-. exists s', fs', c, adjusted. repeat split; first [assumption|reflexivity].
Qed.

Lemma write_sequence r sq feats o :
  wf_region r (zlen sq) -> rstart r <> rend r ->
  write_to_genbank r sq feats = Ok o -> o_seq o = expected_seq r sq.
Proof.
  intros Hwf Hne H. apply write_unfold in H.
  destruct H as (s' & fs' & c & adjusted & Hb & _ & _ & ->). cbn [o_seq].
  eapply build_base_seq; eassumption.
Qed.

Lemma expected_seq_spec r sq i :
  (i < Z.to_nat (out_len r (zlen sq)))%nat ->
  nth i (expected_seq r sq) (-1) =
  nth (Z.to_nat ((rstart r + Z.of_nat i) mod zlen sq)) sq (-1).
Proof.
  intros Hi. unfold expected_seq.
  set (f := fun i0 : nat => nth (Z.to_nat ((rstart r + Z.of_nat i0) mod zlen sq)) sq (-1)).
  rewrite (nth_indep _ (-1) (f 0%nat)) by (rewrite map_length, seq_length; exact Hi).
  rewrite map_nth. rewrite seq_nth by exact Hi. reflexivity.
Qed.

Lemma expected_seq_length r sq : length (expected_seq r sq) = Z.to_nat (out_len r (zlen sq)).
Proof. unfold expected_seq. rewrite map_length, seq_length. reflexivity. Qed.

(* ---------- adjust_feat never touches type, tag, location ---------- *)
Lemma adjust_feat_keeps c f g : adjust_feat c f = Ok g ->
  floc g = floc f /\ ftype g = ftype f /\ ftag g = ftag f.
Proof.
  unfold adjust_feat. intros H.
  destruct (ftype f =? T_region).
  { destruct (fq1 f); injection H as <-; repeat split; reflexivity. }
  destruct (ftype f =? T_cand).
  { destruct (fq1 f); [discriminate|]. injection H as <-; repeat split; reflexivity. }
  destruct ((ftype f =? T_proto) || (ftype f =? T_core)).
  { destruct (fq1 f) as [|orig q]; [discriminate|].
    destruct (lookup_last orig (c_protos c) None); [|discriminate].
    destruct (ftype f =? T_proto).
    - destruct (offset_location l (- c_start c) (Some (c_len c))); cbn [bind] in H; [|discriminate].
      injection H as <-; repeat split; reflexivity.
    - injection H as <-; repeat split; reflexivity. }
  destruct (ftype f =? T_sub).
  { destruct (fq1 f); [discriminate|]. injection H as <-; repeat split; reflexivity. }
  destruct (ftype f =? T_motif).
  { destruct (adjust_motif_opt (c_start c) (c_len c) (fl1 f)); cbn [bind] in H; [|discriminate].
    destruct (adjust_motif_opt (c_start c) (c_len c) (fl2 f)); cbn [bind] in H; [|discriminate].
    injection H as <-; repeat split; reflexivity. }
  injection H as <-; repeat split; reflexivity.
Qed.

Lemma adjust_feat_other c f : adjustable f = false -> adjust_feat c f = Ok f.
Proof.
  unfold adjustable, adjust_feat. intros H.
  destruct (ftype f =? T_region); [discriminate|].
  destruct (ftype f =? T_cand); [discriminate|].
  destruct (ftype f =? T_proto); [discriminate|].
  destruct (ftype f =? T_core); [discriminate|].
  destruct (ftype f =? T_sub); [discriminate|].
  destruct (ftype f =? T_motif); [discriminate|]. reflexivity.
Qed.

Lemma set_loc_self f : set_loc f (floc f) = f.
Proof. destruct f; reflexivity. Qed.
Lemma set_loc_twice f l l' : set_loc (set_loc f l) l' = set_loc f l'.
Proof. reflexivity. Qed.

(* ---------- the parent after the call ---------- *)
(* every feature of the extract is a copy, so the only thing that happens to the parent's features
   is the final loop that puts the saved locations back *)
Lemma restore_self : forall feats, restore feats (map floc feats) = feats.
Proof.
  induction feats as [|f fs IH]; [reflexivity|]. cbn [map restore]. rewrite IH, set_loc_self. reflexivity.
Qed.

Lemma write_parent_unchanged r sq feats o : write_to_genbank r sq feats = Ok o -> o_parent o = feats.
Proof.
  intros H. apply write_unfold in H.
  destruct H as (s' & fs' & c & adjusted & _ & _ & _ & ->). cbn [o_parent]. apply restore_self.
Qed.

Lemma write_parent_locations r sq feats o : write_to_genbank r sq feats = Ok o ->
  map floc (o_parent o) = map floc feats /\ map ftype (o_parent o) = map ftype feats
  /\ map ftag (o_parent o) = map ftag feats.
Proof. intros H. rewrite (write_parent_unchanged _ _ _ _ H). repeat split; reflexivity. Qed.

Lemma Forall2_imp {A B} (R1 R2 : A -> B -> Prop) : (forall a b, R1 a b -> R2 a b) ->
  forall l1 l2, Forall2 R1 l1 l2 -> Forall2 R2 l1 l2.
Proof. intros H l1 l2 HF. induction HF; constructor; auto. Qed.

(* ---------- renumbering ---------- *)
Lemma renum_props l : l <> [] ->
  let first := lmin l in
  (forall n, In n l -> 1 <= renum first n) /\ In 1 (map (renum first) l) /\
  (forall n m, renum first n = renum first m -> n = m) /\
  (forall n m, n < m -> renum first n < renum first m) /\
  (forall k, (forall n, In n l -> n < first + k) -> forall n, In n (map (renum first) l) -> 1 <= n <= k).
Proof.
  intros Hne first. unfold renum. repeat split.
  - intros n Hin. pose proof (lmin_le l n Hin). fold first in H. lia.
  - apply in_map_iff. exists first. split; [lia|]. apply lmin_in. exact Hne.
  - intros n m H. lia.
  - intros n m H. lia.
  - apply in_map_iff in H0. destruct H0 as (x & <- & Hin). pose proof (lmin_le l x Hin). fold first in H0. lia.
  - apply in_map_iff in H0. destruct H0 as (x & <- & Hin). specialize (H x Hin). lia.
Qed.

(* the context built from the region: the three offsets are the minima *)
Lemma make_ctx_firsts r N c : make_ctx r N = Ok c ->
  c_first_sub c = (match rsubs r with [] => 0 | _ => lmin (rsubs r) end) /\
  (rcands r <> [] -> c_first_cc c = lmin (map fst (rcands r)) /\
                     c_first_cluster c = lmin (map fst (all_protos r)) /\ all_protos r <> []) /\
  c_protos c = all_protos r /\ c_start c = rstart r /\ c_len c = N.
Proof.
  unfold make_ctx. intros H.
  destruct (rcands r) as [|cd cds] eqn:Ecs.
  - cbn [bind] in H. injection H as <-.
    cbn [c_first_sub c_first_cc c_first_cluster c_protos c_start c_len fst snd].
    split; [reflexivity|]. split; [intros Hx; congruence|]. repeat split; reflexivity.
  - destruct (all_protos r) as [|p ps] eqn:Eps; cbn [bind] in H; [discriminate|].
    injection H as <-. cbn [c_first_sub c_first_cc c_first_cluster c_protos c_start c_len fst snd].
    split; [reflexivity|]. split; [intros _; repeat split; try reflexivity; discriminate|].
    repeat split; reflexivity.
Qed.

(* what adjust_feat does to the numbers, by feature type *)
Lemma adjust_numbers c f g : adjust_feat c f = Ok g ->
  (ftype f = T_region -> fq1 g = map (renum (c_first_cc c)) (fq1 f) /\
                         fq2 g = map (renum (c_first_sub c)) (fq2 f)) /\
  (ftype f = T_cand -> exists n q, fq1 f = n :: q /\ fq1 g = [renum (c_first_cc c) n] /\
                                   fq2 g = map (renum (c_first_cluster c)) (fq2 f)) /\
  (ftype f = T_proto \/ ftype f = T_core ->
     exists n q, fq1 f = n :: q /\ fq1 g = [renum (c_first_cluster c) n] /\
                 lookup_last n (c_protos c) None <> None) /\
  (ftype f = T_sub -> exists n q, fq1 f = n :: q /\ fq1 g = [renum (c_first_sub c) n]).
Proof.
  unfold adjust_feat, T_region, T_cand, T_proto, T_core, T_sub, T_motif. intros H.
  destruct (ftype f =? 1) eqn:E1.
  { assert (ftype f = 1) by lia. repeat split; try (intros; lia); try (intros [?|?]; lia).
    - destruct (fq1 f) eqn:Eq; injection H as <-; reflexivity.
    - destruct (fq1 f) eqn:Eq; injection H as <-; reflexivity. }
  destruct (ftype f =? 2) eqn:E2.
  { assert (ftype f = 2) by lia. repeat split; try (intros; lia); try (intros [?|?]; lia).
    intros _. destruct (fq1 f) as [|n q]; [discriminate|]. injection H as <-.
    exists n, q. repeat split; reflexivity. }
  destruct ((ftype f =? 3) || (ftype f =? 4)) eqn:E34.
  { repeat split; try (intros; lia). intros _.
    destruct (fq1 f) as [|n q]; [discriminate|]. exists n, q.
    destruct (lookup_last n (c_protos c) None) as [core|] eqn:El; [|discriminate].
    destruct (ftype f =? 3).
    - destruct (offset_location core (- c_start c) (Some (c_len c))); cbn [bind] in H; [|discriminate].
      injection H as <-. repeat split; try reflexivity. discriminate.
    - injection H as <-. repeat split; try reflexivity. discriminate. }
  destruct (ftype f =? 5) eqn:E5.
  { assert (ftype f = 5) by lia. repeat split; try (intros; lia); try (intros [?|?]; lia).
    intros _. destruct (fq1 f) as [|n q]; [discriminate|]. injection H as <-.
    exists n, q. split; reflexivity. }
  repeat split; try (intros; lia); try (intros [?|?]; lia).
Qed.

(* cross references stay consistent: a number listed by the region feature and carried by a
   candidate feature is mapped to the same new number; likewise candidate -> protocluster/core *)
Lemma refs_region_cand c fr fc gr gc n q :
  ftype fr = T_region -> ftype fc = T_cand ->
  adjust_feat c fr = Ok gr -> adjust_feat c fc = Ok gc ->
  fq1 fc = n :: q -> (In n (fq1 fr) <-> In (renum (c_first_cc c) n) (fq1 gr)) /\ fq1 gc = [renum (c_first_cc c) n].
Proof.
  intros Tr Tc Hr Hc Hq.
  destruct (adjust_numbers _ _ _ Hr) as (Hr1 & _). destruct (Hr1 Tr) as (Er & _).
  destruct (adjust_numbers _ _ _ Hc) as (_ & Hc1 & _). destruct (Hc1 Tc) as (n' & q' & E1 & E2 & _).
  rewrite Hq in E1. injection E1 as <- <-. split; [|exact E2].
  rewrite Er. rewrite in_map_iff. split.
  - intros Hin. exists n. split; [reflexivity|exact Hin].
  - intros (x & Hx & Hin). unfold renum in Hx. assert (x = n) by lia. subst x. exact Hin.
Qed.

Lemma refs_region_sub c fr fs gr gs n q :
  ftype fr = T_region -> ftype fs = T_sub ->
  adjust_feat c fr = Ok gr -> adjust_feat c fs = Ok gs ->
  fq1 fs = n :: q -> (In n (fq2 fr) <-> In (renum (c_first_sub c) n) (fq2 gr)) /\ fq1 gs = [renum (c_first_sub c) n].
Proof.
  intros Tr Ts Hr Hs Hq.
  destruct (adjust_numbers _ _ _ Hr) as (Hr1 & _). destruct (Hr1 Tr) as (_ & Er).
  destruct (adjust_numbers _ _ _ Hs) as (_ & _ & _ & Hs1). destruct (Hs1 Ts) as (n' & q' & E1 & E2).
  rewrite Hq in E1. injection E1 as <- <-. split; [|exact E2].
  rewrite Er. rewrite in_map_iff. split.
  - intros Hin. exists n. split; [reflexivity|exact Hin].
  - intros (x & Hx & Hin). unfold renum in Hx. assert (x = n) by lia. subst x. exact Hin.
Qed.

Lemma refs_cand_proto c fc fp gc gp n q :
  ftype fc = T_cand -> (ftype fp = T_proto \/ ftype fp = T_core) ->
  adjust_feat c fc = Ok gc -> adjust_feat c fp = Ok gp ->
  fq1 fp = n :: q ->
  (In n (fq2 fc) <-> In (renum (c_first_cluster c) n) (fq2 gc)) /\ fq1 gp = [renum (c_first_cluster c) n].
Proof.
  intros Tc Tp Hc Hp Hq.
  destruct (adjust_numbers _ _ _ Hc) as (_ & Hc1 & _). destruct (Hc1 Tc) as (n' & q' & _ & _ & Ec).
  destruct (adjust_numbers _ _ _ Hp) as (_ & _ & Hp1 & _). destruct (Hp1 Tp) as (n2 & q2 & E1 & E2 & _).
  rewrite Hq in E1. injection E1 as <- <-. split; [|exact E2].
  rewrite Ec. rewrite in_map_iff. split.
  - intros Hin. exists n. split; [reflexivity|exact Hin].
  - intros (x & Hx & Hin). unfold renum in Hx. assert (x = n) by lia. subst x. exact Hin.
Qed.

(* ---------- retained features and their new locations ---------- *)
Definition inside (a b : Z) (f : feat) : bool := (a <=? lstart (floc f)) && (lend (floc f) <=? b).
Definition same_id (f g : feat) : Prop := ftype g = ftype f /\ ftag g = ftag f.

Lemma Forall2_map_l {A B C} (h : A -> B) (R : B -> C -> Prop) : forall l l',
  Forall2 R (map h l) l' -> Forall2 (fun x y => R (h x) y) l l'.
Proof.
  induction l as [|x xs IH]; intros l' H; inversion H; subst; constructor; auto.
Qed.

Lemma base_of_shift l d y : base_of (shift_loc l d) y <-> base_of l (y - d).
Proof.
  unfold base_of, shift_loc. split.
  - intros (p & Hin & Hp). apply in_map_iff in Hin. destruct Hin as (q & <- & Hq).
    cbn [ps pe] in Hp. exists q. split; [exact Hq|lia].
  - intros (q & Hq & Hp). exists (mkPart (ps q + d) (pe q + d) (pst q)). split.
    + apply in_map_iff. exists q. split; [reflexivity|exact Hq].
    + cbn [ps pe]. lia.
Qed.

Lemma llen_shift l d : llen (shift_loc l d) = llen l.
Proof. induction l as [|p l IH]; [reflexivity|]. cbn [shift_loc map llen fold_right ps pe] in *. unfold llen, shift_loc in IH. rewrite IH. lia. Qed.

Lemma strands_shift l d : map pst (shift_loc l d) = map pst l.
Proof. unfold shift_loc. rewrite map_map. reflexivity. Qed.

Lemma adjusted_rel c fs adjusted : mapM (adjust_feat c) fs = Ok adjusted ->
  Forall2 (fun f g => floc g = floc f /\ same_id f g) fs adjusted.
Proof.
  intros H. apply mapM_Forall2 in H. eapply Forall2_imp; [|exact H].
  intros f g Hf. apply adjust_feat_keeps in Hf. unfold same_id. tauto.
Qed.

Lemma slice_rel feats a b :
  Forall2 (fun f g => floc g = shift_loc (floc f) (- a) /\ same_id f g)
          (filter (inside a b) feats) (slice_feats feats a b).
Proof.
  unfold slice_feats. fold (inside a b).
  induction (filter (inside a b) feats) as [|f fs IH]; cbn [map]; constructor; [|exact IH].
  unfold same_id. cbn. repeat split.
Qed.

Lemma Forall2_trans_rel {A} (R1 R2 R3 : A -> A -> Prop) :
  (forall a b c, R1 a b -> R2 b c -> R3 a c) ->
  forall l1 l2 l3, Forall2 R1 l1 l2 -> Forall2 R2 l2 l3 -> Forall2 R3 l1 l3.
Proof.
  intros Ht l1 l2 l3 H12. revert l3. induction H12; intros l3 H23; inversion H23; subst; constructor; eauto.
Qed.

(* a region that does not cross the origin: exactly the features lying completely inside, in the
   record's order, moved by -start *)
Lemma write_linear_features r sq feats o :
  wf_region r (zlen sq) -> crosses r = false -> write_to_genbank r sq feats = Ok o ->
  Forall2 (fun f g => floc g = shift_loc (floc f) (- rstart r) /\ same_id f g)
          (filter (inside (rstart r) (rend r)) feats) (o_feats o).
Proof.
  intros [Hs He] Hc H. apply write_unfold in H.
  destruct H as (s' & fs' & c & adjusted & Hb & _ & Ha & ->). cbn [o_feats].
  unfold build_base in Hb. rewrite Hc in Hb. injection Hb as _ <-.
  rewrite !clamp_id in Ha by lia. apply adjusted_rel in Ha.
  eapply Forall2_trans_rel; [|apply slice_rel|exact Ha].
  intros f g h (E1 & T1 & G1) (E2 & T2 & G2). unfold same_id. rewrite E2, E1, T2, T1, G2, G1. repeat split.
Qed.

(* offset_location in its "no wrapping required" branch is a plain shift *)
Lemma shifted_ok l off : Forall wf_part l -> off <> 0 -> shifted l off true = Ok (shift_loc l off).
Proof.
  intros Hwf Hoff. unfold shifted. destruct (off =? 0) eqn:E0; [lia|]. clear E0.
  match goal with |- mapM ?f l = _ => set (F := f) end.
  induction Hwf as [|p l Hp _ IH]; [reflexivity|].
  cbn [mapM shift_loc map]. unfold F at 1. cbv zeta. unfold wf_part in Hp.
  destruct (negb (ps p + off <? pe p + off)) eqn:E1; [lia|]. cbn [orb bind].
  rewrite IH. reflexivity.
Qed.

Lemma lstart_lt_lend l : l <> [] -> Forall wf_part l -> lstart l < lend l.
Proof.
  intros Hne Hwf. destruct l as [|p l]; [congruence|].
  assert (H1 : lstart (p :: l) <= ps p) by (apply lmin_le; left; reflexivity).
  assert (H2 : pe p <= lend (p :: l)) by (apply lmax_ge; left; reflexivity).
  inversion Hwf; subst. unfold wf_part in *. lia.
Qed.

Lemma offset_plain l off N :
  0 < N -> l <> [] -> Forall wf_part l -> llen l <> N ->
  0 <= lstart l + off -> lend l + off <= N ->
  offset_location l off (Some N) = Ok (shift_loc l off).
Proof.
  intros HN Hne Hwf Hlen H0 H1. unfold offset_location.
  destruct (N =? 0) eqn:EN; [lia|]. cbn [orb].
  destruct (off =? 0) eqn:Eoff.
  - assert (off = 0) by lia. subst off. unfold shifted. cbn [Z.eqb].
    f_equal. unfold shift_loc. rewrite <- (map_id l) at 1. apply map_ext. intros p. destruct p; cbn. f_equal; lia.
  - destruct (N <? 1) eqn:E1; [lia|].
    destruct (llen l =? N) eqn:E2; [lia|].
    pose proof (lstart_lt_lend l Hne Hwf).
    destruct ((0 <=? lstart l + off) && (lstart l + off <? lend l + off) && (lend l + off <=? N)) eqn:E3; [|lia].
    apply shifted_ok; [exact Hwf|lia].
Qed.

Lemma mapM_app {A B} (f : A -> res B) : forall a b r, mapM f (a ++ b) = Ok r ->
  exists ra rb, r = ra ++ rb /\ mapM f a = Ok ra /\ mapM f b = Ok rb.
Proof.
  induction a as [|x xs IH]; intros b r H.
  - exists [], r. repeat split. exact H.
  - cbn [app mapM] in H. destruct (f x) as [y|] eqn:Ef; cbn [bind] in H; [|discriminate].
    destruct (mapM f (xs ++ b)) as [r'|] eqn:Em; cbn [bind] in H; [|discriminate].
    injection H as <-. destruct (IH b r' Em) as (ra & rb & -> & Ha & Hb).
    exists (y :: ra), rb. repeat split; [|exact Hb]. cbn [mapM]. rewrite Ef, Ha. reflexivity.
Qed.

Lemma cross_rel (r : rdata) (N : Z) : forall fs gs,
  mapM (fun f => do l <- offset_location (floc f) (- rstart r) (Some N); Ok (set_loc f l)) fs = Ok gs ->
  Forall2 (fun f g => offset_location (floc f) (- rstart r) (Some N) = Ok (floc g) /\ same_id f g) fs gs.
Proof.
  intros fs gs H. apply mapM_Forall2 in H. eapply Forall2_imp; [|exact H].
  intros f g Hf. cbn beta in Hf.
  destruct (offset_location (floc f) (- rstart r) (Some N)) as [l|] eqn:Eo; cbn [bind] in Hf; [|discriminate].
  injection Hf as <-. cbn [floc set_loc]. unfold same_id. cbn [ftype ftag set_loc]. repeat split; reflexivity.
Qed.

(* a region that crosses the origin: features before the origin (moved by -start), then the
   origin-crossing features of the record that lie within the region (offset_location by -start
   around the ring), then the features after the origin (offset_location by N - start) *)
Lemma write_crossing_features r sq feats o :
  wf_region r (zlen sq) -> crosses r = true -> write_to_genbank r sq feats = Ok o ->
  let N := zlen sq in
  exists ga gb gc, o_feats o = ga ++ gb ++ gc /\
    Forall2 (fun f g => floc g = shift_loc (floc f) (- rstart r) /\ same_id f g)
            (filter (inside (rstart r) N) feats) ga /\
    Forall2 (fun f g => offset_location (floc f) (- rstart r) (Some N) = Ok (floc g) /\ same_id f g)
            (filter (cross_kept r) feats) gb /\
    Forall2 (fun f g => offset_location (shift_loc (floc f) (- 0)) (N - rstart r) (Some N) = Ok (floc g) /\ same_id f g)
            (filter (inside 0 (rend r)) feats) gc.
Proof.
  intros [Hs He] Hc H N. apply write_unfold in H.
  destruct H as (s' & fs' & c & adjusted & Hb & _ & Ha & ->). cbn [o_feats].
  unfold build_base in Hb. rewrite Hc in Hb. unfold build_cross in Hb. fold N in Hb.
  destruct (mapM _ (slice_feats feats 0 (clamp N (rend r)))) as [post|] eqn:E1; cbn [bind] in Hb; [|discriminate].
  destruct (mapM _ (filter (cross_kept r) feats)) as [cross|] eqn:E2; cbn [bind] in Hb; [|discriminate].
  injection Hb as _ <-. rewrite !clamp_id in * by lia.
  apply mapM_app in Ha. destruct Ha as (ga & gbc & -> & Ha & Hbc).
  apply mapM_app in Hbc. destruct Hbc as (gb & gc & -> & Hgb & Hgc).
  exists ga, gb, gc. split; [reflexivity|]. split; [|split].
  - apply adjusted_rel in Ha. eapply Forall2_trans_rel; [|apply slice_rel|exact Ha].
    intros f g h (E1' & T1 & G1) (E2' & T2 & G2). unfold same_id. rewrite E2', E1', T2, T1, G2, G1. repeat split.
  - apply adjusted_rel in Hgb. apply (cross_rel r N) in E2.
    eapply Forall2_trans_rel; [|exact E2|exact Hgb].
    intros f g h (E1' & T1 & G1) (E2' & T2 & G2). unfold same_id. rewrite E2', T2, T1, G2, G1. repeat split. exact E1'.
  - apply adjusted_rel in Hgc. apply mapM_Forall2 in E1.
    assert (Hpost : Forall2 (fun f g => offset_location (shift_loc (floc f) (- 0)) (N - rstart r) (Some N) = Ok (floc g) /\ same_id f g)
                            (filter (inside 0 (rend r)) feats) post).
    { eapply Forall2_trans_rel; [|apply slice_rel|exact E1].
      intros f g h (E1' & T1 & G1) Hh. cbn beta in Hh.
      destruct (offset_location (floc g) (N - rstart r) (Some N)) as [l|] eqn:Eo; cbn [bind] in Hh; [|discriminate].
      injection Hh as <-. cbn [floc set_loc]. unfold same_id. cbn [ftype ftag set_loc].
      rewrite <- E1'. repeat split; assumption. }
    eapply Forall2_trans_rel; [|exact Hpost|exact Hgc].
    intros f g h (E1' & T1 & G1) (E2' & T2 & G2). unfold same_id. rewrite E2', T2, T1, G2, G1. repeat split. exact E1'.
Qed.

Lemma shift_loc_0 l : shift_loc l 0 = l.
Proof.
  unfold shift_loc. rewrite <- (map_id l) at 2. apply map_ext. intros p. destruct p; cbn. f_equal; lia.
Qed.

Definition same_bases (d : Z) (f g : feat) : Prop :=
  (forall y, base_of (floc g) y <-> base_of (floc f) (y - d)) /\
  llen (floc g) = llen (floc f) /\ map pst (floc g) = map pst (floc f) /\ same_id f g.

Lemma shift_same_bases d f g : floc g = shift_loc (floc f) d /\ same_id f g -> same_bases d f g.
Proof.
  intros [E Hid]. unfold same_bases. rewrite E. repeat split; try apply Hid.
  - apply base_of_shift. - apply base_of_shift. - apply llen_shift. - apply strands_shift.
Qed.

Lemma write_linear_same_bases r sq feats o :
  wf_region r (zlen sq) -> crosses r = false -> write_to_genbank r sq feats = Ok o ->
  Forall2 (same_bases (- rstart r)) (filter (inside (rstart r) (rend r)) feats) (o_feats o).
Proof.
  intros Hwf Hc H. eapply Forall2_imp; [|eapply write_linear_features; eassumption].
  intros f g Hfg. apply shift_same_bases. exact Hfg.
Qed.

Definition wf_feat (N : Z) (f : feat) : Prop :=
  floc f <> [] /\ Forall wf_part (floc f) /\ llen (floc f) <> N.

(* origin-crossing region: the features before the origin are moved by -start, the features after
   the origin by N - start: in both cases base x of the record becomes base (x - start) mod N *)
Lemma write_crossing_same_bases r sq feats o :
  wf_region r (zlen sq) -> crosses r = true -> write_to_genbank r sq feats = Ok o ->
  Forall (wf_feat (zlen sq)) feats ->
  let N := zlen sq in
  exists ga gb gc, o_feats o = ga ++ gb ++ gc /\
    Forall2 (same_bases (- rstart r)) (filter (inside (rstart r) N) feats) ga /\
    Forall2 (fun f g => offset_location (floc f) (- rstart r) (Some N) = Ok (floc g) /\ same_id f g)
            (filter (cross_kept r) feats) gb /\
    Forall2 (same_bases (N - rstart r)) (filter (inside 0 (rend r)) feats) gc.
Proof.
  intros Hwf Hc H Hfe N.
  destruct (write_crossing_features r sq feats o Hwf Hc H) as (ga & gb & gc & E & Ha & Hb & Hcc).
  exists ga, gb, gc. split; [exact E|]. split; [|split; [exact Hb|]].
  - eapply Forall2_imp; [|exact Ha]. intros f g Hfg. apply shift_same_bases. exact Hfg.
  - clear E Ha Hb H. fold N in Hcc. unfold crosses in Hc. destruct Hwf as [Hs He].
    assert (Hin : Forall (fun f => wf_feat N f /\ inside 0 (rend r) f = true) (filter (inside 0 (rend r)) feats)).
    { apply Forall_forall. intros f Hf. apply filter_In in Hf. destruct Hf as [Hf1 Hf2].
      rewrite Forall_forall in Hfe. split; [apply Hfe; exact Hf1|exact Hf2]. }
    revert Hin. induction Hcc as [|f g fs gs Hh _ IH]; intros Hin; [constructor|].
    inversion Hin as [|? ? [Hw Hi] Hin']; subst. constructor; [|apply IH; exact Hin'].
    apply shift_same_bases. destruct Hh as [Ho Hid]. split; [|exact Hid].
    replace (- 0) with 0 in Ho by reflexivity. rewrite shift_loc_0 in Ho.
    destruct Hw as (Hne & Hwfp & Hlen). unfold inside in Hi.
    rewrite offset_plain in Ho; [injection Ho as <-; reflexivity|lia|exact Hne|exact Hwfp|exact Hlen|lia|lia].
Qed.

(* an origin-crossing forward-strand feature [a,N) + [0,b) inside an origin-crossing region
   becomes the single part [a - start, N - start + b) *)
Lemma offset_cross_forward N a b start st :
  0 <= b -> b < start -> start <= a -> a < N -> 0 < b -> b + (N - a) < N ->
  offset_location [mkPart a N st; mkPart 0 b st] (- start) (Some N)
  = Ok [mkPart (a - start) (N - start + b) st].
Proof.
  intros H0 H1 H2 H3 H4 H5. unfold offset_location.
  destruct (N =? 0) eqn:EN; [lia|]. destruct (- start =? 0) eqn:Eo; [lia|]. cbn [orb].
  destruct (N <? 1) eqn:E1; [lia|].
  replace (llen [mkPart a N st; mkPart 0 b st]) with (N - a + (b - 0 + 0)) by reflexivity.
  destruct (N - a + (b - 0 + 0) =? N) eqn:E2; [lia|].
  replace (lstart [mkPart a N st; mkPart 0 b st]) with (Z.min 0 a) by (cbn; lia).
  replace (lend [mkPart a N st; mkPart 0 b st]) with (Z.max b N) by (cbn; lia).
  destruct ((0 <=? Z.min 0 a + - start) && (Z.min 0 a + - start <? Z.max b N + - start) && (Z.max b N + - start <=? N)) eqn:E3; [lia|].
  unfold shifted. rewrite Eo. cbn [mapM ps pe pst].
  destruct (negb (a + - start <? N + - start)) eqn:E4; [lia|]. cbn [orb bind].
  destruct (negb (0 + - start <? b + - start)) eqn:E5; [lia|]. cbn [orb bind flat_map app ps pe pst].
  assert (M1 : (a + - start + N) mod N = a - start).
  { replace (a + - start + N) with (a - start + 1 * N) by lia. rewrite Z.mod_add by lia. apply Z.mod_small. lia. }
  assert (M2 : (N + - start - 1 + N) mod N = N - start - 1).
  { replace (N + - start - 1 + N) with (N - start - 1 + 1 * N) by lia. rewrite Z.mod_add by lia. apply Z.mod_small. lia. }
  assert (M3 : (0 + - start + N) mod N = N - start) by (replace (0 + - start + N) with (N - start) by lia; apply Z.mod_small; lia).
  assert (M4 : (b + - start - 1 + N) mod N = N - start + b - 1) by (replace (b + - start - 1 + N) with (N - start + b - 1) by lia; apply Z.mod_small; lia).
  rewrite M1, M2, M3, M4.
  destruct ((0 <=? a - start) && (a - start <? N - start - 1 + 1) && (N - start - 1 + 1 <=? N)) eqn:E6; [|lia].
  destruct ((0 <=? N - start) && (N - start <? N - start + b - 1 + 1) && (N - start + b - 1 + 1 <=? N)) eqn:E7; [|lia].
  cbn [app forallb ps pe].
  destruct (negb ((0 <=? a - start) && (a - start <? N - start - 1 + 1) && (N - start - 1 + 1 <=? N) &&
                  ((0 <=? N - start) && (N - start <? N - start + b - 1 + 1) && (N - start + b - 1 + 1 <=? N) && true))) eqn:E8; [lia|].
  cbn [merge_adjacent ps pe pst].
  destruct (N - start - 1 + 1 =? N - start) eqn:E9; [|lia].
  rewrite Z.eqb_refl. cbn [negb rev app]. f_equal. f_equal. f_equal; lia.
Qed.

(* the same feature lies inside the extract when the region contains it: b <= end *)
Lemma offset_cross_forward_inside r N a b st :
  wf_region r N -> crosses r = true -> in_wrapped_region r [mkPart a N st; mkPart 0 b st] = true ->
  0 < b -> a < N -> rstart r <= a ->
  0 <= a - rstart r /\ N - rstart r + b <= out_len r N.
Proof.
  intros [Hs He] Hc Hin Hb Ha Hsa. unfold out_len. rewrite Hc. unfold crosses in Hc.
  unfold in_wrapped_region in Hin. cbn [forallb ps pe] in Hin. lia.
Qed.

(* ---------- _adjust_motif on one part ---------- *)
(* a part after the origin of an origin-crossing region is moved around the ring *)
Lemma offset_single_wrap N a b start st :
  0 <= a -> a < b -> b <= start -> start < N ->
  offset_location [mkPart a b st] (- start) (Some N) = Ok [mkPart (a - start + N) (b - start + N) st].
Proof.
  intros H0 H1 H2 H3. unfold offset_location.
  destruct (N =? 0) eqn:EN; [lia|]. destruct (- start =? 0) eqn:Eo; [lia|]. cbn [orb].
  destruct (N <? 1) eqn:E1; [lia|].
  replace (llen [mkPart a b st]) with (b - a + 0) by reflexivity.
  destruct (b - a + 0 =? N) eqn:E2; [lia|].
  replace (lstart [mkPart a b st]) with a by reflexivity.
  replace (lend [mkPart a b st]) with b by reflexivity.
  destruct ((0 <=? a + - start) && (a + - start <? b + - start) && (b + - start <=? N)) eqn:E3; [lia|].
  unfold shifted. rewrite Eo. cbn [mapM ps pe pst].
  destruct (negb (a + - start <? b + - start)) eqn:E4; [lia|]. cbn [orb bind flat_map app ps pe pst].
  assert (M1 : (a + - start + N) mod N = a - start + N) by (apply Z.mod_small; lia).
  assert (M2 : (b + - start - 1 + N) mod N = b - start + N - 1) by (rewrite Z.mod_small by lia; lia).
  rewrite M1, M2.
  destruct ((0 <=? a - start + N) && (a - start + N <? b - start + N - 1 + 1) && (b - start + N - 1 + 1 <=? N)) eqn:E5; [|lia].
  cbn [app forallb ps pe]. rewrite E5. cbn [andb negb merge_adjacent rev app].
  f_equal. f_equal. f_equal; lia.
Qed.

Lemma adjust_motif_post_origin N a b start st :
  0 <= a -> a < b -> b <= start -> start < N ->
  adjust_motif_loc start N [mkPart a b st] = Ok [mkPart (a - start + N) (b - start + N) st].
Proof.
  intros H0 H1 H2 H3. unfold adjust_motif_loc. cbn [mapM].
  rewrite offset_single_wrap by assumption. reflexivity.
Qed.

(* a part at or after the region start (any region) is moved by -start *)
Lemma adjust_motif_plain N a b start st :
  0 <= start -> start <= a -> a < b -> b <= N -> b - a <> N ->
  adjust_motif_loc start N [mkPart a b st] = Ok [mkPart (a - start) (b - start) st].
Proof.
  intros H0 H1 H2 H3 H4. unfold adjust_motif_loc. cbn [mapM].
  rewrite (offset_plain [mkPart a b st] (- start) N).
  - reflexivity.
  - lia.
  - discriminate.
  - constructor; [unfold wf_part; cbn; lia|constructor].
  - cbn. lia.
  - cbn. lia.
  - cbn. lia.
Qed.

(* ---------- the witnesses of the repaired findings, and of those that are still recorded ---------- *)
Definition w_seq := [0; 1; 2; 3; 0; 1; 2; 3; 0; 1].
Definition w_feat t tag l q1 q2 l1 l2 := mkFeat t tag l q1 q2 l1 l2.

Definition w_region_feat q1 q2 := mkFeat T_region 0 [mkPart 8 10 1; mkPart 0 3 1] q1 q2 None None.
Definition w_core := [mkPart 9 10 1; mkPart 0 1 1].

(* F49 (repaired): the extract holds the rewritten core_location, the parent's origin-crossing
   protocluster keeps its own *)
Lemma parent_unchanged_witness : exists r sq feats o,
  wf_region r (zlen sq) /\ crosses r = true /\
  write_to_genbank r sq feats = Ok o /\ o_parent o = feats /\
  map fl1 feats = [None; Some w_core] /\ map fl1 (o_feats o) = [None; Some [mkPart 1 3 1]].
Proof.
  exists (mkR 8 3 [(1, [(1, w_core)])] []), w_seq,
         [w_region_feat [1] []; mkFeat T_proto 0 [mkPart 8 10 1; mkPart 0 3 1] [1] [] (Some w_core) None].
  eexists. split; [unfold wf_region; cbn; lia|]. split; [reflexivity|].
  split; [vm_compute; reflexivity|]. repeat split; reflexivity.
Qed.

(* F46 (repaired): the region feature's subregion_numbers follow the sub-region's new number *)
Lemma subregion_refs_witness : exists r sq feats o,
  wf_region r (zlen sq) /\ crosses r = false /\
  write_to_genbank r sq feats = Ok o /\
  nums_of T_sub (o_feats o) = [1] /\ flat_map (fun f => if ftype f =? T_region then fq2 f else []) (o_feats o) = [1] /\
  numbers_ok (o_feats o) = true.
Proof.
  exists (mkR 2 8 [] [2]), w_seq,
         [mkFeat T_region 0 [mkPart 2 8 1] [] [2] None None; mkFeat T_sub 0 [mkPart 3 6 1] [2] [] None None].
  eexists. split; [unfold wf_region; cbn; lia|]. split; [reflexivity|].
  split; [vm_compute; reflexivity|]. repeat split; reflexivity.
Qed.

(* F19: gaps in the numbers of an origin-crossing region stay *)
Lemma renumber_gap_refuted : exists r sq feats o,
  wf_region r (zlen sq) /\ crosses r = true /\ write_to_genbank r sq feats = Ok o /\
  nums_of T_cand (o_feats o) = [1; 3] /\ numbers_ok (o_feats o) = false.
Proof.
  exists (mkR 8 3 [(1, [(1, [mkPart 8 9 1])]); (3, [(2, [mkPart 1 2 1])])] []), w_seq,
         [mkFeat T_cand 0 [mkPart 8 9 1] [1] [1] None None; mkFeat T_cand 0 [mkPart 1 2 1] [3] [2] None None].
  eexists. split; [unfold wf_region; cbn; lia|]. split; [reflexivity|].
  split; [vm_compute; reflexivity|]. split; reflexivity.
Qed.

(* F47 (repaired): leader_location of a prepeptide after the origin is moved around the ring with the
   feature itself *)
Lemma motif_wrapped_witness : exists r sq feats o,
  wf_region r (zlen sq) /\ crosses r = true /\ write_to_genbank r sq feats = Ok o /\
  map floc (o_feats o) = [[mkPart 3 5 1]] /\ map fl1 (o_feats o) = [Some [mkPart 3 4 1]].
Proof.
  exists (mkR 8 3 [] [1]), w_seq, [mkFeat T_motif 0 [mkPart 1 3 1] [] [] (Some [mkPart 1 2 1]) None].
  eexists. split; [unfold wf_region; cbn; lia|]. split; [reflexivity|].
  split; [vm_compute; reflexivity|]. split; reflexivity.
Qed.

(* F48 (repaired): an origin-crossing gene that is only partly inside the region is left out, one
   that is inside is written *)
Lemma cross_feature_partial_witness : exists r sq feats o,
  wf_region r (zlen sq) /\ crosses r = true /\ write_to_genbank r sq feats = Ok o /\
  out_len r (zlen sq) = 5 /\ map ftag feats = [1; 2] /\ map ftag (o_feats o) = [2] /\
  map floc (o_feats o) = [[mkPart 1 4 1]].
Proof.
  exists (mkR 8 3 [] [1]), w_seq,
         [mkFeat 7 1 [mkPart 6 10 1; mkPart 0 2 1] [] [] None None;
          mkFeat 7 2 [mkPart 9 10 1; mkPart 0 2 1] [] [] None None].
  eexists. split; [unfold wf_region; cbn; lia|]. split; [reflexivity|].
  split; [vm_compute; reflexivity|]. repeat split; reflexivity.
Qed.

(* F51: start = end (the whole ring, cut at start) gives an empty extract *)
Lemma sequence_whole_ring_refuted : exists r sq feats o,
  wf_region r (zlen sq) /\ rstart r = rend r /\ write_to_genbank r sq feats = Ok o /\
  o_seq o = [] /\ o_feats o = [] /\ length (expected_seq r sq) = 10%nat.
Proof.
  exists (mkR 4 4 [] [1]), w_seq, [mkFeat 7 1 [mkPart 5 8 1] [] [] None None].
  eexists. split; [unfold wf_region; cbn; lia|]. split; [reflexivity|].
  split; [vm_compute; reflexivity|]. repeat split; reflexivity.
Qed.

Lemma sequence_full r sq feats o :
  wf_region r (zlen sq) -> rstart r <> rend r ->
  write_to_genbank r sq feats = Ok o ->
  o_seq o = expected_seq r sq /\
  length (o_seq o) = Z.to_nat (out_len r (zlen sq)) /\
  forall i, (i < Z.to_nat (out_len r (zlen sq)))%nat ->
    nth i (o_seq o) (-1) = nth (Z.to_nat ((rstart r + Z.of_nat i) mod zlen sq)) sq (-1).
Proof.
  intros Hwf Hne H. rewrite (write_sequence r sq feats o Hwf Hne H).
  split; [reflexivity|]. split; [apply expected_seq_length|]. intros i Hi. apply expected_seq_spec. exact Hi.
Qed.

Lemma adjust_numbers_full c f g : adjust_feat c f = Ok g ->
  (floc g = floc f /\ ftype g = ftype f /\ ftag g = ftag f) /\
  (ftype f = T_region -> fq1 g = map (renum (c_first_cc c)) (fq1 f) /\
                         fq2 g = map (renum (c_first_sub c)) (fq2 f)) /\
  (ftype f = T_cand -> exists n q, fq1 f = n :: q /\ fq1 g = [renum (c_first_cc c) n] /\
                                   fq2 g = map (renum (c_first_cluster c)) (fq2 f)) /\
  (ftype f = T_proto \/ ftype f = T_core ->
     exists n q, fq1 f = n :: q /\ fq1 g = [renum (c_first_cluster c) n] /\
                 lookup_last n (c_protos c) None <> None) /\
  (ftype f = T_sub -> exists n q, fq1 f = n :: q /\ fq1 g = [renum (c_first_sub c) n]).
Proof. intros H. split; [exact (adjust_feat_keeps c f g H)|exact (adjust_numbers c f g H)]. Qed.
