(* C12 - proofs *)
From Coq Require Import Lia ZifyBool Sorting.Permutation Sorting.Sorted.
From ASV.C12 Require Import Model.
From ASV.C04 Require Import Proofs.
From ASV.C17 Require Proofs.

(* ---------- mapM ---------- *)
Lemma mapM_length {A B} (f : A -> res B) : forall l r, mapM f l = Ok r -> length r = length l.
Proof.
  induction l as [|x xs IH]; intros r H; cbn in H.
  - injection H as <-. reflexivity.
  - destruct (f x) eqn:Ef; cbn in H; [|discriminate].
    destruct (mapM f xs) eqn:Em; cbn in H; [|discriminate].
    injection H as <-. cbn. f_equal. apply IH. reflexivity.
Qed.

Lemma mapM_Forall2 {A B} (f : A -> res B) : forall l r, mapM f l = Ok r ->
  Forall2 (fun x y => f x = Ok y) l r.
Proof.
  induction l as [|x xs IH]; intros r H; cbn in H.
  - injection H as <-. constructor.
  - destruct (f x) eqn:Ef; cbn in H; [|discriminate].
    destruct (mapM f xs) eqn:Em; cbn in H; [|discriminate].
    injection H as <-. constructor; [assumption|]. apply IH. reflexivity.
Qed.

(* ---------- slicing a sequence ---------- *)
Lemma skipn_nth_cons {A} (d : A) : forall (l : list A) a, (a < length l)%nat ->
  skipn a l = nth a l d :: skipn (S a) l.
Proof.
  induction l as [|x xs IH]; intros a Ha; cbn in Ha; [lia|].
  destruct a as [|a]; [reflexivity|]. cbn [skipn nth]. rewrite (IH a) by lia. reflexivity.
Qed.

Lemma firstn_skipn_map {A} (d : A) (l : list A) : forall n a, (a + n <= length l)%nat ->
  firstn n (skipn a l) = map (fun i => nth (a + i) l d) (seq 0 n).
Proof.
  induction n as [|n IH]; intros a H; [reflexivity|].
  rewrite (skipn_nth_cons d) by lia. cbn [firstn seq map].
  rewrite Nat.add_0_r. f_equal. rewrite IH by lia.
  rewrite <- seq_shift, map_map. apply map_ext. intros i. f_equal. lia.
Qed.

Lemma seq_shift_k k : forall n, seq k n = map (fun i => (k + i)%nat) (seq 0 n).
Proof.
  induction k as [|k IH]; intros n.
  - cbn. rewrite map_id. reflexivity.
  - rewrite <- seq_shift, IH, map_map. reflexivity.
Qed.

Lemma pyslice_map (sq : list Z) a b : 0 <= a -> a <= b -> b <= zlen sq ->
  pyslice sq a b = map (fun i => nth (Z.to_nat (a + Z.of_nat i)) sq (-1)) (seq 0 (Z.to_nat (b - a))).
Proof.
  intros Ha Hab Hb. unfold pyslice, zlen in *.
  rewrite (firstn_skipn_map (-1)) by lia.
  apply map_ext. intros i. f_equal. lia.
Qed.

Lemma clamp_id N x : 0 <= x <= N -> clamp N x = x.
Proof. intros H. unfold clamp. destruct (x <? 0) eqn:E; lia. Qed.

Definition wf_region (r : rdata) (N : Z) : Prop := 0 <= rstart r <= N /\ 0 <= rend r <= N.

Lemma build_base_seq r sq feats s' fs' :
  wf_region r (zlen sq) ->
  build_base r sq feats = Ok (s', fs') -> s' = expected_seq r sq.
Proof.
  intros [Hs He] H. unfold build_base in H. unfold expected_seq, out_len.
  set (N := zlen sq) in *.
  destruct (crosses r) eqn:Ec.
  - unfold crosses in Ec. unfold build_cross in H. fold N in H.
    destruct (mapM _ (slice_feats feats 0 (clamp N (rend r)))) eqn:E1; cbn [bind] in H; [|discriminate].
    destruct (mapM _ (filter (cross_kept r) feats)) eqn:E2; cbn [bind] in H; [|discriminate].
    injection H as <- _.
    rewrite !clamp_id by lia.
    rewrite pyslice_map by (fold N; lia). rewrite pyslice_map by (fold N; lia).
    replace (Z.to_nat (N - rstart r + rend r)) with (Z.to_nat (N - rstart r) + Z.to_nat (rend r - 0))%nat by lia.
    rewrite seq_app, map_app. f_equal.
    + apply map_ext_in. intros i Hi. apply in_seq in Hi. f_equal. f_equal.
      rewrite Z.mod_small by lia. reflexivity.
    + cbn [Nat.add]. rewrite (seq_shift_k (Z.to_nat (N - rstart r))).
      rewrite map_map. apply map_ext_in. intros i Hi. apply in_seq in Hi. f_equal. f_equal.
      replace (rstart r + Z.of_nat (Z.to_nat (N - rstart r) + i)) with (Z.of_nat i + 1 * N) by lia.
      rewrite Z.mod_add by lia. rewrite Z.mod_small by lia. lia.
  - unfold crosses in Ec. injection H as <- _.
    rewrite !clamp_id by lia. rewrite pyslice_map by (fold N; lia).
    apply map_ext_in. intros i Hi. apply in_seq in Hi. f_equal. f_equal.
    rewrite Z.mod_small by lia. reflexivity.
Qed.

(* ---------- structure of write_to_genbank ---------- *)
Lemma write_unfold r sq feats o : write_to_genbank r sq feats = Ok o ->
  exists s' fs' c adjusted,
    build_base r sq feats = Ok (s', fs') /\ make_ctx r (zlen sq) fs' = Ok c /\
    mapM (adjust_feat c) fs' = Ok adjusted /\
    o = mkOut s' adjusted (build_annotations r) (restore feats (map floc feats)).
Proof.
  unfold write_to_genbank. intros H.
  destruct (build_base r sq feats) as [[s' fs']|] eqn:Eb; cbn [bind] in H; [|discriminate].
  destruct (make_ctx r (zlen sq) fs') as [c|] eqn:Ec; cbn [bind] in H; [|discriminate].
  destruct (mapM (adjust_feat c) fs') as [adjusted|] eqn:Ea; cbn [bind] in H; [|discriminate].
  injection H as <-. exists s', fs', c, adjusted. repeat split; first [assumption|reflexivity].
Qed.

Lemma write_sequence r sq feats o :
  wf_region r (zlen sq) ->
  write_to_genbank r sq feats = Ok o -> o_seq o = expected_seq r sq.
Proof.
  intros Hwf H. apply write_unfold in H.
  destruct H as (s' & fs' & c & adjusted & Hb & _ & _ & ->). cbn [o_seq].
  eapply build_base_seq; eassumption.
Qed.

Lemma expected_seq_spec r sq i :
  (i < Z.to_nat (out_len r (zlen sq)))%nat ->
  nth i (expected_seq r sq) (-1) =
  nth (Z.to_nat ((rstart r + Z.of_nat i) mod zlen sq)) sq (-1).
Proof.
  intros Hi. unfold expected_seq.
  set (f := fun i0 : nat => nth (Z.to_nat ((rstart r + Z.of_nat i0) mod zlen sq)) sq (-1)).
  rewrite (nth_indep _ (-1) (f 0%nat)) by (rewrite map_length, seq_length; exact Hi).
  rewrite map_nth. rewrite seq_nth by exact Hi. reflexivity.
Qed.

Lemma expected_seq_length r sq : length (expected_seq r sq) = Z.to_nat (out_len r (zlen sq)).
Proof. unfold expected_seq. rewrite map_length, seq_length. reflexivity. Qed.

(* ---------- adjust_feat never touches type, tag, location ---------- *)
Lemma adjust_feat_keeps c f g : adjust_feat c f = Ok g ->
  floc g = floc f /\ ftype g = ftype f /\ ftag g = ftag f.
Proof.
  unfold adjust_feat. intros H.
  destruct (ftype f =? T_region).
  { destruct (mapM (new_number (c_sub c)) (fq2 f)); cbn [bind] in H; [|discriminate].
    destruct (fq1 f) as [|q0 q].
    - injection H as <-; repeat split; reflexivity.
    - destruct (mapM (new_number (c_cc c)) (q0 :: q)); cbn [bind] in H; [|discriminate].
      injection H as <-; repeat split; reflexivity. }
  destruct (ftype f =? T_cand).
  { destruct (fq1 f) as [|n q]; [discriminate|].
    destruct (new_number (c_cc c) n); cbn [bind] in H; [|discriminate].
    destruct (mapM (new_number (c_pc c)) (fq2 f)); cbn [bind] in H; [|discriminate].
    injection H as <-; repeat split; reflexivity. }
  destruct ((ftype f =? T_proto) || (ftype f =? T_core)).
  { destruct (fq1 f) as [|orig q]; [discriminate|].
    destruct (new_number (c_pc c) orig); cbn [bind] in H; [|discriminate].
    destruct (lookup_last orig (c_protos c) None); [|discriminate].
    destruct (ftype f =? T_proto).
    - destruct (linearise_loc l (c_start c) (c_len c)); cbn [bind] in H; [|discriminate].
      injection H as <-; repeat split; reflexivity.
    - injection H as <-; repeat split; reflexivity. }
  destruct (ftype f =? T_sub).
  { destruct (fq1 f) as [|n q]; [discriminate|].
    destruct (new_number (c_sub c) n); cbn [bind] in H; [|discriminate].
    injection H as <-; repeat split; reflexivity. }
  destruct (ftype f =? T_motif).
  { destruct (adjust_motif_opt (c_start c) (c_len c) (fl1 f)); cbn [bind] in H; [|discriminate].
    destruct (adjust_motif_opt (c_start c) (c_len c) (fl2 f)); cbn [bind] in H; [|discriminate].
    injection H as <-; repeat split; reflexivity. }
  injection H as <-; repeat split; reflexivity.
Qed.

Lemma adjust_feat_other c f : adjustable f = false -> adjust_feat c f = Ok f.
Proof.
  unfold adjustable, adjust_feat. intros H.
  destruct (ftype f =? T_region); [discriminate|].
  destruct (ftype f =? T_cand); [discriminate|].
  destruct (ftype f =? T_proto); [discriminate|].
  destruct (ftype f =? T_core); [discriminate|].
  destruct (ftype f =? T_sub); [discriminate|].
  destruct (ftype f =? T_motif); [discriminate|]. reflexivity.
Qed.

Lemma set_loc_self f : set_loc f (floc f) = f.
Proof. destruct f; reflexivity. Qed.
Lemma set_loc_twice f l l' : set_loc (set_loc f l) l' = set_loc f l'.
Proof. reflexivity. Qed.

(* ---------- the parent after the call ---------- *)
(* every feature of the extract is a copy, so the only thing that happens to the parent's features
   is the final loop that puts the saved locations back *)
Lemma restore_self : forall feats, restore feats (map floc feats) = feats.
Proof.
  induction feats as [|f fs IH]; [reflexivity|]. cbn [map restore]. rewrite IH, set_loc_self. reflexivity.
Qed.

Lemma write_parent_unchanged r sq feats o : write_to_genbank r sq feats = Ok o -> o_parent o = feats.
Proof.
  intros H. apply write_unfold in H.
  destruct H as (s' & fs' & c & adjusted & _ & _ & _ & ->). cbn [o_parent]. apply restore_self.
Qed.

Lemma write_parent_locations r sq feats o : write_to_genbank r sq feats = Ok o ->
  map floc (o_parent o) = map floc feats /\ map ftype (o_parent o) = map ftype feats
  /\ map ftag (o_parent o) = map ftag feats.
Proof. intros H. rewrite (write_parent_unchanged _ _ _ _ H). repeat split; reflexivity. Qed.

Lemma Forall2_imp {A B} (R1 R2 : A -> B -> Prop) : (forall a b, R1 a b -> R2 a b) ->
  forall l1 l2, Forall2 R1 l1 l2 -> Forall2 R2 l1 l2.
Proof. intros H l1 l2 HF. induction HF; constructor; auto. Qed.

(* ---------- renumbering: ranks in the order of the extract ---------- *)
(* the new numbers are the positions 1, 2, ... in the sorted list of (start, -length, old number) *)
Lemma number_from_fst : forall ks i, map fst (number_from i ks) = map nk_num ks.
Proof. induction ks as [|k ks IH]; intros i; cbn [number_from map fst]; [reflexivity|]. rewrite IH. reflexivity. Qed.

Lemma number_from_snd : forall ks i,
  map snd (number_from i ks) = map (fun j => i + Z.of_nat j) (seq 0 (length ks)).
Proof.
  induction ks as [|k ks IH]; intros i; cbn [number_from map snd length seq]; [reflexivity|].
  f_equal; [lia|]. rewrite IH. rewrite <- seq_shift, map_map. apply map_ext. intros j. lia.
Qed.

Definition ranks_distinct (m : list (Z * Z)) : Prop := NoDup (map snd m).

Lemma number_from_distinct ks i : ranks_distinct (number_from i ks).
Proof.
  unfold ranks_distinct. rewrite number_from_snd.
  apply FinFun.Injective_map_NoDup; [|apply seq_NoDup]. intros a b Hab. lia.
Qed.

Lemma number_from_1_range ks : map snd (number_from 1 ks) = zrange1 (length ks).
Proof. rewrite number_from_snd. unfold zrange1. apply map_ext. intros j. lia. Qed.

(* dict lookup: the last insertion of a key counts *)
Lemma lookup_num_notin k : forall l acc, ~ In k (map fst l) -> lookup_num k l acc = acc.
Proof.
  induction l as [|[k' v] l IH]; intros acc Hn; cbn [lookup_num]; [reflexivity|].
  cbn [map fst In] in Hn. rewrite IH by tauto.
  destruct (k' =? k) eqn:E; [|reflexivity]. exfalso. apply Hn. left. lia.
Qed.

Lemma lookup_num_in k : forall l acc v, lookup_num k l acc = Some v -> In (k, v) l \/ acc = Some v.
Proof.
  induction l as [|[k' v'] l IH]; intros acc v H; cbn [lookup_num] in H; [right; exact H|].
  apply IH in H. destruct H as [H|H]; [left; right; exact H|].
  destruct (k' =? k) eqn:E; [|right; exact H].
  injection H as <-. left. left. f_equal. lia.
Qed.

Lemma lookup_num_some k : forall l acc, In k (map fst l) -> exists v, lookup_num k l acc = Some v.
Proof.
  induction l as [|[k' v'] l IH]; intros acc Hin; cbn [map fst In] in Hin; [contradiction|].
  cbn [lookup_num]. destruct (in_dec Z.eq_dec k (map fst l)) as [Hl|Hl]; [apply IH; exact Hl|].
  rewrite lookup_num_notin by exact Hl. destruct Hin as [E|Hin]; [|contradiction].
  subst k'. rewrite Z.eqb_refl. eexists. reflexivity.
Qed.

Lemma lookup_num_nodup k v : forall l acc, NoDup (map fst l) -> In (k, v) l -> lookup_num k l acc = Some v.
Proof.
  induction l as [|[k' v'] l IH]; intros acc Hnd Hin; [contradiction|].
  cbn [map fst] in Hnd. inversion Hnd as [|? ? Hnot Hnd']; subst. cbn [lookup_num].
  destruct Hin as [E|Hin].
  - injection E as -> ->. rewrite Z.eqb_refl. apply lookup_num_notin. exact Hnot.
  - apply IH; [exact Hnd'|exact Hin].
Qed.

Lemma new_number_in m n i : new_number m n = Ok i -> In (n, i) m.
Proof.
  unfold new_number. destruct (lookup_num n m None) as [j|] eqn:E; [|discriminate].
  intros H. injection H as <-. apply lookup_num_in in E. destruct E as [E|E]; [exact E|discriminate].
Qed.

Lemma snd_distinct_inj (m : list (Z * Z)) a b i : ranks_distinct m -> In (a, i) m -> In (b, i) m -> a = b.
Proof.
  unfold ranks_distinct. induction m as [|[k v] m IH]; intros Hnd Ha Hb; [contradiction|].
  cbn [map snd] in Hnd. inversion Hnd as [|? ? Hnot Hnd']; subst.
  destruct Ha as [Ea|Ha], Hb as [Eb|Hb].
  - congruence.
  - injection Ea as -> ->. exfalso. apply Hnot. apply in_map_iff. exists (b, i). split; [reflexivity|exact Hb].
  - injection Eb as -> ->. exfalso. apply Hnot. apply in_map_iff. exists (a, i). split; [reflexivity|exact Ha].
  - apply IH; assumption.
Qed.

(* two old numbers never get the same new number *)
Lemma new_number_inj m n n' i : ranks_distinct m -> new_number m n = Ok i -> new_number m n' = Ok i -> n = n'.
Proof. intros Hd H1 H2. apply new_number_in in H1, H2. eapply snd_distinct_inj; eassumption. Qed.

Lemma nk_num_key cr f n : nk_num (feat_key cr f n) = n.
Proof. unfold feat_key. destruct cr; reflexivity. Qed.

Lemma nums_of_cons t f fs :
  nums_of t (f :: fs) = (if ftype f =? t then firstn 1 (fq1 f) else []) ++ nums_of t fs.
Proof. reflexivity. Qed.

Lemma num_keys_nums cr t : forall fs ks, num_keys cr t fs = Ok ks -> map nk_num ks = nums_of t fs.
Proof.
  induction fs as [|f fs IH]; intros ks H; cbn [num_keys] in H.
  - injection H as <-. reflexivity.
  - rewrite nums_of_cons. destruct (ftype f =? t).
    + destruct (fq1 f) as [|n q]; [discriminate|].
      destruct (num_keys cr t fs) as [ks'|]; cbn [bind] in H; [|discriminate].
      injection H as <-. cbn [map firstn app]. rewrite nk_num_key. f_equal. apply IH. reflexivity.
    + cbn [app]. apply IH. exact H.
Qed.

(* the renumbering of one feature type: the old numbers are those of the features of that type in
   the extract, the new numbers are exactly 1..k, each used once *)
Lemma renumbering_spec cr t fs m : renumbering cr t fs = Ok m ->
  Permutation (map fst m) (nums_of t fs) /\ map snd m = zrange1 (length (nums_of t fs)) /\
  ranks_distinct m.
Proof.
  unfold renumbering. intros H.
  destruct (num_keys cr t fs) as [ks|] eqn:Ek; cbn [bind] in H; [|discriminate]. injection H as <-.
  pose proof (num_keys_nums cr t fs ks Ek) as En.
  pose proof (sort_by_perm' nkey_lt ks) as Hp.
  split; [|split].
  - rewrite number_from_fst, <- En. apply Permutation_map. apply Permutation_sym. exact Hp.
  - rewrite number_from_1_range. f_equal. rewrite <- En, map_length.
    symmetry. apply Permutation_length. exact Hp.
  - apply number_from_distinct.
Qed.

Definition ctx_ok (c : actx) : Prop :=
  ranks_distinct (c_cc c) /\ ranks_distinct (c_pc c) /\ ranks_distinct (c_sub c).

(* the context: the three renumberings are made from the extract's candidate cluster, protocluster
   and sub-region features *)
Lemma make_ctx_spec r N fs c : make_ctx r N fs = Ok c ->
  renumbering (crosses r) T_cand fs = Ok (c_cc c) /\
  renumbering (crosses r) T_proto fs = Ok (c_pc c) /\
  renumbering (crosses r) T_sub fs = Ok (c_sub c) /\
  c_protos c = all_protos r /\ c_start c = rstart r /\ c_len c = N.
Proof.
  unfold make_ctx. intros H.
  destruct (renumbering (crosses r) T_cand fs) as [cc|]; cbn [bind] in H; [|discriminate].
  destruct (renumbering (crosses r) T_proto fs) as [pc|]; cbn [bind] in H; [|discriminate].
  destruct (renumbering (crosses r) T_sub fs) as [sb|]; cbn [bind] in H; [|discriminate].
  injection H as <-. repeat split; reflexivity.
Qed.

Lemma make_ctx_ok r N fs c : make_ctx r N fs = Ok c -> ctx_ok c.
Proof.
  intros H. apply make_ctx_spec in H. destruct H as (H1 & H2 & H3 & _).
  apply renumbering_spec in H1, H2, H3. unfold ctx_ok. tauto.
Qed.

(* what adjust_feat does to the numbers, by feature type *)
Lemma adjust_numbers c f g : adjust_feat c f = Ok g ->
  (ftype f = T_region -> mapM (new_number (c_cc c)) (fq1 f) = Ok (fq1 g) /\
                         mapM (new_number (c_sub c)) (fq2 f) = Ok (fq2 g)) /\
  (ftype f = T_cand -> exists n q i, fq1 f = n :: q /\ new_number (c_cc c) n = Ok i /\ fq1 g = [i] /\
                                     mapM (new_number (c_pc c)) (fq2 f) = Ok (fq2 g)) /\
  (ftype f = T_proto \/ ftype f = T_core ->
     exists n q i, fq1 f = n :: q /\ new_number (c_pc c) n = Ok i /\ fq1 g = [i] /\
                   lookup_last n (c_protos c) None <> None) /\
  (ftype f = T_sub -> exists n q i, fq1 f = n :: q /\ new_number (c_sub c) n = Ok i /\ fq1 g = [i]).
Proof.
  unfold adjust_feat, T_region, T_cand, T_proto, T_core, T_sub, T_motif. intros H.
  destruct (ftype f =? 1) eqn:E1.
  { assert (ftype f = 1) by lia. repeat split; try (intros; lia); try (intros [?|?]; lia).
    - destruct (mapM (new_number (c_sub c)) (fq2 f)) as [subs|]; cbn [bind] in H; [|discriminate].
      destruct (fq1 f) as [|q0 q] eqn:Eq.
      + injection H as <-. reflexivity.
      + destruct (mapM (new_number (c_cc c)) (q0 :: q)) as [cs|]; cbn [bind] in H; [|discriminate].
        injection H as <-. reflexivity.
    - destruct (mapM (new_number (c_sub c)) (fq2 f)) as [subs|]; cbn [bind] in H; [|discriminate].
      destruct (fq1 f) as [|q0 q] eqn:Eq.
      + injection H as <-. reflexivity.
      + destruct (mapM (new_number (c_cc c)) (q0 :: q)) as [cs|]; cbn [bind] in H; [|discriminate].
        injection H as <-. reflexivity. }
  destruct (ftype f =? 2) eqn:E2.
  { assert (ftype f = 2) by lia. repeat split; try (intros; lia); try (intros [?|?]; lia).
    intros _. destruct (fq1 f) as [|n q]; [discriminate|].
    destruct (new_number (c_cc c) n) as [i|] eqn:En; cbn [bind] in H; [|discriminate].
    destruct (mapM (new_number (c_pc c)) (fq2 f)) as [ps|] eqn:Ep; cbn [bind] in H; [|discriminate].
    injection H as <-. exists n, q, i. repeat split; first [reflexivity|assumption]. }
  destruct ((ftype f =? 3) || (ftype f =? 4)) eqn:E34.
  { repeat split; try (intros; lia). intros _.
    destruct (fq1 f) as [|n q]; [discriminate|].
    destruct (new_number (c_pc c) n) as [i|] eqn:En; cbn [bind] in H; [|discriminate].
    exists n, q, i.
    destruct (lookup_last n (c_protos c) None) as [core|] eqn:El; [|discriminate].
    destruct (ftype f =? 3).
    - destruct (linearise_loc core (c_start c) (c_len c)); cbn [bind] in H; [|discriminate].
      injection H as <-. repeat split; try reflexivity; try assumption. discriminate.
    - injection H as <-. repeat split; try reflexivity; try assumption. discriminate. }
  destruct (ftype f =? 5) eqn:E5.
  { assert (ftype f = 5) by lia. repeat split; try (intros; lia); try (intros [?|?]; lia).
    intros _. destruct (fq1 f) as [|n q]; [discriminate|].
    destruct (new_number (c_sub c) n) as [i|] eqn:En; cbn [bind] in H; [|discriminate].
    injection H as <-. exists n, q, i. repeat split; first [reflexivity|assumption]. }
  repeat split; try (intros; lia); try (intros [?|?]; lia).
Qed.

(* a list of references and a number are renumbered by the same map: n is listed before iff its new
   number is listed afterwards *)
Lemma refs_in_iff m l l' n i : ranks_distinct m ->
  mapM (new_number m) l = Ok l' -> new_number m n = Ok i -> (In n l <-> In i l').
Proof.
  intros Hd Hm Hn. apply mapM_Forall2 in Hm. induction Hm as [|x y xs ys Hxy _ IH].
  - split; intros [].
  - cbn [In]. split.
    + intros [E|Hin]; [left; subst x; congruence|right; apply IH; exact Hin].
    + intros [E|Hin]; [left; subst y; eapply new_number_inj; eassumption|right; apply IH; exact Hin].
Qed.

(* cross references stay consistent: a number listed by the region feature and carried by a
   candidate feature is mapped to the same new number; likewise candidate -> protocluster/core and
   region -> sub-region *)
Lemma refs_region_cand c fr fc gr gc n q : ctx_ok c ->
  ftype fr = T_region -> ftype fc = T_cand ->
  adjust_feat c fr = Ok gr -> adjust_feat c fc = Ok gc -> fq1 fc = n :: q ->
  exists i, new_number (c_cc c) n = Ok i /\ fq1 gc = [i] /\ (In n (fq1 fr) <-> In i (fq1 gr)).
Proof.
  intros (Hd & _ & _) Tr Tc Hr Hc Hq.
  destruct (adjust_numbers _ _ _ Hr) as (Hr1 & _). destruct (Hr1 Tr) as (Er & _).
  destruct (adjust_numbers _ _ _ Hc) as (_ & Hc1 & _). destruct (Hc1 Tc) as (n' & q' & i & E1 & E2 & E3 & _).
  rewrite Hq in E1. injection E1 as <- <-. exists i. split; [exact E2|]. split; [exact E3|].
  eapply refs_in_iff; eassumption.
Qed.

Lemma refs_region_sub c fr fs gr gs n q : ctx_ok c ->
  ftype fr = T_region -> ftype fs = T_sub ->
  adjust_feat c fr = Ok gr -> adjust_feat c fs = Ok gs -> fq1 fs = n :: q ->
  exists i, new_number (c_sub c) n = Ok i /\ fq1 gs = [i] /\ (In n (fq2 fr) <-> In i (fq2 gr)).
Proof.
  intros (_ & _ & Hd) Tr Ts Hr Hs Hq.
  destruct (adjust_numbers _ _ _ Hr) as (Hr1 & _). destruct (Hr1 Tr) as (_ & Er).
  destruct (adjust_numbers _ _ _ Hs) as (_ & _ & _ & Hs1). destruct (Hs1 Ts) as (n' & q' & i & E1 & E2 & E3).
  rewrite Hq in E1. injection E1 as <- <-. exists i. split; [exact E2|]. split; [exact E3|].
  eapply refs_in_iff; eassumption.
Qed.

Lemma refs_cand_proto c fc fp gc gp n q : ctx_ok c ->
  ftype fc = T_cand -> (ftype fp = T_proto \/ ftype fp = T_core) ->
  adjust_feat c fc = Ok gc -> adjust_feat c fp = Ok gp -> fq1 fp = n :: q ->
  exists i, new_number (c_pc c) n = Ok i /\ fq1 gp = [i] /\ (In n (fq2 fc) <-> In i (fq2 gc)).
Proof.
  intros (_ & Hd & _) Tc Tp Hc Hp Hq.
  destruct (adjust_numbers _ _ _ Hc) as (_ & Hc1 & _). destruct (Hc1 Tc) as (n' & q' & i' & _ & _ & _ & Ec).
  destruct (adjust_numbers _ _ _ Hp) as (_ & _ & Hp1 & _). destruct (Hp1 Tp) as (n2 & q2 & i & E1 & E2 & E3 & _).
  rewrite Hq in E1. injection E1 as <- <-. exists i. split; [exact E2|]. split; [exact E3|].
  eapply refs_in_iff; eassumption.
Qed.

(* ---------- the new numbers of one type are exactly 1..k ---------- *)
Definition num_type (t : Z) (c : actx) : list (Z * Z) :=
  if t =? T_cand then c_cc c else if t =? T_proto then c_pc c else c_sub c.

Lemma adjusted_nums t c : t = T_cand \/ t = T_proto \/ t = T_sub ->
  forall fs gs, mapM (adjust_feat c) fs = Ok gs ->
  Forall2 (fun n i => new_number (num_type t c) n = Ok i) (nums_of t fs) (nums_of t gs).
Proof.
  intros Ht. induction fs as [|f fs IH]; intros gs H; cbn [mapM] in H.
  - injection H as <-. constructor.
  - destruct (adjust_feat c f) as [g|] eqn:Ef; cbn [bind] in H; [|discriminate].
    destruct (mapM (adjust_feat c) fs) as [gs'|] eqn:Em; cbn [bind] in H; [|discriminate].
    injection H as <-. rewrite !nums_of_cons.
    destruct (adjust_feat_keeps _ _ _ Ef) as (_ & Ety & _). rewrite Ety.
    apply Forall2_app; [|apply IH; reflexivity].
    destruct (ftype f =? t) eqn:Et; [|constructor].
    assert (Eft : ftype f = t) by lia.
    pose proof (adjust_numbers _ _ _ Ef) as (_ & Hc & Hp & Hs).
    unfold num_type, T_cand, T_proto, T_sub in *.
    destruct Ht as [ -> | [ -> | -> ] ].
    + destruct (Hc Eft) as (n & q & i & -> & En & -> & _). cbn. constructor; [exact En|constructor].
    + destruct (Hp (or_introl Eft)) as (n & q & i & -> & En & -> & _). cbn. constructor; [exact En|constructor].
    + destruct (Hs Eft) as (n & q & i & -> & En & ->). cbn. constructor; [exact En|constructor].
Qed.

Lemma Forall2_map_fun {A B} (R : A -> B -> Prop) (h : A -> B) : (forall a b, R a b -> b = h a) ->
  forall l l', Forall2 R l l' -> l' = map h l.
Proof. intros Hh l l' HF. induction HF; cbn [map]; [reflexivity|]. f_equal; auto. Qed.

Lemma numbers_1_to_k r N fs c gs t : t = T_cand \/ t = T_proto \/ t = T_sub ->
  make_ctx r N fs = Ok c -> mapM (adjust_feat c) fs = Ok gs -> NoDup (nums_of t fs) ->
  Permutation (nums_of t gs) (zrange1 (length (nums_of t fs))).
Proof.
  intros Ht Hc Hm Hnd.
  assert (Hr : renumbering (crosses r) t fs = Ok (num_type t c)).
  { apply make_ctx_spec in Hc. destruct Hc as (H1 & H2 & H3 & _).
    unfold num_type, T_cand, T_proto, T_sub in *. destruct Ht as [ -> | [ -> | -> ] ]; assumption. }
  apply renumbering_spec in Hr. destruct Hr as (Hp & Hs & _).
  set (m := num_type t c) in *.
  set (af := fun n => match lookup_num n m None with Some i => i | None => 0 end).
  pose proof (adjusted_nums t c Ht fs gs Hm) as HF. fold m in HF.
  assert (E1 : nums_of t gs = map af (nums_of t fs)).
  { apply (Forall2_map_fun _ af) in HF; [exact HF|].
    intros a b Hab. unfold new_number in Hab. unfold af.
    destruct (lookup_num a m None); [injection Hab as <-; reflexivity|discriminate]. }
  assert (Hndm : NoDup (map fst m)).
  { apply (Permutation_NoDup (Permutation_sym Hp)). exact Hnd. }
  assert (E2 : map snd m = map af (map fst m)).
  { rewrite map_map. apply map_ext_in. intros [k v] Hin. cbn [fst snd]. unfold af.
    rewrite (lookup_num_nodup k v m None Hndm Hin). reflexivity. }
  rewrite E1, <- Hs, E2. apply Permutation_map. apply Permutation_sym. exact Hp.
Qed.

(* ---------- in an origin-crossing region the new numbers follow the position in the extract ---------- *)
Lemma nkey_lt_irr a : nkey_lt a a = false.
Proof. destruct a as [[s l] n]. unfold nkey_lt. lia. Qed.

Lemma nkey_lt_trans a b c : nkey_lt a b = true -> nkey_lt b c = true -> nkey_lt a c = true.
Proof. destruct a as [[s1 l1] n1], b as [[s2 l2] n2], c as [[s3 l3] n3]. unfold nkey_lt. lia. Qed.

Lemma number_from_ge : forall ks j n i, In (n, i) (number_from j ks) -> j <= i.
Proof.
  induction ks as [|k ks IH]; intros j n i H; cbn [number_from In] in H; [contradiction|].
  destruct H as [E|H]; [injection E as _ <-; lia|]. apply IH in H. lia.
Qed.

Lemma number_from_in_num ks j n i : In (n, i) (number_from j ks) -> In n (map nk_num ks).
Proof.
  intros H. rewrite <- (number_from_fst ks j). apply in_map_iff. exists (n, i). split; [reflexivity|exact H].
Qed.

Lemma ranks_follow_order : forall S j,
  ASV.C17.Proofs.wsorted nkey_lt S -> NoDup (map nk_num S) ->
  forall ka kb ia ib, In ka S -> In kb S ->
  In (nk_num ka, ia) (number_from j S) -> In (nk_num kb, ib) (number_from j S) ->
  nkey_lt ka kb = true -> ia < ib.
Proof.
  induction S as [|k S IH]; intros j Hs Hnd ka kb ia ib Ha Hb Hia Hib Hlt; [contradiction|].
  inversion Hs as [|? ? Hs' Hall]; subst. cbn [map] in Hnd. inversion Hnd as [|? ? Hnot Hnd']; subst.
  rewrite Forall_forall in Hall. cbn [number_from In] in Hia, Hib.
  assert (Hhead : forall kx, In kx (k :: S) -> nk_num kx = nk_num k -> kx = k).
  { intros kx [E|Hin] En; [symmetry; exact E|]. exfalso. apply Hnot. rewrite <- En. apply in_map. exact Hin. }
  assert (Htail : forall kx i, In kx (k :: S) -> In (nk_num kx, i) (number_from (j + 1) S) -> In kx S).
  { intros kx i [E|Hin] Hi; [|exact Hin]. exfalso. subst kx. apply Hnot. eapply number_from_in_num. exact Hi. }
  destruct Hia as [Ea|Hia], Hib as [Eb|Hib].
  - injection Ea as Ea _. injection Eb as Eb _.
    rewrite (Hhead ka Ha (eq_sym Ea)), (Hhead kb Hb (eq_sym Eb)), nkey_lt_irr in Hlt. discriminate.
  - injection Ea as _ <-. apply number_from_ge in Hib. lia.
  - injection Eb as Eb _. rewrite (Hhead kb Hb (eq_sym Eb)) in Hlt.
    rewrite (Hall ka (Htail ka ia Ha Hia)) in Hlt. discriminate.
  - apply (IH (j + 1) Hs' Hnd' ka kb ia ib); [eapply Htail; eassumption|eapply Htail; eassumption|assumption..].
Qed.

Lemma num_keys_in cr t : forall fs ks f n q, num_keys cr t fs = Ok ks ->
  In f fs -> ftype f = t -> fq1 f = n :: q -> In (feat_key cr f n) ks.
Proof.
  induction fs as [|f0 fs IH]; intros ks f n q H Hin Ht Hq; [contradiction|]. cbn [num_keys] in H.
  destruct (ftype f0 =? t) eqn:E0.
  - destruct (fq1 f0) as [|n0 q0] eqn:Eq0; [discriminate|].
    destruct (num_keys cr t fs) as [ks'|] eqn:Ek; cbn [bind] in H; [|discriminate]. injection H as <-.
    destruct Hin as [->|Hin]; [left; rewrite Hq in Eq0; injection Eq0 as <- _; reflexivity|].
    right. eapply IH; try eassumption. reflexivity.
  - destruct Hin as [->|Hin]; [lia|]. eapply IH; eassumption.
Qed.

Lemma area_lt_key f1 f2 g1 g2 n1 n2 : floc g1 = floc f1 -> floc g2 = floc f2 ->
  area_lt g1 g2 = true -> nkey_lt (feat_key true f1 n1) (feat_key true f2 n2) = true.
Proof. intros E1 E2. unfold area_lt, feat_key, nkey_lt. rewrite E1, E2. lia. Qed.

Lemma adjusted_in c : forall fs gs, mapM (adjust_feat c) fs = Ok gs ->
  forall g, In g gs -> exists f, In f fs /\ adjust_feat c f = Ok g.
Proof.
  intros fs gs H. apply mapM_Forall2 in H. induction H as [|f g fs gs Hfg _ IH]; intros g0 Hin; [contradiction|].
  destruct Hin as [<-|Hin]; [exists f; split; [left; reflexivity|exact Hfg]|].
  destruct (IH g0 Hin) as (f0 & Hf0 & Ef0). exists f0. split; [right; exact Hf0|exact Ef0].
Qed.

Lemma numbers_follow_position r N fs c gs t : t = T_cand \/ t = T_proto \/ t = T_sub ->
  crosses r = true -> make_ctx r N fs = Ok c -> mapM (adjust_feat c) fs = Ok gs ->
  NoDup (nums_of t fs) -> position_order_type t gs = true.
Proof.
  intros Ht Hcr Hc Hm Hnd.
  assert (Hr : renumbering true t fs = Ok (num_type t c)).
  { apply make_ctx_spec in Hc. rewrite Hcr in Hc. destruct Hc as (H1 & H2 & H3 & _).
    unfold num_type, T_cand, T_proto, T_sub in *. destruct Ht as [ -> | [ -> | -> ] ]; assumption. }
  unfold renumbering in Hr. destruct (num_keys true t fs) as [ks|] eqn:Ek; cbn [bind] in Hr; [|discriminate].
  injection Hr as Hr. set (S := sort_by nkey_lt ks) in *.
  assert (HS : ASV.C17.Proofs.wsorted nkey_lt S).
  { apply ASV.C17.Proofs.sort_by_wsorted; [exact nkey_lt_irr|exact nkey_lt_trans]. }
  assert (HP : Permutation ks S) by apply sort_by_perm'.
  assert (HndS : NoDup (map nk_num S)).
  { apply (Permutation_NoDup (l := map nk_num ks)); [apply Permutation_map; exact HP|].
    rewrite (num_keys_nums true t fs ks Ek). exact Hnd. }
  (* every adjusted feature of type t: its key is in S and its new number is the rank of the key *)
  assert (Hfeat : forall g, In g gs -> ftype g = t ->
            exists f n i, floc g = floc f /\ In (feat_key true f n) S /\ fq1 g = [i] /\
                          In (nk_num (feat_key true f n), i) (number_from 1 S)).
  { intros g Hg Hgt. destruct (adjusted_in c fs gs Hm g Hg) as (f & Hf & Ef).
    destruct (adjust_feat_keeps _ _ _ Ef) as (El & Ety & _).
    assert (Eft : ftype f = t) by congruence.
    assert (Hnum : exists n q i, fq1 f = n :: q /\ new_number (num_type t c) n = Ok i /\ fq1 g = [i]).
    { pose proof (adjust_numbers _ _ _ Ef) as (_ & Hcc & Hpp & Hss).
      unfold num_type, T_cand, T_proto, T_sub in *. destruct Ht as [ -> | [ -> | -> ] ].
      - destruct (Hcc Eft) as (n & q & i & E1 & E2 & E3 & _). exists n, q, i. cbn. tauto.
      - destruct (Hpp (or_introl Eft)) as (n & q & i & E1 & E2 & E3 & _). exists n, q, i. cbn. tauto.
      - destruct (Hss Eft) as (n & q & i & E1 & E2 & E3). exists n, q, i. cbn. tauto. }
    destruct Hnum as (n & q & i & Eq & En & Eg). exists f, n, i. split; [exact El|].
    split; [apply (Permutation_in _ HP); eapply num_keys_in; eassumption|]. split; [exact Eg|].
    rewrite nk_num_key. rewrite <- Hr in En. apply new_number_in. exact En. }
  unfold position_order_type. apply forallb_forall. intros a Ha. apply forallb_forall. intros b Hb.
  apply filter_In in Ha, Hb. destruct Ha as [Ha Hat], Hb as [Hb Hbt].
  destruct (area_lt a b) eqn:Elt; [|reflexivity].
  destruct (Hfeat a Ha ltac:(lia)) as (fa & na & ia & Ela & Hka & Eqa & Hra).
  destruct (Hfeat b Hb ltac:(lia)) as (fb & nb & ib & Elb & Hkb & Eqb & Hrb).
  pose proof (area_lt_key fa fb a b na nb Ela Elb Elt) as Hk.
  pose proof (ranks_follow_order S 1 HS HndS _ _ _ _ Hka Hkb Hra Hrb Hk) as Hlt.
  unfold num_lt. rewrite Eqa, Eqb. lia.
Qed.

(* ... on the level of write_to_genbank: fs' = the features of the extract before the renumbering *)
Lemma write_numbers_1_to_k r sq feats s' fs' o t : t = T_cand \/ t = T_proto \/ t = T_sub ->
  build_base r sq feats = Ok (s', fs') -> write_to_genbank r sq feats = Ok o -> NoDup (nums_of t fs') ->
  Permutation (nums_of t (o_feats o)) (zrange1 (length (nums_of t fs'))) /\
  (crosses r = true -> position_order_type t (o_feats o) = true).
Proof.
  intros Ht Hb H Hnd. apply write_unfold in H.
  destruct H as (s2 & fs2 & c & adjusted & Hb2 & Hc & Ha & ->). rewrite Hb in Hb2. injection Hb2 as <- <-.
  cbn [o_feats]. split.
  - eapply numbers_1_to_k; eassumption.
  - intros Hcr. eapply numbers_follow_position; eassumption.
Qed.

(* in a region that does not cross the origin the extract is a selection of the parent's features: distinct
   numbers in the parent are distinct numbers in the extract *)
Lemma nums_of_set_loc t (h : feat -> loc) : forall l, nums_of t (map (fun f => set_loc f (h f)) l) = nums_of t l.
Proof. induction l as [|f l IH]; [reflexivity|]. cbn [map]. rewrite !nums_of_cons, IH. reflexivity. Qed.

Lemma nodup_app_r {A} (a b : list A) : NoDup (a ++ b) -> NoDup b.
Proof. induction a as [|x a IH]; intros H; [exact H|]. inversion H; subst. apply IH. assumption. Qed.

Lemma nums_of_filter_nodup t p : forall l, NoDup (nums_of t l) -> NoDup (nums_of t (filter p l)).
Proof.
  induction l as [|f l IH]; intros H; [constructor|]. rewrite nums_of_cons in H. cbn [filter].
  pose proof (nodup_app_r _ _ H) as Hr.
  destruct (p f); [|apply IH; exact Hr]. rewrite nums_of_cons.
  destruct (ftype f =? t); [|apply IH; exact Hr].
  destruct (fq1 f) as [|n q]; [apply IH; exact Hr|]. cbn [firstn app] in *.
  inversion H as [|? ? Hnot _]; subst. constructor; [|apply IH; exact Hr].
  intros Hin. apply Hnot. clear - Hin. induction l as [|g l IH]; [exact Hin|]. cbn [filter] in Hin.
  rewrite nums_of_cons. apply in_or_app. destruct (p g); [|right; apply IH; exact Hin].
  rewrite nums_of_cons in Hin. apply in_app_or in Hin. destruct Hin as [Hin|Hin]; [left; exact Hin|right; apply IH; exact Hin].
Qed.

Lemma linear_extract_nodup r sq feats s' fs' t : crosses r = false ->
  build_base r sq feats = Ok (s', fs') -> NoDup (nums_of t feats) -> NoDup (nums_of t fs').
Proof.
  intros Hc Hb Hnd. unfold build_base in Hb. rewrite Hc in Hb. injection Hb as _ <-.
  unfold slice_feats. rewrite nums_of_set_loc. apply nums_of_filter_nodup. exact Hnd.
Qed.

(* ---------- retained features and their new locations ---------- *)
Definition inside (a b : Z) (f : feat) : bool := (a <=? lstart (floc f)) && (lend (floc f) <=? b).
Definition same_id (f g : feat) : Prop := ftype g = ftype f /\ ftag g = ftag f.

Lemma Forall2_map_l {A B C} (h : A -> B) (R : B -> C -> Prop) : forall l l',
  Forall2 R (map h l) l' -> Forall2 (fun x y => R (h x) y) l l'.
Proof.
  induction l as [|x xs IH]; intros l' H; inversion H; subst; constructor; auto.
Qed.

Lemma base_of_shift l d y : base_of (shift_loc l d) y <-> base_of l (y - d).
Proof.
  unfold base_of, shift_loc. split.
  - intros (p & Hin & Hp). apply in_map_iff in Hin. destruct Hin as (q & <- & Hq).
    cbn [ps pe] in Hp. exists q. split; [exact Hq|lia].
  - intros (q & Hq & Hp). exists (mkPart (ps q + d) (pe q + d) (pst q)). split.
    + apply in_map_iff. exists q. split; [reflexivity|exact Hq].
    + cbn [ps pe]. lia.
Qed.

Lemma llen_shift l d : llen (shift_loc l d) = llen l.
Proof. induction l as [|p l IH]; [reflexivity|]. cbn [shift_loc map llen fold_right ps pe] in *. unfold llen, shift_loc in IH. rewrite IH. lia. Qed.

Lemma strands_shift l d : map pst (shift_loc l d) = map pst l.
Proof. unfold shift_loc. rewrite map_map. reflexivity. Qed.

Lemma adjusted_rel c fs adjusted : mapM (adjust_feat c) fs = Ok adjusted ->
  Forall2 (fun f g => floc g = floc f /\ same_id f g) fs adjusted.
Proof.
  intros H. apply mapM_Forall2 in H. eapply Forall2_imp; [|exact H].
  intros f g Hf. apply adjust_feat_keeps in Hf. unfold same_id. tauto.
Qed.

Lemma slice_rel feats a b :
  Forall2 (fun f g => floc g = shift_loc (floc f) (- a) /\ same_id f g)
          (filter (inside a b) feats) (slice_feats feats a b).
Proof.
  unfold slice_feats. fold (inside a b).
  induction (filter (inside a b) feats) as [|f fs IH]; cbn [map]; constructor; [|exact IH].
  unfold same_id. cbn. repeat split.
Qed.

Lemma Forall2_trans_rel {A} (R1 R2 R3 : A -> A -> Prop) :
  (forall a b c, R1 a b -> R2 b c -> R3 a c) ->
  forall l1 l2 l3, Forall2 R1 l1 l2 -> Forall2 R2 l2 l3 -> Forall2 R3 l1 l3.
Proof.
  intros Ht l1 l2 l3 H12. revert l3. induction H12; intros l3 H23; inversion H23; subst; constructor; eauto.
Qed.

(* a region that does not cross the origin: exactly the features lying completely inside, in the
   record's order, moved by -start *)
Lemma write_linear_features r sq feats o :
  wf_region r (zlen sq) -> crosses r = false -> write_to_genbank r sq feats = Ok o ->
  Forall2 (fun f g => floc g = shift_loc (floc f) (- rstart r) /\ same_id f g)
          (filter (inside (rstart r) (rend r)) feats) (o_feats o).
Proof.
  intros [Hs He] Hc H. apply write_unfold in H.
  destruct H as (s' & fs' & c & adjusted & Hb & _ & Ha & ->). cbn [o_feats].
  unfold build_base in Hb. rewrite Hc in Hb. injection Hb as _ <-.
  rewrite !clamp_id in Ha by lia. apply adjusted_rel in Ha.
  eapply Forall2_trans_rel; [|apply slice_rel|exact Ha].
  intros f g h (E1 & T1 & G1) (E2 & T2 & G2). unfold same_id. rewrite E2, E1, T2, T1, G2, G1. repeat split.
Qed.

(* offset_location in its "no wrapping required" branch is a plain shift *)
Lemma shifted_ok l off : Forall wf_part l -> off <> 0 -> shifted l off true = Ok (shift_loc l off).
Proof.
  intros Hwf Hoff. unfold shifted. destruct (off =? 0) eqn:E0; [lia|]. clear E0.
  match goal with |- mapM ?f l = _ => set (F := f) end.
  induction Hwf as [|p l Hp _ IH]; [reflexivity|].
  cbn [mapM shift_loc map]. unfold F at 1. cbv zeta. unfold wf_part in Hp.
  destruct (negb (ps p + off <? pe p + off)) eqn:E1; [lia|]. cbn [orb bind].
  rewrite IH. reflexivity.
Qed.

Lemma lstart_lt_lend l : l <> [] -> Forall wf_part l -> lstart l < lend l.
Proof.
  intros Hne Hwf. destruct l as [|p l]; [congruence|].
  assert (H1 : lstart (p :: l) <= ps p) by (apply lmin_le; left; reflexivity).
  assert (H2 : pe p <= lend (p :: l)) by (apply lmax_ge; left; reflexivity).
  inversion Hwf; subst. unfold wf_part in *. lia.
Qed.

Lemma offset_plain l off N :
  0 < N -> l <> [] -> Forall wf_part l -> llen l <> N ->
  0 <= lstart l + off -> lend l + off <= N ->
  offset_location l off (Some N) = Ok (shift_loc l off).
Proof.
  intros HN Hne Hwf Hlen H0 H1. unfold offset_location.
  destruct (N =? 0) eqn:EN; [lia|]. cbn [orb].
  destruct (off =? 0) eqn:Eoff.
  - assert (off = 0) by lia. subst off. unfold shifted. cbn [Z.eqb].
    f_equal. unfold shift_loc. rewrite <- (map_id l) at 1. apply map_ext. intros p. destruct p; cbn. f_equal; lia.
  - destruct (N <? 1) eqn:E1; [lia|].
    destruct (llen l =? N) eqn:E2; [lia|].
    pose proof (lstart_lt_lend l Hne Hwf).
    destruct ((0 <=? lstart l + off) && (lstart l + off <? lend l + off) && (lend l + off <=? N)) eqn:E3; [|lia].
    apply shifted_ok; [exact Hwf|lia].
Qed.

Lemma mapM_app {A B} (f : A -> res B) : forall a b r, mapM f (a ++ b) = Ok r ->
  exists ra rb, r = ra ++ rb /\ mapM f a = Ok ra /\ mapM f b = Ok rb.
Proof.
  induction a as [|x xs IH]; intros b r H.
  - exists [], r. repeat split. exact H.
  - cbn [app mapM] in H. destruct (f x) as [y|] eqn:Ef; cbn [bind] in H; [|discriminate].
    destruct (mapM f (xs ++ b)) as [r'|] eqn:Em; cbn [bind] in H; [|discriminate].
    injection H as <-. destruct (IH b r' Em) as (ra & rb & -> & Ha & Hb).
    exists (y :: ra), rb. repeat split; [|exact Hb]. cbn [mapM]. rewrite Ef, Ha. reflexivity.
Qed.

(* _linearise_location: a location covering the whole ring becomes the whole extract, every other
   location is moved by offset_location *)
Lemma linearise_whole l start N : 0 <= N -> llen l = N ->
  linearise_loc l start N = Ok [mkPart 0 N (lstrand l)].
Proof.
  intros HN Hl. unfold linearise_loc, mkFL. destruct (llen l =? N) eqn:E; [|lia].
  destruct (N <? 0) eqn:E0; [lia|]. reflexivity.
Qed.

Lemma linearise_plain l start N : llen l <> N ->
  linearise_loc l start N = offset_location l (- start) (Some N).
Proof. intros Hl. unfold linearise_loc. destruct (llen l =? N) eqn:E; [lia|reflexivity]. Qed.

Lemma cross_rel (r : rdata) (N : Z) : forall fs gs,
  mapM (fun f => do l <- linearise_loc (floc f) (rstart r) N; Ok (set_loc f l)) fs = Ok gs ->
  Forall2 (fun f g => linearise_loc (floc f) (rstart r) N = Ok (floc g) /\ same_id f g) fs gs.
Proof.
  intros fs gs H. apply mapM_Forall2 in H. eapply Forall2_imp; [|exact H].
  intros f g Hf. cbn beta in Hf.
  destruct (linearise_loc (floc f) (rstart r) N) as [l|] eqn:Eo; cbn [bind] in Hf; [|discriminate].
  injection Hf as <-. cbn [floc set_loc]. unfold same_id. cbn [ftype ftag set_loc]. repeat split; reflexivity.
Qed.

(* a region that crosses the origin: features before the origin (moved by -start), then the
   origin-crossing features of the record that lie within the region (offset_location by -start
   around the ring), then the features after the origin (offset_location by N - start) *)
Lemma write_crossing_features r sq feats o :
  wf_region r (zlen sq) -> crosses r = true -> write_to_genbank r sq feats = Ok o ->
  let N := zlen sq in
  exists ga gb gc, o_feats o = ga ++ gb ++ gc /\
    Forall2 (fun f g => floc g = shift_loc (floc f) (- rstart r) /\ same_id f g)
            (filter (inside (rstart r) N) feats) ga /\
    Forall2 (fun f g => linearise_loc (floc f) (rstart r) N = Ok (floc g) /\ same_id f g)
            (filter (cross_kept r) feats) gb /\
    Forall2 (fun f g => offset_location (shift_loc (floc f) (- 0)) (N - rstart r) (Some N) = Ok (floc g) /\ same_id f g)
            (filter (inside 0 (rend r)) feats) gc.
Proof.
  intros [Hs He] Hc H N. apply write_unfold in H.
  destruct H as (s' & fs' & c & adjusted & Hb & _ & Ha & ->). cbn [o_feats].
  unfold build_base in Hb. rewrite Hc in Hb. unfold build_cross in Hb. fold N in Hb.
  destruct (mapM _ (slice_feats feats 0 (clamp N (rend r)))) as [post|] eqn:E1; cbn [bind] in Hb; [|discriminate].
  destruct (mapM _ (filter (cross_kept r) feats)) as [cross|] eqn:E2; cbn [bind] in Hb; [|discriminate].
  injection Hb as _ <-. rewrite !clamp_id in * by lia.
  apply mapM_app in Ha. destruct Ha as (ga & gbc & -> & Ha & Hbc).
  apply mapM_app in Hbc. destruct Hbc as (gb & gc & -> & Hgb & Hgc).
  exists ga, gb, gc. split; [reflexivity|]. split; [|split].
  - apply adjusted_rel in Ha. eapply Forall2_trans_rel; [|apply slice_rel|exact Ha].
    intros f g h (E1' & T1 & G1) (E2' & T2 & G2). unfold same_id. rewrite E2', E1', T2, T1, G2, G1. repeat split.
  - apply adjusted_rel in Hgb. apply (cross_rel r N) in E2.
    eapply Forall2_trans_rel; [|exact E2|exact Hgb].
    intros f g h (E1' & T1 & G1) (E2' & T2 & G2). unfold same_id. rewrite E2', T2, T1, G2, G1. repeat split. exact E1'.
  - apply adjusted_rel in Hgc. apply mapM_Forall2 in E1.
    assert (Hpost : Forall2 (fun f g => offset_location (shift_loc (floc f) (- 0)) (N - rstart r) (Some N) = Ok (floc g) /\ same_id f g)
                            (filter (inside 0 (rend r)) feats) post).
    { eapply Forall2_trans_rel; [|apply slice_rel|exact E1].
      intros f g h (E1' & T1 & G1) Hh. cbn beta in Hh.
      destruct (offset_location (floc g) (N - rstart r) (Some N)) as [l|] eqn:Eo; cbn [bind] in Hh; [|discriminate].
      injection Hh as <-. cbn [floc set_loc]. unfold same_id. cbn [ftype ftag set_loc].
      rewrite <- E1'. repeat split; assumption. }
    eapply Forall2_trans_rel; [|exact Hpost|exact Hgc].
    intros f g h (E1' & T1 & G1) (E2' & T2 & G2). unfold same_id. rewrite E2', T2, T1, G2, G1. repeat split. exact E1'.
Qed.

Lemma shift_loc_0 l : shift_loc l 0 = l.
Proof.
  unfold shift_loc. rewrite <- (map_id l) at 2. apply map_ext. intros p. destruct p; cbn. f_equal; lia.
Qed.

Definition same_bases (d : Z) (f g : feat) : Prop :=
  (forall y, base_of (floc g) y <-> base_of (floc f) (y - d)) /\
  llen (floc g) = llen (floc f) /\ map pst (floc g) = map pst (floc f) /\ same_id f g.

Lemma shift_same_bases d f g : floc g = shift_loc (floc f) d /\ same_id f g -> same_bases d f g.
Proof.
  intros [E Hid]. unfold same_bases. rewrite E. repeat split; try apply Hid.
  - apply base_of_shift. - apply base_of_shift. - apply llen_shift. - apply strands_shift.
Qed.

Lemma write_linear_same_bases r sq feats o :
  wf_region r (zlen sq) -> crosses r = false -> write_to_genbank r sq feats = Ok o ->
  Forall2 (same_bases (- rstart r)) (filter (inside (rstart r) (rend r)) feats) (o_feats o).
Proof.
  intros Hwf Hc H. eapply Forall2_imp; [|eapply write_linear_features; eassumption].
  intros f g Hfg. apply shift_same_bases. exact Hfg.
Qed.

Definition wf_feat (N : Z) (f : feat) : Prop :=
  floc f <> [] /\ Forall wf_part (floc f) /\ llen (floc f) <> N.

(* origin-crossing region: the features before the origin are moved by -start, the features after
   the origin by N - start: in both cases base x of the record becomes base (x - start) mod N *)
Lemma write_crossing_same_bases r sq feats o :
  wf_region r (zlen sq) -> crosses r = true -> write_to_genbank r sq feats = Ok o ->
  Forall (wf_feat (zlen sq)) feats ->
  let N := zlen sq in
  exists ga gb gc, o_feats o = ga ++ gb ++ gc /\
    Forall2 (same_bases (- rstart r)) (filter (inside (rstart r) N) feats) ga /\
    Forall2 (fun f g => offset_location (floc f) (- rstart r) (Some N) = Ok (floc g) /\ same_id f g)
            (filter (cross_kept r) feats) gb /\
    Forall2 (same_bases (N - rstart r)) (filter (inside 0 (rend r)) feats) gc.
Proof.
  intros Hwf Hc H Hfe N.
  destruct (write_crossing_features r sq feats o Hwf Hc H) as (ga & gb & gc & E & Ha & Hb & Hcc).
  exists ga, gb, gc. split; [exact E|]. split; [|split].
  - eapply Forall2_imp; [|exact Ha]. intros f g Hfg. apply shift_same_bases. exact Hfg.
  - (* no feature covers the whole ring (wf_feat): _linearise_location is offset_location *)
    clear E Ha Hcc H.
    assert (Hin : Forall (wf_feat N) (filter (cross_kept r) feats)).
    { apply Forall_forall. intros f Hf. apply filter_In in Hf. rewrite Forall_forall in Hfe. apply Hfe. apply Hf. }
    revert Hin. induction Hb as [|f g fs gs Hh _ IH]; intros Hin; [constructor|].
    inversion Hin as [|? ? Hw Hin']; subst. constructor; [|apply IH; exact Hin'].
    destruct Hh as [Ho Hid]. split; [|exact Hid]. destruct Hw as (_ & _ & Hlen).
    rewrite linearise_plain in Ho by exact Hlen. exact Ho.
  - clear E Ha Hb H. fold N in Hcc. unfold crosses in Hc. destruct Hwf as [Hs He].
    assert (Hin : Forall (fun f => wf_feat N f /\ inside 0 (rend r) f = true) (filter (inside 0 (rend r)) feats)).
    { apply Forall_forall. intros f Hf. apply filter_In in Hf. destruct Hf as [Hf1 Hf2].
      rewrite Forall_forall in Hfe. split; [apply Hfe; exact Hf1|exact Hf2]. }
    revert Hin. induction Hcc as [|f g fs gs Hh _ IH]; intros Hin; [constructor|].
    inversion Hin as [|? ? [Hw Hi] Hin']; subst. constructor; [|apply IH; exact Hin'].
    apply shift_same_bases. destruct Hh as [Ho Hid]. split; [|exact Hid].
    replace (- 0) with 0 in Ho by reflexivity. rewrite shift_loc_0 in Ho.
    destruct Hw as (Hne & Hwfp & Hlen). unfold inside in Hi.
    pose proof (lstart_lt_lend _ Hne Hwfp) as Hlt.
    rewrite offset_plain in Ho; [injection Ho as <-; reflexivity|lia|exact Hne|exact Hwfp|exact Hlen|lia|lia].
Qed.

(* an origin-crossing forward-strand feature [a,N) + [0,b) inside an origin-crossing region
   becomes the single part [a - start, N - start + b) *)
Lemma offset_cross_forward N a b start st :
  st <> -1 ->
  0 <= b -> b < start -> start <= a -> a < N -> 0 < b -> b + (N - a) < N ->
  offset_location [mkPart a N st; mkPart 0 b st] (- start) (Some N)
  = Ok [mkPart (a - start) (N - start + b) st].
Proof.
  intros Hst H0 H1 H2 H3 H4 H5. unfold offset_location.
  destruct (N =? 0) eqn:EN; [lia|]. destruct (- start =? 0) eqn:Eo; [lia|]. cbn [orb].
  destruct (N <? 1) eqn:E1; [lia|].
  replace (llen [mkPart a N st; mkPart 0 b st]) with (N - a + (b - 0 + 0)) by reflexivity.
  destruct (N - a + (b - 0 + 0) =? N) eqn:E2; [lia|].
  replace (lstart [mkPart a N st; mkPart 0 b st]) with (Z.min 0 a) by (cbn; lia).
  replace (lend [mkPart a N st; mkPart 0 b st]) with (Z.max b N) by (cbn; lia).
  destruct ((0 <=? Z.min 0 a + - start) && (Z.min 0 a + - start <? Z.max b N + - start) && (Z.max b N + - start <=? N)) eqn:E3; [lia|].
  unfold shifted. rewrite Eo. cbn [mapM ps pe pst].
  destruct (negb (a + - start <? N + - start)) eqn:E4; [lia|]. cbn [orb bind].
  destruct (negb (0 + - start <? b + - start)) eqn:E5; [lia|]. cbn [orb bind flat_map app ps pe pst].
  assert (M1 : (a + - start + N) mod N = a - start).
  { replace (a + - start + N) with (a - start + 1 * N) by lia. rewrite Z.mod_add by lia. apply Z.mod_small. lia. }
  assert (M2 : (N + - start - 1 + N) mod N = N - start - 1).
  { replace (N + - start - 1 + N) with (N - start - 1 + 1 * N) by lia. rewrite Z.mod_add by lia. apply Z.mod_small. lia. }
  assert (M3 : (0 + - start + N) mod N = N - start) by (replace (0 + - start + N) with (N - start) by lia; apply Z.mod_small; lia).
  assert (M4 : (b + - start - 1 + N) mod N = N - start + b - 1) by (replace (b + - start - 1 + N) with (N - start + b - 1) by lia; apply Z.mod_small; lia).
  rewrite M1, M2, M3, M4.
  destruct ((0 <=? a - start) && (a - start <? N - start - 1 + 1) && (N - start - 1 + 1 <=? N)) eqn:E6; [|lia].
  destruct ((0 <=? N - start) && (N - start <? N - start + b - 1 + 1) && (N - start + b - 1 + 1 <=? N)) eqn:E7; [|lia].
  cbn [app forallb ps pe].
  destruct (negb ((0 <=? a - start) && (a - start <? N - start - 1 + 1) && (N - start - 1 + 1 <=? N) &&
                  ((0 <=? N - start) && (N - start <? N - start + b - 1 + 1) && (N - start + b - 1 + 1 <=? N) && true))) eqn:E8; [lia|].
  cbn [merge_adjacent ps pe pst].
  replace (st =? -1) with false by lia. cbn [andb].
  destruct (N - start - 1 + 1 =? N - start) eqn:E9; [|lia].
  rewrite Z.eqb_refl. cbn [negb rev app]. f_equal. f_equal. f_equal; lia.
Qed.

(* the reverse-strand counterpart, exons in transcription order [0,b) then [a,N): the final merge loop of
   offset_location joins consecutive reverse-strand parts downwards (repair of finding C04-K3) *)
Lemma offset_cross_reverse N a b start :
  0 <= b -> b < start -> start <= a -> a < N -> 0 < b -> b + (N - a) < N ->
  offset_location [mkPart 0 b (-1); mkPart a N (-1)] (- start) (Some N)
  = Ok [mkPart (a - start) (N - start + b) (-1)].
Proof.
  intros H0 H1 H2 H3 H4 H5. unfold offset_location.
  destruct (N =? 0) eqn:EN; [lia|]. destruct (- start =? 0) eqn:Eo; [lia|]. cbn [orb].
  destruct (N <? 1) eqn:E1; [lia|].
  replace (llen [mkPart 0 b (-1); mkPart a N (-1)]) with (b - 0 + (N - a + 0)) by reflexivity.
  destruct (b - 0 + (N - a + 0) =? N) eqn:E2; [lia|].
  replace (lstart [mkPart 0 b (-1); mkPart a N (-1)]) with (Z.min 0 a) by (cbn; lia).
  replace (lend [mkPart 0 b (-1); mkPart a N (-1)]) with (Z.max b N) by (cbn; lia).
  destruct ((0 <=? Z.min 0 a + - start) && (Z.min 0 a + - start <? Z.max b N + - start) && (Z.max b N + - start <=? N)) eqn:E3; [lia|].
  unfold shifted. rewrite Eo. cbn [mapM ps pe pst].
  destruct (negb (0 + - start <? b + - start)) eqn:E5; [lia|]. cbn [orb bind].
  destruct (negb (a + - start <? N + - start)) eqn:E4; [lia|]. cbn [orb bind flat_map app ps pe pst].
  assert (M1 : (a + - start + N) mod N = a - start).
  { replace (a + - start + N) with (a - start + 1 * N) by lia. rewrite Z.mod_add by lia. apply Z.mod_small. lia. }
  assert (M2 : (N + - start - 1 + N) mod N = N - start - 1).
  { replace (N + - start - 1 + N) with (N - start - 1 + 1 * N) by lia. rewrite Z.mod_add by lia. apply Z.mod_small. lia. }
  assert (M3 : (0 + - start + N) mod N = N - start) by (replace (0 + - start + N) with (N - start) by lia; apply Z.mod_small; lia).
  assert (M4 : (b + - start - 1 + N) mod N = N - start + b - 1) by (replace (b + - start - 1 + N) with (N - start + b - 1) by lia; apply Z.mod_small; lia).
  rewrite M1, M2, M3, M4.
  destruct ((0 <=? a - start) && (a - start <? N - start - 1 + 1) && (N - start - 1 + 1 <=? N)) eqn:E6; [|lia].
  destruct ((0 <=? N - start) && (N - start <? N - start + b - 1 + 1) && (N - start + b - 1 + 1 <=? N)) eqn:E7; [|lia].
  cbn [app forallb ps pe].
  destruct (negb ((0 <=? N - start) && (N - start <? N - start + b - 1 + 1) && (N - start + b - 1 + 1 <=? N) &&
                  ((0 <=? a - start) && (a - start <? N - start - 1 + 1) && (N - start - 1 + 1 <=? N) && true))) eqn:E8; [lia|].
  cbn [merge_adjacent ps pe pst].
  change (-1 =? -1) with true. cbn [andb].
  destruct (N - start =? N - start - 1 + 1) eqn:E9; [|lia].
  cbn [negb rev app ps pe pst]. f_equal. f_equal. f_equal; lia.
Qed.

(* the same feature lies inside the extract when the region contains it: b <= end *)
Lemma offset_cross_forward_inside r N a b st :
  wf_region r N -> crosses r = true -> in_wrapped_region r [mkPart a N st; mkPart 0 b st] = true ->
  0 < b -> a < N -> 0 < rstart r <= a ->
  0 <= a - rstart r /\ N - rstart r + b <= out_len r N.
Proof.
  intros [Hs He] Hc Hin Hb Ha Hsa. unfold out_len. rewrite Hc. unfold crosses in Hc.
  unfold in_wrapped_region in Hin. cbn [forallb ps pe] in Hin. lia.
Qed.

(* ---------- _adjust_motif on one part ---------- *)
(* a part after the origin of an origin-crossing region is moved around the ring *)
Lemma offset_single_wrap N a b start st :
  0 <= a -> a < b -> b <= start -> start < N ->
  offset_location [mkPart a b st] (- start) (Some N) = Ok [mkPart (a - start + N) (b - start + N) st].
Proof.
  intros H0 H1 H2 H3. unfold offset_location.
  destruct (N =? 0) eqn:EN; [lia|]. destruct (- start =? 0) eqn:Eo; [lia|]. cbn [orb].
  destruct (N <? 1) eqn:E1; [lia|].
  replace (llen [mkPart a b st]) with (b - a + 0) by reflexivity.
  destruct (b - a + 0 =? N) eqn:E2; [lia|].
  replace (lstart [mkPart a b st]) with a by reflexivity.
  replace (lend [mkPart a b st]) with b by reflexivity.
  destruct ((0 <=? a + - start) && (a + - start <? b + - start) && (b + - start <=? N)) eqn:E3; [lia|].
  unfold shifted. rewrite Eo. cbn [mapM ps pe pst].
  destruct (negb (a + - start <? b + - start)) eqn:E4; [lia|]. cbn [orb bind flat_map app ps pe pst].
  assert (M1 : (a + - start + N) mod N = a - start + N) by (apply Z.mod_small; lia).
  assert (M2 : (b + - start - 1 + N) mod N = b - start + N - 1) by (rewrite Z.mod_small by lia; lia).
  rewrite M1, M2.
  destruct ((0 <=? a - start + N) && (a - start + N <? b - start + N - 1 + 1) && (b - start + N - 1 + 1 <=? N)) eqn:E5; [|lia].
  cbn [app forallb ps pe]. rewrite E5. cbn [andb negb merge_adjacent rev app].
  f_equal. f_equal. f_equal; lia.
Qed.

Lemma adjust_motif_post_origin N a b start st :
  0 <= a -> a < b -> b <= start -> start < N ->
  adjust_motif_loc start N [mkPart a b st] = Ok [mkPart (a - start + N) (b - start + N) st].
Proof.
  intros H0 H1 H2 H3. unfold adjust_motif_loc. cbn [mapM].
  rewrite offset_single_wrap by assumption. reflexivity.
Qed.

(* a part at or after the region start (any region) is moved by -start *)
Lemma adjust_motif_plain N a b start st :
  0 <= start -> start <= a -> a < b -> b <= N -> b - a <> N ->
  adjust_motif_loc start N [mkPart a b st] = Ok [mkPart (a - start) (b - start) st].
Proof.
  intros H0 H1 H2 H3 H4. unfold adjust_motif_loc. cbn [mapM].
  rewrite (offset_plain [mkPart a b st] (- start) N).
  - reflexivity.
  - lia.
  - discriminate.
  - constructor; [unfold wf_part; cbn; lia|constructor].
  - cbn. lia.
  - cbn. lia.
  - cbn. lia.
Qed.

(* ---------- the witnesses of the repaired findings, and of those that are still recorded ---------- *)
Definition w_seq := [0; 1; 2; 3; 0; 1; 2; 3; 0; 1].
Definition w_feat t tag l q1 q2 l1 l2 := mkFeat t tag l q1 q2 l1 l2.

Definition w_region_feat q1 q2 := mkFeat T_region 0 [mkPart 8 10 1; mkPart 0 3 1] q1 q2 None None.
Definition w_core := [mkPart 9 10 1; mkPart 0 1 1].

(* F49 (repaired): the extract holds the rewritten core_location, the parent's origin-crossing
   protocluster keeps its own *)
Lemma parent_unchanged_witness : exists r sq feats o,
  wf_region r (zlen sq) /\ crosses r = true /\
  write_to_genbank r sq feats = Ok o /\ o_parent o = feats /\
  map fl1 feats = [None; Some w_core] /\ map fl1 (o_feats o) = [None; Some [mkPart 1 3 1]].
Proof.
  exists (mkR 8 3 [(1, [(1, w_core)])] []), w_seq,
         [w_region_feat [] []; mkFeat T_proto 0 [mkPart 8 10 1; mkPart 0 3 1] [1] [] (Some w_core) None].
  eexists. split; [unfold wf_region; cbn; lia|]. split; [reflexivity|].
  split; [vm_compute; reflexivity|]. repeat split; reflexivity.
Qed.

(* F46 (repaired): the region feature's subregion_numbers follow the sub-region's new number *)
Lemma subregion_refs_witness : exists r sq feats o,
  wf_region r (zlen sq) /\ crosses r = false /\
  write_to_genbank r sq feats = Ok o /\
  nums_of T_sub (o_feats o) = [1] /\ flat_map (fun f => if ftype f =? T_region then fq2 f else []) (o_feats o) = [1] /\
  numbers_ok (o_feats o) = true.
Proof.
  exists (mkR 2 8 [] [2]), w_seq,
         [mkFeat T_region 0 [mkPart 2 8 1] [] [2] None None; mkFeat T_sub 0 [mkPart 3 6 1] [2] [] None None].
  eexists. split; [unfold wf_region; cbn; lia|]. split; [reflexivity|].
  split; [vm_compute; reflexivity|]. repeat split; reflexivity.
Qed.

(* F19 (repaired): candidate clusters 1 and 3, protoclusters 1 and 2 of an origin-crossing region; the
   areas before the origin come first in the extract, so 3 -> 1, 1 -> 2 and 2 -> 1, 1 -> 2, and the
   candidates' protocluster lists follow *)
Definition w_gap_region := mkR 8 3 [(1, [(1, [mkPart 1 2 1])]); (3, [(2, [mkPart 8 9 1])])] [].
Definition w_gap_feats :=
  [ mkFeat T_region 0 [mkPart 8 10 1; mkPart 0 3 1] [1; 3] [] None None;
    mkFeat T_cand 0 [mkPart 1 2 1] [1] [1] None None;
    mkFeat T_proto 0 [mkPart 1 2 1] [1] [] (Some [mkPart 1 2 1]) None;
    mkFeat T_cand 0 [mkPart 8 9 1] [3] [2] None None;
    mkFeat T_proto 0 [mkPart 8 9 1] [2] [] (Some [mkPart 8 9 1]) None ].

Lemma renumber_gap_witness : exists o,
  wf_region w_gap_region (zlen w_seq) /\ crosses w_gap_region = true /\
  write_to_genbank w_gap_region w_seq w_gap_feats = Ok o /\
  map ftype (o_feats o) = [T_cand; T_proto; T_region; T_cand; T_proto] /\
  map floc (o_feats o) = [[mkPart 0 1 1]; [mkPart 0 1 1]; [mkPart 0 5 1]; [mkPart 3 4 1]; [mkPart 3 4 1]] /\
  map fq1 (o_feats o) = [[1]; [1]; [2; 1]; [2]; [2]] /\
  map fq2 (o_feats o) = [[1]; []; []; [2]; []] /\
  nums_of T_cand (o_feats o) = [1; 2] /\ nums_of T_proto (o_feats o) = [1; 2] /\
  numbers_ok (o_feats o) = true /\ position_order w_gap_region (o_feats o) = true.
Proof.
  eexists. split; [unfold wf_region; cbn; lia|]. split; [reflexivity|].
  split; [vm_compute; reflexivity|]. repeat split; reflexivity.
Qed.

(* F47 (repaired): leader_location of a prepeptide after the origin is moved around the ring with the
   feature itself *)
Lemma motif_wrapped_witness : exists r sq feats o,
  wf_region r (zlen sq) /\ crosses r = true /\ write_to_genbank r sq feats = Ok o /\
  map floc (o_feats o) = [[mkPart 3 5 1]] /\ map fl1 (o_feats o) = [Some [mkPart 3 4 1]].
Proof.
  exists (mkR 8 3 [] [1]), w_seq, [mkFeat T_motif 0 [mkPart 1 3 1] [] [] (Some [mkPart 1 2 1]) None].
  eexists. split; [unfold wf_region; cbn; lia|]. split; [reflexivity|].
  split; [vm_compute; reflexivity|]. split; reflexivity.
Qed.

(* F48 (repaired): an origin-crossing gene that is only partly inside the region is left out, one
   that is inside is written *)
Lemma cross_feature_partial_witness : exists r sq feats o,
  wf_region r (zlen sq) /\ crosses r = true /\ write_to_genbank r sq feats = Ok o /\
  out_len r (zlen sq) = 5 /\ map ftag feats = [1; 2] /\ map ftag (o_feats o) = [2] /\
  map floc (o_feats o) = [[mkPart 1 4 1]].
Proof.
  exists (mkR 8 3 [] [1]), w_seq,
         [mkFeat 7 1 [mkPart 6 10 1; mkPart 0 2 1] [] [] None None;
          mkFeat 7 2 [mkPart 9 10 1; mkPart 0 2 1] [] [] None None].
  eexists. split; [unfold wf_region; cbn; lia|]. split; [reflexivity|].
  split; [vm_compute; reflexivity|]. repeat split; reflexivity.
Qed.

(* F51 (repaired): start = end is the whole ring, cut at start: the extract is the rotated sequence, the
   gene after the cut and the gene across the origin are moved, the region feature covering the whole
   ring becomes [0, N) *)
Definition w_ring_region := mkR 4 4 [] [].
Definition w_ring_feats :=
  [ mkFeat 7 1 [mkPart 5 8 1] [] [] None None;
    mkFeat T_region 0 [mkPart 4 10 1; mkPart 0 4 1] [] [] None None;
    mkFeat 7 2 [mkPart 9 10 1; mkPart 0 1 1] [] [] None None;
    mkFeat 7 3 [mkPart 1 3 (-1)] [] [] None None;
    mkFeat 7 4 [mkPart 3 5 1] [] [] None None ].

Lemma whole_ring_witness : exists o,
  wf_region w_ring_region (zlen w_seq) /\ rstart w_ring_region = rend w_ring_region /\
  crosses w_ring_region = true /\
  write_to_genbank w_ring_region w_seq w_ring_feats = Ok o /\
  o_seq o = [0; 1; 2; 3; 0; 1; 0; 1; 2; 3] /\ o_seq o = expected_seq w_ring_region w_seq /\
  map ftag (o_feats o) = [1; 0; 2; 3] /\
  map floc (o_feats o) = [[mkPart 1 4 1]; [mkPart 0 10 1]; [mkPart 5 7 1]; [mkPart 7 9 (-1)]].
Proof.
  eexists. split; [unfold wf_region; cbn; lia|]. split; [reflexivity|]. split; [reflexivity|].
  split; [vm_compute; reflexivity|]. repeat split; reflexivity.
Qed.

Lemma sequence_full r sq feats o :
  wf_region r (zlen sq) ->
  write_to_genbank r sq feats = Ok o ->
  o_seq o = expected_seq r sq /\
  length (o_seq o) = Z.to_nat (out_len r (zlen sq)) /\
  forall i, (i < Z.to_nat (out_len r (zlen sq)))%nat ->
    nth i (o_seq o) (-1) = nth (Z.to_nat ((rstart r + Z.of_nat i) mod zlen sq)) sq (-1).
Proof.
  intros Hwf H. rewrite (write_sequence r sq feats o Hwf H).
  split; [reflexivity|]. split; [apply expected_seq_length|]. intros i Hi. apply expected_seq_spec. exact Hi.
Qed.

Lemma adjust_numbers_full c f g : adjust_feat c f = Ok g ->
  (floc g = floc f /\ ftype g = ftype f /\ ftag g = ftag f) /\
  (ftype f = T_region -> mapM (new_number (c_cc c)) (fq1 f) = Ok (fq1 g) /\
                         mapM (new_number (c_sub c)) (fq2 f) = Ok (fq2 g)) /\
  (ftype f = T_cand -> exists n q i, fq1 f = n :: q /\ new_number (c_cc c) n = Ok i /\ fq1 g = [i] /\
                                     mapM (new_number (c_pc c)) (fq2 f) = Ok (fq2 g)) /\
  (ftype f = T_proto \/ ftype f = T_core ->
     exists n q i, fq1 f = n :: q /\ new_number (c_pc c) n = Ok i /\ fq1 g = [i] /\
                   lookup_last n (c_protos c) None <> None) /\
  (ftype f = T_sub -> exists n q i, fq1 f = n :: q /\ new_number (c_sub c) n = Ok i /\ fq1 g = [i]).
Proof. intros H. split; [exact (adjust_feat_keeps c f g H)|exact (adjust_numbers c f g H)]. Qed.

(* ====================================================================================== *)
(* the parent's annotations: _build_annotations writes only to objects it has allocated    *)
(* ====================================================================================== *)
Definition hrefs (d : list (Z * hval)) : list nat :=
  flat_map (fun kv => match snd kv with HRef a => [a] | HOpaque _ => [] end) d.
Definition refs (o : obj) : list nat :=
  match o with OTop d => hrefs d | OSc d => map snd d | OTab _ => [] end.
(* every address held by an object of e is at least n *)
Definition fresh (n : nat) (e : heap) : Prop :=
  Forall (fun o => Forall (fun a => (n <= a)%nat) (refs o)) e.

Lemma fresh_mono n m e : (m <= n)%nat -> fresh n e -> fresh m e.
Proof.
  intros Hm H. unfold fresh in *. eapply Forall_impl; [|exact H].
  intros o Ho. eapply Forall_impl; [|exact Ho]. cbn. intros; lia.
Qed.

Lemma fresh_app n a b : fresh n a -> fresh n b -> fresh n (a ++ b).
Proof. intros Ha Hb. unfold fresh. apply Forall_app. split; assumption. Qed.

Lemma nth_error_ext {A} (h e : list A) a o : nth_error h a = Some o -> nth_error (h ++ e) a = Some o.
Proof.
  intros H. rewrite nth_error_app1; [assumption|]. apply nth_error_Some. rewrite H. discriminate.
Qed.

Lemma nth_error_len {A} (h e : list A) o : nth_error (h ++ o :: e) (length h) = Some o.
Proof. rewrite nth_error_app2 by lia. rewrite Nat.sub_diag. reflexivity. Qed.

(* reading a tree is not affected by later allocations *)
Lemma read_sc_ext h e : forall d s, read_sc h d = Some s -> read_sc (h ++ e) d = Some s.
Proof.
  induction d as [|[k a] d IH]; intros s H; cbn in *; [assumption|].
  destruct (nth_error h a) as [[| |t]|] eqn:En; try discriminate.
  destruct (read_sc h d) as [s'|] eqn:Er; [|discriminate].
  rewrite (nth_error_ext _ e _ _ En), (IH _ eq_refl). assumption.
Qed.

Lemma read_entries_ext h e : forall d x, read_entries h d = Some x -> read_entries (h ++ e) d = Some x.
Proof.
  induction d as [|[k [v|a]] d IH]; intros x H; cbn in *; [assumption| |].
  - destruct (read_entries h d) as [x'|]; [|discriminate]. rewrite (IH _ eq_refl). assumption.
  - destruct (nth_error h a) as [[|ds|]|] eqn:En; try discriminate.
    destruct (read_sc h ds) as [s|] eqn:Es; [|discriminate].
    destruct (read_entries h d) as [x'|]; [|discriminate].
    rewrite (nth_error_ext _ e _ _ En), (read_sc_ext _ e _ _ Es), (IH _ eq_refl). assumption.
Qed.

Lemma read_top_ext h e a x : read_top h a = Some x -> read_top (h ++ e) a = Some x.
Proof.
  unfold read_top. intros H. destruct (nth_error h a) as [[d| |]|] eqn:En; try discriminate.
  rewrite (nth_error_ext _ e _ _ En). apply read_entries_ext. assumption.
Qed.

(* laying a tree out: only allocations, the new objects point to new objects, reading gives the tree back *)
Lemma load_sc_spec n : forall s h h' d, load_sc h s = (h', d) ->
  exists e, h' = h ++ e /\ fresh n e /\ Forall (fun ka => (length h <= snd ka)%nat) d /\
            read_sc h' d = Some s.
Proof.
  induction s as [|[k t] s IH]; intros h h' d H; cbn in H.
  - injection H as <- <-. exists []. rewrite app_nil_r. repeat split; constructor.
  - destruct (load_sc (h ++ [OTab t]) s) as [h2 d2] eqn:El. injection H as <- <-.
    destruct (IH _ _ _ El) as (e & -> & Hf & Hd & Hr).
    exists (OTab t :: e). rewrite <- app_assoc. cbn [app]. split; [reflexivity|].
    split; [constructor; [constructor|exact Hf]|]. split.
    + constructor; [cbn; lia|]. eapply Forall_impl; [|exact Hd]. intros [k' a']. cbn.
      rewrite app_length. cbn. lia.
    + cbn. rewrite nth_error_len. rewrite <- app_assoc in Hr. cbn [app] in Hr. rewrite Hr. reflexivity.
Qed.

Lemma load_entries_spec : forall an h h' d, load_entries h an = (h', d) ->
  exists e, h' = h ++ e /\ fresh (length h) e /\ Forall (fun a => (length h <= a)%nat) (hrefs d) /\
            read_entries h' d = Some an.
Proof.
  induction an as [|[k [v|s]] an IH]; intros h h' d H; cbn in H.
  - injection H as <- <-. exists []. rewrite app_nil_r. repeat split; constructor.
  - destruct (load_entries h an) as [h1 d1] eqn:El. injection H as <- <-.
    destruct (IH _ _ _ El) as (e & -> & Hf & Hd & Hr). exists e. repeat split; try assumption.
    cbn. rewrite Hr. reflexivity.
  - destruct (load_sc h s) as [h1 ds] eqn:Es.
    destruct (load_entries (h1 ++ [OSc ds]) an) as [h3 d3] eqn:El. injection H as <- <-.
    destruct (load_sc_spec (length h) _ _ _ _ Es) as (e1 & -> & Hf1 & Hd1 & Hr1).
    destruct (IH _ _ _ El) as (e3 & -> & Hf3 & Hd3 & Hr3).
    exists (e1 ++ OSc ds :: e3). split; [repeat rewrite <- app_assoc; reflexivity|].
    assert (Hlen : (length h <= length ((h ++ e1) ++ [OSc ds]))%nat) by (repeat rewrite app_length; lia).
    split; [|split].
    + apply fresh_app; [exact Hf1|]. constructor.
      * cbn. apply Forall_map. eapply Forall_impl; [|exact Hd1]. intros [k' a']. cbn. lia.
      * eapply fresh_mono; [|exact Hf3]. exact Hlen.
    + cbn. constructor; [rewrite app_length; lia|].
      eapply Forall_impl; [|exact Hd3]. cbn. intros a Ha. lia.
    + cbn. rewrite <- app_assoc. cbn [app]. rewrite nth_error_len.
      rewrite <- app_assoc in Hr3. cbn [app] in Hr3. rewrite Hr3.
      replace ((h ++ e1) ++ OSc ds :: e3) with ((h ++ e1) ++ (OSc ds :: e3)) by reflexivity.
      rewrite (read_sc_ext _ (OSc ds :: e3) _ _ Hr1). reflexivity.
Qed.

Lemma load_top_spec an h h' a : load_top h an = (h', a) ->
  exists e, h' = h ++ e /\ fresh (length h) e /\ (length h <= a)%nat /\ read_top h' a = Some an.
Proof.
  unfold load_top. destruct (load_entries h an) as [h1 d] eqn:El. cbn. intros H. injection H as <- <-.
  destruct (load_entries_spec _ _ _ _ El) as (e & -> & Hf & Hd & Hr).
  exists (e ++ [OTop d]). split; [rewrite app_assoc; reflexivity|]. split; [|split].
  - apply fresh_app; [exact Hf|]. constructor; [exact Hd|constructor].
  - rewrite app_length. lia.
  - unfold read_top. rewrite nth_error_len. apply read_entries_ext. exact Hr.
Qed.

(* the invariant of _build_annotations: the heap is the heap at entry followed by objects that
   only point to objects allocated since *)
Definition inv (h cur : heap) : Prop := exists e, cur = h ++ e /\ fresh (length h) e.

Lemma update_app_r (h : heap) : forall e a o, (length h <= a)%nat ->
  update (h ++ e) a o = h ++ update e (a - length h) o.
Proof.
  induction h as [|x h IH]; intros e a o Ha; cbn.
  - rewrite Nat.sub_0_r. reflexivity.
  - destruct a as [|a]; [cbn in Ha; lia|]. cbn in Ha. cbn. f_equal. apply IH. lia.
Qed.

Lemma fresh_update n : forall e i o, fresh n e -> Forall (fun a => (n <= a)%nat) (refs o) ->
  fresh n (update e i o).
Proof.
  induction e as [|x e IH]; intros i o He Ho; cbn; [destruct i; constructor|].
  inversion He; subst. destruct i as [|i]; constructor; auto. apply IH; assumption.
Qed.

Lemma inv_len h cur : inv h cur -> (length h <= length cur)%nat.
Proof. intros (e & -> & _). rewrite app_length. lia. Qed.

Lemma inv_alloc h cur o : inv h cur -> Forall (fun a => (length h <= a)%nat) (refs o) ->
  inv h (cur ++ [o]).
Proof.
  intros (e & -> & Hf) Ho. exists (e ++ [o]). split; [rewrite app_assoc; reflexivity|].
  apply fresh_app; [exact Hf|]. constructor; [exact Ho|constructor].
Qed.

Lemma inv_update h cur a o : inv h cur -> (length h <= a)%nat ->
  Forall (fun x => (length h <= x)%nat) (refs o) -> inv h (update cur a o).
Proof.
  intros (e & -> & Hf) Ha Ho. exists (update e (a - length h) o).
  split; [apply update_app_r; exact Ha|]. apply fresh_update; assumption.
Qed.

Lemma inv_lookup h cur a o : inv h cur -> (length h <= a)%nat -> nth_error cur a = Some o ->
  Forall (fun x => (length h <= x)%nat) (refs o).
Proof.
  intros (e & -> & Hf) Ha Hn. rewrite nth_error_app2 in Hn by exact Ha.
  apply nth_error_In in Hn. unfold fresh in Hf. rewrite Forall_forall in Hf. apply Hf. exact Hn.
Qed.

Lemma assoc_hrefs k : forall d a, assoc k d = Some (HRef a) -> In a (hrefs d).
Proof.
  induction d as [|[k' v] d IH]; intros a H; cbn in H; [discriminate|].
  unfold hrefs. cbn [flat_map]. apply in_or_app.
  destruct (k' =? k).
  - injection H as ->. left. cbn. auto.
  - right. apply IH. exact H.
Qed.

Lemma assoc_snd k : forall (d : list (Z * nat)) a, assoc k d = Some a -> In a (map snd d).
Proof.
  induction d as [|[k' v] d IH]; intros a H; cbn in H; [discriminate|].
  cbn. destruct (k' =? k); [injection H as ->; auto|right; apply IH; exact H].
Qed.

Lemma hrefs_app a b : hrefs (a ++ b) = hrefs a ++ hrefs b.
Proof. unfold hrefs. apply flat_map_app. Qed.

Lemma inv_tab_set h cur a k v cur' : inv h cur -> (length h <= a)%nat ->
  tab_set cur a k v = Ok cur' -> inv h cur'.
Proof.
  unfold tab_set. intros Hi Ha H. destruct (nth_error cur a) as [[| |t]|]; try discriminate.
  injection H as <-. apply inv_update; [exact Hi|exact Ha|constructor].
Qed.

(* a copy function is good when it only allocates and what it allocates is closed *)
Definition copies_deeply (copy : heap -> nat -> res (heap * nat)) : Prop :=
  forall h a h1 t, copy h a = Ok (h1, t) -> inv h h1 /\ (length h <= t)%nat.

Lemma deepcopy_copies_deeply : copies_deeply deepcopy.
Proof.
  intros h a h1 t H. unfold deepcopy in H. destruct (read_top h a) as [an|]; [|discriminate].
  injection H as H. destruct (load_top_spec _ _ _ _ H) as (e & -> & Hf & Ht & _).
  split; [exists e; split; [reflexivity|exact Hf]|exact Ht].
Qed.

Lemma get_top_nth h a d : get_top h a = Ok d -> nth_error h a = Some (OTop d).
Proof. unfold get_top. destruct (nth_error h a) as [[| |]|]; try discriminate. intros H; injection H as ->. reflexivity. Qed.
Lemma get_sc_nth h a d : get_sc h a = Ok d -> nth_error h a = Some (OSc d).
Proof. unfold get_sc. destruct (nth_error h a) as [[| |]|]; try discriminate. intros H; injection H as ->. reflexivity. Qed.

Lemma build_annotations_inv copy r h orig h' top : copies_deeply copy ->
  build_annotations_with copy r h orig = Ok (h', top) -> inv h h' /\ (length h <= top)%nat.
Proof.
  intros Hc H. unfold build_annotations_with in H.
  destruct (copy h orig) as [[h1 t]|] eqn:Ec; cbn [bind] in H; [|discriminate].
  destruct (Hc _ _ _ _ Ec) as [I1 Ht].
  destruct (get_top h1 t) as [d|] eqn:Ed; cbn [bind] in H; [|discriminate].
  pose proof (inv_lookup _ _ _ _ I1 Ht (get_top_nth _ _ _ Ed)) as Rd. cbn in Rd.
  set (h2 := match assoc K_sc d with
             | Some _ => h1
             | None => let '(h'0, a) := alloc h1 (OSc []) in update h'0 t (OTop (d ++ [(K_sc, HRef a)]))
             end) in H.
  assert (I2 : inv h h2).
  { subst h2. destruct (assoc K_sc d); [exact I1|]. cbn.
    apply inv_update; [apply inv_alloc; [exact I1|constructor]|exact Ht|].
    cbn. rewrite hrefs_app. apply Forall_app. split; [exact Rd|].
    cbn. constructor; [apply inv_len; exact I1|constructor]. }
  clearbody h2.
  destruct (get_top h2 t) as [d2|] eqn:Ed2; cbn [bind] in H; [|discriminate].
  pose proof (inv_lookup _ _ _ _ I2 Ht (get_top_nth _ _ _ Ed2)) as Rd2. cbn in Rd2.
  destruct (assoc K_sc d2) as [[v|sc]|] eqn:Ea; cbn [bind] in H; try discriminate.
  assert (Hsc : (length h <= sc)%nat).
  { rewrite Forall_forall in Rd2. apply Rd2. eapply assoc_hrefs. exact Ea. }
  destruct (get_sc h2 sc) as [ds|] eqn:Eds; cbn [bind] in H; [|discriminate].
  pose proof (inv_lookup _ _ _ _ I2 Hsc (get_sc_nth _ _ _ Eds)) as Rds. cbn in Rds.
  set (h3 := match assoc K_asdata ds with
             | Some _ => h2
             | None => let '(h'0, a) := alloc h2 (OTab []) in update h'0 sc (OSc (ds ++ [(K_asdata, a)]))
             end) in H.
  assert (I3 : inv h h3).
  { subst h3. destruct (assoc K_asdata ds); [exact I2|]. cbn.
    apply inv_update; [apply inv_alloc; [exact I2|constructor]|exact Hsc|].
    cbn. rewrite map_app. apply Forall_app. split; [exact Rds|].
    cbn. constructor; [apply inv_len; exact I2|constructor]. }
  clearbody h3.
  destruct (get_sc h3 sc) as [ds3|] eqn:Eds3; cbn [bind] in H; [|discriminate].
  pose proof (inv_lookup _ _ _ _ I3 Hsc (get_sc_nth _ _ _ Eds3)) as Rds3. cbn in Rds3.
  destruct (assoc K_asdata ds3) as [tab|] eqn:Et; cbn [bind] in H; [|discriminate].
  assert (Htab : (length h <= tab)%nat).
  { rewrite Forall_forall in Rds3. apply Rds3. eapply assoc_snd. exact Et. }
  destruct (tab_set h3 tab K_note _) as [h4|] eqn:E4; cbn [bind] in H; [|discriminate].
  destruct (tab_set h4 tab K_ostart _) as [h5|] eqn:E5; cbn [bind] in H; [|discriminate].
  destruct (tab_set h5 tab K_oend _) as [h6|] eqn:E6; cbn [bind] in H; [|discriminate].
  injection H as <- <-. split; [|exact Ht].
  eapply inv_tab_set; [|exact Htab|exact E6].
  eapply inv_tab_set; [|exact Htab|exact E5].
  eapply inv_tab_set; [|exact Htab|exact E4]. exact I3.
Qed.

(* every object that existed before the call is what it was; new objects come after them *)
Lemma annotations_frame r h orig h' top : build_annotations_heap r h orig = Ok (h', top) ->
  (exists e, h' = h ++ e) /\ (length h <= top)%nat /\
  forall a, (a < length h)%nat -> nth_error h' a = nth_error h a.
Proof.
  intros H. destruct (build_annotations_inv _ _ _ _ _ _ deepcopy_copies_deeply H) as [(e & -> & _) Ht].
  split; [exists e; reflexivity|]. split; [exact Ht|].
  intros a Ha. apply nth_error_app1. exact Ha.
Qed.

(* whatever could be read below any address before the call reads the same afterwards *)
Lemma annotations_reads_kept r h orig h' top : build_annotations_heap r h orig = Ok (h', top) ->
  forall a an, read_top h a = Some an -> read_top h' a = Some an.
Proof.
  intros H a an Hr. destruct (annotations_frame _ _ _ _ _ H) as [(e & ->) _]. apply read_top_ext. exact Hr.
Qed.

Lemma write_annotations_parent r an o : write_annotations r an = Ok o -> ao_parent o = Some an.
Proof.
  unfold write_annotations, write_annotations_with. destruct (load_top [] an) as [h0 root] eqn:El.
  destruct (load_top_spec _ _ _ _ El) as (e & -> & _ & _ & Hr).
  fold build_annotations_heap.
  destruct (build_annotations_heap r ([] ++ e) root) as [[h1 top]|] eqn:Eb; cbn; [|discriminate].
  intros H. injection H as <-. cbn. eapply annotations_reads_kept; [exact Eb|exact Hr].
Qed.

(* the whole bio-level record after the call: features and annotations are what they were *)
Lemma write_rec_record_unchanged r sq feats an o : write_to_genbank_rec r sq feats an = Ok o ->
  o_parent (o2_base o) = feats /\ ao_parent (o2_ann o) = Some an.
Proof.
  unfold write_to_genbank_rec. intros H.
  destruct (write_to_genbank r sq feats) as [ob|] eqn:Ew; cbn in H; [|discriminate].
  destruct (write_annotations r an) as [oa|] eqn:Ea; cbn in H; [|discriminate].
  injection H as <-. cbn. split; [eapply write_parent_unchanged; exact Ew|eapply write_annotations_parent; exact Ea].
Qed.

Lemma load_read an h h' a : load_top h an = (h', a) ->
  exists e, h' = h ++ e /\ (length h <= a)%nat /\ read_top h' a = Some an.
Proof.
  intros H. destruct (load_top_spec an h h' a H) as (e & He & _ & Ha & Hr). exists e. auto.
Qed.

(* ====================================================================================== *)
(* what the region record's annotations are                                                *)
(* ====================================================================================== *)
Lemma update_length : forall (h : heap) a o, length (update h a o) = length h.
Proof. induction h as [|x h IH]; intros [|a] o; cbn; auto. Qed.

Lemma update_app_l : forall (h e : heap) a o, (a < length h)%nat ->
  update (h ++ e) a o = update h a o ++ e.
Proof.
  induction h as [|x h IH]; intros e a o Ha; cbn in Ha; [lia|].
  destruct a as [|a]; cbn; [reflexivity|]. f_equal. apply IH. lia.
Qed.

Lemma nth_update_eq : forall (h : heap) a o, (a < length h)%nat -> nth_error (update h a o) a = Some o.
Proof.
  induction h as [|x h IH]; intros a o Ha; cbn in Ha; [lia|].
  destruct a as [|a]; cbn; [reflexivity|]. apply IH. lia.
Qed.

Lemma update_update : forall (h : heap) a x y, update (update h a x) a y = update h a y.
Proof. induction h as [|z h IH]; intros [|a] x y; cbn; auto. f_equal. apply IH. Qed.

Lemma update_at_len (h e : heap) x o : update (h ++ x :: e) (length h) o = h ++ o :: e.
Proof. rewrite update_app_r by lia. rewrite Nat.sub_diag. reflexivity. Qed.

(* the layout of a loaded tree depends on the heap only through its length ... *)
Lemma load_sc_prefix : forall s (h g : heap), length h = length g -> forall h' d, load_sc h s = (h', d) ->
  exists e, h' = h ++ e /\ load_sc g s = (g ++ e, d).
Proof.
  induction s as [|[k t] s IH]; intros h g Hl h' d H; cbn in H |- *.
  - injection H as <- <-. exists []. repeat rewrite app_nil_r. auto.
  - destruct (load_sc (h ++ [OTab t]) s) as [h2 d2] eqn:El. injection H as <- <-.
    assert (Hl2 : length (h ++ [OTab t]) = length (g ++ [OTab t])) by (repeat rewrite app_length; cbn; lia).
    destruct (IH (h ++ [OTab t]) (g ++ [OTab t]) Hl2 _ _ El) as (e & -> & Hg).
    exists (OTab t :: e). rewrite Hg. repeat rewrite <- app_assoc. cbn [app]. rewrite Hl. auto.
Qed.

Lemma load_entries_prefix : forall an (h g : heap), length h = length g ->
  forall h' d, load_entries h an = (h', d) -> exists e, h' = h ++ e /\ load_entries g an = (g ++ e, d).
Proof.
  induction an as [|[k [v|s]] an IH]; intros h g Hl h' d H; cbn in H |- *.
  - injection H as <- <-. exists []. repeat rewrite app_nil_r. auto.
  - destruct (load_entries h an) as [h1 d1] eqn:El. injection H as <- <-.
    destruct (IH _ _ Hl _ _ El) as (e & -> & Hg). exists e. rewrite Hg. auto.
  - destruct (load_sc h s) as [h1 ds] eqn:Es.
    destruct (load_entries (h1 ++ [OSc ds]) an) as [h3 d3] eqn:El. injection H as <- <-.
    destruct (load_sc_prefix _ _ _ Hl _ _ Es) as (e1 & -> & Hg1). rewrite Hg1. cbn.
    assert (Hl2 : length ((h ++ e1) ++ [OSc ds]) = length ((g ++ e1) ++ [OSc ds]))
      by (repeat rewrite app_length; cbn; lia).
    destruct (IH _ _ Hl2 _ _ El) as (e3 & -> & Hg3).
    rewrite Hg3. exists (e1 ++ OSc ds :: e3). repeat rewrite <- app_assoc. cbn [app].
    repeat rewrite app_length. rewrite Hl. auto.
Qed.

(* ... and not at all on what the tables hold: loading the tree with another table in the place of
   the one under key k is updating that table's object *)
Lemma load_sc_set k t : forall s h h' ds, assoc k s = Some t -> load_sc h s = (h', ds) ->
  exists a, assoc k ds = Some a /\ (a < length h')%nat /\ nth_error h' a = Some (OTab t) /\
    forall t', load_sc h (dict_set k t' s) = (update h' a (OTab t'), ds).
Proof.
  induction s as [|[k0 t0] s IH]; intros h h' ds Ha H; cbn in Ha; [discriminate|]. cbn in H.
  destruct (load_sc (h ++ [OTab t0]) s) as [h2 d2] eqn:El. injection H as <- <-.
  destruct (k0 =? k) eqn:Ek.
  - injection Ha as ->.
    destruct (load_sc_spec 0 _ _ _ _ El) as (e & -> & _).
    exists (length h). cbn. rewrite Ek. split; [reflexivity|]. split; [repeat rewrite app_length; cbn; lia|].
    split; [rewrite <- app_assoc; apply nth_error_len|].
    intros t'. cbn [dict_set]. try rewrite Ek. cbn.
    assert (Hl2 : length (h ++ [OTab t]) = length (h ++ [OTab t'])) by (repeat rewrite app_length; reflexivity).
    destruct (load_sc_prefix s _ _ Hl2 _ _ El) as (e' & He' & ->).
    apply app_inv_head in He'. subst e'.
    repeat rewrite <- app_assoc. cbn [app]. rewrite update_at_len. reflexivity.
  - destruct (IH _ _ _ Ha El) as (a & Has & Hlt & Hn & Hset).
    exists a. cbn. rewrite Ek. repeat split; try assumption.
    intros t'. cbn [dict_set]. try rewrite Ek. cbn. rewrite Hset. reflexivity.
Qed.

Definition set_table (an : annots) (s : scomment) (t' : table) : annots :=
  dict_set K_sc (TSc (dict_set K_asdata t' s)) an.

Lemma load_entries_set s t : forall an h h' d,
  assoc K_sc an = Some (TSc s) -> assoc K_asdata s = Some t -> load_entries h an = (h', d) ->
  exists sc ds tab, assoc K_sc d = Some (HRef sc) /\ nth_error h' sc = Some (OSc ds) /\
    assoc K_asdata ds = Some tab /\ (tab < length h')%nat /\ nth_error h' tab = Some (OTab t) /\
    forall t', load_entries h (set_table an s t') = (update h' tab (OTab t'), d).
Proof.
  unfold set_table.
  induction an as [|[k0 v0] an IH]; intros h h' d Ha Ht H; cbn in Ha; [discriminate|].
  destruct (k0 =? K_sc) eqn:Ek.
  - injection Ha as ->. cbn in H.
    destruct (load_sc h s) as [h1 ds] eqn:Es.
    destruct (load_entries (h1 ++ [OSc ds]) an) as [h3 d3] eqn:El. injection H as <- <-.
    destruct (load_sc_set _ _ _ _ _ _ Ht Es) as (tab & Hat & Hlt & Hn & Hset).
    destruct (load_entries_spec _ _ _ _ El) as (e3 & -> & _).
    exists (length h1), ds, tab. cbn. rewrite Ek.
    split; [reflexivity|]. split; [rewrite <- app_assoc; apply nth_error_len|].
    split; [exact Hat|]. split; [repeat rewrite app_length; lia|].
    split; [rewrite <- app_assoc; apply nth_error_ext; exact Hn|].
    intros t'. cbn [dict_set]. try rewrite Ek. cbn. rewrite Hset. cbn. rewrite update_length.
    assert (Hl2 : length (h1 ++ [OSc ds]) = length (update h1 tab (OTab t') ++ [OSc ds]))
      by (repeat rewrite app_length; rewrite update_length; reflexivity).
    destruct (load_entries_prefix an _ _ Hl2 _ _ El) as (e' & He' & ->).
    apply app_inv_head in He'. subst e'.
    repeat rewrite <- app_assoc. rewrite update_app_l by exact Hlt. reflexivity.
  - destruct v0 as [v|s0]; cbn in H.
    + destruct (load_entries h an) as [h1 d1] eqn:El. injection H as <- <-.
      destruct (IH _ _ _ Ha Ht El) as (sc & ds & tab & H1 & H2 & H3 & H4 & H5 & H6).
      exists sc, ds, tab. cbn. rewrite Ek. repeat split; try assumption.
      intros t'. cbn [dict_set]. try rewrite Ek. cbn. rewrite H6. reflexivity.
    + destruct (load_sc h s0) as [h1 ds0] eqn:Es.
      destruct (load_entries (h1 ++ [OSc ds0]) an) as [h3 d3] eqn:El. injection H as <- <-.
      destruct (IH _ _ _ Ha Ht El) as (sc & ds & tab & H1 & H2 & H3 & H4 & H5 & H6).
      exists sc, ds, tab. cbn. rewrite Ek. repeat split; try assumption.
      intros t'. cbn [dict_set]. try rewrite Ek. cbn. rewrite Es. cbn. rewrite H6. reflexivity.
Qed.

Lemma load_top_set s t an h h1 top :
  assoc K_sc an = Some (TSc s) -> assoc K_asdata s = Some t -> load_top h an = (h1, top) ->
  exists d sc ds tab, nth_error h1 top = Some (OTop d) /\ assoc K_sc d = Some (HRef sc) /\
    nth_error h1 sc = Some (OSc ds) /\ assoc K_asdata ds = Some tab /\ (tab < length h1)%nat /\
    nth_error h1 tab = Some (OTab t) /\
    forall t', load_top h (set_table an s t') = (update h1 tab (OTab t'), top).
Proof.
  intros Ha Ht H. unfold load_top in H. destruct (load_entries h an) as [h' d] eqn:El.
  cbn in H. injection H as <- <-.
  destruct (load_entries_set _ _ _ _ _ _ Ha Ht El) as (sc & ds & tab & H1 & H2 & H3 & H4 & H5 & H6).
  exists d, sc, ds, tab. split; [apply nth_error_len|].
  split; [exact H1|]. split; [apply nth_error_ext; exact H2|]. split; [exact H3|].
  split; [rewrite app_length; lia|]. split; [apply nth_error_ext; exact H5|].
  intros t'. unfold load_top. rewrite H6. unfold alloc. rewrite update_length, update_app_l by exact H4. reflexivity.
Qed.

Lemma tab_set_update h a k v t : (a < length h)%nat -> nth_error h a = Some (OTab t) ->
  tab_set h a k v = Ok (update h a (OTab (dict_set k v t))).
Proof. intros _ Hn. unfold tab_set. rewrite Hn. reflexivity. Qed.

(* the antiSMASH comment exists already (the case of main.write_outputs) *)
Lemma build_annotations_present r h orig an s t h' top :
  read_top h orig = Some an -> assoc K_sc an = Some (TSc s) -> assoc K_asdata s = Some t ->
  build_annotations_heap r h orig = Ok (h', top) ->
  read_top h' top = Some (set_table an s (expected_table r t)).
Proof.
  intros Hr Ha Ht H. unfold build_annotations_heap, build_annotations_with, deepcopy in H. rewrite Hr in H.
  cbn [bind] in H. destruct (load_top h an) as [h1 tp] eqn:El.
  destruct (load_top_set _ _ _ _ _ _ Ha Ht El) as (d & sc & ds & tab & Hd & Hsc & Hds & Htab & Hlt & Hn & Hset).
  unfold get_top in H. rewrite Hd in H. cbn [bind] in H. rewrite Hsc in H. rewrite Hd in H. cbn [bind] in H.
  rewrite Hsc in H. cbn [bind] in H. unfold get_sc in H. rewrite Hds in H. cbn [bind] in H. rewrite Htab in H.
  rewrite Hds in H. cbn [bind] in H. rewrite Htab in H. cbn [bind] in H.
  rewrite (tab_set_update _ _ _ _ _ Hlt Hn) in H. cbn [bind] in H.
  rewrite (tab_set_update _ _ _ _ _ ltac:(rewrite update_length; exact Hlt) (nth_update_eq _ _ _ Hlt)) in H.
  cbn [bind] in H. rewrite update_update in H.
  rewrite (tab_set_update _ _ _ _ _ ltac:(rewrite update_length; exact Hlt) (nth_update_eq _ _ _ Hlt)) in H.
  cbn [bind] in H. rewrite update_update in H. injection H as <- <-.
  pose proof (Hset (expected_table r t)) as Hl.
  destruct (load_top_spec _ _ _ _ Hl) as (e & _ & _ & _ & Hread). exact Hread.
Qed.

(* ---- reading and the dict operations ---- *)
Lemma read_sc_assoc h k : forall ds s, read_sc h ds = Some s ->
  match assoc k s with
  | None => assoc k ds = None
  | Some t => exists a, assoc k ds = Some a /\ nth_error h a = Some (OTab t)
  end.
Proof.
  induction ds as [|[k0 a] ds IH]; intros s H; cbn in H.
  - injection H as <-. reflexivity.
  - destruct (nth_error h a) as [[| |t]|] eqn:En; try discriminate.
    destruct (read_sc h ds) as [s'|] eqn:Er; [|discriminate]. injection H as <-. cbn.
    destruct (k0 =? k); [exists a; auto|]. apply IH. reflexivity.
Qed.

Lemma read_entries_assoc h k : forall d an, read_entries h d = Some an ->
  match assoc k an with
  | None => assoc k d = None
  | Some (TOpaque v) => assoc k d = Some (HOpaque v)
  | Some (TSc s) => exists a ds, assoc k d = Some (HRef a) /\ nth_error h a = Some (OSc ds) /\
                                 read_sc h ds = Some s
  end.
Proof.
  induction d as [|[k0 [v|a]] d IH]; intros an H; cbn in H.
  - injection H as <-. reflexivity.
  - destruct (read_entries h d) as [x|] eqn:Er; [|discriminate]. injection H as <-. cbn.
    destruct (k0 =? k); [reflexivity|]. apply IH. reflexivity.
  - destruct (nth_error h a) as [[|ds|]|] eqn:En; try discriminate.
    destruct (read_sc h ds) as [s|] eqn:Es; [|discriminate].
    destruct (read_entries h d) as [x|] eqn:Er; [|discriminate]. injection H as <-. cbn.
    destruct (k0 =? k); [exists a, ds; auto|]. apply IH. reflexivity.
Qed.

Lemma assoc_app_absent {V} k (v : V) : forall d, assoc k d = None -> assoc k (d ++ [(k, v)]) = Some v.
Proof.
  induction d as [|[k0 v0] d IH]; intros H; cbn in *; [rewrite Z.eqb_refl; reflexivity|].
  destruct (k0 =? k); [discriminate|]. apply IH. exact H.
Qed.

Lemma dict_set_absent {V} k (v : V) : forall d, assoc k d = None -> dict_set k v d = d ++ [(k, v)].
Proof.
  induction d as [|[k0 v0] d IH]; intros H; cbn in *; [reflexivity|].
  destruct (k0 =? k); [discriminate|]. f_equal. apply IH. exact H.
Qed.

Lemma read_sc_app h : forall a b x y, read_sc h a = Some x -> read_sc h b = Some y ->
  read_sc h (a ++ b) = Some (x ++ y).
Proof.
  induction a as [|[k ad] a IH]; intros b x y Ha Hb; cbn in Ha |- *.
  - injection Ha as <-. exact Hb.
  - destruct (nth_error h ad) as [[| |t]|]; try discriminate.
    destruct (read_sc h a) as [x'|] eqn:Er; [|discriminate]. injection Ha as <-.
    rewrite (IH _ _ _ eq_refl Hb). reflexivity.
Qed.

Lemma read_entries_app h : forall a b x y, read_entries h a = Some x -> read_entries h b = Some y ->
  read_entries h (a ++ b) = Some (x ++ y).
Proof.
  induction a as [|[k [v|ad]] a IH]; intros b x y Ha Hb; cbn in Ha |- *.
  - injection Ha as <-. exact Hb.
  - destruct (read_entries h a) as [x'|] eqn:Er; [|discriminate]. injection Ha as <-.
    rewrite (IH _ _ _ eq_refl Hb). reflexivity.
  - destruct (nth_error h ad) as [[|ds|]|]; try discriminate.
    destruct (read_sc h ds) as [s|]; [|discriminate].
    destruct (read_entries h a) as [x'|] eqn:Er; [|discriminate]. injection Ha as <-.
    rewrite (IH _ _ _ eq_refl Hb). reflexivity.
Qed.

(* reading does not look at a structured-comment object it has no reference to *)
Lemma read_sc_agree h h' sc dd : nth_error h sc = Some (OSc dd) ->
  (forall a o, nth_error h a = Some o -> a <> sc -> nth_error h' a = Some o) ->
  forall ds s, read_sc h ds = Some s -> read_sc h' ds = Some s.
Proof.
  intros Hsc Hag. induction ds as [|[k a] ds IH]; intros s H; cbn in H |- *; [exact H|].
  destruct (nth_error h a) as [[| |t]|] eqn:En; try discriminate.
  destruct (read_sc h ds) as [s'|] eqn:Er; [|discriminate].
  assert (a <> sc) by (intros ->; rewrite Hsc in En; discriminate).
  rewrite (Hag _ _ En H0), (IH _ eq_refl). exact H.
Qed.

Lemma read_entries_agree h h' sc dd : nth_error h sc = Some (OSc dd) ->
  (forall a o, nth_error h a = Some o -> a <> sc -> nth_error h' a = Some o) ->
  forall d x, read_entries h d = Some x -> ~ In sc (hrefs d) -> read_entries h' d = Some x.
Proof.
  intros Hsc Hag. induction d as [|[k [v|a]] d IH]; intros x H Hni; cbn in H |- *; [exact H| |].
  - destruct (read_entries h d) as [x'|] eqn:Er; [|discriminate].
    rewrite (IH _ eq_refl Hni). exact H.
  - destruct (nth_error h a) as [[|ds|]|] eqn:En; try discriminate.
    destruct (read_sc h ds) as [s|] eqn:Es; [|discriminate].
    destruct (read_entries h d) as [x'|] eqn:Er; [|discriminate].
    assert (a <> sc) by (intros ->; apply Hni; cbn; auto).
    rewrite (Hag _ _ En H0), (read_sc_agree _ _ _ _ Hsc Hag _ _ Es), (IH _ eq_refl); [exact H|].
    intros Hin. apply Hni. cbn. auto.
Qed.

(* ... and with another object in the place of the structured comment reads the tree with that
   structured comment in the place of the old one *)
Lemma read_entries_replace_sc h h' sc dd ds' s' : nth_error h sc = Some (OSc dd) ->
  (forall a o, nth_error h a = Some o -> a <> sc -> nth_error h' a = Some o) ->
  nth_error h' sc = Some (OSc ds') -> read_sc h' ds' = Some s' ->
  forall d x, read_entries h d = Some x -> assoc K_sc d = Some (HRef sc) -> NoDup (hrefs d) ->
  read_entries h' d = Some (dict_set K_sc (TSc s') x).
Proof.
  intros Hsc Hag Hn' Hr'. induction d as [|[k [v|a]] d IH]; intros x H Ha Hnd; cbn in H, Ha; [discriminate| |].
  - destruct (read_entries h d) as [x'|] eqn:Er; [|discriminate]. injection H as <-.
    cbn. destruct (k =? K_sc); [discriminate|]. rewrite (IH _ eq_refl Ha Hnd). reflexivity.
  - destruct (nth_error h a) as [[|ds|]|] eqn:En; try discriminate.
    destruct (read_sc h ds) as [s|] eqn:Es; [|discriminate].
    destruct (read_entries h d) as [x'|] eqn:Er; [|discriminate]. injection H as <-.
    cbn in Hnd. inversion Hnd as [|? ? Hni Hnd']; subst.
    cbn. destruct (k =? K_sc) eqn:Ek.
    + injection Ha as ->. rewrite Hn', Hr'.
      rewrite (read_entries_agree _ _ _ _ Hsc Hag _ _ Er Hni). reflexivity.
    + assert (a <> sc) by (intros ->; apply Hni; eapply assoc_hrefs; exact Ha).
      rewrite (Hag _ _ En H), (read_sc_agree _ _ _ _ Hsc Hag _ _ Es), (IH _ eq_refl Ha Hnd'). reflexivity.
Qed.

Lemma load_entries_nodup : forall an h h' d, load_entries h an = (h', d) -> NoDup (hrefs d).
Proof.
  induction an as [|[k [v|s]] an IH]; intros h h' d H; cbn in H.
  - injection H as <- <-. constructor.
  - destruct (load_entries h an) as [h1 d1] eqn:El. injection H as <- <-. cbn. eapply IH. exact El.
  - destruct (load_sc h s) as [h1 ds] eqn:Es.
    destruct (load_entries (h1 ++ [OSc ds]) an) as [h3 d3] eqn:El. injection H as <- <-.
    cbn. constructor; [|eapply IH; exact El].
    destruct (load_entries_spec _ _ _ _ El) as (e & _ & _ & Hd & _).
    intros Hin. rewrite Forall_forall in Hd. specialize (Hd _ Hin). rewrite app_length in Hd. cbn in Hd. lia.
Qed.

Lemma nth_update_neq : forall (h : heap) a b o, a <> b -> nth_error (update h a o) b = nth_error h b.
Proof.
  induction h as [|x h IH]; intros a b o Hab; destruct a as [|a]; destruct b as [|b]; cbn; auto; try lia.
Qed.

Lemma nth_error_plus {A} (h l : list A) i : nth_error (h ++ l) (length h + i) = nth_error l i.
Proof. rewrite nth_error_app2 by lia. f_equal. lia. Qed.

Lemma update_plus (h l : heap) i o : update (h ++ l) (length h + i) o = h ++ update l i o.
Proof. rewrite update_app_r by lia. do 2 f_equal. lia. Qed.

Lemma build_annotations_absent r h orig an h' top :
  read_top h orig = Some an -> assoc K_sc an = None ->
  build_annotations_heap r h orig = Ok (h', top) ->
  read_top h' top = Some (an ++ [(K_sc, TSc [(K_asdata, expected_table r [])])]).
Proof.
  intros Hr Ha H. unfold build_annotations_heap, build_annotations_with, deepcopy in H. rewrite Hr in H.
  cbn [bind] in H. unfold load_top in H. destruct (load_entries h an) as [g d] eqn:El.
  destruct (load_entries_spec _ _ _ _ El) as (e & Hg & _ & _ & Hrd).
  pose proof (read_entries_assoc g K_sc _ _ Hrd) as Hm. rewrite Ha in Hm.
  unfold alloc in H. unfold get_top in H. rewrite nth_error_len in H. cbn [bind] in H.
  rewrite Hm in H.
  replace ((g ++ [OTop d]) ++ [OSc []]) with (g ++ [OTop d; OSc []]) in H by (rewrite <- app_assoc; reflexivity).
  rewrite update_at_len in H. rewrite nth_error_len in H. cbn [bind] in H.
  rewrite (assoc_app_absent K_sc _ d Hm) in H. cbn [bind] in H.
  replace (length (g ++ [OTop d])) with (length g + 1)%nat in H by (rewrite app_length; reflexivity).
  unfold get_sc in H.
  rewrite nth_error_plus in H. cbn [nth_error bind assoc] in H.
  replace ((g ++ [OTop (d ++ [(K_sc, HRef (length g + 1)%nat)]); OSc []]) ++ [OTab []])
    with (g ++ [OTop (d ++ [(K_sc, HRef (length g + 1)%nat)]); OSc []; OTab []]) in H
    by (rewrite <- app_assoc; reflexivity).
  rewrite update_plus in H. cbn [update app] in H. rewrite nth_error_plus in H. cbn [nth_error bind assoc] in H.
  rewrite Z.eqb_refl in H.
  replace (length (g ++ [OTop (d ++ [(K_sc, HRef (length g + 1)%nat)]); OSc []])) with (length g + 2)%nat in H
    by (rewrite app_length; reflexivity).
  cbn [bind] in H. unfold tab_set in H. rewrite nth_error_plus in H. cbn [nth_error bind] in H.
  rewrite update_plus in H. cbn [update] in H. rewrite nth_error_plus in H. cbn [nth_error bind] in H.
  rewrite update_plus in H. cbn [update] in H. rewrite nth_error_plus in H. cbn [nth_error bind] in H.
  rewrite update_plus in H. cbn [update] in H.
  injection H as <- <-.
  unfold read_top. rewrite nth_error_len.
  apply read_entries_app.
  - apply read_entries_ext. exact Hrd.
  - cbn [read_entries]. rewrite nth_error_plus. cbn [nth_error read_sc]. rewrite nth_error_plus. cbn [nth_error].
    reflexivity.
Qed.

(* structured comments, but none from antiSMASH: the table is made and added last *)
Lemma build_annotations_no_table r h orig an s h' top :
  read_top h orig = Some an -> assoc K_sc an = Some (TSc s) -> assoc K_asdata s = None ->
  build_annotations_heap r h orig = Ok (h', top) ->
  read_top h' top = Some (dict_set K_sc (TSc (s ++ [(K_asdata, expected_table r [])])) an).
Proof.
  intros Hr Ha Ht H. unfold build_annotations_heap, build_annotations_with, deepcopy in H. rewrite Hr in H.
  cbn [bind] in H. unfold load_top in H. destruct (load_entries h an) as [g d] eqn:El.
  destruct (load_entries_spec _ _ _ _ El) as (e & Hg & _ & _ & Hrd).
  pose proof (load_entries_nodup _ _ _ _ El) as Hnd.
  pose proof (read_entries_assoc g K_sc _ _ Hrd) as Hm. rewrite Ha in Hm.
  destruct Hm as (sc & ds & Hsc & Hn & Hrs).
  pose proof (read_sc_assoc g K_asdata _ _ Hrs) as Hm2. rewrite Ht in Hm2.
  assert (Hlt : (sc < length g)%nat) by (apply nth_error_Some; rewrite Hn; discriminate).
  unfold alloc in H. unfold get_top in H. rewrite nth_error_len in H. cbn [bind] in H.
  rewrite Hsc in H. rewrite nth_error_len in H. cbn [bind] in H. rewrite Hsc in H. cbn [bind] in H.
  unfold get_sc in H. rewrite (nth_error_ext g [OTop d] _ _ Hn) in H. cbn [bind] in H. rewrite Hm2 in H.
  set (X := OSc (ds ++ [(K_asdata, length (g ++ [OTop d]))])) in H.
  rewrite <- app_assoc in H. cbn [app] in H. rewrite update_app_l in H by exact Hlt.
  set (G := update g sc X) in H.
  assert (HG : length G = length g) by apply update_length.
  assert (HGsc : nth_error G sc = Some X) by (apply nth_update_eq; exact Hlt).
  rewrite (nth_error_ext G _ _ _ HGsc) in H. unfold X in H. cbn [bind] in H.
  rewrite (assoc_app_absent K_asdata _ ds Hm2) in H. cbn [bind] in H.
  replace (length (g ++ [OTop d])) with (length G + 1)%nat in * by (rewrite app_length, HG; reflexivity).
  unfold tab_set in H. rewrite nth_error_plus in H. cbn [nth_error bind] in H.
  rewrite update_plus in H. cbn [update] in H. rewrite nth_error_plus in H. cbn [nth_error bind] in H.
  rewrite update_plus in H. cbn [update] in H. rewrite nth_error_plus in H. cbn [nth_error bind] in H.
  rewrite update_plus in H. cbn [update] in H.
  injection H as <- <-.
  unfold read_top. rewrite <- HG. rewrite nth_error_len.
  assert (Hag : forall a o, nth_error g a = Some o -> a <> sc ->
                nth_error (G ++ [OTop d; OTab (expected_table r [])]) a = Some o).
  { intros a o Hao Hne. apply nth_error_ext. unfold G. rewrite nth_update_neq by auto. exact Hao. }
  eapply read_entries_replace_sc with (h := g) (sc := sc).
  - exact Hn.
  - exact Hag.
  - apply nth_error_ext. exact HGsc.
  - apply read_sc_app.
    + eapply read_sc_agree; [exact Hn|exact Hag|exact Hrs].
    + cbn [read_sc]. replace (length (g ++ [OTop d])) with (length G + 1)%nat by (rewrite app_length, HG; reflexivity).
      rewrite nth_error_plus. cbn [nth_error]. reflexivity.
  - exact Hrd.
  - exact Hsc.
  - exact Hnd.
Qed.

(* a structured_comment annotation that is not a dict: AttributeError *)
Lemma build_annotations_opaque r h orig an v :
  read_top h orig = Some an -> assoc K_sc an = Some (TOpaque v) ->
  build_annotations_heap r h orig = Err E_Attribute.
Proof.
  intros Hr Ha. unfold build_annotations_heap, build_annotations_with, deepcopy. rewrite Hr.
  cbn [bind]. unfold load_top. destruct (load_entries h an) as [g d] eqn:El.
  destruct (load_entries_spec _ _ _ _ El) as (e & Hg & _ & _ & Hrd).
  pose proof (read_entries_assoc g K_sc _ _ Hrd) as Hm. rewrite Ha in Hm.
  unfold alloc, get_top. rewrite nth_error_len. cbn [bind]. rewrite Hm. rewrite nth_error_len. cbn [bind].
  rewrite Hm. reflexivity.
Qed.

Lemma assoc_dict_set_same {V} k (v : V) : forall d, assoc k (dict_set k v d) = Some v.
Proof.
  induction d as [|[k0 v0] d IH]; cbn; [rewrite Z.eqb_refl; reflexivity|].
  destruct (k0 =? k) eqn:E; cbn; rewrite E; [reflexivity|exact IH].
Qed.

(* the region record's annotations, in every case in which the call returns *)
Lemma build_annotations_result r h orig an h' top : read_top h orig = Some an ->
  build_annotations_heap r h orig = Ok (h', top) -> read_top h' top = Some (expected_annots r an).
Proof.
  intros Hr H. unfold expected_annots, expected_sc, parent_sc.
  destruct (assoc K_sc an) as [[v|s]|] eqn:Ea.
  - rewrite (build_annotations_opaque _ _ _ _ _ Hr Ea) in H. discriminate.
  - destruct (assoc K_asdata s) as [t|] eqn:Et.
    + exact (build_annotations_present _ _ _ _ _ _ _ _ Hr Ea Et H).
    + rewrite (dict_set_absent K_asdata _ s Et). exact (build_annotations_no_table _ _ _ _ _ _ _ Hr Ea Et H).
  - cbn [dict_set]. rewrite (dict_set_absent K_sc _ an Ea). exact (build_annotations_absent _ _ _ _ _ _ Hr Ea H).
Qed.

Lemma write_annotations_file r an o : write_annotations r an = Ok o ->
  ao_file o = Some (expected_annots r an) /\ file_sc o = Some (expected_sc r an).
Proof.
  unfold write_annotations, write_annotations_with. destruct (load_top [] an) as [h0 root] eqn:El.
  destruct (load_top_spec _ _ _ _ El) as (e & -> & _ & _ & Hr).
  fold build_annotations_heap.
  destruct (build_annotations_heap r ([] ++ e) root) as [[h1 top]|] eqn:Eb; cbn [bind]; [|discriminate].
  intros H. injection H as <-. unfold file_sc. cbn [ao_file].
  rewrite (build_annotations_result _ _ _ _ _ _ Hr Eb). split; [reflexivity|].
  unfold expected_annots, parent_sc at 1. rewrite assoc_dict_set_same. reflexivity.
Qed.

(* the call returns unless structured_comment is not a dict *)
Lemma write_annotations_total r an : (forall v, assoc K_sc an <> Some (TOpaque v)) ->
  exists o, write_annotations r an = Ok o.
Proof.
  intros Hno. unfold write_annotations, write_annotations_with. destruct (load_top [] an) as [h0 root] eqn:El.
  destruct (load_top_spec _ _ _ _ El) as (e & -> & _ & _ & Hr).
  fold build_annotations_heap.
  destruct (build_annotations_heap r ([] ++ e) root) as [[h1 top]|k] eqn:Eb; cbn [bind]; [eexists; reflexivity|].
  exfalso. revert Eb. unfold build_annotations_heap, build_annotations_with, deepcopy. rewrite Hr.
  cbn [bind]. unfold load_top. destruct (load_entries ([] ++ e) an) as [g d] eqn:El2.
  destruct (load_entries_spec _ _ _ _ El2) as (e2 & Hg & _ & _ & Hrd).
  pose proof (read_entries_assoc g K_sc _ _ Hrd) as Hm.
  unfold alloc, get_top. rewrite nth_error_len. cbn [bind].
  destruct (assoc K_sc an) as [[v|s]|] eqn:Ea.
  - exfalso. eapply Hno. reflexivity.
  - destruct Hm as (sc & ds & Hsc & Hn & Hrs). rewrite Hsc. rewrite nth_error_len. cbn [bind]. rewrite Hsc.
    cbn [bind]. unfold get_sc. rewrite (nth_error_ext g [OTop d] _ _ Hn). cbn [bind].
    assert (Hlt : (sc < length g)%nat) by (apply nth_error_Some; rewrite Hn; discriminate).
    destruct (assoc K_asdata ds) as [tab|] eqn:Et.
    + rewrite (nth_error_ext g [OTop d] _ _ Hn). cbn [bind]. rewrite Et. cbn [bind].
      pose proof (read_sc_assoc g K_asdata _ _ Hrs) as Hm2.
      destruct (assoc K_asdata s) as [t|] eqn:Ets; [|rewrite Hm2 in Et; discriminate].
      destruct Hm2 as (a & Ha2 & Hna). rewrite Et in Ha2. injection Ha2 as <-.
      assert (Hlt2 : (tab < length (g ++ [OTop d]))%nat)
        by (apply nth_error_Some; rewrite (nth_error_ext g [OTop d] _ _ Hna); discriminate).
      rewrite (tab_set_update _ _ _ _ _ Hlt2 (nth_error_ext g [OTop d] _ _ Hna)). cbn [bind].
      rewrite (tab_set_update _ _ _ _ _ ltac:(rewrite update_length; exact Hlt2) (nth_update_eq _ _ _ Hlt2)).
      cbn [bind]. rewrite update_update.
      rewrite (tab_set_update _ _ _ _ _ ltac:(rewrite update_length; exact Hlt2) (nth_update_eq _ _ _ Hlt2)).
      cbn [bind]. discriminate.
    + rewrite <- app_assoc. cbn [app]. rewrite update_app_l by exact Hlt.
      pose proof (nth_update_eq g sc (OSc (ds ++ [(K_asdata, length (g ++ [OTop d]))])) Hlt) as HGsc.
      set (G := update g sc (OSc (ds ++ [(K_asdata, length (g ++ [OTop d]))]))) in *.
      assert (HG : length G = length g) by apply update_length.
      rewrite (nth_error_ext G _ _ _ HGsc). cbn [bind].
      rewrite (assoc_app_absent K_asdata _ ds Et). cbn [bind].
      replace (length (g ++ [OTop d])) with (length G + 1)%nat by (rewrite app_length, HG; reflexivity).
      unfold tab_set. rewrite nth_error_plus. cbn [nth_error bind].
      rewrite update_plus. cbn [update]. rewrite nth_error_plus. cbn [nth_error bind].
      rewrite update_plus. cbn [update]. rewrite nth_error_plus. cbn [nth_error bind]. discriminate.
  - rewrite Hm.
    replace ((g ++ [OTop d]) ++ [OSc []]) with (g ++ [OTop d; OSc []]) by (rewrite <- app_assoc; reflexivity).
    rewrite update_at_len. rewrite nth_error_len. cbn [bind].
    rewrite (assoc_app_absent K_sc _ d Hm). cbn [bind].
    replace (length (g ++ [OTop d])) with (length g + 1)%nat by (rewrite app_length; reflexivity).
    unfold get_sc. rewrite nth_error_plus. cbn [nth_error bind assoc].
    replace ((g ++ [OTop (d ++ [(K_sc, HRef (length g + 1)%nat)]); OSc []]) ++ [OTab []])
      with (g ++ [OTop (d ++ [(K_sc, HRef (length g + 1)%nat)]); OSc []; OTab []])
      by (rewrite <- app_assoc; reflexivity).
    rewrite update_plus. cbn [update app]. rewrite nth_error_plus. cbn [nth_error bind assoc].
    rewrite Z.eqb_refl.
    replace (length (g ++ [OTop (d ++ [(K_sc, HRef (length g + 1)%nat)]); OSc []])) with (length g + 2)%nat
      by (rewrite app_length; reflexivity).
    cbn [bind]. unfold tab_set. rewrite nth_error_plus. cbn [nth_error bind].
    rewrite update_plus. cbn [update]. rewrite nth_error_plus. cbn [nth_error bind].
    rewrite update_plus. cbn [update]. rewrite nth_error_plus. cbn [nth_error bind]. discriminate.
Qed.

Lemma write_rec_file_annotations r sq feats an o : write_to_genbank_rec r sq feats an = Ok o ->
  ao_file (o2_ann o) = Some (expected_annots r an) /\ file_sc (o2_ann o) = Some (expected_sc r an).
Proof.
  unfold write_to_genbank_rec. intros H.
  destruct (write_to_genbank r sq feats) as [ob|] eqn:Ew; cbn in H; [|discriminate].
  destruct (write_annotations r an) as [oa|] eqn:Ea; cbn in H; [|discriminate].
  injection H as <-. cbn. eapply write_annotations_file. exact Ea.
Qed.

(* the table of the file: the parent's entries in their order, NOTE in the place of an older NOTE *)
Lemma expected_table_entries r t :
  assoc K_note (expected_table r t) = Some (V_note, if crosses r then 1 else 0) /\
  assoc K_ostart (expected_table r t) = Some (V_int, rstart r) /\
  assoc K_oend (expected_table r t) = Some (V_int, rend r) /\
  forall k, k <> K_note -> k <> K_ostart -> k <> K_oend -> assoc k (expected_table r t) = assoc k t.
Proof.
  assert (Hother : forall {V} k k' (v : V) d, k <> k' -> assoc k (dict_set k' v d) = assoc k d).
  { intros V k k' v. induction d as [|[k0 v0] d IH]; intros Hne; cbn.
    - destruct (k' =? k) eqn:E; [apply Z.eqb_eq in E; congruence|reflexivity].
    - destruct (k0 =? k') eqn:E; cbn.
      + apply Z.eqb_eq in E. subst k0. destruct (k' =? k) eqn:E2; [apply Z.eqb_eq in E2; congruence|reflexivity].
      + destruct (k0 =? k); [reflexivity|]. apply IH. exact Hne. }
  unfold expected_table. repeat split.
  - rewrite Hother by (unfold K_note, K_oend; lia). rewrite Hother by (unfold K_note, K_ostart; lia).
    apply assoc_dict_set_same.
  - rewrite Hother by (unfold K_ostart, K_oend; lia). apply assoc_dict_set_same.
  - apply assoc_dict_set_same.
  - intros k H1 H2 H3. rewrite Hother by exact H3. rewrite Hother by exact H2. apply Hother. exact H1.
Qed.
