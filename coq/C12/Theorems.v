(* C12 - property theorems about the model of region/helpers.py:write_to_genbank. *)
From ASV.C12 Require Import Model Proofs.
From ASV.C04 Require Import Proofs.

(* the extract's sequence is the region's: base i of the file is base (start + i) mod N of the record
   (seq[start:end], or seq[start:] ++ seq[:end] for an origin-crossing region) - for every sequence,
   every feature list and every region with start <> end *)
Theorem C12_sequence : forall r sq feats o,
  wf_region r (zlen sq) -> rstart r <> rend r ->
  write_to_genbank r sq feats = Ok o ->
  o_seq o = expected_seq r sq /\
  length (o_seq o) = Z.to_nat (out_len r (zlen sq)) /\
  forall i, (i < Z.to_nat (out_len r (zlen sq)))%nat ->
    nth i (o_seq o) (-1) = nth (Z.to_nat ((rstart r + Z.of_nat i) mod zlen sq)) sq (-1).
Proof. exact sequence_full. Qed.
Print Assumptions C12_sequence.

(* start = end (a region covering the whole ring from a start other than 0) is not treated as
   origin-crossing: the extract is empty (finding whole_ring_region, still recorded) *)
Theorem C12_sequence_whole_ring_refuted : exists r sq feats o,
  wf_region r (zlen sq) /\ rstart r = rend r /\ write_to_genbank r sq feats = Ok o /\
  o_seq o = [] /\ o_feats o = [] /\ length (expected_seq r sq) = 10%nat.
Proof. exact sequence_whole_ring_refuted. Qed.
Print Assumptions C12_sequence_whole_ring_refuted.

(* a region that does not cross the origin keeps exactly the features lying completely inside it, in
   the record's order, with the same type and identity; each covers the images of the same bases
   (y in the file <-> y + start in the record), has the same length and the same strands *)
Theorem C12_shift_same_bases_linear : forall r sq feats o,
  wf_region r (zlen sq) -> crosses r = false -> write_to_genbank r sq feats = Ok o ->
  Forall2 (same_bases (- rstart r)) (filter (inside (rstart r) (rend r)) feats) (o_feats o).
Proof. exact write_linear_same_bases. Qed.
Print Assumptions C12_shift_same_bases_linear.

(* an origin-crossing region: first the features before the origin (same bases, moved by -start), then
   the origin-crossing features of the record whose parts all lie within the region (and only those:
   repaired finding wrapped_region_partial_feature) with offset_location(-start, wrap N) applied, then
   the features after the origin (same bases, moved by N - start); well-formed features whose exon
   lengths do not add up to N *)
Theorem C12_shift_same_bases_crossing : forall r sq feats o,
  wf_region r (zlen sq) -> crosses r = true -> write_to_genbank r sq feats = Ok o ->
  Forall (wf_feat (zlen sq)) feats ->
  let N := zlen sq in
  exists ga gb gc, o_feats o = ga ++ gb ++ gc /\
    Forall2 (same_bases (- rstart r)) (filter (inside (rstart r) N) feats) ga /\
    Forall2 (fun f g => offset_location (floc f) (- rstart r) (Some N) = Ok (floc g) /\ same_id f g)
            (filter (cross_kept r) feats) gb /\
    Forall2 (same_bases (N - rstart r)) (filter (inside 0 (rend r)) feats) gc.
Proof. exact write_crossing_same_bases. Qed.
Print Assumptions C12_shift_same_bases_crossing.

(* the origin-crossing forward feature [a,N)+[0,b) inside an origin-crossing region becomes the single
   part [a - start, N - start + b): same length, contiguous in the file.  Partial: other shapes of
   origin-crossing features (reverse strand, more exons) are covered by C04_offset_simple_ring for single
   parts and by the correspondence run *)
Theorem C12_cross_feature_forward_partial : forall N a b start st,
  0 <= b -> b < start -> start <= a -> a < N -> 0 < b -> b + (N - a) < N ->
  offset_location [mkPart a N st; mkPart 0 b st] (- start) (Some N)
  = Ok [mkPart (a - start) (N - start + b) st].
Proof. exact offset_cross_forward. Qed.
Print Assumptions C12_cross_feature_forward_partial.

(* ... and that part lies inside the extract when the region contains the feature (b <= end) *)
Theorem C12_cross_feature_forward_inside : forall r N a b st,
  wf_region r N -> crosses r = true -> in_wrapped_region r [mkPart a N st; mkPart 0 b st] = true ->
  0 < b -> a < N -> rstart r <= a ->
  0 <= a - rstart r /\ N - rstart r + b <= out_len r N.
Proof. exact offset_cross_forward_inside. Qed.
Print Assumptions C12_cross_feature_forward_inside.

(* renumbering n -> n - min + 1: the smallest number becomes 1, the map is injective and order
   preserving, and numbers that are contiguous (all below min + k) land in 1..k - for every non-empty
   list of numbers *)
Theorem C12_renumber : forall l, l <> [] ->
  let first := lmin l in
  (forall n, In n l -> 1 <= renum first n) /\ In 1 (map (renum first) l) /\
  (forall n m, renum first n = renum first m -> n = m) /\
  (forall n m, n < m -> renum first n < renum first m) /\
  (forall k, (forall n, In n l -> n < first + k) -> forall n, In n (map (renum first) l) -> 1 <= n <= k).
Proof. exact renum_props. Qed.
Print Assumptions C12_renumber.

(* the offsets used are the minima over the region's candidate clusters, protoclusters, sub-regions *)
Theorem C12_renumber_offsets : forall r N c, make_ctx r N = Ok c ->
  c_first_sub c = (match rsubs r with [] => 0 | _ => lmin (rsubs r) end) /\
  (rcands r <> [] -> c_first_cc c = lmin (map fst (rcands r)) /\
                     c_first_cluster c = lmin (map fst (all_protos r)) /\ all_protos r <> []) /\
  c_protos c = all_protos r /\ c_start c = rstart r /\ c_len c = N.
Proof. exact make_ctx_firsts. Qed.
Print Assumptions C12_renumber_offsets.

(* what is rewritten per feature type: region: candidate_cluster_numbers and subregion_numbers;
   cand_cluster: its number and its protocluster list; protocluster / proto_core: the number (which
   must be a protocluster of the region); subregion: its number; type, identity and location of a
   feature are never touched by the renumbering *)
Theorem C12_adjust_numbers : forall c f g, adjust_feat c f = Ok g ->
  (floc g = floc f /\ ftype g = ftype f /\ ftag g = ftag f) /\
  (ftype f = T_region -> fq1 g = map (renum (c_first_cc c)) (fq1 f) /\
                         fq2 g = map (renum (c_first_sub c)) (fq2 f)) /\
  (ftype f = T_cand -> exists n q, fq1 f = n :: q /\ fq1 g = [renum (c_first_cc c) n] /\
                                   fq2 g = map (renum (c_first_cluster c)) (fq2 f)) /\
  (ftype f = T_proto \/ ftype f = T_core ->
     exists n q, fq1 f = n :: q /\ fq1 g = [renum (c_first_cluster c) n] /\
                 lookup_last n (c_protos c) None <> None) /\
  (ftype f = T_sub -> exists n q, fq1 f = n :: q /\ fq1 g = [renum (c_first_sub c) n]).
Proof. exact adjust_numbers_full. Qed.
Print Assumptions C12_adjust_numbers.

(* cross references stay consistent: the region feature lists candidate n iff its rewritten list holds
   the candidate's new number; the candidate lists protocluster n iff its rewritten list holds the new
   number of the protocluster / proto_core feature; the region feature lists sub-region n iff its
   rewritten list holds the sub-region's new number (repaired finding subregion_refs_not_renumbered) *)
Theorem C12_refs_region_candidate : forall c fr fc gr gc n q,
  ftype fr = T_region -> ftype fc = T_cand ->
  adjust_feat c fr = Ok gr -> adjust_feat c fc = Ok gc -> fq1 fc = n :: q ->
  (In n (fq1 fr) <-> In (renum (c_first_cc c) n) (fq1 gr)) /\ fq1 gc = [renum (c_first_cc c) n].
Proof. exact refs_region_cand. Qed.
Print Assumptions C12_refs_region_candidate.

Theorem C12_refs_candidate_protocluster : forall c fc fp gc gp n q,
  ftype fc = T_cand -> (ftype fp = T_proto \/ ftype fp = T_core) ->
  adjust_feat c fc = Ok gc -> adjust_feat c fp = Ok gp -> fq1 fp = n :: q ->
  (In n (fq2 fc) <-> In (renum (c_first_cluster c) n) (fq2 gc)) /\ fq1 gp = [renum (c_first_cluster c) n].
Proof. exact refs_cand_proto. Qed.
Print Assumptions C12_refs_candidate_protocluster.

Theorem C12_refs_region_subregion : forall c fr fs gr gs n q,
  ftype fr = T_region -> ftype fs = T_sub ->
  adjust_feat c fr = Ok gr -> adjust_feat c fs = Ok gs -> fq1 fs = n :: q ->
  (In n (fq2 fr) <-> In (renum (c_first_sub c) n) (fq2 gr)) /\ fq1 gs = [renum (c_first_sub c) n].
Proof. exact refs_region_sub. Qed.
Print Assumptions C12_refs_region_subregion.

(* gaps in the numbers (origin-crossing region whose members sort to both ends of the record's lists)
   stay: 1, 3 is written as 1, 3 (finding wrapped_region_numbering) *)
Theorem C12_renumber_gap_refuted : exists r sq feats o,
  wf_region r (zlen sq) /\ crosses r = true /\ write_to_genbank r sq feats = Ok o /\
  nums_of T_cand (o_feats o) = [1; 3] /\ numbers_ok (o_feats o) = false.
Proof. exact renumber_gap_refuted. Qed.
Print Assumptions C12_renumber_gap_refuted.

(* leader/tail locations (one part) are moved with the wrap point, like the feature itself (repaired
   finding wrapped_region_motif_offset): a part after the origin of an origin-crossing region goes to
   [a - start + N, b - start + N), a part at or after the region start to [a - start, b - start).
   Partial: locations of several parts are covered by the correspondence run *)
Theorem C12_motif_post_origin : forall N a b start st,
  0 <= a -> a < b -> b <= start -> start < N ->
  adjust_motif_loc start N [mkPart a b st] = Ok [mkPart (a - start + N) (b - start + N) st].
Proof. exact adjust_motif_post_origin. Qed.
Print Assumptions C12_motif_post_origin.

Theorem C12_motif_plain : forall N a b start st,
  0 <= start -> start <= a -> a < b -> b <= N -> b - a <> N ->
  adjust_motif_loc start N [mkPart a b st] = Ok [mkPart (a - start) (b - start) st].
Proof. exact adjust_motif_plain. Qed.
Print Assumptions C12_motif_plain.

(* after the call every feature of the parent is what it was before - for every input on which the
   call returns (repaired finding wrapped_region_parent_qualifiers: the extract is built from copies) *)
Theorem C12_parent_unchanged : forall r sq feats o, write_to_genbank r sq feats = Ok o ->
  o_parent o = feats.
Proof. exact write_parent_unchanged. Qed.
Print Assumptions C12_parent_unchanged.

Theorem C12_parent_locations_restored : forall r sq feats o, write_to_genbank r sq feats = Ok o ->
  map floc (o_parent o) = map floc feats /\ map ftype (o_parent o) = map ftype feats
  /\ map ftag (o_parent o) = map ftag feats.
Proof. exact write_parent_locations. Qed.
Print Assumptions C12_parent_locations_restored.

(* ---- the parent's annotations (nested dicts on a heap, shared by reference) ---- *)
(* _build_annotations only allocates: the heap after the call is the heap before it followed by new
   objects, so every dict that existed before - the record's annotations, its structured_comment, its
   antiSMASH-Data table and anything else - holds what it held; the region record's annotations are a
   new object.  For every heap, every address, every region on which the call returns *)
Theorem C12_annotations_frame : forall r h orig h' top,
  build_annotations_heap r h orig = Ok (h', top) ->
  (exists e, h' = h ++ e) /\ (length h <= top)%nat /\
  forall a, (a < length h)%nat -> nth_error h' a = nth_error h a.
Proof. exact annotations_frame. Qed.
Print Assumptions C12_annotations_frame.

(* ... hence whatever tree could be read below any address before the call is read there afterwards *)
Theorem C12_annotations_reads_kept : forall r h orig h' top,
  build_annotations_heap r h orig = Ok (h', top) ->
  forall a an, read_top h a = Some an -> read_top h' a = Some an.
Proof. exact annotations_reads_kept. Qed.
Print Assumptions C12_annotations_reads_kept.

(* laying out a tree and reading it back is the identity (the heap view loses nothing) *)
Theorem C12_annotations_load_read : forall an h h' a, load_top h an = (h', a) ->
  exists e, h' = h ++ e /\ (length h <= a)%nat /\ read_top h' a = Some an.
Proof. exact load_read. Qed.
Print Assumptions C12_annotations_load_read.

(* "writing region files leaves the full record unchanged", for the whole bio-level record: after
   write_to_genbank the parent's features AND its annotations are what they were - every region, every
   sequence, every feature list, every annotation tree on which the call returns *)
Theorem C12_full_record_unchanged : forall r sq feats an o,
  write_to_genbank_rec r sq feats an = Ok o ->
  o_parent (o2_base o) = feats /\ ao_parent (o2_ann o) = Some an.
Proof. exact write_rec_record_unchanged. Qed.
Print Assumptions C12_full_record_unchanged.

(* what the region file carries: the region record's annotations are the parent's with the
   structured comment expected_sc - the parent's structured comment (none: an empty one) in which the
   antiSMASH-Data table (none: a new one, added last) has NOTE, Orig. start and Orig. end set, an older
   NOTE / Orig. entry replaced in its place, new keys appended in that order, every other table and
   entry as in the parent.  Every annotation tree: no structured comment, structured comments without
   antiSMASH-Data, and the antiSMASH comment of main.add_antismash_comments *)
Theorem C12_file_annotations : forall r sq feats an o,
  write_to_genbank_rec r sq feats an = Ok o ->
  ao_file (o2_ann o) = Some (expected_annots r an) /\ file_sc (o2_ann o) = Some (expected_sc r an).
Proof. exact write_rec_file_annotations. Qed.
Print Assumptions C12_file_annotations.

Theorem C12_file_annotations_entries : forall r t,
  assoc K_note (expected_table r t) = Some (V_note, if crosses r then 1 else 0) /\
  assoc K_ostart (expected_table r t) = Some (V_int, rstart r) /\
  assoc K_oend (expected_table r t) = Some (V_int, rend r) /\
  forall k, k <> K_note -> k <> K_ostart -> k <> K_oend -> assoc k (expected_table r t) = assoc k t.
Proof. exact expected_table_entries. Qed.
Print Assumptions C12_file_annotations_entries.

(* the annotations never make the call fail, unless structured_comment is not a dict (AttributeError) *)
Theorem C12_annotations_total : forall r an, (forall v, assoc K_sc an <> Some (TOpaque v)) ->
  exists o, write_annotations r an = Ok o.
Proof. exact write_annotations_total. Qed.
Print Assumptions C12_annotations_total.

(* ---- non-vacuity: the hypotheses are satisfiable on non-trivial inputs ---- *)
Definition ex_seq := [0; 1; 2; 3; 3; 2; 1; 0; 0; 1; 2; 3].
Definition ex_feats :=
  [ mkFeat 7 1 [mkPart 1 3 1] [] [] None None;
    mkFeat T_region 0 [mkPart 4 10 1] [2] [] None None;
    mkFeat T_cand 0 [mkPart 4 10 1] [2] [3] None None;
    mkFeat T_proto 0 [mkPart 4 10 1] [3] [] (Some [mkPart 5 8 1]) None;
    mkFeat T_core 0 [mkPart 5 8 1] [3] [] None None;
    mkFeat 7 2 [mkPart 8 9 (-1); mkPart 5 7 (-1)] [] [] None None;
    mkFeat T_motif 2 [mkPart 5 7 (-1)] [] [] (Some [mkPart 8 9 (-1)]) None;
    mkFeat 7 3 [mkPart 9 11 1] [] [] None None ].
Definition ex_region := mkR 4 10 [(2, [(3, [mkPart 5 8 1])])] [].

Example C12_ex_linear : exists o,
  wf_region ex_region (zlen ex_seq) /\ crosses ex_region = false /\
  write_to_genbank ex_region ex_seq ex_feats = Ok o /\
  o_seq o = [3; 2; 1; 0; 0; 1] /\ length (o_feats o) = 6%nat /\
  nums_of T_cand (o_feats o) = [1] /\ nums_of T_proto (o_feats o) = [1] /\
  numbers_ok (o_feats o) = true /\ o_parent o = ex_feats.
Proof. eexists. split; [unfold wf_region; cbn; lia|]. split; [reflexivity|]. split; [vm_compute; reflexivity|].
  repeat split; reflexivity. Qed.

Definition ex_cross_feats :=
  [ mkFeat 7 1 [mkPart 1 3 1] [] [] None None;
    mkFeat 7 2 [mkPart 10 12 1; mkPart 0 1 1] [] [] None None;
    mkFeat T_region 0 [mkPart 9 12 1; mkPart 0 4 1] [1] [] None None;
    mkFeat 7 3 [mkPart 9 10 (-1)] [] [] None None;
    mkFeat 7 4 [mkPart 5 7 1] [] [] None None ].
Definition ex_cross_region := mkR 9 4 [(1, [(1, [mkPart 10 12 1; mkPart 0 1 1])])] [].

Example C12_ex_crossing : exists o,
  wf_region ex_cross_region (zlen ex_seq) /\ crosses ex_cross_region = true /\
  Forall (wf_feat (zlen ex_seq)) ex_cross_feats /\
  write_to_genbank ex_cross_region ex_seq ex_cross_feats = Ok o /\
  o_seq o = [1; 2; 3; 0; 1; 2; 3] /\
  map floc (o_feats o) = [[mkPart 0 1 (-1)]; [mkPart 1 4 1]; [mkPart 0 7 1]; [mkPart 4 6 1]] /\
  map ftag (o_feats o) = [3; 2; 0; 1] /\ o_parent o = ex_cross_feats.
Proof. eexists. split; [unfold wf_region; cbn; lia|]. split; [reflexivity|].
  split; [repeat constructor; unfold wf_part; cbn; try lia; discriminate|].
  split; [vm_compute; reflexivity|]. repeat split; reflexivity. Qed.

Example C12_ex_renumber : lmin [4; 3; 5] = 3 /\ map (renum (lmin [4; 3; 5])) [4; 3; 5] = [2; 1; 3].
Proof. split; reflexivity. Qed.

Example C12_ex_cross_forward :
  offset_location [mkPart 10 12 1; mkPart 0 1 1] (- 9) (Some 12) = Ok [mkPart 1 4 1].
Proof. reflexivity. Qed.

(* the witnesses of the repaired findings now satisfy the property *)
Example C12_ex_cross_feature_partial : exists r sq feats o,
  wf_region r (zlen sq) /\ crosses r = true /\ write_to_genbank r sq feats = Ok o /\
  out_len r (zlen sq) = 5 /\ map ftag feats = [1; 2] /\ map ftag (o_feats o) = [2] /\
  map floc (o_feats o) = [[mkPart 1 4 1]].
Proof. exact cross_feature_partial_witness. Qed.

Example C12_ex_subregion_refs : exists r sq feats o,
  wf_region r (zlen sq) /\ crosses r = false /\
  write_to_genbank r sq feats = Ok o /\
  nums_of T_sub (o_feats o) = [1] /\
  flat_map (fun f => if ftype f =? T_region then fq2 f else []) (o_feats o) = [1] /\
  numbers_ok (o_feats o) = true.
Proof. exact subregion_refs_witness. Qed.

Example C12_ex_motif_wrapped : exists r sq feats o,
  wf_region r (zlen sq) /\ crosses r = true /\ write_to_genbank r sq feats = Ok o /\
  map floc (o_feats o) = [[mkPart 3 5 1]] /\ map fl1 (o_feats o) = [Some [mkPart 3 4 1]].
Proof. exact motif_wrapped_witness. Qed.

Example C12_ex_parent_unchanged : exists r sq feats o,
  wf_region r (zlen sq) /\ crosses r = true /\
  write_to_genbank r sq feats = Ok o /\ o_parent o = feats /\
  map fl1 feats = [None; Some w_core] /\ map fl1 (o_feats o) = [None; Some [mkPart 1 3 1]].
Proof. exact parent_unchanged_witness. Qed.

(* the annotations: a record as main.write_outputs hands it over (antiSMASH-Data with Version and Run
   date, key codes 10, 12) keeps its annotations, the file gets NOTE / Orig. start / Orig. end on top *)
Definition ex_annots : annots :=
  [(20, TOpaque 30); (K_sc, TSc [(K_asdata, [(10, (0, 11)); (12, (0, 13))])])].

Example C12_ex_annotations : exists o,
  write_to_genbank_rec ex_cross_region ex_seq ex_cross_feats ex_annots = Ok o /\
  file_sc (o2_ann o) = Some [(K_asdata, [(10, (0, 11)); (12, (0, 13)); (K_note, (V_note, 1));
                                          (K_ostart, (V_int, 9)); (K_oend, (V_int, 4))])] /\
  file_sc (o2_ann o) = Some (expected_sc ex_cross_region ex_annots) /\
  ao_parent (o2_ann o) = Some ex_annots /\ o_parent (o2_base o) = ex_cross_feats.
Proof. eexists. split; [vm_compute; reflexivity|]. repeat split; reflexivity. Qed.

(* what the deep copy is for: with dict(original_annotations) in its place (the outermost dict copied,
   the structured_comment dict shared) the same call leaves NOTE / Orig. start / Orig. end in the
   parent's antiSMASH-Data table - the frame theorem is not a triviality of the heap model.  A parent
   without structured_comment would not show it: the shallow copy is harmless there *)
Example C12_ex_shallow_copy_leaks : exists o,
  write_annotations_with dict_copy ex_cross_region ex_annots = Ok o /\
  ao_parent o = Some [(20, TOpaque 30);
                      (K_sc, TSc [(K_asdata, [(10, (0, 11)); (12, (0, 13)); (K_note, (V_note, 1));
                                              (K_ostart, (V_int, 9)); (K_oend, (V_int, 4))])])] /\
  ao_parent o <> Some ex_annots /\
  (exists o', write_annotations_with dict_copy ex_cross_region [(20, TOpaque 30)] = Ok o' /\
              ao_parent o' = Some [(20, TOpaque 30)]).
Proof. eexists. split; [vm_compute; reflexivity|]. split; [reflexivity|]. split; [discriminate|].
  eexists. split; [vm_compute; reflexivity|reflexivity]. Qed.
