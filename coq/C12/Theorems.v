(* C12 - property theorems about the model of region/helpers.py:write_to_genbank. *)
From ASV.C12 Require Import Model Proofs.
From ASV.C04 Require Import Proofs.
From Coq Require Import Sorting.Permutation.

(* the extract's sequence is the region's: base i of the file is base (start + i) mod N of the record
   (seq[start:end], or seq[start:] ++ seq[:end] for an origin-crossing region, which includes the
   region covering the whole ring from an offset, start = end: repaired finding whole_ring_region) -
   for every sequence, every feature list and every region *)
Theorem C12_sequence : forall r sq feats o,
  wf_region r (zlen sq) ->
  write_to_genbank r sq feats = Ok o ->
  o_seq o = expected_seq r sq /\
  length (o_seq o) = Z.to_nat (out_len r (zlen sq)) /\
  forall i, (i < Z.to_nat (out_len r (zlen sq)))%nat ->
    nth i (o_seq o) (-1) = nth (Z.to_nat ((rstart r + Z.of_nat i) mod zlen sq)) sq (-1).
Proof. exact sequence_full. Qed.
Print Assumptions C12_sequence.

(* a location covering the whole ring (the whole-ring region itself, its candidate cluster, a
   protocluster or core with a whole-ring extent) is written as [0, N) with the location's strand; every
   other location goes through offset_location, as before the repair of whole_ring_region *)
Theorem C12_whole_ring_location : forall l start N,
  (0 <= N -> llen l = N -> linearise_loc l start N = Ok [mkPart 0 N (lstrand l)]) /\
  (llen l <> N -> linearise_loc l start N = offset_location l (- start) (Some N)).
Proof. intros l start N. split; [apply linearise_whole|apply linearise_plain]. Qed.
Print Assumptions C12_whole_ring_location.

(* a region that does not cross the origin keeps exactly the features lying completely inside it, in
   the record's order, with the same type and identity; each covers the images of the same bases
   (y in the file <-> y + start in the record), has the same length and the same strands *)
Theorem C12_shift_same_bases_linear : forall r sq feats o,
  wf_region r (zlen sq) -> crosses r = false -> write_to_genbank r sq feats = Ok o ->
  Forall2 (same_bases (- rstart r)) (filter (inside (rstart r) (rend r)) feats) (o_feats o).
Proof. exact write_linear_same_bases. Qed.
Print Assumptions C12_shift_same_bases_linear.

(* an origin-crossing region: first the features before the origin (same bases, moved by -start), then
   the origin-crossing features of the record whose parts all lie within the region (and only those:
   repaired finding wrapped_region_partial_feature) with offset_location(-start, wrap N) applied, then
   the features after the origin (same bases, moved by N - start); well-formed features whose exon
   lengths do not add up to N *)
Theorem C12_shift_same_bases_crossing : forall r sq feats o,
  wf_region r (zlen sq) -> crosses r = true -> write_to_genbank r sq feats = Ok o ->
  Forall (wf_feat (zlen sq)) feats ->
  let N := zlen sq in
  exists ga gb gc, o_feats o = ga ++ gb ++ gc /\
    Forall2 (same_bases (- rstart r)) (filter (inside (rstart r) N) feats) ga /\
    Forall2 (fun f g => offset_location (floc f) (- rstart r) (Some N) = Ok (floc g) /\ same_id f g)
            (filter (cross_kept r) feats) gb /\
    Forall2 (same_bases (N - rstart r)) (filter (inside 0 (rend r)) feats) gc.
Proof. exact write_crossing_same_bases. Qed.
Print Assumptions C12_shift_same_bases_crossing.

(* the origin-crossing forward feature [a,N)+[0,b) inside an origin-crossing region becomes the single
   part [a - start, N - start + b): same length, contiguous in the file.  Partial: other shapes of
   origin-crossing features (reverse strand, more exons) are covered by C04_offset_simple_ring for single
   parts and by the correspondence run *)
Theorem C12_cross_feature_forward_partial : forall N a b start st,
  st <> -1 ->
  0 <= b -> b < start -> start <= a -> a < N -> 0 < b -> b + (N - a) < N ->
  offset_location [mkPart a N st; mkPart 0 b st] (- start) (Some N)
  = Ok [mkPart (a - start) (N - start + b) st].
Proof. exact offset_cross_forward. Qed.
Print Assumptions C12_cross_feature_forward_partial.

(* the reverse-strand counterpart, exons in transcription order [0,b) then [a,N) (since the repair of finding
   C04-K3 offset_location joins consecutive reverse-strand parts downwards; before, this feature stayed in two
   parts, and the listed order [a,N),[0,b) - not a transcription order on the reverse strand - was joined) *)
Theorem C12_cross_feature_reverse_partial : forall N a b start,
  0 <= b -> b < start -> start <= a -> a < N -> 0 < b -> b + (N - a) < N ->
  offset_location [mkPart 0 b (-1); mkPart a N (-1)] (- start) (Some N)
  = Ok [mkPart (a - start) (N - start + b) (-1)].
Proof. exact offset_cross_reverse. Qed.
Print Assumptions C12_cross_feature_reverse_partial.

(* ... and that part lies inside the extract when the region contains the feature (b <= end) *)
Theorem C12_cross_feature_forward_inside : forall r N a b st,
  wf_region r N -> crosses r = true -> in_wrapped_region r [mkPart a N st; mkPart 0 b st] = true ->
  0 < b -> a < N -> 0 < rstart r <= a ->
  0 <= a - rstart r /\ N - rstart r + b <= out_len r N.
Proof. exact offset_cross_forward_inside. Qed.
Print Assumptions C12_cross_feature_forward_inside.

(* renumbering by rank (repaired finding wrapped_region_numbering): the old numbers of the map are the
   numbers of the features of that type in the extract, the new numbers are exactly 1, 2, ..., k in that
   order (no gaps, whatever the old numbers were), each used once - for every feature list *)
Theorem C12_renumber : forall crossing t fs m, renumbering crossing t fs = Ok m ->
  Permutation (map fst m) (nums_of t fs) /\ map snd m = zrange1 (length (nums_of t fs)) /\
  NoDup (map snd m).
Proof. exact renumbering_spec. Qed.
Print Assumptions C12_renumber.

(* two different old numbers never get the same new number *)
Theorem C12_renumber_injective : forall m n n' i, NoDup (map snd m) ->
  new_number m n = Ok i -> new_number m n' = Ok i -> n = n'.
Proof. exact new_number_inj. Qed.
Print Assumptions C12_renumber_injective.

(* the three maps used are the renumberings of the extract's candidate cluster, protocluster and
   sub-region features (fs = the features of the extract), and they are injective *)
Theorem C12_renumber_context : forall r N fs c, make_ctx r N fs = Ok c ->
  (renumbering (crosses r) T_cand fs = Ok (c_cc c) /\
   renumbering (crosses r) T_proto fs = Ok (c_pc c) /\
   renumbering (crosses r) T_sub fs = Ok (c_sub c) /\
   c_protos c = all_protos r /\ c_start c = rstart r /\ c_len c = N) /\ ctx_ok c.
Proof. intros r N fs c H. split; [exact (make_ctx_spec r N fs c H)|exact (make_ctx_ok r N fs c H)]. Qed.
Print Assumptions C12_renumber_context.

(* what is rewritten per feature type: region: candidate_cluster_numbers and subregion_numbers;
   cand_cluster: its number and its protocluster list; protocluster / proto_core: the number (which
   must be a protocluster of the region); subregion: its number - all through the maps; type, identity
   and location of a feature are never touched by the renumbering *)
Theorem C12_adjust_numbers : forall c f g, adjust_feat c f = Ok g ->
  (floc g = floc f /\ ftype g = ftype f /\ ftag g = ftag f) /\
  (ftype f = T_region -> mapM (new_number (c_cc c)) (fq1 f) = Ok (fq1 g) /\
                         mapM (new_number (c_sub c)) (fq2 f) = Ok (fq2 g)) /\
  (ftype f = T_cand -> exists n q i, fq1 f = n :: q /\ new_number (c_cc c) n = Ok i /\ fq1 g = [i] /\
                                     mapM (new_number (c_pc c)) (fq2 f) = Ok (fq2 g)) /\
  (ftype f = T_proto \/ ftype f = T_core ->
     exists n q i, fq1 f = n :: q /\ new_number (c_pc c) n = Ok i /\ fq1 g = [i] /\
                   lookup_last n (c_protos c) None <> None) /\
  (ftype f = T_sub -> exists n q i, fq1 f = n :: q /\ new_number (c_sub c) n = Ok i /\ fq1 g = [i]).
Proof. exact adjust_numbers_full. Qed.
Print Assumptions C12_adjust_numbers.

(* cross references stay consistent: the region feature lists candidate n iff its rewritten list holds
   the candidate's new number; the candidate lists protocluster n iff its rewritten list holds the new
   number of the protocluster / proto_core feature; the region feature lists sub-region n iff its
   rewritten list holds the sub-region's new number (repaired finding subregion_refs_not_renumbered) *)
Theorem C12_refs_region_candidate : forall c fr fc gr gc n q, ctx_ok c ->
  ftype fr = T_region -> ftype fc = T_cand ->
  adjust_feat c fr = Ok gr -> adjust_feat c fc = Ok gc -> fq1 fc = n :: q ->
  exists i, new_number (c_cc c) n = Ok i /\ fq1 gc = [i] /\ (In n (fq1 fr) <-> In i (fq1 gr)).
Proof. exact refs_region_cand. Qed.
Print Assumptions C12_refs_region_candidate.

Theorem C12_refs_candidate_protocluster : forall c fc fp gc gp n q, ctx_ok c ->
  ftype fc = T_cand -> (ftype fp = T_proto \/ ftype fp = T_core) ->
  adjust_feat c fc = Ok gc -> adjust_feat c fp = Ok gp -> fq1 fp = n :: q ->
  exists i, new_number (c_pc c) n = Ok i /\ fq1 gp = [i] /\ (In n (fq2 fc) <-> In i (fq2 gc)).
Proof. exact refs_cand_proto. Qed.
Print Assumptions C12_refs_candidate_protocluster.

Theorem C12_refs_region_subregion : forall c fr fs gr gs n q, ctx_ok c ->
  ftype fr = T_region -> ftype fs = T_sub ->
  adjust_feat c fr = Ok gr -> adjust_feat c fs = Ok gs -> fq1 fs = n :: q ->
  exists i, new_number (c_sub c) n = Ok i /\ fq1 gs = [i] /\ (In n (fq2 fr) <-> In i (fq2 gr)).
Proof. exact refs_region_sub. Qed.
Print Assumptions C12_refs_region_subregion.

(* the numbers written into the file (replaces C12_renumber_gap_refuted, repaired finding
   wrapped_region_numbering): for each of the three area types the new numbers of the extract's features
   are a permutation of 1..k - no gaps, no number twice - and in an origin-crossing region (where the
   parent's order is not the extract's) they follow the position in the extract: an area that starts
   earlier, or at the same base and is longer, has the smaller number, which is how a record built from
   the file numbers it.  For every input on which the call returns and whose extract (fs', before the
   renumbering) carries distinct numbers per type *)
Theorem C12_numbers_1_to_k : forall r sq feats s' fs' o t, t = T_cand \/ t = T_proto \/ t = T_sub ->
  build_base r sq feats = Ok (s', fs') -> write_to_genbank r sq feats = Ok o -> NoDup (nums_of t fs') ->
  Permutation (nums_of t (o_feats o)) (zrange1 (length (nums_of t fs'))) /\
  (crosses r = true -> position_order_type t (o_feats o) = true).
Proof. exact write_numbers_1_to_k. Qed.
Print Assumptions C12_numbers_1_to_k.

(* ... and when the region does not cross the origin, distinct numbers in the parent are enough *)
Theorem C12_numbers_linear_extract : forall r sq feats s' fs' t, crosses r = false ->
  build_base r sq feats = Ok (s', fs') -> NoDup (nums_of t feats) -> NoDup (nums_of t fs').
Proof. exact linear_extract_nodup. Qed.
Print Assumptions C12_numbers_linear_extract.

(* leader/tail locations (one part) are moved with the wrap point, like the feature itself (repaired
   finding wrapped_region_motif_offset): a part after the origin of an origin-crossing region goes to
   [a - start + N, b - start + N), a part at or after the region start to [a - start, b - start).
   Partial: locations of several parts are covered by the correspondence run *)
Theorem C12_motif_post_origin : forall N a b start st,
  0 <= a -> a < b -> b <= start -> start < N ->
  adjust_motif_loc start N [mkPart a b st] = Ok [mkPart (a - start + N) (b - start + N) st].
Proof. exact adjust_motif_post_origin. Qed.
Print Assumptions C12_motif_post_origin.

Theorem C12_motif_plain : forall N a b start st,
  0 <= start -> start <= a -> a < b -> b <= N -> b - a <> N ->
  adjust_motif_loc start N [mkPart a b st] = Ok [mkPart (a - start) (b - start) st].
Proof. exact adjust_motif_plain. Qed.
Print Assumptions C12_motif_plain.

(* after the call every feature of the parent is what it was before - for every input on which the
   call returns (repaired finding wrapped_region_parent_qualifiers: the extract is built from copies) *)
Theorem C12_parent_unchanged : forall r sq feats o, write_to_genbank r sq feats = Ok o ->
  o_parent o = feats.
Proof. exact write_parent_unchanged. Qed.
Print Assumptions C12_parent_unchanged.

Theorem C12_parent_locations_restored : forall r sq feats o, write_to_genbank r sq feats = Ok o ->
  map floc (o_parent o) = map floc feats /\ map ftype (o_parent o) = map ftype feats
  /\ map ftag (o_parent o) = map ftag feats.
Proof. exact write_parent_locations. Qed.
Print Assumptions C12_parent_locations_restored.

(* ---- the parent's annotations (nested dicts on a heap, shared by reference) ---- *)
(* _build_annotations only allocates: the heap after the call is the heap before it followed by new
   objects, so every dict that existed before - the record's annotations, its structured_comment, its
   antiSMASH-Data table and anything else - holds what it held; the region record's annotations are a
   new object.  For every heap, every address, every region on which the call returns *)
Theorem C12_annotations_frame : forall r h orig h' top,
  build_annotations_heap r h orig = Ok (h', top) ->
  (exists e, h' = h ++ e) /\ (length h <= top)%nat /\
  forall a, (a < length h)%nat -> nth_error h' a = nth_error h a.
Proof. exact annotations_frame. Qed.
Print Assumptions C12_annotations_frame.

(* ... hence whatever tree could be read below any address before the call is read there afterwards *)
Theorem C12_annotations_reads_kept : forall r h orig h' top,
  build_annotations_heap r h orig = Ok (h', top) ->
  forall a an, read_top h a = Some an -> read_top h' a = Some an.
Proof. exact annotations_reads_kept. Qed.
Print Assumptions C12_annotations_reads_kept.

(* laying out a tree and reading it back is the identity (the heap view loses nothing) *)
Theorem C12_annotations_load_read : forall an h h' a, load_top h an = (h', a) ->
  exists e, h' = h ++ e /\ (length h <= a)%nat /\ read_top h' a = Some an.
Proof. exact load_read. Qed.
Print Assumptions C12_annotations_load_read.

(* "writing region files leaves the full record unchanged", for the whole bio-level record: after
   write_to_genbank the parent's features AND its annotations are what they were - every region, every
   sequence, every feature list, every annotation tree on which the call returns *)
Theorem C12_full_record_unchanged : forall r sq feats an o,
  write_to_genbank_rec r sq feats an = Ok o ->
  o_parent (o2_base o) = feats /\ ao_parent (o2_ann o) = Some an.
Proof. exact write_rec_record_unchanged. Qed.
Print Assumptions C12_full_record_unchanged.

(* what the region file carries: the region record's annotations are the parent's with the
   structured comment expected_sc - the parent's structured comment (none: an empty one) in which the
   antiSMASH-Data table (none: a new one, added last) has NOTE, Orig. start and Orig. end set, an older
   NOTE / Orig. entry replaced in its place, new keys appended in that order, every other table and
   entry as in the parent.  Every annotation tree: no structured comment, structured comments without
   antiSMASH-Data, and the antiSMASH comment of main.add_antismash_comments *)
Theorem C12_file_annotations : forall r sq feats an o,
  write_to_genbank_rec r sq feats an = Ok o ->
  ao_file (o2_ann o) = Some (expected_annots r an) /\ file_sc (o2_ann o) = Some (expected_sc r an).
Proof. exact write_rec_file_annotations. Qed.
Print Assumptions C12_file_annotations.

Theorem C12_file_annotations_entries : forall r t,
  assoc K_note (expected_table r t) = Some (V_note, if crosses r then 1 else 0) /\
  assoc K_ostart (expected_table r t) = Some (V_int, rstart r) /\
  assoc K_oend (expected_table r t) = Some (V_int, rend r) /\
  forall k, k <> K_note -> k <> K_ostart -> k <> K_oend -> assoc k (expected_table r t) = assoc k t.
Proof. exact expected_table_entries. Qed.
Print Assumptions C12_file_annotations_entries.

(* the annotations never make the call fail, unless structured_comment is not a dict (AttributeError) *)
Theorem C12_annotations_total : forall r an, (forall v, assoc K_sc an <> Some (TOpaque v)) ->
  exists o, write_annotations r an = Ok o.
Proof. exact write_annotations_total. Qed.
Print Assumptions C12_annotations_total.

(* ---- non-vacuity: the hypotheses are satisfiable on non-trivial inputs ---- *)
Definition ex_seq := [0; 1; 2; 3; 3; 2; 1; 0; 0; 1; 2; 3].
Definition ex_feats :=
  [ mkFeat 7 1 [mkPart 1 3 1] [] [] None None;
    mkFeat T_region 0 [mkPart 4 10 1] [2] [] None None;
    mkFeat T_cand 0 [mkPart 4 10 1] [2] [3] None None;
    mkFeat T_proto 0 [mkPart 4 10 1] [3] [] (Some [mkPart 5 8 1]) None;
    mkFeat T_core 0 [mkPart 5 8 1] [3] [] None None;
    mkFeat 7 2 [mkPart 8 9 (-1); mkPart 5 7 (-1)] [] [] None None;
    mkFeat T_motif 2 [mkPart 5 7 (-1)] [] [] (Some [mkPart 8 9 (-1)]) None;
    mkFeat 7 3 [mkPart 9 11 1] [] [] None None ].
Definition ex_region := mkR 4 10 [(2, [(3, [mkPart 5 8 1])])] [].

Example C12_ex_linear : exists o,
  wf_region ex_region (zlen ex_seq) /\ crosses ex_region = false /\
  write_to_genbank ex_region ex_seq ex_feats = Ok o /\
  o_seq o = [3; 2; 1; 0; 0; 1] /\ length (o_feats o) = 6%nat /\
  nums_of T_cand (o_feats o) = [1] /\ nums_of T_proto (o_feats o) = [1] /\
  numbers_ok (o_feats o) = true /\ o_parent o = ex_feats.
Proof. eexists. split; [unfold wf_region; cbn; lia|]. split; [reflexivity|]. split; [vm_compute; reflexivity|].
  repeat split; reflexivity. Qed.

Definition ex_cross_feats :=
  [ mkFeat 7 1 [mkPart 1 3 1] [] [] None None;
    mkFeat 7 2 [mkPart 10 12 1; mkPart 0 1 1] [] [] None None;
    mkFeat T_region 0 [mkPart 9 12 1; mkPart 0 4 1] [] [] None None;
    mkFeat 7 3 [mkPart 9 10 (-1)] [] [] None None;
    mkFeat 7 4 [mkPart 5 7 1] [] [] None None ].
Definition ex_cross_region := mkR 9 4 [(1, [(1, [mkPart 10 12 1; mkPart 0 1 1])])] [].

Example C12_ex_crossing : exists o,
  wf_region ex_cross_region (zlen ex_seq) /\ crosses ex_cross_region = true /\
  Forall (wf_feat (zlen ex_seq)) ex_cross_feats /\
  write_to_genbank ex_cross_region ex_seq ex_cross_feats = Ok o /\
  o_seq o = [1; 2; 3; 0; 1; 2; 3] /\
  map floc (o_feats o) = [[mkPart 0 1 (-1)]; [mkPart 1 4 1]; [mkPart 0 7 1]; [mkPart 4 6 1]] /\
  map ftag (o_feats o) = [3; 2; 0; 1] /\ o_parent o = ex_cross_feats.
Proof. eexists. split; [unfold wf_region; cbn; lia|]. split; [reflexivity|].
  split; [repeat constructor; unfold wf_part; cbn; try lia; discriminate|].
  split; [vm_compute; reflexivity|]. repeat split; reflexivity. Qed.

(* sub-regions 4, 7, 5 at [6,9), [0,3), [0,5): without positions (a region that does not cross the origin
   keeps the parent's order) 4 -> 1, 5 -> 2, 7 -> 3; by position in the extract of an origin-crossing
   region the longer of the two areas starting at 0 comes first: 5 -> 1, 7 -> 2, 4 -> 3 *)
Definition ex_subs :=
  [ mkFeat T_sub 0 [mkPart 6 9 1] [4] [] None None; mkFeat T_sub 0 [mkPart 0 3 1] [7] [] None None;
    mkFeat T_sub 0 [mkPart 0 5 1] [5] [] None None ].
Example C12_ex_renumber :
  renumbering false T_sub ex_subs = Ok [(4, 1); (5, 2); (7, 3)] /\
  renumbering true T_sub ex_subs = Ok [(5, 1); (7, 2); (4, 3)].
Proof. split; reflexivity. Qed.

Example C12_ex_cross_forward :
  offset_location [mkPart 10 12 1; mkPart 0 1 1] (- 9) (Some 12) = Ok [mkPart 1 4 1].
Proof. reflexivity. Qed.

(* the witnesses of the repaired findings now satisfy the property *)
Example C12_ex_whole_ring : exists o,
  wf_region w_ring_region (zlen w_seq) /\ rstart w_ring_region = rend w_ring_region /\
  crosses w_ring_region = true /\
  write_to_genbank w_ring_region w_seq w_ring_feats = Ok o /\
  o_seq o = [0; 1; 2; 3; 0; 1; 0; 1; 2; 3] /\ o_seq o = expected_seq w_ring_region w_seq /\
  map ftag (o_feats o) = [1; 0; 2; 3] /\
  map floc (o_feats o) = [[mkPart 1 4 1]; [mkPart 0 10 1]; [mkPart 5 7 1]; [mkPart 7 9 (-1)]].
Proof. exact whole_ring_witness. Qed.

Example C12_ex_renumber_gap : exists o,
  wf_region w_gap_region (zlen w_seq) /\ crosses w_gap_region = true /\
  write_to_genbank w_gap_region w_seq w_gap_feats = Ok o /\
  map ftype (o_feats o) = [T_cand; T_proto; T_region; T_cand; T_proto] /\
  map floc (o_feats o) = [[mkPart 0 1 1]; [mkPart 0 1 1]; [mkPart 0 5 1]; [mkPart 3 4 1]; [mkPart 3 4 1]] /\
  map fq1 (o_feats o) = [[1]; [1]; [2; 1]; [2]; [2]] /\
  map fq2 (o_feats o) = [[1]; []; []; [2]; []] /\
  nums_of T_cand (o_feats o) = [1; 2] /\ nums_of T_proto (o_feats o) = [1; 2] /\
  numbers_ok (o_feats o) = true /\ position_order w_gap_region (o_feats o) = true.
Proof. exact renumber_gap_witness. Qed.

Example C12_ex_cross_feature_partial : exists r sq feats o,
  wf_region r (zlen sq) /\ crosses r = true /\ write_to_genbank r sq feats = Ok o /\
  out_len r (zlen sq) = 5 /\ map ftag feats = [1; 2] /\ map ftag (o_feats o) = [2] /\
  map floc (o_feats o) = [[mkPart 1 4 1]].
Proof. exact cross_feature_partial_witness. Qed.

Example C12_ex_subregion_refs : exists r sq feats o,
  wf_region r (zlen sq) /\ crosses r = false /\
  write_to_genbank r sq feats = Ok o /\
  nums_of T_sub (o_feats o) = [1] /\
  flat_map (fun f => if ftype f =? T_region then fq2 f else []) (o_feats o) = [1] /\
  numbers_ok (o_feats o) = true.
Proof. exact subregion_refs_witness. Qed.

Example C12_ex_motif_wrapped : exists r sq feats o,
  wf_region r (zlen sq) /\ crosses r = true /\ write_to_genbank r sq feats = Ok o /\
  map floc (o_feats o) = [[mkPart 3 5 1]] /\ map fl1 (o_feats o) = [Some [mkPart 3 4 1]].
Proof. exact motif_wrapped_witness. Qed.

Example C12_ex_parent_unchanged : exists r sq feats o,
  wf_region r (zlen sq) /\ crosses r = true /\
  write_to_genbank r sq feats = Ok o /\ o_parent o = feats /\
  map fl1 feats = [None; Some w_core] /\ map fl1 (o_feats o) = [None; Some [mkPart 1 3 1]].
Proof. exact parent_unchanged_witness. Qed.

(* the annotations: a record as main.write_outputs hands it over (antiSMASH-Data with Version and Run
   date, key codes 10, 12) keeps its annotations, the file gets NOTE / Orig. start / Orig. end on top *)
Definition ex_annots : annots :=
  [(20, TOpaque 30); (K_sc, TSc [(K_asdata, [(10, (0, 11)); (12, (0, 13))])])].

Example C12_ex_annotations : exists o,
  write_to_genbank_rec ex_cross_region ex_seq ex_cross_feats ex_annots = Ok o /\
  file_sc (o2_ann o) = Some [(K_asdata, [(10, (0, 11)); (12, (0, 13)); (K_note, (V_note, 1));
                                          (K_ostart, (V_int, 9)); (K_oend, (V_int, 4))])] /\
  file_sc (o2_ann o) = Some (expected_sc ex_cross_region ex_annots) /\
  ao_parent (o2_ann o) = Some ex_annots /\ o_parent (o2_base o) = ex_cross_feats.
Proof. eexists. split; [vm_compute; reflexivity|]. repeat split; reflexivity. Qed.

(* what the deep copy is for: with dict(original_annotations) in its place (the outermost dict copied,
   the structured_comment dict shared) the same call leaves NOTE / Orig. start / Orig. end in the
   parent's antiSMASH-Data table - the frame theorem is not a triviality of the heap model.  A parent
   without structured_comment would not show it: the shallow copy is harmless there *)
Example C12_ex_shallow_copy_leaks : exists o,
  write_annotations_with dict_copy ex_cross_region ex_annots = Ok o /\
  ao_parent o = Some [(20, TOpaque 30);
                      (K_sc, TSc [(K_asdata, [(10, (0, 11)); (12, (0, 13)); (K_note, (V_note, 1));
                                              (K_ostart, (V_int, 9)); (K_oend, (V_int, 4))])])] /\
  ao_parent o <> Some ex_annots /\
  (exists o', write_annotations_with dict_copy ex_cross_region [(20, TOpaque 30)] = Ok o' /\
              ao_parent o' = Some [(20, TOpaque 30)]).
Proof. eexists. split; [vm_compute; reflexivity|]. split; [reflexivity|]. split; [discriminate|].
  eexists. split; [vm_compute; reflexivity|reflexivity]. Qed.
