(* C12 - per-region GenBank extracts.
   Faithful executable model of antismash/common/secmet/features/region/helpers.py:
   RegionData.crosses_origin, _linearise_location, _build_annotations (the three antiSMASH-Data
   entries), _build_record_from_cross_origin, _build_base_record, _adjust_motif, _adjust_protocluster,
   _build_renumbering, _adjust_features and write_to_genbank (including the save/restore of the parent's feature
   locations), over the bio-level view of a record: a sequence (list of base codes) and the
   ordered list of SeqFeatures (type, location, the qualifiers the code reads or writes).
   Biopython's SeqRecord slicing (keep the features that lie completely inside, shift them by
   -start, shallow-copy the qualifiers) and SeqRecord addition are transcribed from Biopython
   1.81 and are checked by the correspondence run only.  offset_location, location_bridges_origin
   come from Common/Loc.v (C04).
   The annotations of the parent SeqRecord (a dict holding the structured_comment dict, which holds
   the antiSMASH-Data dict) are modelled as objects on a small heap, because they are shared by
   reference between the full record and whatever _build_annotations makes of them: copy.deepcopy,
   dict.setdefault and item assignment are transcribed as heap operations, and the parent's
   annotations after the call are read back from the heap.  No proofs here. *)
From ASV Require Export Loc.

(* feature type codes used by the flat encoding; every other type is "other" *)
Definition T_region := 1.
Definition T_cand := 2.
Definition T_proto := 3.
Definition T_core := 4.
Definition T_sub := 5.
Definition T_motif := 6.

(* fq1/fq2/fl1/fl2 by type:
   region       fq1 = candidate_cluster_numbers   fq2 = subregion_numbers
   cand_cluster fq1 = [candidate_cluster_number]  fq2 = protoclusters
   protocluster fq1 = [protocluster_number]       fl1 = core_location
   proto_core   fq1 = [protocluster_number]
   subregion    fq1 = [subregion_number]
   CDS_motif    fl1 = leader_location  fl2 = tail_location   (None = qualifier absent)
   ftag identifies the feature (gene index ...) and is never touched *)
Record feat := mkFeat {
  ftype : Z; ftag : Z; floc : loc;
  fq1 : list Z; fq2 : list Z; fl1 : option loc; fl2 : option loc }.

Definition set_loc (f : feat) (l : loc) : feat :=
  mkFeat (ftype f) (ftag f) l (fq1 f) (fq2 f) (fl1 f) (fl2 f).
Definition set_q1 (f : feat) (q : list Z) : feat :=
  mkFeat (ftype f) (ftag f) (floc f) q (fq2 f) (fl1 f) (fl2 f).
Definition set_q12 (f : feat) (q1 q2 : list Z) : feat :=
  mkFeat (ftype f) (ftag f) (floc f) q1 q2 (fl1 f) (fl2 f).
Definition set_q1_l1 (f : feat) (q : list Z) (l : option loc) : feat :=
  mkFeat (ftype f) (ftag f) (floc f) q (fq2 f) l (fl2 f).
Definition set_l12 (f : feat) (a b : option loc) : feat :=
  mkFeat (ftype f) (ftag f) (floc f) (fq1 f) (fq2 f) a b.

(* RegionData: start, end, the candidate clusters (number, protoclusters as (number, core
   location)) and the subregion numbers *)
Record rdata := mkR {
  rstart : Z; rend : Z;
  rcands : list (Z * list (Z * loc));
  rsubs : list Z }.

(* start >= end: a region is never empty, so start = end is a region covering the whole ring, cut at
   start (repaired finding whole_ring_region) *)
Definition crosses (r : rdata) : bool := rend r <=? rstart r.

(* ---------- Python / Biopython slicing ---------- *)
(* slice.indices(N) for one bound, step 1 *)
Definition clamp (N x : Z) : Z := if x <? 0 then Z.max (x + N) 0 else Z.min x N.

Definition pyslice {A} (s : list A) (a b : Z) : list A :=
  firstn (Z.to_nat (b - a)) (skipn (Z.to_nat a) s).

Definition shift_loc (l : loc) (d : Z) : loc :=
  map (fun p => mkPart (ps p + d) (pe p + d) (pst p)) l.

(* SeqRecord.__getitem__(slice(a, b)) on the features: a, b already clamped *)
Definition slice_feats (feats : list feat) (a b : Z) : list feat :=
  map (fun f => set_loc f (shift_loc (floc f) (- a)))
      (filter (fun f => (a <=? lstart (floc f)) && (lend (floc f) <=? b)) feats).

(* ---------- _build_annotations ---------- *)
(* (NOTE kind: 1 = cross-origin text, 0 = plain text; Orig. start; Orig. end) *)
Definition build_annotations (r : rdata) : list Z :=
  [if crosses r then 1 else 0; rstart r; rend r].

(* ---------- _linearise_location ---------- *)
(* a location covering the whole ring is left alone by offset_location (it is the same at any
   offset); in the linear extract it is FeatureLocation(0, record_length, location.strand) *)
Definition linearise_loc (l : loc) (start N : Z) : res loc :=
  if llen l =? N then do p <- mkFL 0 N (lstrand l); Ok [p]
  else offset_location l (- start) (Some N).

(* ---------- _build_record_from_cross_origin ---------- *)
(* every part of an origin-crossing feature lies in the pre-origin or in the post-origin half of
   the region: all(part.start >= region.start or part.end <= region.end) *)
Definition in_wrapped_region (r : rdata) (l : loc) : bool :=
  forallb (fun p => (rstart r <=? ps p) || (pe p <=? rend r)) l.

(* the origin-crossing features of the record that are taken over (as copies) *)
Definition cross_kept (r : rdata) (f : feat) : bool :=
  bridges (floc f) && in_wrapped_region r (floc f).

(* returns the new sequence and the new feature list; every feature of the new record is a copy
   (slices copy; the origin-crossing features are rebuilt as new SeqFeatures with a copied
   qualifier dict), so the parent's features are not touched *)
Definition build_cross (r : rdata) (sq : list Z) (feats : list feat)
  : res (list Z * list feat) :=
  let N := zlen sq in
  let a := clamp N (rstart r) in
  let b := clamp N (rend r) in
  let pre := slice_feats feats a N in
  let post0 := slice_feats feats 0 b in
  let sq' := pyslice sq a N ++ pyslice sq 0 b in
  do post <- mapM (fun f => do l <- offset_location (floc f) (N - rstart r) (Some N);
                            Ok (set_loc f l)) post0;
  do cross <- mapM (fun f => do l <- linearise_loc (floc f) (rstart r) N;
                             Ok (set_loc f l)) (filter (cross_kept r) feats);
  Ok (sq', pre ++ cross ++ post).

(* ---------- _build_base_record ---------- *)
Definition build_base (r : rdata) (sq : list Z) (feats : list feat)
  : res (list Z * list feat) :=
  if crosses r then build_cross r sq feats
  else
    let N := zlen sq in
    let a := clamp N (rstart r) in
    let b := clamp N (rend r) in
    Ok (pyslice sq a b, slice_feats feats a b).

(* ---------- build_location_from_others on single parts (as used by _adjust_motif) ---------- *)
Definition blo_step (location : loc) (p : part) : res loc :=
  if ps p =? lend location then
    match last_opt location with
    | None => Err E_Index
    | Some lp =>
      do ns <- mkFL (ps lp) (pe p) (lstrand location);
      Ok (removelast location ++ [ns])
    end
  else Ok (location ++ [p]).

Fixpoint blo_go (location : loc) (rest : list part) : res loc :=
  match rest with
  | [] => Ok location
  | p :: r => do l <- blo_step location p; blo_go l r
  end.

Definition build_location_from_parts (parts : list part) : res loc :=
  match parts with
  | [] => Err E_Value
  | p :: r => blo_go [p] r
  end.

(* ---------- _adjust_motif ---------- *)
(* every part is moved with offset_location(part, -region.start, wrap_point=len(record)) and the
   parts of the results are collected *)
Definition adjust_motif_loc (start N : Z) (l : loc) : res loc :=
  do parts <- mapM (fun p => offset_location [p] (- start) (Some N)) l;
  build_location_from_parts (concat parts).

Definition adjust_motif_opt (start N : Z) (o : option loc) : res (option loc) :=
  match o with
  | None => Ok None
  | Some l => do l' <- adjust_motif_loc start N l; Ok (Some l')
  end.

(* ---------- _build_renumbering ---------- *)
(* (start, -length, number in the parent record) of every feature of one type in the extract; in a
   region that does not cross the origin the extract keeps the parent's order and the position part
   is (0, 0).  feature.qualifiers[qualifier][0] of a feature without the qualifier: KeyError *)
Definition nkey := (Z * Z * Z)%type.
Definition nk_num (k : nkey) : Z := snd k.
(* tuple comparison *)
Definition nkey_lt (a b : nkey) : bool :=
  let '(s1, l1, n1) := a in
  let '(s2, l2, n2) := b in
  (s1 <? s2) || ((s1 =? s2) && ((l1 <? l2) || ((l1 =? l2) && (n1 <? n2)))).

Definition feat_key (crossing : bool) (f : feat) (n : Z) : nkey :=
  if crossing then (lstart (floc f), - llen (floc f), n) else (0, 0, n).

Fixpoint num_keys (crossing : bool) (t : Z) (fs : list feat) : res (list nkey) :=
  match fs with
  | [] => Ok []
  | f :: rest =>
    if ftype f =? t then
      match fq1 f with
      | [] => Err E_Key
      | n :: _ => do ks <- num_keys crossing t rest; Ok (feat_key crossing f n :: ks)
      end
    else num_keys crossing t rest
  end.

(* {original: index + 1 for index, (_, _, original) in enumerate(sorted(ordered))}, as the list of
   insertions (a later insertion with the same key replaces the value) *)
Fixpoint number_from (i : Z) (ks : list nkey) : list (Z * Z) :=
  match ks with
  | [] => []
  | k :: r => (nk_num k, i) :: number_from (i + 1) r
  end.

Definition renumbering (crossing : bool) (t : Z) (fs : list feat) : res (list (Z * Z)) :=
  do ks <- num_keys crossing t fs; Ok (number_from 1 (sort_by nkey_lt ks)).

Fixpoint lookup_num (k : Z) (l : list (Z * Z)) (acc : option Z) : option Z :=
  match l with
  | [] => acc
  | (k', v) :: r => lookup_num k r (if k' =? k then Some v else acc)
  end.

(* numbers[n] *)
Definition new_number (m : list (Z * Z)) (n : Z) : res Z :=
  match lookup_num n m None with Some i => Ok i | None => Err E_Key end.

(* ---------- _adjust_features ---------- *)
Record actx := mkCtx {
  c_cc : list (Z * Z); c_pc : list (Z * Z); c_sub : list (Z * Z);   (* the three renumberings *)
  c_protos : list (Z * loc);       (* protoclusters_by_original_number, insertion order *)
  c_start : Z; c_len : Z }.

(* dict semantics: a later insertion with the same key replaces the value *)
Fixpoint lookup_last (k : Z) (l : list (Z * loc)) (acc : option loc) : option loc :=
  match l with
  | [] => acc
  | (k', v) :: r => lookup_last k r (if k' =? k then Some v else acc)
  end.

Definition all_protos (r : rdata) : list (Z * loc) := flat_map snd (rcands r).

(* fs = the features of the extract (region_record.features) *)
Definition make_ctx (r : rdata) (N : Z) (fs : list feat) : res actx :=
  do cc <- renumbering (crosses r) T_cand fs;
  do pc <- renumbering (crosses r) T_proto fs;
  do sb <- renumbering (crosses r) T_sub fs;
  Ok (mkCtx cc pc sb (all_protos r) (rstart r) N).

Definition adjust_feat (c : actx) (f : feat) : res feat :=
  if ftype f =? T_region then
    (* subregion_numbers first, then (if there are any) candidate_cluster_numbers *)
    do subs <- mapM (new_number (c_sub c)) (fq2 f);
    match fq1 f with
    | [] => Ok (set_q12 f [] subs)
    | q => do cs <- mapM (new_number (c_cc c)) q; Ok (set_q12 f cs subs)
    end
  else if ftype f =? T_cand then
    match fq1 f with
    | [] => Err E_Key
    | n :: _ =>
      do n' <- new_number (c_cc c) n;
      do ps <- mapM (new_number (c_pc c)) (fq2 f);
      Ok (set_q12 f [n'] ps)
    end
  else if (ftype f =? T_proto) || (ftype f =? T_core) then
    match fq1 f with
    | [] => Err E_Key
    | orig :: _ =>
      do new <- new_number (c_pc c) orig;
      match lookup_last orig (c_protos c) None with
      | None => Err E_Key
      | Some core =>
        if ftype f =? T_proto then
          do nl <- linearise_loc core (c_start c) (c_len c);
          Ok (set_q1_l1 f [new] (Some nl))
        else Ok (set_q1 f [new])
      end
    end
  else if ftype f =? T_sub then
    match fq1 f with
    | [] => Err E_Key
    | n :: _ => do n' <- new_number (c_sub c) n; Ok (set_q1 f [n'])
    end
  else if ftype f =? T_motif then
    do a <- adjust_motif_opt (c_start c) (c_len c) (fl1 f);
    do b <- adjust_motif_opt (c_start c) (c_len c) (fl2 f);
    Ok (set_l12 f a b)
  else Ok f.

(* ---------- write_to_genbank ---------- *)
Record output := mkOut {
  o_seq : list Z; o_feats : list feat; o_annot : list Z;
  o_parent : list feat }.          (* the parent's features after the call *)

(* "undo any location modifications": every parent feature gets the location saved at the start *)
Fixpoint restore (feats : list feat) (locs : list loc) : list feat :=
  match feats, locs with
  | f :: fr, l :: lr => set_loc f l :: restore fr lr
  | _, _ => []
  end.

Definition write_to_genbank (r : rdata) (sq : list Z) (feats : list feat) : res output :=
  let original_locations := map floc feats in
  do base <- build_base r sq feats;
  let '(sq', rfeats) := base in
  do c <- make_ctx r (zlen sq) rfeats;
  do adjusted <- mapM (adjust_feat c) rfeats;
  let annot := build_annotations r in
  Ok (mkOut sq' adjusted annot (restore feats original_locations)).

(* ---------- the parent's annotations: nested dicts shared by reference ---------- *)
(* key codes of the flat encoding; every other key is a code >= 10 given by the harness *)
Definition K_sc := 1.        (* "structured_comment" *)
Definition K_asdata := 2.    (* "antiSMASH-Data" *)
Definition K_note := 3.      (* "NOTE" *)
Definition K_ostart := 4.    (* "Orig. start" *)
Definition K_oend := 5.      (* "Orig. end" *)
(* a string value of a structured-comment table is (tag, n): (0, code) any other string,
   (1, kind) one of the two NOTE texts of _build_annotations (0 plain, 1 cross-origin),
   (2, n) str(n) *)
Definition V_note := 1.
Definition V_int := 2.
Definition sval := (Z * Z)%type.

(* tree view (what the flat encoding carries and what is compared): a table is an ordered
   str -> str dict, a structured comment an ordered dict of tables, the annotations an ordered dict
   whose values are either immutable (strings, numbers, lists nobody writes to: opaque codes) or a
   structured comment *)
Definition table := list (Z * sval).
Definition scomment := list (Z * table).
Inductive topv := TOpaque (v : Z) | TSc (s : scomment).
Definition annots := list (Z * topv).

(* heap view: every dict is an object with an address (its position in the heap) *)
Inductive hval := HOpaque (v : Z) | HRef (a : nat).
Inductive obj :=
| OTop (d : list (Z * hval))
| OSc (d : list (Z * nat))
| OTab (d : table).
Definition heap := list obj.

Definition alloc (h : heap) (o : obj) : heap * nat := (h ++ [o], length h).

Fixpoint update (h : heap) (a : nat) (o : obj) : heap :=
  match h, a with
  | [], _ => []
  | _ :: r, O => o :: r
  | x :: r, S a' => x :: update r a' o
  end.

(* Python dict: d.get(k), d[k] = v (an existing key keeps its position, a new key goes last) *)
Fixpoint assoc {V} (k : Z) (d : list (Z * V)) : option V :=
  match d with
  | [] => None
  | (k', v) :: r => if k' =? k then Some v else assoc k r
  end.
Fixpoint dict_set {V} (k : Z) (v : V) (d : list (Z * V)) : list (Z * V) :=
  match d with
  | [] => [(k, v)]
  | (k', v') :: r => if k' =? k then (k', v) :: r else (k', v') :: dict_set k v r
  end.

(* laying a tree out on the heap (how the record's annotations come to be: add_antismash_comments,
   the GenBank parser) and reading the tree below an address back *)
Fixpoint load_sc (h : heap) (s : scomment) : heap * list (Z * nat) :=
  match s with
  | [] => (h, [])
  | (k, t) :: r =>
    let '(h1, a) := alloc h (OTab t) in
    let '(h2, d) := load_sc h1 r in (h2, (k, a) :: d)
  end.
Fixpoint load_entries (h : heap) (an : annots) : heap * list (Z * hval) :=
  match an with
  | [] => (h, [])
  | (k, TOpaque v) :: r =>
    let '(h1, d) := load_entries h r in (h1, (k, HOpaque v) :: d)
  | (k, TSc s) :: r =>
    let '(h1, ds) := load_sc h s in
    let '(h2, a) := alloc h1 (OSc ds) in
    let '(h3, d) := load_entries h2 r in (h3, (k, HRef a) :: d)
  end.
Definition load_top (h : heap) (an : annots) : heap * nat :=
  let '(h1, d) := load_entries h an in alloc h1 (OTop d).

Fixpoint read_sc (h : heap) (d : list (Z * nat)) : option scomment :=
  match d with
  | [] => Some []
  | (k, a) :: r =>
    match nth_error h a, read_sc h r with
    | Some (OTab t), Some s => Some ((k, t) :: s)
    | _, _ => None
    end
  end.
Fixpoint read_entries (h : heap) (d : list (Z * hval)) : option annots :=
  match d with
  | [] => Some []
  | (k, HOpaque v) :: r =>
    match read_entries h r with Some x => Some ((k, TOpaque v) :: x) | None => None end
  | (k, HRef a) :: r =>
    match nth_error h a with
    | Some (OSc ds) =>
      match read_sc h ds, read_entries h r with
      | Some s, Some x => Some ((k, TSc s) :: x)
      | _, _ => None
      end
    | _ => None
    end
  end.
Definition read_top (h : heap) (a : nat) : option annots :=
  match nth_error h a with Some (OTop d) => read_entries h d | _ => None end.

(* copy.deepcopy of the annotations: a new object for every dict below the address (the structure is
   a tree: no dict is reachable twice).  dict(x) - the shallow copy - makes a new object for the
   outermost dict only; it is NOT what the code does and is here for the example in Theorems.v that
   shows what the deep copy is needed for *)
Definition deepcopy (h : heap) (a : nat) : res (heap * nat) :=
  match read_top h a with
  | Some an => Ok (load_top h an)
  | None => Err E_Type
  end.
Definition dict_copy (h : heap) (a : nat) : res (heap * nat) :=
  match nth_error h a with
  | Some (OTop d) => Ok (alloc h (OTop d))
  | _ => Err E_Type
  end.

Definition get_top (h : heap) (a : nat) : res (list (Z * hval)) :=
  match nth_error h a with Some (OTop d) => Ok d | _ => Err E_Type end.
Definition get_sc (h : heap) (a : nat) : res (list (Z * nat)) :=
  match nth_error h a with Some (OSc d) => Ok d | _ => Err E_Type end.
Definition tab_set (h : heap) (a : nat) (k : Z) (v : sval) : res heap :=
  match nth_error h a with
  | Some (OTab t) => Ok (update h a (OTab (dict_set k v t)))
  | _ => Err E_Type
  end.

(* _build_annotations on the heap; orig = address of record.annotations; returns the heap afterwards
   and the address of the region record's annotations *)
Definition build_annotations_with (copy : heap -> nat -> res (heap * nat))
    (r : rdata) (h : heap) (orig : nat) : res (heap * nat) :=
  (* annotations = deepcopy(original_annotations) *)
  do c <- copy h orig;
  let '(h1, top) := c in
  (* annotations.setdefault("structured_comment", {}) *)
  do d <- get_top h1 top;
  let h2 := match assoc K_sc d with
            | Some _ => h1
            | None => let '(h', a) := alloc h1 (OSc []) in
                      update h' top (OTop (d ++ [(K_sc, HRef a)]))
            end in
  (* annotations["structured_comment"].setdefault("antiSMASH-Data", {}) *)
  do d2 <- get_top h2 top;
  do sc <- (match assoc K_sc d2 with
            | Some (HRef a) => Ok a
            | Some (HOpaque _) => Err E_Attribute      (* not a dict: no setdefault *)
            | None => Err E_Key
            end);
  do ds <- get_sc h2 sc;
  let h3 := match assoc K_asdata ds with
            | Some _ => h2
            | None => let '(h', a) := alloc h2 (OTab []) in
                      update h' sc (OSc (ds ++ [(K_asdata, a)]))
            end in
  (* antismash_comment = annotations["structured_comment"]["antiSMASH-Data"] *)
  do ds3 <- get_sc h3 sc;
  do tab <- (match assoc K_asdata ds3 with Some a => Ok a | None => Err E_Key end);
  do h4 <- tab_set h3 tab K_note (V_note, if crosses r then 1 else 0);
  do h5 <- tab_set h4 tab K_ostart (V_int, rstart r);
  do h6 <- tab_set h5 tab K_oend (V_int, rend r);
  Ok (h6, top).

Definition build_annotations_heap := build_annotations_with deepcopy.

(* the annotations of the region record (as far as they reach the file: its structured comment) and
   the annotations of the parent record after the call *)
Record annot_out := mkAO { ao_file : option annots; ao_parent : option annots }.

Definition write_annotations_with copy (r : rdata) (an : annots) : res annot_out :=
  let '(h0, root) := load_top [] an in
  do x <- build_annotations_with copy r h0 root;
  let '(h1, top) := x in
  Ok (mkAO (read_top h1 top) (read_top h1 root)).
Definition write_annotations := write_annotations_with deepcopy.

(* write_to_genbank on the whole bio-level record: features first (an exception there comes before
   the annotations are built), then the annotations *)
Record output2 := mkOut2 { o2_base : output; o2_ann : annot_out }.

Definition write_to_genbank_rec (r : rdata) (sq : list Z) (feats : list feat) (an : annots)
  : res output2 :=
  do o <- write_to_genbank r sq feats;
  do a <- write_annotations r an;
  Ok (mkOut2 o a).

(* ---------- decidable specification, evaluated on an output (model's or implementation's) ---------- *)
(* a region is never empty: start = end can only be the whole ring, cut at start (then crosses r) *)
Definition out_len (r : rdata) (N : Z) : Z :=
  if crosses r then N - rstart r + rend r else rend r - rstart r.

Definition expected_seq (r : rdata) (sq : list Z) : list Z :=
  let N := zlen sq in
  map (fun i => nth (Z.to_nat ((rstart r + Z.of_nat i) mod N)) sq (-1))
      (seq 0 (Z.to_nat (out_len r N))).

Definition loc_inside (len : Z) (l : loc) : bool :=
  forallb (fun p => (0 <=? ps p) && (ps p <=? pe p) && (pe p <=? len)) l.
Definition optloc_inside (len : Z) (o : option loc) : bool :=
  match o with None => true | Some l => loc_inside len l end.

Definition nums_of (t : Z) (fs : list feat) : list Z :=
  flat_map (fun f => if ftype f =? t then firstn 1 (fq1 f) else []) fs.
Definition zle_lt (a b : Z) : bool := a <? b.
Definition zsort (l : list Z) : list Z := sort_by zle_lt l.
Fixpoint dedup_sorted (l : list Z) : list Z :=
  match l with
  | x :: ((y :: _) as t) => if x =? y then dedup_sorted t else x :: dedup_sorted t
  | _ => l
  end.
Definition zrange1 (k : nat) : list Z := map (fun i => Z.of_nat i + 1) (seq 0 k).
(* the numbers are exactly 1..k for some k, as a set *)
Definition is_1_to_k (l : list Z) : bool :=
  let s := dedup_sorted (zsort l) in list_eqb Z.eqb s (zrange1 (length s)).
Definition subset (a b : list Z) : bool := forallb (fun x => existsb (Z.eqb x) b) a.

Definition numbers_ok (fs : list feat) : bool :=
  let cands := nums_of T_cand fs in
  let protos := nums_of T_proto fs in
  let subs := nums_of T_sub fs in
  is_1_to_k cands && is_1_to_k protos && is_1_to_k subs &&
  forallb (fun f =>
    if ftype f =? T_region then subset (fq1 f) cands && subset (fq2 f) subs
    else if ftype f =? T_cand then subset (fq2 f) protos
    else if ftype f =? T_core then subset (firstn 1 (fq1 f)) protos
    else true) fs.

(* in an origin-crossing region the numbers of the areas of one type follow their position in the
   extract (start, longer first), as a record built from the file numbers them *)
Definition area_lt (a b : feat) : bool :=
  (lstart (floc a) <? lstart (floc b)) ||
  ((lstart (floc a) =? lstart (floc b)) && (llen (floc b) <? llen (floc a))).
Definition num_lt (a b : feat) : bool :=
  match fq1 a, fq1 b with n :: _, m :: _ => n <? m | _, _ => false end.
Definition position_order_type (t : Z) (fs : list feat) : bool :=
  let l := filter (fun f => ftype f =? t) fs in
  forallb (fun a => forallb (fun b => if area_lt a b then num_lt a b else true) l) l.
Definition position_order (r : rdata) (fs : list feat) : bool :=
  if crosses r
  then position_order_type T_cand fs && position_order_type T_proto fs && position_order_type T_sub fs
  else true.

Definition feat_eqb (a b : feat) : bool :=
  (ftype a =? ftype b) && (ftag a =? ftag b) && loc_eqb (floc a) (floc b) &&
  list_eqb Z.eqb (fq1 a) (fq1 b) && list_eqb Z.eqb (fq2 a) (fq2 b) &&
  match fl1 a, fl1 b with Some x, Some y => loc_eqb x y | None, None => true | _, _ => false end &&
  match fl2 a, fl2 b with Some x, Some y => loc_eqb x y | None, None => true | _, _ => false end.

(* [sequence; features inside the extract; numbering; motif and core locations inside;
    parent unchanged; annotations] *)
Definition spec_flags (r : rdata) (sq : list Z) (feats : list feat) (o : output) : list bool :=
  let len := out_len r (zlen sq) in
  [ list_eqb Z.eqb (o_seq o) (expected_seq r sq);
    forallb (fun f => loc_inside len (floc f)) (o_feats o);
    numbers_ok (o_feats o) && position_order r (o_feats o);
    forallb (fun f => if (ftype f =? T_motif) || (ftype f =? T_proto)
                      then optloc_inside len (fl1 f) && optloc_inside len (fl2 f) else true) (o_feats o);
    list_eqb feat_eqb (o_parent o) feats;
    list_eqb Z.eqb (o_annot o) (build_annotations r) ].

(* guards = hypotheses under which the corresponding flag is proved / expected.  Since the repair of
   whole_ring_region and wrapped_region_numbering the only one left is that the numbers of the
   parent's candidate clusters, protoclusters and sub-regions are distinct per type (they are positions
   in the record's lists) *)
Definition adjustable (f : feat) : bool :=
  (ftype f =? T_region) || (ftype f =? T_cand) || (ftype f =? T_proto) || (ftype f =? T_core)
  || (ftype f =? T_sub) || (ftype f =? T_motif).

Fixpoint nodupb (l : list Z) : bool :=
  match l with
  | [] => true
  | x :: r => negb (existsb (Z.eqb x) r) && nodupb r
  end.
Definition distinct_numbers (fs : list feat) : bool :=
  nodupb (nums_of T_cand fs) && nodupb (nums_of T_proto fs) && nodupb (nums_of T_sub fs).

(* [-; -; distinct numbers; -; -; -] *)
Definition guard_flags (r : rdata) (sq : list Z) (feats : list feat) : list bool :=
  [ true; true; distinct_numbers feats; true; true; true ].

(* ---------- specification of the annotations (stated on the trees, no heap) ---------- *)
(* the structured comment the region file must carry: the parent's, with NOTE / Orig. start /
   Orig. end set in its antiSMASH-Data table (made when missing) *)
Definition parent_sc (an : annots) : scomment :=
  match assoc K_sc an with Some (TSc s) => s | _ => [] end.
Definition expected_table (r : rdata) (t : table) : table :=
  dict_set K_oend (V_int, rend r)
    (dict_set K_ostart (V_int, rstart r)
      (dict_set K_note (V_note, if crosses r then 1 else 0) t)).
Definition expected_sc (r : rdata) (an : annots) : scomment :=
  let s := parent_sc an in
  dict_set K_asdata (expected_table r (match assoc K_asdata s with Some t => t | None => [] end)) s.

(* ... and the region record's annotations as a whole: the parent's with that structured comment *)
Definition expected_annots (r : rdata) (an : annots) : annots :=
  dict_set K_sc (TSc (expected_sc r an)) an.

Definition sval_eqb (a b : sval) : bool := (fst a =? fst b) && (snd a =? snd b).
Definition table_eqb (a b : table) : bool :=
  list_eqb (fun x y => (fst x =? fst y) && sval_eqb (snd x) (snd y)) a b.
Definition sc_eqb (a b : scomment) : bool :=
  list_eqb (fun x y => (fst x =? fst y) && table_eqb (snd x) (snd y)) a b.
Definition topv_eqb (a b : topv) : bool :=
  match a, b with
  | TOpaque x, TOpaque y => x =? y
  | TSc x, TSc y => sc_eqb x y
  | _, _ => false
  end.
Definition annots_eqb (a b : annots) : bool :=
  list_eqb (fun x y => (fst x =? fst y) && topv_eqb (snd x) (snd y)) a b.

Definition file_sc (a : annot_out) : option scomment :=
  match ao_file a with Some an => Some (parent_sc an) | None => None end.

(* the six flags above, then [the file's structured comment is the expected one; the parent's
   annotations are what they were] *)
Definition spec_flags2 (r : rdata) (sq : list Z) (feats : list feat) (an : annots) (o : output2)
  : list bool :=
  spec_flags r sq feats (o2_base o) ++
  [ match file_sc (o2_ann o) with Some s => sc_eqb s (expected_sc r an) | None => false end;
    match ao_parent (o2_ann o) with Some a => annots_eqb a an | None => false end ].
Definition guard_flags2 (r : rdata) (sq : list Z) (feats : list feat) : list bool :=
  guard_flags r sq feats ++ [true; true].

(* ---------- flat encoding ---------- *)
Definition dFeat : dec feat := fun l =>
  match l with
  | t :: g :: r0 =>
    match dLoc r0 with
    | Some (lc, r1) =>
      match dList dZ r1 with
      | Some (q1, r2) =>
        match dList dZ r2 with
        | Some (q2, r3) =>
          match dOpt dLoc r3 with
          | Some (l1, r4) =>
            match dOpt dLoc r4 with
            | Some (l2, r5) => Some (mkFeat t g lc q1 q2 l1 l2, r5)
            | None => None
            end
          | None => None
          end
        | None => None
        end
      | None => None
      end
    | None => None
    end
  | _ => None
  end.

Definition dCand : dec (Z * list (Z * loc)) := dPair dZ (dList (dPair dZ dLoc)).
Definition dRdata : dec rdata := fun l =>
  match l with
  | s :: e :: r0 =>
    match dList dCand r0 with
    | Some (cs, r1) =>
      match dList dZ r1 with
      | Some (subs, r2) => Some (mkR s e cs subs, r2)
      | None => None
      end
    | None => None
    end
  | _ => None
  end.

Definition eFeat (f : feat) : list Z :=
  [ftype f; ftag f] ++ eLoc (floc f) ++ eList (fun x => [x]) (fq1 f) ++ eList (fun x => [x]) (fq2 f)
  ++ eOpt eLoc (fl1 f) ++ eOpt eLoc (fl2 f).
Definition eOut (o : output) : list Z :=
  eList (fun x => [x]) (o_seq o) ++ eList eFeat (o_feats o) ++ o_annot o ++ eList eFeat (o_parent o).

Definition dOut : dec output := fun l =>
  match dList dZ l with
  | Some (sq, r1) =>
    match dList dFeat r1 with
    | Some (fs, k :: s :: e :: r2) =>
      match dList dFeat r2 with
      | Some (pf, r3) => Some (mkOut sq fs [k; s; e] pf, r3)
      | None => None
      end
    | _ => None
    end
  | None => None
  end.

Definition dInput : dec (rdata * list Z * list feat) := dPair (dPair dRdata (dList dZ)) (dList dFeat).

(* annotations: table = list of (key, tag, n); structured comment = list of (key, table);
   top-level value = 0 :: code | 1 :: structured comment *)
Definition dSval : dec sval := dPair dZ dZ.
Definition dTable : dec table := dList (dPair dZ dSval).
Definition dSc : dec scomment := dList (dPair dZ dTable).
Definition dTopv : dec topv := fun l =>
  match l with
  | 0 :: v :: r => Some (TOpaque v, r)
  | 1 :: r => match dSc r with Some (s, r') => Some (TSc s, r') | None => None end
  | _ => None
  end.
Definition dAnnots : dec annots := dList (dPair dZ dTopv).

Definition eTable (t : table) : list Z := eList (fun e => [fst e; fst (snd e); snd (snd e)]) t.
Definition eSc (s : scomment) : list Z := eList (fun e => fst e :: eTable (snd e)) s.
Definition eTopv (v : topv) : list Z :=
  match v with TOpaque x => [0; x] | TSc s => 1 :: eSc s end.
Definition eAnnots (a : annots) : list Z := eList (fun e => fst e :: eTopv (snd e)) a.

Definition eOut2 (o : output2) : list Z :=
  eOut (o2_base o) ++ eOpt eSc (file_sc (o2_ann o)) ++ eOpt eAnnots (ao_parent (o2_ann o)).

(* the implementation's side: the structured comment read from the file, the parent's annotations
   after the call *)
Definition dOut2 : dec output2 := fun l =>
  match dOut l with
  | Some (o, r1) =>
    match dOpt dSc r1 with
    | Some (fsc, r2) =>
      match dOpt dAnnots r2 with
      | Some (pa, r3) =>
        Some (mkOut2 o (mkAO (match fsc with Some s => Some [(K_sc, TSc s)] | None => None end) pa), r3)
      | None => None
      end
    | None => None
    end
  | None => None
  end.

Definition dInput2 : dec (rdata * list Z * list feat * annots) := dPair dInput dAnnots.

Definition verdict (fl gd : list bool) : list Z :=
  eBool (forallb (fun x => x) (map (fun fg => fst fg || negb (snd fg)) (combine fl gd)))
  ++ flat_map eBool fl ++ flat_map eBool gd.

(* fn 1: write_to_genbank on sequence and features.  fn 101: payload followed by an encoded result
   (0 :: output); answers [all flags hold or are outside their guard] ++ flags ++ guards.
   fn 2 / 102: the same with the parent's annotations (write_to_genbank_rec, eight flags) *)
Definition run_C12 (fn : Z) (l : list Z) : list Z :=
  match fn with
  | 1 => match dInput l with
         | Some ((r, sq, feats), []) => eRes eOut (write_to_genbank r sq feats)
         | _ => bad_input
         end
  | 101 => match dInput l with
           | Some ((r, sq, feats), 0 :: rest) =>
             match dOut rest with
             | Some (o, []) => verdict (spec_flags r sq feats o) (guard_flags r sq feats)
             | _ => bad_input
             end
           | _ => bad_input
           end
  | 2 => match dInput2 l with
         | Some ((r, sq, feats, an), []) => eRes eOut2 (write_to_genbank_rec r sq feats an)
         | _ => bad_input
         end
  | 102 => match dInput2 l with
           | Some ((r, sq, feats, an), 0 :: rest) =>
             match dOut2 rest with
             | Some (o, []) => verdict (spec_flags2 r sq feats an o) (guard_flags2 r sq feats)
             | _ => bad_input
             end
           | _ => bad_input
           end
  | _ => bad_input
  end.
