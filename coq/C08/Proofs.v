(* C08 - lemmas and proofs *)
From Coq Require Import ZArith List Bool Lia ZifyBool.
From ASV.C08 Require Import Model.
Import ListNotations.
Open Scope Z_scope.

(* ------------------------------------------------------------------ generic list facts *)
Lemma skipn_length_app {A} (a b : list A) : skipn (length a) (a ++ b) = b.
Proof. induction a as [|x a IH]; [reflexivity|exact IH]. Qed.

Lemma firstn_length_app {A} (a b : list A) : firstn (length a) (a ++ b) = a.
Proof. induction a as [|x a IH]; [reflexivity|cbn [length app firstn]; now rewrite IH]. Qed.

Lemma firstn_S_nth {A} (l : list A) : forall j g, nth_error l j = Some g ->
  firstn (S j) l = firstn j l ++ [g].
Proof.
  induction l as [|x l IH]; intros j g H.
  - destruct j; discriminate.
  - destruct j as [|j].
    + cbn in H. injection H as ->. reflexivity.
    + cbn [nth_error] in H. change (firstn (S (S j)) (x :: l)) with (x :: firstn (S j) l).
      rewrite (IH j g H). reflexivity.
Qed.

Lemma nth_error_app_mid {A} (a : list A) x b : nth_error (a ++ x :: b) (length a) = Some x.
Proof. induction a as [|y a IH]; [reflexivity|exact IH]. Qed.

Lemma filter_all_false {A} (p : A -> bool) l : (forall x, In x l -> p x = false) -> filter p l = [].
Proof.
  induction l as [|x l IH]; intros H; [reflexivity|].
  cbn [filter]. rewrite (H x (or_introl eq_refl)). apply IH. intros y Hy. apply H. now right.
Qed.

Lemma filter_all_true {A} (p : A -> bool) l : (forall x, In x l -> p x = true) -> filter p l = l.
Proof.
  induction l as [|x l IH]; intros H; [reflexivity|].
  cbn [filter]. rewrite (H x (or_introl eq_refl)). f_equal. apply IH. intros y Hy. apply H. now right.
Qed.

(* ------------------------------------------------------------------ bisect *)
Lemma div2_bounds lo hi : (lo < hi)%nat -> (lo <= Nat.div2 (lo + hi) < hi)%nat.
Proof. intros H. rewrite Nat.div2_div. split.
  - apply Nat.div_le_lower_bound; lia.
  - apply Nat.div_lt_upper_bound; lia.
Qed.

(* on a list whose elements satisfy p exactly on a prefix a, the binary search returns |a| *)
Lemma bisect_go_partition {A} (p : A -> bool) (a b : list A) :
  (forall x, In x a -> p x = true) -> (forall x, In x b -> p x = false) ->
  forall fuel lo hi, (lo <= length a <= hi)%nat -> (hi <= length (a ++ b))%nat -> (hi - lo < fuel)%nat ->
  bisect_go p (a ++ b) fuel lo hi = length a.
Proof.
  intros Ha Hb. induction fuel as [|f IH]; intros lo hi Hk Hhi Hf; [lia|].
  cbn [bisect_go]. destruct (Nat.ltb lo hi) eqn:Hlt.
  - apply Nat.ltb_lt in Hlt. pose proof (div2_bounds lo hi Hlt) as Hm.
    set (mid := Nat.div2 (lo + hi)) in *.
    destruct (nth_error (a ++ b) mid) as [e|] eqn:Hn.
    + destruct (Nat.lt_ge_cases mid (length a)) as [Hma|Hma].
      * rewrite nth_error_app1 in Hn by exact Hma.
        rewrite (Ha e (nth_error_In _ _ Hn)). apply IH; lia.
      * rewrite nth_error_app2 in Hn by exact Hma.
        rewrite (Hb e (nth_error_In _ _ Hn)). apply IH; lia.
    + apply nth_error_None in Hn. lia.
  - apply Nat.ltb_ge in Hlt. lia.
Qed.

Lemma bisect_partition {A} (p : A -> bool) (a b : list A) lo :
  (forall x, In x a -> p x = true) -> (forall x, In x b -> p x = false) ->
  (lo <= length a)%nat -> bisect p (a ++ b) lo = length a.
Proof.
  intros Ha Hb Hlo. unfold bisect. apply bisect_go_partition; auto.
  - rewrite app_length. lia.
  - rewrite app_length. lia.
Qed.

(* a predicate that is downward closed along the list splits it into a true prefix and a false suffix *)
Lemma downward_split {A} (p : A -> bool) (l : list A) :
  (forall a x b y, l = a ++ x :: b -> In y b -> p y = true -> p x = true) ->
  exists a b, l = a ++ b /\ (forall x, In x a -> p x = true) /\ (forall x, In x b -> p x = false).
Proof.
  induction l as [|x l IH]; intros H.
  - exists [], []. repeat split; intros ? [].
  - destruct (p x) eqn:Hx.
    + destruct IH as (a & b & -> & Ha & Hb).
      { intros a0 x0 b0 y E Hy Hp. apply (H (x :: a0) x0 b0 y); [now rewrite E|exact Hy|exact Hp]. }
      exists (x :: a), b. repeat split; [|exact Hb]. intros z [<-|Hz]; [exact Hx|now apply Ha].
    + exists [], (x :: l). repeat split; [intros ? []|].
      intros z [<-|Hz]; [exact Hx|].
      destruct (p z) eqn:Hpz; [|reflexivity].
      rewrite (H [] x l z eq_refl Hz Hpz) in Hx. discriminate.
Qed.

(* ------------------------------------------------------------------ backstep *)
Lemma backstep_decomp (lo : nat) (t : gene -> bool) (l : list gene) : forall i, (lo <= i <= length l)%nat ->
  exists pre mid, firstn i l = pre ++ mid /\ length pre = backstep lo t l i /\ (lo <= length pre)%nat /\
                  (forall g, In g mid -> t g = true) /\
                  (length pre = lo \/ exists pre' x, pre = pre' ++ [x] /\ t x = false).
Proof.
  induction i as [|j IH]; intros Hi.
  - exists [], []. cbn. split; [reflexivity|]. split; [reflexivity|]. split; [lia|]. split; [intros ? []|left; lia].
  - cbn [backstep]. destruct (Nat.leb (S j) lo) eqn:Hlo.
    + apply Nat.leb_le in Hlo. exists (firstn (S j) l), []. rewrite app_nil_r.
      assert (Hlen : length (firstn (S j) l) = S j) by (rewrite firstn_length; lia).
      split; [reflexivity|]. split; [exact Hlen|]. split; [lia|]. split; [intros ? []|left; lia].
    + apply Nat.leb_gt in Hlo. destruct (nth_error l j) as [g|] eqn:Hn.
      2:{ apply nth_error_None in Hn. lia. }
      rewrite (firstn_S_nth l j g Hn).
      destruct (t g) eqn:Ht.
      * destruct IH as (pre & mid & E & Hl & Hlo' & Hm & Hp); [lia|].
        exists pre, (mid ++ [g]). rewrite E, app_assoc. repeat split; auto.
        intros x Hx. apply in_app_or in Hx. destruct Hx as [Hx|[<-|[]]]; [now apply Hm|exact Ht].
      * exists (firstn j l ++ [g]), []. rewrite app_nil_r.
        assert (Hlen : length (firstn j l ++ [g]) = S j) by (rewrite app_length, firstn_length; cbn [length]; lia).
        split; [reflexivity|]. split; [exact Hlen|]. split; [lia|]. split; [intros ? []|].
        right. exists (firstn j l), g. split; [reflexivity|exact Ht].
Qed.

(* ------------------------------------------------------------------ min / max of a list *)
Lemma fold_min_le l : forall x y, In y (x :: l) -> fold_left Z.min l x <= y.
Proof.
  induction l as [|a l IH]; intros x y Hin; simpl in *.
  - destruct Hin as [->|[]]. lia.
  - destruct Hin as [->|[->|Hin]].
    + specialize (IH (Z.min y a) (Z.min y a) (or_introl eq_refl)). lia.
    + specialize (IH (Z.min x y) (Z.min x y) (or_introl eq_refl)). lia.
    + apply IH. right. assumption.
Qed.
Lemma fold_max_ge l : forall x y, In y (x :: l) -> y <= fold_left Z.max l x.
Proof.
  induction l as [|a l IH]; intros x y Hin; simpl in *.
  - destruct Hin as [->|[]]. lia.
  - destruct Hin as [->|[->|Hin]].
    + specialize (IH (Z.max y a) (Z.max y a) (or_introl eq_refl)). lia.
    + specialize (IH (Z.max x y) (Z.max x y) (or_introl eq_refl)). lia.
    + apply IH. right. assumption.
Qed.
Lemma fold_min_in l : forall x, In (fold_left Z.min l x) (x :: l).
Proof.
  induction l as [|a l IH]; intros x; simpl.
  - left. reflexivity.
  - destruct (IH (Z.min x a)) as [H|H].
    + destruct (Z.min_spec x a) as [[_ E]|[_ E]]; rewrite E in *; auto.
    + right. right. assumption.
Qed.
Lemma lmin_le l y : In y l -> lmin l <= y.
Proof. destruct l as [|x l]; [intros []|]. apply fold_min_le. Qed.
Lemma lmax_ge l y : In y l -> y <= lmax l.
Proof. destruct l as [|x l]; [intros []|]. apply fold_max_ge. Qed.
Lemma lmin_in l : l <> [] -> In (lmin l) l.
Proof. destruct l as [|x l]; [congruence|]. intros _. apply fold_min_in. Qed.

Lemma lstart_le (l : loc) p : In p l -> lstart l <= ps p.
Proof. intros H. unfold lstart. apply lmin_le. now apply in_map. Qed.
Lemma lend_ge (l : loc) p : In p l -> pe p <= lend l.
Proof. intros H. unfold lend. apply lmax_ge. now apply in_map. Qed.
Lemma lstart_in (l : loc) : l <> [] -> exists p, In p l /\ ps p = lstart l.
Proof.
  intros Hne. assert (Hin : In (lstart l) (map ps l)).
  { apply lmin_in. intros E. apply map_eq_nil in E. contradiction. }
  apply in_map_iff in Hin. destruct Hin as (p & E & Hp). exists p. now split.
Qed.

(* ------------------------------------------------------------------ genes: starts, ends, the order of Feature.__lt__ *)
Definition gs (g : gene) : Z := lstart (gloc g).
Definition ge (g : gene) : Z := lend (gloc g).

(* every part of the gene has a base, and there is at least one part *)
Definition parts_ok (g : gene) : Prop := gloc g <> [] /\ forall p, In p (gloc g) -> ps p < pe p.

(* a is not after b in the order of Feature.__lt__ *)
Definition kle (a b : gene) : Prop := feat_lt (gloc b) (gloc a) = false.
Fixpoint KS (l : list gene) : Prop :=
  match l with
  | [] => True
  | f :: r => (forall g, In g r -> kle f g) /\ KS r
  end.

Lemma kle_trans a b c : kle a b -> kle b c -> kle a c.
Proof.
  unfold kle, feat_lt, pair_lt.
  destruct (fkey (gloc a)) as [a1 a2], (fkey (gloc b)) as [b1 b2], (fkey (gloc c)) as [c1 c2]. cbn [fst snd]. lia.
Qed.

Lemma key_sorted_KS l : key_sorted l = true -> KS l.
Proof.
  induction l as [|a l IH]; intros H; [exact I|].
  destruct l as [|b t]; [split; [intros ? []|exact I]|].
  change (negb (feat_lt (gloc b) (gloc a)) && key_sorted (b :: t) = true) in H.
  apply andb_prop in H. destruct H as [H Hm]. apply negb_true_iff in H.
  specialize (IH Hm). split; [|exact IH].
  intros g [<-|Hg]; [exact H|].
  destruct IH as [Hb _]. exact (kle_trans a b g H (Hb g Hg)).
Qed.

Lemma KS_key_sorted l : KS l -> key_sorted l = true.
Proof.
  induction l as [|a l IH]; intros H; [reflexivity|].
  destruct l as [|b t]; [reflexivity|]. destruct H as [Ha Hs].
  change (negb (feat_lt (gloc b) (gloc a)) && key_sorted (b :: t) = true).
  rewrite (IH Hs). pose proof (Ha b (or_introl eq_refl)) as Hk. unfold kle in Hk. rewrite Hk. reflexivity.
Qed.

Lemma KS_app a b : KS (a ++ b) -> KS a /\ KS b /\ (forall x y, In x a -> In y b -> kle x y).
Proof.
  induction a as [|x a IH]; intros H.
  - split; [exact I|]. split; [exact H|]. intros ? ? [].
  - destruct H as [Hx Hs]. destruct (IH Hs) as (Sa & Sb & Hab). split; [|split].
    + split; [|exact Sa]. intros g Hg. apply Hx. apply in_or_app. now left.
    + exact Sb.
    + intros u v [<-|Hu] Hv; [apply Hx; apply in_or_app; now right|now apply Hab].
Qed.

Lemma KS_app_intro a b : KS a -> KS b -> (forall x y, In x a -> In y b -> kle x y) -> KS (a ++ b).
Proof.
  induction a as [|x a IH]; intros Ha Hb Hab; [exact Hb|].
  destruct Ha as [Hx Ha]. cbn [app KS]. split.
  - intros r' Hr. apply in_app_or in Hr. destruct Hr as [Hr|Hr]; [now apply Hx|].
    apply Hab; [now left|exact Hr].
  - apply IH; [exact Ha|exact Hb|]. intros u v Hu Hv. apply Hab; [now right|exact Hv].
Qed.

Lemma simple_gene_inv g : simple_gene g = true ->
  exists p, gloc g = [p] /\ ps p < pe p /\ gs g = ps p /\ ge g = pe p.
Proof.
  unfold simple_gene, gs, ge. destruct (gloc g) as [|p [|? ?]]; try discriminate.
  intros H. exists p. repeat split. lia.
Qed.

Lemma query_ok_inv q : query_ok q = true -> exists p, q = [p] /\ ps p < pe p.
Proof.
  unfold query_ok. destruct q as [|p [|? ?]]; try discriminate. intros H. exists p. split; [reflexivity|lia].
Qed.

Lemma contains_single o i : contains [o] [i] = true <-> ps o <= ps i /\ ps i <= pe i /\ pe i <= pe o.
Proof. unfold contains, part_contains. cbn [forallb existsb]. lia. Qed.

Lemma overlap_single a b : ps a < pe a -> ps b < pe b ->
  (overlap [a] [b] = true <-> ps a < pe b /\ ps b < pe a).
Proof. intros Ha Hb. unfold overlap, part_overlap, in_part. cbn [existsb]. lia. Qed.

Lemma bridges_single p : bridges [p] = false.
Proof. reflexivity. Qed.

Lemma fkey_single p : fkey [p] = (ps p, pe p - ps p).
Proof. unfold fkey, kstart. rewrite bridges_single. unfold lstart, llen. cbn. f_equal. lia. Qed.

Lemma simple_parts_ok g : simple_gene g = true -> parts_ok g /\ bridges (gloc g) = false.
Proof.
  intros H. destruct (simple_gene_inv g H) as (p & E & Hp & _). unfold parts_ok. rewrite E.
  split; [split; [discriminate|]|reflexivity]. intros p' [<-|[]]. exact Hp.
Qed.

(* ------------------------------------------------------------------ where a hit can lie *)
Section Hits.
  Variable qp : part.
  Hypothesis Hq : ps qp < pe qp.
  Let q : loc := [qp].

  Lemma part_overlap_bounds p : ps p < pe p -> part_overlap p qp = true -> ps p < pe qp /\ ps qp < pe p.
  Proof. intros Hp. unfold part_overlap, in_part. lia. Qed.

  Lemma contains_parts g p : contains q (gloc g) = true -> In p (gloc g) -> ps qp <= ps p /\ pe p <= pe qp.
  Proof.
    intros Hc Hp. unfold contains in Hc. rewrite forallb_forall in Hc. specialize (Hc p Hp).
    unfold q in Hc. cbn [existsb] in Hc. unfold part_contains in Hc. lia.
  Qed.

  (* a hit starts before the query's end ... *)
  Lemma hit_starts_before wo g : parts_ok g -> hit q wo g = true -> gs g < pe qp.
  Proof.
    intros [Hne Hpos] Hh. unfold hit in Hh. apply orb_prop in Hh. destruct Hh as [Hc|Ho].
    - destruct (lstart_in (gloc g) Hne) as (p & Hp & E).
      destruct (contains_parts g p Hc Hp) as [H1 H2].
      pose proof (Hpos p Hp). unfold gs. lia.
    - apply andb_prop in Ho. destruct Ho as [_ Ho]. unfold overlap in Ho.
      apply existsb_exists in Ho. destruct Ho as (p & Hp & Ho). unfold q in Ho. cbn [existsb] in Ho.
      rewrite orb_false_r in Ho.
      destruct (part_overlap_bounds p (Hpos p Hp) Ho). pose proof (lstart_le (gloc g) p Hp). unfold gs. lia.
  Qed.

  (* ... and ends after its start *)
  Lemma hit_ends_after wo g : parts_ok g -> hit q wo g = true -> ps qp < ge g.
  Proof.
    intros [Hne Hpos] Hh. unfold hit in Hh. apply orb_prop in Hh. destruct Hh as [Hc|Ho].
    - destruct (lstart_in (gloc g) Hne) as (p & Hp & E).
      destruct (contains_parts g p Hc Hp) as [H1 H2].
      pose proof (Hpos p Hp). pose proof (lend_ge (gloc g) p Hp). unfold ge. lia.
    - apply andb_prop in Ho. destruct Ho as [_ Ho]. unfold overlap in Ho.
      apply existsb_exists in Ho. destruct Ho as (p & Hp & Ho). unfold q in Ho. cbn [existsb] in Ho.
      rewrite orb_false_r in Ho.
      destruct (part_overlap_bounds p (Hpos p Hp) Ho). pose proof (lend_ge (gloc g) p Hp). unfold ge. lia.
  Qed.

  (* a gene inside the query does not start before it *)
  Lemma contained_starts_within g : parts_ok g -> contains q (gloc g) = true -> ps qp <= gs g.
  Proof.
    intros [Hne Hpos] Hc. destruct (lstart_in (gloc g) Hne) as (p & Hp & E).
    destruct (contains_parts g p Hc Hp). unfold gs. lia.
  Qed.

  Lemma feat_lt_query g : bridges (gloc g) = false ->
    feat_lt (gloc g) q = true <-> (gs g < ps qp \/ (gs g = ps qp /\ llen (gloc g) < pe qp - ps qp)).
  Proof.
    intros Hb. unfold feat_lt, q. rewrite fkey_single. unfold fkey, kstart. rewrite Hb.
    unfold pair_lt, gs. cbn [fst snd]. lia.
  Qed.

  Lemma take_while_hits wo (l : list gene) :
    (forall a b, l = a ++ b -> forall x y, In x a -> In y b -> gs x <= gs y) -> (forall g, In g l -> parts_ok g) ->
    filter (hit q wo) (take_while (fun f => lstart (gloc f) <? lend q) l) = filter (hit q wo) l.
  Proof.
    induction l as [|x l IH]; intros Hs Hok; [reflexivity|].
    assert (El : lend q = pe qp) by reflexivity.
    cbn [take_while]. destruct (lstart (gloc x) <? lend q) eqn:Ex; rewrite El in Ex.
    - cbn [filter]. rewrite IH; [reflexivity| |].
      + intros a b E x0 y Hx0 Hy. apply (Hs (x :: a) b); [now rewrite E|now right|exact Hy].
      + intros g Hg. apply Hok. now right.
    - change (filter (hit q wo) []) with (@nil gene). symmetry. apply filter_all_false. intros g Hg.
      destruct (hit q wo g) eqn:Hh; [|reflexivity].
      pose proof (hit_starts_before wo g (Hok g Hg) Hh) as Hb.
      assert (Hx : gs x <= gs g).
      { destruct Hg as [<-|Hg]; [lia|]. exact (Hs [x] l eq_refl x g (or_introl eq_refl) Hg). }
      unfold gs in *. lia.
  Qed.
End Hits.

Lemma filter_filter_imp {A} (p r : A -> bool) l : (forall x, In x l -> p x = true -> r x = true) ->
  filter p (filter r l) = filter p l.
Proof.
  induction l as [|x l IH]; intros H; [reflexivity|].
  cbn [filter]. destruct (r x) eqn:Er.
  - cbn [filter]. rewrite IH; [reflexivity|]. intros y Hy. apply H. now right.
  - destruct (p x) eqn:Ep.
    + rewrite (H x (or_introl eq_refl) Ep) in Er. discriminate.
    + apply IH. intros y Hy. apply H. now right.
Qed.

(* ------------------------------------------------------------------ the leading run of origin-crossing genes *)
Lemma lead_cross_split l : exists C N, l = C ++ N /\ length C = lead_cross l /\
  (forall g, In g C -> bridges (gloc g) = true) /\ (match N with n :: _ => bridges (gloc n) = false | [] => True end).
Proof.
  induction l as [|f r IH].
  - exists [], []. split; [reflexivity|]. split; [reflexivity|]. split; [intros ? []|exact I].
  - cbn [lead_cross]. destruct (bridges (gloc f)) eqn:Hb.
    + destruct IH as (C & N & E & L & HC & HN). exists (f :: C), N.
      split; [cbn [app]; now rewrite <- E|]. split; [cbn [length]; now rewrite L|]. split; [|exact HN].
      intros g [<-|Hg]; [exact Hb|now apply HC].
    + exists [], (f :: r). split; [reflexivity|]. split; [reflexivity|]. split; [intros ? []|exact Hb].
Qed.

(* genes that do not cross the origin, in the order of Feature.__lt__, are in the order of their starts *)
Lemma KS_nb_sorted N : KS N -> (forall g, In g N -> bridges (gloc g) = false) ->
  forall a b, N = a ++ b -> forall x y, In x a -> In y b -> gs x <= gs y.
Proof.
  intros KN HN a b E x y Hx Hy. rewrite E in KN. apply KS_app in KN. destruct KN as (_ & _ & Hab).
  specialize (Hab x y Hx Hy).
  assert (Bx : bridges (gloc x) = false) by (apply HN; rewrite E; apply in_or_app; now left).
  assert (By : bridges (gloc y) = false) by (apply HN; rewrite E; apply in_or_app; now right).
  unfold kle, feat_lt, fkey, kstart, pair_lt in Hab. rewrite Bx, By in Hab. cbn [fst snd] in Hab.
  unfold gs. lia.
Qed.

(* ------------------------------------------------------------------ the look-up returns exactly the hits *)
(* core statement: the list is in the order of Feature.__lt__, every exon has a base, the genes that cross the origin
   sort before the query and no other gene follows them out of place (cross_first) *)
Definition cross_first (genes : list gene) : Prop :=
  forall g, In g (skipn (lead_cross genes) genes) -> bridges (gloc g) = false.

Theorem lookup_simple_core genes qp wo : ps qp < pe qp ->
  KS genes -> (forall g, In g genes -> parts_ok g) -> cross_first genes ->
  (forall g, In g genes -> bridges (gloc g) = true -> feat_lt (gloc g) [qp] = true) ->
  filter (hit [qp] wo) (candidates genes [qp] wo) = filter (hit [qp] wo) genes.
Proof.
  intros Hq Hks Hok Hcf Hcq. set (q := [qp]).
  destruct (lead_cross_split genes) as (C & N & EC & LC & HC & _).
  assert (HN : forall g, In g N -> bridges (gloc g) = false).
  { intros g Hg. apply Hcf. rewrite <- LC, EC, skipn_length_app. exact Hg. }
  (* the bisection *)
  destruct (downward_split (fun g => feat_lt (gloc g) q) genes) as (A & B & EAB & HA & HB).
  { intros a x b y E Hy Hp. pose proof Hks as Hks'. rewrite E in Hks'.
    apply KS_app in Hks'. destruct Hks' as (_ & [Hxb _] & _). specialize (Hxb y Hy). cbn beta in Hp |- *.
    clear - Hxb Hp. unfold kle, feat_lt, pair_lt in *.
    destruct (fkey (gloc x)) as [x1 x2], (fkey (gloc y)) as [y1 y2], (fkey q) as [q1 q2]. cbn [fst snd] in *. lia. }
  (* the crossing genes lie in the true prefix *)
  assert (HCA : exists A', A = C ++ A' /\ N = A' ++ B).
  { assert (Hlen : (length C <= length A)%nat).
    { destruct (Nat.le_gt_cases (length C) (length A)) as [H|H]; [exact H|exfalso].
      assert (Hn : nth_error genes (length A) <> None) by (apply nth_error_Some; rewrite EC, app_length; lia).
      destruct (nth_error genes (length A)) as [x|] eqn:Ex; [|congruence].
      assert (HxC : In x C).
      { rewrite EC in Ex. rewrite nth_error_app1 in Ex by exact H. exact (nth_error_In _ _ Ex). }
      assert (HxB : In x B).
      { rewrite EAB in Ex. rewrite nth_error_app2 in Ex by lia. exact (nth_error_In _ _ Ex). }
      assert (Hxg : In x genes) by (rewrite EC; apply in_or_app; now left).
      pose proof (Hcq x Hxg (HC x HxC)) as Ht. fold q in Ht. rewrite (HB x HxB) in Ht. discriminate. }
    exists (skipn (length C) A). split.
    - rewrite <- (firstn_skipn (length C) A) at 1. f_equal.
      assert (E : firstn (length C) genes = C) by (rewrite EC; apply firstn_length_app).
      rewrite <- E at 2. rewrite EAB. rewrite firstn_app. replace (length C - length A)%nat with 0%nat by lia.
      cbn [firstn]. now rewrite app_nil_r.
    - assert (E : skipn (length C) genes = N) by (rewrite EC; apply skipn_length_app).
      rewrite <- E. rewrite EAB. rewrite skipn_app. replace (length C - length A)%nat with 0%nat by lia.
      reflexivity. }
  destruct HCA as (A' & EA & ENB).
  unfold candidates, find_start. cbv zeta. fold q. rewrite <- LC.
  assert (Ei0 : bisect (fun g => feat_lt (gloc g) q) genes (length C) = length A).
  { rewrite EAB. apply bisect_partition; [exact HA|exact HB|rewrite EA, app_length; lia]. }
  rewrite Ei0.
  (* the back-step over the genes with the query's start *)
  destruct (backstep_decomp (length C) (fun g => lstart (gloc g) =? lstart q) genes (length A))
    as (pre1 & mid1 & E1 & L1 & Lo1 & M1 & P1).
  { rewrite EAB, EA, !app_length. lia. }
  rewrite EAB, firstn_length_app in E1. rewrite <- L1.
  assert (HP : exists P1', pre1 = C ++ P1' /\ A' = P1' ++ mid1).
  { exists (skipn (length C) pre1).
    assert (Ef : firstn (length C) pre1 = C).
    { assert (E : firstn (length C) (pre1 ++ mid1) = C) by (rewrite <- E1, EA; apply firstn_length_app).
      rewrite firstn_app in E. replace (length C - length pre1)%nat with 0%nat in E by lia.
      cbn [firstn] in E. now rewrite app_nil_r in E. }
    split.
    - rewrite <- (firstn_skipn (length C) pre1) at 1. now rewrite Ef.
    - assert (E : skipn (length C) (pre1 ++ mid1) = A') by (rewrite <- E1, EA; apply skipn_length_app).
      rewrite skipn_app in E. replace (length C - length pre1)%nat with 0%nat in E by lia. exact (eq_sym E). }
  destruct HP as (P1' & EP & EA').
  assert (Egenes : genes = C ++ P1' ++ mid1 ++ B).
  { rewrite EAB, EA, EA'. now rewrite <- !app_assoc. }
  assert (HNe : N = P1' ++ mid1 ++ B) by (rewrite ENB, EA'; now rewrite <- app_assoc).
  assert (Efirst : firstn (length C) genes = C) by (rewrite EC; apply firstn_length_app).
  assert (Emid : firstn (length pre1 - length C) (skipn (length C) genes) = P1').
  { rewrite EC, skipn_length_app, HNe. rewrite EP, app_length.
    replace (length C + length P1' - length C)%nat with (length P1') by lia. apply firstn_length_app. }
  assert (Erest : skipn (length pre1) genes = mid1 ++ B).
  { rewrite Egenes, EP. rewrite app_assoc. apply skipn_length_app. }
  rewrite Efirst, Emid, Erest.
  assert (KN : KS N) by (rewrite EC in Hks; apply KS_app in Hks; tauto).
  pose proof (KS_nb_sorted N KN HN) as HNsorted.
  assert (HNok : forall g, In g N -> parts_ok g) by (intros g Hg; apply Hok; rewrite EC; apply in_or_app; now right).
  assert (HA'le : forall g, In g A' -> gs g <= ps qp).
  { intros g Hg. assert (Hb : bridges (gloc g) = false) by (apply HN; rewrite ENB; apply in_or_app; now left).
    assert (Ht : feat_lt (gloc g) q = true) by (apply HA; rewrite EA; apply in_or_app; now right).
    apply (feat_lt_query qp g Hb) in Ht. lia. }
  assert (HP1lt : forall g, In g P1' -> gs g < ps qp).
  { destruct (rev P1') as [|y rp] eqn:Er.
    { apply (f_equal (@rev gene)) in Er. rewrite rev_involutive in Er. cbn in Er. rewrite Er. intros ? []. }
    apply (f_equal (@rev gene)) in Er. rewrite rev_involutive in Er. cbn [rev] in Er.
    destruct P1 as [Hl|(pre' & x & Ex & Hx)].
    { rewrite EP, Er, !app_length in Hl. cbn [length] in Hl. lia. }
    assert (Exy : x = y).
    { rewrite EP, Er, app_assoc in Ex. apply app_inj_tail in Ex. symmetry. tauto. }
    subst x. cbn beta in Hx. unfold q, lstart at 2 in Hx. cbn [map lmin fold_left ps] in Hx.
    assert (HyA : In y A') by (rewrite EA', Er; apply in_or_app; left; apply in_or_app; right; now left).
    pose proof (HA'le y HyA) as Hyle.
    assert (Hylt : gs y < ps qp) by (unfold gs in *; lia).
    intros g Hg. rewrite Er in Hg. apply in_app_or in Hg. destruct Hg as [Hg|[<-|[]]]; [|exact Hylt].
    assert (Hgy : gs g <= gs y).
    { apply (HNsorted (rev rp) (y :: mid1 ++ B)); [|exact Hg|now left].
      rewrite HNe, Er. now rewrite <- app_assoc. }
    lia. }
  assert (Hrest_sorted : forall a b, mid1 ++ B = a ++ b -> forall x y, In x a -> In y b -> gs x <= gs y).
  { intros a b E x y Hx Hy. apply (HNsorted (P1' ++ a) b); [rewrite HNe, E; now rewrite app_assoc| |exact Hy].
    apply in_or_app. now right. }
  assert (Hrest_ok : forall g, In g (mid1 ++ B) -> parts_ok g).
  { intros g Hg. apply HNok. rewrite HNe. apply in_or_app. now right. }
  subst q. rewrite !filter_app.
  rewrite (take_while_hits qp Hq wo (mid1 ++ B) Hrest_sorted Hrest_ok).
  rewrite Egenes. rewrite !filter_app. f_equal. f_equal.
  destruct wo.
  - apply filter_filter_imp. intros g Hg Hh.
    assert (Hgo : parts_ok g) by (apply HNok; rewrite HNe; apply in_or_app; now left).
    pose proof (hit_ends_after qp Hq true g Hgo Hh) as He.
    unfold lstart. cbn [map lmin fold_left]. unfold ge in He. lia.
  - cbn [filter]. symmetry. apply filter_all_false. intros g Hg.
    unfold hit. cbn [andb]. rewrite orb_false_r.
    destruct (contains [qp] (gloc g)) eqn:Hc; [|reflexivity].
    assert (Hgo : parts_ok g) by (apply HNok; rewrite HNe; apply in_or_app; now left).
    pose proof (contained_starts_within qp g Hgo Hc). pose proof (HP1lt g Hg). lia.
Qed.

(* ------------------------------------------------------------------ origin-crossing genes sort first *)
Lemma split_fwd_in : forall l acc u lo, split_fwd acc l = (u, lo) -> forall p, In p u -> In p acc \/ In p l.
Proof.
  induction l as [|p r IH]; intros acc u lo H p0 Hp0; cbn [split_fwd] in H.
  - injection H as <- <-. left. now apply in_rev.
  - destruct acc as [|u0 acc'].
    + destruct (IH _ _ _ H p0 Hp0) as [[<-|[]]|Hr]; right; [now left|now right].
    + destruct (ps u0 <? ps p).
      * destruct (IH _ _ _ H p0 Hp0) as [[<-|Ha]|Hr]; [right; now left|now left|right; now right].
      * injection H as <- <-. left. now apply in_rev.
Qed.

Lemma split_rev_in : forall l acc lo up, split_rev acc l = (lo, up) -> forall p, In p up -> In p l.
Proof.
  induction l as [|p r IH]; intros acc lo up H p0 Hp0; cbn [split_rev] in H.
  - injection H as <- <-. destruct Hp0.
  - destruct acc as [|u0 acc'].
    + right. exact (IH _ _ _ H p0 Hp0).
    + destruct (ps p <? ps u0).
      * right. exact (IH _ _ _ H p0 Hp0).
      * injection H as <- <-. exact Hp0.
Qed.

Lemma kstart_neg l : bridges l = true -> key_ok l = true -> (forall p, In p l -> ps p < pe p) -> kstart l < 0.
Proof.
  intros Hb Hk Hpos. unfold kstart, key_ok in *. rewrite Hb in *.
  destruct (split_bridging l) as [[lower head]|] eqn:Es; [|discriminate].
  assert (Hhead : head <> [] /\ forall p, In p head -> In p l).
  { unfold split_bridging in Es.
    assert (Hc : is_compound l = true) by (unfold bridges in Hb; destruct (is_compound l); [reflexivity|discriminate]).
    rewrite Hc in Es. cbn [negb] in Es.
    destruct (negb (all_same_strand l)); [discriminate|].
    destruct (lstrand l =? -1).
    - destruct (split_rev [] l) as [lo up] eqn:E.
      destruct (negb (nonempty lo && nonempty up)) eqn:En; [discriminate|].
      destruct (negb (valid_split lo up (lstrand l))); [discriminate|]. injection Es as <- <-.
      split; [destruct up; [rewrite andb_false_r in En; discriminate|discriminate]|].
      exact (split_rev_in _ _ _ _ E).
    - destruct (split_fwd [] l) as [u lo] eqn:E.
      destruct (negb (nonempty lo && nonempty u)) eqn:En; [discriminate|].
      destruct (negb (valid_split lo u (lstrand l))); [discriminate|]. injection Es as <- <-.
      split; [destruct u; [rewrite andb_false_r in En; discriminate|discriminate]|].
      intros p Hp. destruct (split_fwd_in _ _ _ _ E p Hp) as [[]|H]. exact H. }
  destruct Hhead as [Hne Hin]. destruct head as [|p r]; [congruence|].
  assert (Hp : In p (p :: r)) by now left.
  pose proof (Hpos p (Hin p Hp)).
  assert (lmin (map ps (p :: r)) <= ps p) by (apply lmin_le; now apply in_map).
  assert (pe p <= lmax (map pe (p :: r))) by (apply lmax_ge; now apply in_map).
  lia.
Qed.

Lemma gene_ok_inv g : gene_ok g = true ->
  parts_ok g /\ (forall p, In p (gloc g) -> 0 <= ps p) /\ key_ok (gloc g) = true.
Proof.
  unfold gene_ok, parts_ok. intros H. apply andb_prop in H. destruct H as [H Hk].
  apply andb_prop in H. destruct H as [Hn Hp]. rewrite forallb_forall in Hp.
  split; [split|split; [|exact Hk]].
  - destruct (gloc g); [discriminate|discriminate].
  - intros p Hin. specialize (Hp p Hin). lia.
  - intros p Hin. specialize (Hp p Hin). lia.
Qed.

Lemma gene_ok_key g : gene_ok g = true ->
  (bridges (gloc g) = true -> kstart (gloc g) < 0) /\ (bridges (gloc g) = false -> 0 <= kstart (gloc g)).
Proof.
  intros H. destruct (gene_ok_inv g H) as ([Hne Hpos] & Hnn & Hk). split; intros Hb.
  - exact (kstart_neg _ Hb Hk Hpos).
  - unfold kstart. rewrite Hb. destruct (lstart_in (gloc g) Hne) as (p & Hp & <-). exact (Hnn p Hp).
Qed.

Lemma cross_first_ok genes : KS genes -> (forall g, In g genes -> gene_ok g = true) -> cross_first genes.
Proof.
  intros Hks Hok. unfold cross_first.
  destruct (lead_cross_split genes) as (C & N & EC & LC & HC & HN).
  rewrite <- LC, EC, skipn_length_app.
  destruct N as [|n N']; [intros ? []|].
  intros g [<-|Hg]; [exact HN|].
  destruct (bridges (gloc g)) eqn:Hb; [exfalso|reflexivity].
  rewrite EC in Hks. apply KS_app in Hks. destruct Hks as (_ & [Hn _] & _). specialize (Hn g Hg).
  assert (Hgin : In g genes) by (rewrite EC; apply in_or_app; right; now right).
  assert (Hnin : In n genes) by (rewrite EC; apply in_or_app; right; now left).
  pose proof (proj1 (gene_ok_key g (Hok g Hgin)) Hb).
  pose proof (proj2 (gene_ok_key n (Hok n Hnin)) HN).
  unfold kle, feat_lt, fkey, pair_lt in Hn. cbn [fst snd] in Hn. lia.
Qed.

Lemma clamp_start_nonneg q : 0 <= lstart (clamp q).
Proof. unfold clamp. destruct (lstart q <? 0) eqn:E; [cbn; lia|lia]. Qed.

Theorem lookup_exact genes q wo :
  layout_ok genes = true -> is_compound q = false -> query_ok (clamp q) = true ->
  lookup genes q wo = filter (hit (clamp q) wo) genes.
Proof.
  intros Hl Hc Hq. destruct (query_ok_inv _ Hq) as (qp & E & Hp).
  unfold lookup. rewrite Hc. destruct genes as [|g0 genes']; [reflexivity|]. set (genes := g0 :: genes') in *.
  unfold layout_ok in Hl. apply andb_prop in Hl. destruct Hl as [Hok Hsorted].
  rewrite forallb_forall in Hok. pose proof (key_sorted_KS _ Hsorted) as Hks.
  unfold lookup_simple. cbv zeta. pose proof (clamp_start_nonneg q) as H0. rewrite E in *.
  apply lookup_simple_core; [exact Hp|exact Hks| |exact (cross_first_ok genes Hks Hok)|].
  - intros g Hg. exact (proj1 (gene_ok_inv g (Hok g Hg))).
  - intros g Hg Hb. pose proof (proj1 (gene_ok_key g (Hok g Hg)) Hb) as Hneg.
    unfold feat_lt. rewrite fkey_single. unfold fkey, pair_lt. cbn [fst snd].
    unfold lstart in H0. cbn [map lmin fold_left] in H0. lia.
Qed.

(* a query that starts at or after 0 is used as it is; a negative start is cut at 0, which does not
   change which genes (all of which start at >= 0) are contained or overlapped *)
Lemma clamp_nonneg q : 0 <= lstart q -> clamp q = q.
Proof. intros H. unfold clamp. destruct (lstart q <? 0) eqn:E; [lia|reflexivity]. Qed.

Lemma clamp_same_hits qp wo g : ps qp < 0 -> 1 <= pe qp -> simple_gene g = true -> 0 <= gs g ->
  hit (clamp [qp]) wo g = hit [qp] wo g.
Proof.
  intros Hneg Hend Hg Hs. destruct (simple_gene_inv g Hg) as (p & E & Hp & Es & Ee).
  unfold clamp, lstart, lend. cbn [map lmin lmax fold_left].
  destruct (ps qp <? 0) eqn:En; [|lia].
  unfold hit. rewrite E. rewrite Es in Hs.
  assert (Hm : Z.max 1 (pe qp) = pe qp) by lia. rewrite Hm.
  assert (Hc : contains [mkPart 0 (pe qp) S_None] [p] = contains [qp] [p]).
  { unfold contains, part_contains. cbn [forallb existsb ps pe]. lia. }
  assert (Ho : overlap [p] [mkPart 0 (pe qp) S_None] = overlap [p] [qp]).
  { unfold overlap, part_overlap, in_part. cbn [existsb ps pe]. lia. }
  now rewrite Hc, Ho.
Qed.

(* ------------------------------------------------------------------ soundness for every layout *)
Lemma In_skipn {A} (x : A) n l : In x (skipn n l) -> In x l.
Proof. intros H. rewrite <- (firstn_skipn n l). apply in_or_app. now right. Qed.
Lemma In_firstn {A} (x : A) n l : In x (firstn n l) -> In x l.
Proof. intros H. rewrite <- (firstn_skipn n l). apply in_or_app. now left. Qed.
Lemma take_while_in {A} (p : A -> bool) l x : In x (take_while p l) -> In x l.
Proof.
  induction l as [|y l IH]; intros H; [destruct H|]. cbn [take_while] in H.
  destruct (p y); [|destruct H]. destruct H as [<-|H]; [now left|right; now apply IH].
Qed.

Lemma candidates_in genes q wo g : In g (candidates genes q wo) -> In g genes.
Proof.
  unfold candidates. cbv zeta. intros H. apply in_app_or in H. destruct H as [H|H]; [exact (In_firstn _ _ _ H)|].
  apply in_app_or in H. destruct H as [H|H].
  - destruct wo; [|destruct H]. apply filter_In in H. destruct H as [H _].
    exact (In_skipn _ _ _ (In_firstn _ _ _ H)).
  - exact (In_skipn _ _ _ (take_while_in _ _ _ H)).
Qed.

Lemma lookup_simple_sound genes q wo g : In g (lookup_simple genes q wo) -> In g genes /\ hit (clamp q) wo g = true.
Proof.
  unfold lookup_simple. cbv zeta. intros H. apply filter_In in H. destruct H as [H1 H2]. split; [|exact H2].
  exact (candidates_in _ _ _ _ H1).
Qed.

Lemma extend_new_in acc found g : In g (extend_new acc found) -> In g acc \/ In g found.
Proof.
  revert acc. induction found as [|f r IH]; intros acc H; [now left|].
  cbn [extend_new] in H. destruct (gmem f acc).
  - destruct (IH _ H); [now left|right; now right].
  - destruct (IH _ H) as [Ha|Hr]; [|right; now right].
    apply in_app_or in Ha. destruct Ha as [Ha|[<-|[]]]; [now left|right; now left].
Qed.

Lemma compound_feats_sound genes g : forall parts acc,
  In g (fold_left (compound_step genes) parts acc) ->
  In g acc \/ (In g genes /\ exists p, In p parts /\ hit (clamp [p]) true g = true).
Proof.
  induction parts as [|p parts IH]; intros acc H; [now left|].
  cbn [fold_left] in H. destruct (IH _ H) as [Ha|(Hg & p' & Hp' & Hh)].
  - unfold compound_step in Ha. cbv zeta in Ha. destruct (extend_new_in _ _ _ Ha) as [Hacc|Hf].
    + apply filter_In in Hacc. left. tauto.
    + apply lookup_simple_sound in Hf. destruct Hf as [Hg Hh]. right. split; [exact Hg|].
      exists p. split; [now left|exact Hh].
  - right. split; [exact Hg|]. exists p'. split; [now right|exact Hh].
Qed.

(* every gene returned is a gene of the record and is contained in (overlaps) the query *)
Theorem lookup_sound genes q wo g : In g (lookup genes q wo) ->
  In g genes /\
  (is_compound q = false -> hit (clamp q) wo g = true) /\
  (is_compound q = true -> exists p, In p q /\ hit (clamp [p]) true g = true) /\
  (is_compound q = true -> wo = false -> contains q (gloc g) = true).
Proof.
  unfold lookup. destruct genes as [|g0 genes']; [intros []|]. set (genes := g0 :: genes').
  destruct (is_compound q) eqn:Hc.
  - destruct wo.
    + intros H. apply compound_feats_sound in H. destruct H as [[]|(Hg & p & Hp & Hh)].
      repeat split; auto; try discriminate. intros _. exists p. now split.
    + intros H. apply filter_In in H. destruct H as [H Hcont].
      apply compound_feats_sound in H. destruct H as [[]|(Hg & p & Hp & Hh)].
      repeat split; auto; try discriminate. intros _. exists p. now split.
  - intros H. apply lookup_simple_sound in H. destruct H as [Hg Hh].
    repeat split; auto; discriminate.
Qed.

(* ------------------------------------------------------------------ add_cds *)
Lemma add_cds_contained depth tbl i g tbl' : add_cds depth tbl i g = Ok tbl' ->
  exists a, find_area tbl i = Some a /\ contains (aloc a) (gloc g) = true.
Proof.
  destruct depth; cbn [add_cds]; destruct (find_area tbl i) as [a|]; try discriminate;
    (destruct (contains (aloc a) (gloc g)) eqn:Hc; cbn [negb]; [intros _; exists a; now split|discriminate]).
Qed.

(* ------------------------------------------------------------------ the region window of _link_cds_to_parent *)
Lemma bisect_go_ge {A} (p : A -> bool) l : forall fuel lo hi, (lo <= bisect_go p l fuel lo hi)%nat.
Proof.
  induction fuel as [|f IH]; intros lo hi; cbn [bisect_go]; [lia|].
  destruct (Nat.ltb lo hi) eqn:Hlt; [|lia].
  apply Nat.ltb_lt in Hlt. pose proof (div2_bounds lo hi Hlt) as Hm.
  destruct (nth_error l (Nat.div2 (lo + hi))); [|lia].
  destruct (p a).
  - specialize (IH (S (Nat.div2 (lo + hi))) hi). lia.
  - apply IH.
Qed.

Definition simple_area (a : area) : Prop := exists p, aloc a = [p] /\ ps p < pe p.
Definition as_ (a : area) : Z := lstart (aloc a).
Definition ae (a : area) : Z := lend (aloc a).

(* the regions of a record: disjoint and in ascending order *)
Fixpoint RS (l : list area) : Prop :=
  match l with
  | [] => True
  | r :: t => (forall r', In r' t -> ae r <= as_ r') /\ RS t
  end.

Lemma RS_app a b : RS (a ++ b) -> RS a /\ RS b /\ (forall x y, In x a -> In y b -> ae x <= as_ y).
Proof.
  induction a as [|x a IH]; intros H.
  - split; [exact I|]. split; [exact H|]. intros ? ? [].
  - destruct H as [Hx Hs]. destruct (IH Hs) as (Sa & Sb & Hab). split; [|split].
    + split; [|exact Sa]. intros g Hg. apply Hx. apply in_or_app. now left.
    + exact Sb.
    + intros u v [<-|Hu] Hv; [apply Hx; apply in_or_app; now right|now apply Hab].
Qed.

Lemma ckey_single p : ckey [p] = (ps p, - (pe p - ps p)).
Proof. unfold ckey, kstart. rewrite bridges_single. unfold lstart, llen. cbn. f_equal. lia. Qed.

Lemma region_lt_cds_simple r g pr pg : aloc r = [pr] -> gloc g = [pg] -> ps pr < pe pr -> ps pg < pe pg ->
  zmem (gid g) (amem r) = false ->
  (region_lt_cds r g = true -> ps pr <= ps pg) /\ (ps pr < ps pg -> region_lt_cds r g = true).
Proof.
  intros Er Eg Hr Hg Hm. unfold region_lt_cds. rewrite Hm, Er, Eg, !ckey_single. unfold pair_lt. cbn [fst snd].
  destruct (contains [pr] [pg] && negb (contains [pg] [pr])) eqn:Hc.
  - split; [|reflexivity]. intros _. apply andb_prop in Hc. destruct Hc as [Hc _]. apply contains_single in Hc. lia.
  - destruct (contains [pg] [pr] && negb (contains [pr] [pg])) eqn:Hc2; [|split; lia].
    (* the mirrored shortcut: the gene strictly contains the region, so it does not start after it *)
    apply andb_prop in Hc2. destruct Hc2 as [Hc2 Hn]. apply contains_single in Hc2.
    split; [discriminate|]. intros Hlt. exfalso. lia.
Qed.

Lemma link_window_complete regs g :
  RS regs -> (forall r, In r regs -> simple_area r) -> simple_gene g = true ->
  (forall r, In r regs -> zmem (gid g) (amem r) = false) ->
  let left := bisect (fun r => region_lt_cds r g) regs 0 in
  let right := bisect (fun r => negb (cds_lt_region g r)) regs left in
  let window := firstn (S right - (left - 1)) (skipn (left - 1) regs) in
  forall r, In r regs -> contains (aloc r) (gloc g) = true -> In r window.
Proof.
  intros Hrs Hsim Hg Hmem left right window r Hr Hc.
  destruct (simple_gene_inv g Hg) as (pg & Eg & Hpg & _ & _).
  assert (Hfacts : forall x, In x regs -> exists px, aloc x = [px] /\ ps px < pe px /\
                     (region_lt_cds x g = true -> ps px <= ps pg) /\ (ps px < ps pg -> region_lt_cds x g = true)).
  { intros x Hx. destruct (Hsim x Hx) as (px & Ex & Hpx). exists px. split; [exact Ex|]. split; [exact Hpx|].
    apply (region_lt_cds_simple x g px pg Ex Eg Hpx Hpg (Hmem x Hx)). }
  assert (Hbounds : forall x px, aloc x = [px] -> as_ x = ps px /\ ae x = pe px).
  { intros x px Ex. unfold as_, ae. rewrite Ex. split; reflexivity. }
  destruct (downward_split (fun x => region_lt_cds x g) regs) as (A & B & EAB & HA & HB).
  { intros a x b y E Hy Hp. subst regs.
    destruct (Hfacts x) as (px & Ex & Hpx & _ & Hx2); [apply in_or_app; right; now left|].
    destruct (Hfacts y) as (py & Ey & Hpy & Hy1 & _); [apply in_or_app; right; now right|].
    apply RS_app in Hrs. destruct Hrs as (_ & [Hxb _] & _). specialize (Hxb y Hy).
    destruct (Hbounds x px Ex) as [_ Exe]. destruct (Hbounds y py Ey) as [Eys _].
    apply Hx2. specialize (Hy1 Hp). lia. }
  assert (Eleft : left = length A).
  { unfold left. rewrite EAB. apply bisect_partition; auto. lia. }
  assert (Hright : (left <= right)%nat) by (unfold right, bisect; apply bisect_go_ge).
  rewrite Eleft in Hright.
  destruct (Hfacts r Hr) as (pr & Er & Hpr & Hr1 & Hr2).
  rewrite Er, Eg in Hc. apply contains_single in Hc.
  destruct (Hbounds r pr Er) as [Ers Ere].
  rewrite EAB in Hr. apply in_app_or in Hr. destruct Hr as [Hr|Hr].
  - (* r satisfies the bisection predicate: it is the last such region *)
    apply in_split in Hr. destruct Hr as (A1 & A2 & EA).
    assert (HA2 : A2 = []).
    { destruct A2 as [|r2 A2']; [reflexivity|exfalso].
      assert (Hr2in : In r2 regs) by (rewrite EAB, EA; apply in_or_app; left; apply in_or_app; right; right; now left).
      destruct (Hfacts r2 Hr2in) as (p2 & E2 & Hp2 & H21 & _).
      assert (HP2 : region_lt_cds r2 g = true) by (apply HA; rewrite EA; apply in_or_app; right; right; now left).
      specialize (H21 HP2).
      rewrite EAB, EA in Hrs. apply RS_app in Hrs. destruct Hrs as (Hrs & _ & _).
      apply RS_app in Hrs. destruct Hrs as (_ & [Hx _] & _). specialize (Hx r2 (or_introl eq_refl)).
      destruct (Hbounds r2 p2 E2) as [E2s _]. lia. }
    subst A2. rewrite EA, app_length in Hright. cbn [length] in Hright.
    unfold window. rewrite Eleft, EA, app_length. cbn [length].
    replace (length A1 + 1 - 1)%nat with (length A1) by lia.
    rewrite EAB, EA, <- app_assoc, skipn_length_app. cbn [app].
    destruct (S right - length A1)%nat eqn:En; [lia|]. now left.
  - (* r does not: it is the first such region *)
    apply in_split in Hr. destruct Hr as (B1 & B2 & EB).
    assert (HB1 : B1 = []).
    { destruct B1 as [|r1 B1']; [reflexivity|exfalso].
      assert (Hr1in : In r1 regs) by (rewrite EAB, EB; apply in_or_app; right; now left).
      destruct (Hfacts r1 Hr1in) as (p1 & E1 & Hp1 & _ & H12).
      assert (HP1 : region_lt_cds r1 g = false) by (apply HB; rewrite EB; now left).
      rewrite EAB, EB in Hrs. apply RS_app in Hrs. destruct Hrs as (_ & Hrs & _).
      cbn [app] in Hrs. destruct Hrs as [Hx _].
      assert (Hin : In r (B1' ++ r :: B2)) by (apply in_or_app; right; now left).
      specialize (Hx r Hin).
      destruct (Hbounds r1 p1 E1) as [_ E1e].
      rewrite H12 in HP1; [discriminate|lia]. }
    subst B1. cbn [app] in EB. unfold window. rewrite Eleft.
    destruct A as [|a0 A'] using rev_ind.
    + cbn [length Nat.sub skipn]. rewrite EAB, EB. cbn [app firstn]. now left.
    + clear IHA'. rewrite app_length. cbn [length].
      replace (length A' + 1 - 1)%nat with (length A') by lia.
      rewrite EAB, EB, <- app_assoc, skipn_length_app. cbn [app].
      rewrite app_length in Hright. cbn [length] in Hright.
      destruct (S right - length A')%nat as [|[|n]] eqn:En; [lia|lia|].
      cbn [firstn]. right. now left.
Qed.

(* the region put in front of the slice (repair of C06-K4): nothing when no region crosses the origin ... *)
Lemma link_first_simple regs from : (forall r, In r regs -> simple_area r) -> link_first regs from = [].
Proof.
  intros Hsim. destruct regs as [|r0 rest]; [reflexivity|]. unfold link_first.
  destruct (Hsim r0 (or_introl eq_refl)) as (p & Ep & _). rewrite Ep. cbn [bridges is_compound].
  now rewrite andb_false_r.
Qed.

(* ... and when region 0 crosses the origin it is always among the candidates, whatever the other regions and the gene *)
Lemma link_first_complete regs g r0 : nth_error regs 0 = Some r0 -> bridges (aloc r0) = true ->
  let left := bisect (fun r => region_lt_cds r g) regs 0 in
  let right := bisect (fun r => negb (cds_lt_region g r)) regs left in
  In r0 (link_first regs (left - 1) ++ firstn (S right - (left - 1)) (skipn (left - 1) regs)).
Proof.
  intros Hn Hb left right. destruct regs as [|x rest]; [discriminate|]. cbn in Hn. injection Hn as ->.
  apply in_or_app. destruct (left - 1)%nat as [|f] eqn:Ef.
  - right. cbn [skipn]. rewrite Nat.sub_0_r. cbn [firstn]. now left.
  - left. unfold link_first. cbn [Nat.ltb Nat.leb andb]. rewrite Hb. now left.
Qed.

(* ================================================================== histories ================== *)
(* ------------------------------------------------------------------ region list: insertion, uniqueness *)

Lemma area_bounds x px : aloc x = [px] -> as_ x = ps px /\ ae x = pe px.
Proof. intros Ex. unfold as_, ae. rewrite Ex. split; reflexivity. Qed.

(* converse of RS_app *)
Lemma RS_app_intro a b : RS a -> RS b -> (forall x y, In x a -> In y b -> ae x <= as_ y) -> RS (a ++ b).
Proof.
  induction a as [|x a IH]; intros Ha Hb Hab; [exact Hb|].
  destruct Ha as [Hx Ha]. cbn [app RS]. split.
  - intros r' Hr. apply in_app_or in Hr. destruct Hr as [Hr|Hr]; [now apply Hx|].
    apply Hab; [now left|exact Hr].
  - apply IH; [exact Ha|exact Hb|]. intros u v Hu Hv. apply Hab; [now right|exact Hv].
Qed.

(* one step of the insertion loop on simple, non-overlapping areas *)
Lemma region_step a x : simple_area a -> simple_area x -> overlap (aloc a) (aloc x) = false ->
  (region_lt_region a x = true -> ae a <= as_ x) /\ (region_lt_region a x = false -> ae x <= as_ a).
Proof.
  intros (pa & Ea & Hpa) (px & Ex & Hpx) Ho.
  destruct (area_bounds a pa Ea) as [Eas Eae]. destruct (area_bounds x px Ex) as [Exs Exe].
  rewrite Eas, Eae, Exs, Exe. unfold region_lt_region. rewrite Ea, Ex in *. rewrite !ckey_single.
  unfold pair_lt. cbn [fst snd].
  pose proof (overlap_single pa px Hpa Hpx) as Hov.
  pose proof (contains_single pa px) as Hc1. pose proof (contains_single px pa) as Hc2.
  destruct (overlap [pa] [px]); [discriminate|].
  destruct (contains [pa] [px]); destruct (contains [px] [pa]); cbn [andb negb]; split; intros H; lia.
Qed.

(* the insertion loop of add_region keeps the region list disjoint and ascending *)
Lemma region_index_split a : simple_area a -> forall regs i idx,
  (forall r, In r regs -> simple_area r) -> RS regs ->
  region_index a regs i = Ok idx ->
  exists A B, regs = A ++ B /\ idx = (i + length A)%nat /\
              (forall x, In x A -> ae x <= as_ a) /\ (forall y, In y B -> ae a <= as_ y).
Proof.
  intros Ha regs i idx Hsim Hrs H. unfold region_index in H.
  destruct (existsb (fun x => overlap (aloc a) (aloc x)) regs) eqn:Hex; [discriminate|]. injection H as <-.
  assert (Hno : forall x, In x regs -> overlap (aloc a) (aloc x) = false).
  { intros x Hx. destruct (overlap (aloc a) (aloc x)) eqn:Ho; [|reflexivity].
    assert (existsb (fun x => overlap (aloc a) (aloc x)) regs = true) by (apply existsb_exists; exists x; split; assumption).
    congruence. }
  clear Hex. revert i Hsim Hrs Hno. induction regs as [|x r IH]; intros i Hsim Hrs Hno.
  - exists [], []. cbn [region_pos length app]. repeat split; try lia; intros ? [].
  - cbn [region_pos]. pose proof (Hno x (or_introl eq_refl)) as Ho.
    assert (Hx : simple_area x) by (apply Hsim; now left).
    destruct (region_step a x Ha Hx Ho) as [Ht Hf]. destruct Hrs as [Hxr Hrs].
    destruct (region_lt_region a x) eqn:Hlt.
    + exists [], (x :: r). cbn [length app]. repeat split; try lia; [intros ? []|].
      specialize (Ht eq_refl). intros y [<-|Hy]; [exact Ht|].
      specialize (Hxr y Hy). destruct Hx as (px & Ex & Hpx). destruct (area_bounds x px Ex). lia.
    + destruct (IH (S i)) as (A & B & E & Ei & HA & HB);
        [intros r0 Hr0; apply Hsim; now right|exact Hrs|intros y Hy; apply Hno; now right|].
      exists (x :: A), B. cbn [length app]. rewrite Ei. rewrite E at 1. repeat split; [lia| |exact HB].
      intros y [<-|Hy]; [now apply Hf|now apply HA].
Qed.

Lemma region_index_RS a regs idx : simple_area a -> (forall r, In r regs -> simple_area r) -> RS regs ->
  region_index a regs 0 = Ok idx -> RS (insert_at idx a regs).
Proof.
  intros Ha Hsim Hrs H.
  destruct (region_index_split a Ha regs 0%nat idx Hsim Hrs H) as (A & B & E & Ei & HA & HB).
  cbn [Nat.add] in Ei. subst regs idx. unfold insert_at. rewrite firstn_length_app, skipn_length_app.
  destruct (RS_app A B Hrs) as (RA & RB & HAB).
  apply RS_app_intro; [exact RA|split; [exact HB|exact RB]|].
  intros x y Hx [<-|Hy]; [now apply HA|now apply HAB].
Qed.

Lemma contains_two_absurd r1 r2 g : simple_area r1 -> simple_area r2 -> simple_gene g = true ->
  ae r1 <= as_ r2 -> contains (aloc r1) (gloc g) = true -> contains (aloc r2) (gloc g) = true -> False.
Proof.
  intros (p1 & E1 & Hp1) (p2 & E2 & Hp2) Hg Hle C1 C2.
  destruct (simple_gene_inv g Hg) as (pg & Eg & Hpg & _ & _).
  destruct (area_bounds r1 p1 E1) as [_ Ee]. destruct (area_bounds r2 p2 E2) as [Es _].
  rewrite E1, Eg in C1. rewrite E2, Eg in C2. apply contains_single in C1. apply contains_single in C2. lia.
Qed.

(* at most one region of a disjoint ascending list contains a non-empty single-part gene *)
Lemma RS_contains_unique regs g : RS regs -> (forall r, In r regs -> simple_area r) -> simple_gene g = true ->
  forall l1 r1 l2 r2 m1 m2, regs = l1 ++ r1 :: m1 -> regs = l2 ++ r2 :: m2 ->
  contains (aloc r1) (gloc g) = true -> contains (aloc r2) (gloc g) = true -> l1 = l2 /\ r1 = r2.
Proof.
  intros Hrs Hsim Hg l1. revert regs Hrs Hsim.
  induction l1 as [|x l1 IH]; intros regs Hrs Hsim r1 l2 r2 m1 m2 E1 E2 C1 C2.
  - destruct l2 as [|y l2].
    + rewrite E1 in E2. cbn [app] in E2. injection E2 as -> _. now split.
    + exfalso. rewrite E1 in E2. cbn [app] in E2. injection E2 as <- Em.
      cbn [app] in E1. subst regs. destruct Hrs as [Hx _].
      assert (Hin : In r2 m1) by (rewrite Em; apply in_or_app; right; now left).
      apply (contains_two_absurd r1 r2 g); auto.
      * apply Hsim. now left.
      * apply Hsim. right. exact Hin.
  - destruct l2 as [|y l2].
    + exfalso. rewrite E2 in E1. cbn [app] in E1. injection E1 as -> Em.
      cbn [app] in E2. subst regs. destruct Hrs as [Hx _].
      assert (Hin : In r1 m2) by (rewrite Em; apply in_or_app; right; now left).
      apply (contains_two_absurd x r1 g); auto.
      * apply Hsim. now left.
      * apply Hsim. right. exact Hin.
    + assert (Exy : x = y) by (rewrite E1 in E2; cbn [app] in E2; now injection E2).
      subst y. destruct regs as [|z regs']; [destruct l1; discriminate|].
      cbn [app] in E1, E2. injection E1 as -> E1. injection E2 as E2.
      destruct Hrs as [_ Hrs].
      destruct (IH regs' Hrs (fun r Hr => Hsim r (or_intror Hr)) r1 l2 r2 m1 m2 E1 E2 C1 C2) as [-> ->].
      now split.
Qed.

Lemma RS_contains_same regs g r1 r2 : RS regs -> (forall r, In r regs -> simple_area r) -> simple_gene g = true ->
  In r1 regs -> In r2 regs -> contains (aloc r1) (gloc g) = true -> contains (aloc r2) (gloc g) = true -> r1 = r2.
Proof.
  intros Hrs Hsim Hg H1 H2 C1 C2.
  apply in_split in H1. destruct H1 as (l1 & m1 & E1).
  apply in_split in H2. destruct H2 as (l2 & m2 & E2).
  exact (proj2 (RS_contains_unique regs g Hrs Hsim Hg l1 r1 l2 r2 m1 m2 E1 E2 C1 C2)).
Qed.


(* ------------------------------------------------------------------ tables of areas: definitions *)
(* the fields of an area that never change after it entered the record *)
Definition static (a : area) := (aid a, akind a, aloc a, acore a, aprod a, achild a).
(* the test of Protocluster.add_cds *)
Definition defcond (a : area) (g : gene) : bool :=
  (akind a =? K_PROTO) && contains (acore a) (gloc g) && smem (aprod a) (gcore g).

(* a' is a with more members / definition genes, every new one being a gene of G that a's location contains *)
Definition ext (G : list gene) (a a' : area) : Prop :=
  static a = static a' /\ incl (amem a) (amem a') /\ incl (adef a) (adef a') /\
  (forall x, In x (amem a') -> In x (amem a) \/
     exists g, In g G /\ gid g = x /\ contains (aloc a) (gloc g) = true) /\
  (forall x, In x (adef a') -> In x (adef a) \/
     exists g, In g G /\ gid g = x /\ contains (aloc a) (gloc g) = true /\ defcond a g = true).
Definition R (G : list gene) : list area -> list area -> Prop := Forall2 (ext G).

(* cds.region as the harness reads it *)
Definition link_of (lk : list (Z * Z)) (x : Z) : option Z :=
  match find (fun p => fst p =? x) lk with Some (_, r) => Some r | None => None end.

Definition mem_sound (G : list gene) (a : area) : Prop :=
  (forall x, In x (amem a) -> exists g, In g G /\ gid g = x /\ contains (aloc a) (gloc g) = true) /\
  (forall x, In x (adef a) -> exists g, In g G /\ gid g = x /\ contains (aloc a) (gloc g) = true /\ defcond a g = true).
Definition mem_complete (G : list gene) (a : area) : Prop :=
  forall g, In g G -> contains (aloc a) (gloc g) = true ->
    In (gid g) (amem a) /\ (defcond a g = true -> In (gid g) (adef a)).

(* ------------------------------------------------------------------ tables of areas: extension relation, add_cds *)
(* ---------- helpers ---------- *)
Lemma static_inv a b : static a = static b ->
  aid a = aid b /\ akind a = akind b /\ aloc a = aloc b /\ acore a = acore b /\
  aprod a = aprod b /\ achild a = achild b.
Proof. unfold static. intros H. injection H. intros. repeat split; assumption. Qed.

Lemma defcond_static a b g : static a = static b -> defcond a g = defcond b g.
Proof.
  intros H. apply static_inv in H. destruct H as (_ & Hk & _ & Hc & Hp & _).
  unfold defcond. rewrite Hk, Hc, Hp. reflexivity.
Qed.

Lemma zmem_In x l : zmem x l = true <-> In x l.
Proof.
  unfold zmem. rewrite existsb_exists. split.
  - intros (y & Hy & E). apply Z.eqb_eq in E. subst. exact Hy.
  - intros H. exists x. split; [exact H|apply Z.eqb_refl].
Qed.

Lemma add_once_In x y l : In x (add_once y l) <-> In x l \/ x = y.
Proof.
  unfold add_once. destruct (zmem y l) eqn:E.
  - apply zmem_In in E. split; [intros H; now left|]. intros [H|H]; [exact H|subst; exact E].
  - rewrite in_app_iff. cbn [In]. split.
    + intros [H|[H|[]]]; [now left|right; now symmetry].
    + intros [H|H]; [now left|right; left; now symmetry].
Qed.

Lemma add_once_incl y l : incl l (add_once y l).
Proof. intros x Hx. apply add_once_In. now left. Qed.

Lemma nodup_aid_inj tbl a b : NoDup (map aid tbl) -> In a tbl -> In b tbl -> aid a = aid b -> a = b.
Proof.
  induction tbl as [|x tbl IH]; intros ND Ha Hb E; [destruct Ha|].
  cbn [map] in ND. inversion ND as [|? ? Hn ND']; subst.
  destruct Ha as [Ha|Ha]; destruct Hb as [Hb|Hb].
  - congruence.
  - subst a. exfalso. apply Hn. rewrite E. now apply in_map.
  - subst b. exfalso. apply Hn. rewrite <- E. now apply in_map.
  - now apply IH.
Qed.

Lemma Forall2_map_r {A} (P : A -> A -> Prop) f l :
  (forall x, In x l -> P x (f x)) -> Forall2 P l (map f l).
Proof.
  induction l as [|x l IH]; intros H; cbn [map]; constructor.
  - apply H. now left.
  - apply IH. intros y Hy. apply H. now right.
Qed.

Lemma fold_err {A B} (f : res A -> B -> res A) :
  (forall k c, f (Err k) c = Err k) -> forall cs k, fold_left f cs (Err k) = Err k.
Proof.
  intros Hf. induction cs as [|c cs IH]; intros k; cbn [fold_left]; [reflexivity|].
  rewrite Hf. apply IH.
Qed.

(* ---------- the stub lemmas ---------- *)
Lemma ext_refl G a : ext G a a.
Proof.
  unfold ext. split; [reflexivity|]. split; [apply incl_refl|]. split; [apply incl_refl|].
  split; intros x Hx; now left.
Qed.

Lemma ext_trans G a b c : ext G a b -> ext G b c -> ext G a c.
Proof.
  intros (S1 & M1 & D1 & GM1 & GD1) (S2 & M2 & D2 & GM2 & GD2).
  destruct (static_inv _ _ S1) as (_ & _ & Hl & _).
  split; [congruence|]. split; [eapply incl_tran; eauto|]. split; [eapply incl_tran; eauto|]. split.
  - intros x Hx. destruct (GM2 x Hx) as [Hb|(g & Hg & Hi & Hc)].
    + apply GM1; exact Hb.
    + right. exists g. rewrite Hl. auto.
  - intros x Hx. destruct (GD2 x Hx) as [Hb|(g & Hg & Hi & Hc & Hd)].
    + apply GD1; exact Hb.
    + right. exists g. rewrite Hl, (defcond_static a b g S1). auto.
Qed.

Lemma ext_mono G G' a b : incl G G' -> ext G a b -> ext G' a b.
Proof.
  intros HG (S1 & M1 & D1 & GM1 & GD1).
  split; [exact S1|]. split; [exact M1|]. split; [exact D1|]. split.
  - intros x Hx. destruct (GM1 x Hx) as [Hb|(g & Hg & Hi & Hc)]; [now left|].
    right. exists g. auto.
  - intros x Hx. destruct (GD1 x Hx) as [Hb|(g & Hg & Hi & Hc & Hd)]; [now left|].
    right. exists g. auto.
Qed.

Lemma R_refl G t : R G t t.
Proof. unfold R. induction t; constructor; [apply ext_refl|assumption]. Qed.

Lemma R_trans G t1 t2 t3 : R G t1 t2 -> R G t2 t3 -> R G t1 t3.
Proof.
  unfold R. intros H. revert t3. induction H as [|x y l l' Hxy Hl IH]; intros t3 H2.
  - inversion H2. constructor.
  - inversion H2 as [|? z ? l'' Hyz Hl']; subst. constructor.
    + eapply ext_trans; eauto.
    + apply IH. exact Hl'.
Qed.

Lemma R_mono G G' t t' : incl G G' -> R G t t' -> R G' t t'.
Proof.
  unfold R. intros HG H. induction H; constructor; [eapply ext_mono; eauto|assumption].
Qed.

Lemma R_static G t t' : R G t t' -> map static t = map static t'.
Proof.
  unfold R. intros H. induction H as [|x y l l' Hxy Hl IH]; cbn [map]; [reflexivity|].
  destruct Hxy as [Hs _]. rewrite Hs, IH. reflexivity.
Qed.

Lemma R_aid G t t' : R G t t' -> map aid t = map aid t'.
Proof.
  unfold R. intros H. induction H as [|x y l l' Hxy Hl IH]; cbn [map]; [reflexivity|].
  destruct Hxy as [Hs _]. apply static_inv in Hs. destruct Hs as [Hs _]. rewrite Hs, IH. reflexivity.
Qed.

Lemma R_find G t t' i a : R G t t' -> find_area t i = Some a ->
  exists a', find_area t' i = Some a' /\ ext G a a'.
Proof.
  unfold R, find_area. intros H. induction H as [|x y l l' Hxy Hl IH]; cbn [find]; intros F; [discriminate|].
  assert (E : aid x = aid y) by (destruct Hxy as [Hs _]; apply static_inv in Hs; tauto).
  rewrite <- E. destruct (aid x =? i).
  - injection F as <-. exists y. auto.
  - apply IH. exact F.
Qed.

Lemma R_find_none G t t' i : R G t t' -> find_area t i = None -> find_area t' i = None.
Proof.
  unfold R, find_area. intros H. induction H as [|x y l l' Hxy Hl IH]; cbn [find]; intros F; [reflexivity|].
  assert (E : aid x = aid y) by (destruct Hxy as [Hs _]; apply static_inv in Hs; tauto).
  rewrite <- E. destruct (aid x =? i); [discriminate|]. apply IH. exact F.
Qed.

Lemma R_in G t t' a' : R G t t' -> In a' t' -> exists a, In a t /\ ext G a a'.
Proof.
  unfold R. intros H. induction H as [|x y l l' Hxy Hl IH]; intros Hin; [destruct Hin|].
  destruct Hin as [<-|Hin].
  - exists x. split; [now left|exact Hxy].
  - destruct (IH Hin) as (a & Ha & Hx). exists a. split; [now right|exact Hx].
Qed.

Lemma R_in_l G t t' a : R G t t' -> In a t -> exists a', In a' t' /\ ext G a a'.
Proof.
  unfold R. intros H. induction H as [|x y l l' Hxy Hl IH]; intros Hin; [destruct Hin|].
  destruct Hin as [<-|Hin].
  - exists y. split; [now left|exact Hxy].
  - destruct (IH Hin) as (a' & Ha & Hx). exists a'. split; [now right|exact Hx].
Qed.

Lemma find_area_in tbl i a : find_area tbl i = Some a -> In a tbl /\ aid a = i.
Proof.
  unfold find_area. intros H. apply find_some in H. destruct H as [Hin E].
  apply Z.eqb_eq in E. auto.
Qed.

Lemma find_area_nodup tbl a : NoDup (map aid tbl) -> In a tbl -> find_area tbl (aid a) = Some a.
Proof.
  unfold find_area. induction tbl as [|x tbl IH]; intros ND Hin; [destruct Hin|].
  cbn [map] in ND. inversion ND as [|? ? Hn ND']; subst. cbn [find].
  destruct Hin as [->|Hin]; [rewrite Z.eqb_refl; reflexivity|].
  destruct (aid x =? aid a) eqn:E.
  - apply Z.eqb_eq in E. exfalso. apply Hn. rewrite E. now apply in_map.
  - now apply IH.
Qed.

(* ---------- update_area ---------- *)
Lemma R_nodup G t t' : R G t t' -> NoDup (map aid t) -> NoDup (map aid t').
Proof. intros H ND. rewrite <- (R_aid G t t' H). exact ND. Qed.

Lemma R_update G tbl i a a1 : NoDup (map aid tbl) -> find_area tbl i = Some a ->
  aid a1 = aid a -> ext G a a1 -> R G tbl (update_area tbl a1).
Proof.
  intros ND F E X. apply find_area_in in F. destruct F as [Hin Hi].
  unfold R, update_area. apply Forall2_map_r. intros x Hx.
  destruct (aid x =? aid a1) eqn:Eq.
  - apply Z.eqb_eq in Eq. assert (x = a) by (eapply nodup_aid_inj; eauto; congruence).
    subst x. exact X.
  - apply ext_refl.
Qed.

Lemma find_update tbl a1 a0 : find_area tbl (aid a1) = Some a0 ->
  find_area (update_area tbl a1) (aid a1) = Some a1.
Proof.
  unfold find_area, update_area. induction tbl as [|x tbl IH]; cbn [find map]; [discriminate|].
  destruct (aid x =? aid a1) eqn:E.
  - intros _. rewrite Z.eqb_refl. reflexivity.
  - rewrite E. exact IH.
Qed.

(* ---------- add_cds ---------- *)
Lemma add_cds_unfold depth tbl i g :
  add_cds depth tbl i g =
  match find_area tbl i with
  | None => Err E_Key
  | Some a =>
    if negb (contains (aloc a) (gloc g)) then Err E_Value else
    let a1 := set_mem a (add_once (gid g) (amem a)) in
    let tbl1 := update_area tbl a1 in
    do tbl2 <-
      match depth with
      | O => Ok tbl1
      | S d =>
        fold_left (fun acc c =>
                     do t <- acc;
                     match find_area t c with
                     | Some ch => if contains (aloc ch) (gloc g) then add_cds d t c g else Ok t
                     | None => Err E_Key
                     end) (achild a) (Ok tbl1)
      end;
    if akind a =? K_PROTO then
      if negb (contains (acore a) (gloc g)) then Ok tbl2
      else if smem (aprod a) (gcore g) then
        match find_area tbl2 i with
        | Some a2 => Ok (update_area tbl2 (set_def a2 (add_once (gid g) (adef a2))))
        | None => Err E_Key
        end
      else Ok tbl2
    else Ok tbl2
  end.
Proof. destruct depth; reflexivity. Qed.

Lemma children_spec G g d :
  (forall tbl i tbl', NoDup (map aid tbl) -> add_cds d tbl i g = Ok tbl' -> R G tbl tbl') ->
  forall cs t0 t2, NoDup (map aid t0) ->
  fold_left (fun acc c =>
               do t <- acc;
               match find_area t c with
               | Some ch => if contains (aloc ch) (gloc g) then add_cds d t c g else Ok t
               | None => Err E_Key
               end) cs (Ok t0) = Ok t2 ->
  R G t0 t2.
Proof.
  intros IHd. induction cs as [|c cs IH]; intros t0 t2 ND H; cbn [fold_left] in H.
  - injection H as <-. apply R_refl.
  - cbn [bind] in H.
    destruct (find_area t0 c) as [ch|].
    + destruct (contains (aloc ch) (gloc g)).
      * destruct (add_cds d t0 c g) as [t1|k] eqn:E1.
        -- assert (R1 : R G t0 t1) by (eapply IHd; eauto).
           eapply R_trans; [exact R1|]. apply IH; [eapply R_nodup; eauto|exact H].
        -- rewrite fold_err in H; [discriminate|]. intros; reflexivity.
      * apply IH; assumption.
    + rewrite fold_err in H; [discriminate|]. intros; reflexivity.
Qed.

Lemma step_spec G g tbl i tbl' (mid : res (list area)) a :
  In g G -> NoDup (map aid tbl) -> find_area tbl i = Some a -> contains (aloc a) (gloc g) = true ->
  (forall tbl2, mid = Ok tbl2 ->
     R G (update_area tbl (set_mem a (add_once (gid g) (amem a)))) tbl2) ->
  (do tbl2 <- mid;
   if akind a =? K_PROTO then
     if negb (contains (acore a) (gloc g)) then Ok tbl2
     else if smem (aprod a) (gcore g) then
       match find_area tbl2 i with
       | Some a2 => Ok (update_area tbl2 (set_def a2 (add_once (gid g) (adef a2))))
       | None => Err E_Key
       end
     else Ok tbl2
   else Ok tbl2) = Ok tbl' ->
  R G tbl tbl' /\
  exists a a', find_area tbl i = Some a /\ find_area tbl' i = Some a' /\
     contains (aloc a) (gloc g) = true /\ In (gid g) (amem a') /\
     (defcond a g = true -> In (gid g) (adef a')).
Proof.
  intros Hg ND F C Hmid H.
  set (a1 := set_mem a (add_once (gid g) (amem a))) in *.
  set (tbl1 := update_area tbl a1) in *.
  assert (X1 : ext G a a1).
  { split; [reflexivity|]. split; [apply add_once_incl|]. split; [apply incl_refl|]. split.
    - intros x Hx. unfold a1, set_mem in Hx. cbn [amem] in Hx. apply add_once_In in Hx.
      destruct Hx as [Hx| ->]; [now left|]. right. exists g. auto.
    - intros x Hx. now left. }
  assert (R1 : R G tbl tbl1) by (eapply R_update; eauto).
  assert (Hi : aid a = i) by (apply find_area_in in F; tauto).
  assert (F1 : find_area tbl1 i = Some a1).
  { rewrite <- Hi in F |- *. exact (find_update tbl a1 a F). }
  assert (ND1 : NoDup (map aid tbl1)) by (eapply R_nodup; eauto).
  destruct mid as [tbl2|k]; cbn [bind] in H; [|discriminate].
  specialize (Hmid tbl2 eq_refl).
  destruct (R_find _ _ _ _ _ Hmid F1) as (a2 & F2 & X2).
  assert (R2 : R G tbl tbl2) by (eapply R_trans; eauto).
  assert (ND2 : NoDup (map aid tbl2)) by (eapply R_nodup; eauto).
  assert (X02 : ext G a a2) by (eapply ext_trans; eauto).
  assert (M2 : In (gid g) (amem a2)).
  { destruct X2 as (_ & M & _). apply M. unfold a1, set_mem. cbn [amem]. apply add_once_In. now right. }
  assert (Base : defcond a g = false -> tbl' = tbl2 ->
    R G tbl tbl' /\
    exists a a', find_area tbl i = Some a /\ find_area tbl' i = Some a' /\
     contains (aloc a) (gloc g) = true /\ In (gid g) (amem a') /\
     (defcond a g = true -> In (gid g) (adef a'))).
  { intros Hd ->. split; [exact R2|]. exists a, a2. repeat split; auto.
    intros Hd'. rewrite Hd in Hd'. discriminate. }
  destruct (akind a =? K_PROTO) eqn:Ek.
  - destruct (contains (acore a) (gloc g)) eqn:Ec; cbn [negb] in H.
    + destruct (smem (aprod a) (gcore g)) eqn:Es.
      * rewrite F2 in H. injection H as <-.
        set (a3 := set_def a2 (add_once (gid g) (adef a2))).
        assert (S02 : static a = static a2) by (destruct X02; assumption).
        assert (Hd : defcond a g = true) by (unfold defcond; rewrite Ek, Ec, Es; reflexivity).
        assert (X3 : ext G a2 a3).
        { split; [reflexivity|]. split; [apply incl_refl|]. split; [apply add_once_incl|]. split.
          - intros x Hx. now left.
          - intros x Hx. unfold a3, set_def in Hx. cbn [adef] in Hx. apply add_once_In in Hx.
            destruct Hx as [Hx| ->]; [now left|]. right. exists g.
            rewrite <- (defcond_static a a2 g S02).
            destruct (static_inv _ _ S02) as (_ & _ & Hl & _). rewrite <- Hl. auto. }
        assert (Hi2 : aid a2 = i) by (apply find_area_in in F2; tauto).
        assert (R3 : R G tbl2 (update_area tbl2 a3)) by (eapply R_update; eauto).
        split; [eapply R_trans; eauto|].
        exists a, a3. split; [exact F|]. split.
        { rewrite <- Hi2 in F2 |- *. exact (find_update tbl2 a3 a2 F2). }
        split; [exact C|]. split; [exact M2|].
        intros _. unfold a3, set_def. cbn [adef]. apply add_once_In. now right.
      * apply Base; [|now injection H]. unfold defcond. rewrite Ek, Ec, Es. reflexivity.
    + apply Base; [|now injection H]. unfold defcond. rewrite Ek, Ec. reflexivity.
  - apply Base; [|now injection H]. unfold defcond. rewrite Ek. reflexivity.
Qed.

(* CDSCollection.add_cds / Protocluster.add_cds: the table only grows by the gene, where it is contained,
   and the addressed collection certainly receives it *)
Lemma add_cds_spec G g : In g G -> forall depth tbl i tbl', NoDup (map aid tbl) ->
  add_cds depth tbl i g = Ok tbl' ->
  R G tbl tbl' /\
  exists a a', find_area tbl i = Some a /\ find_area tbl' i = Some a' /\
     contains (aloc a) (gloc g) = true /\ In (gid g) (amem a') /\
     (defcond a g = true -> In (gid g) (adef a')).
Proof.
  intros Hg. induction depth as [|d IHd]; intros tbl i tbl' ND H; rewrite add_cds_unfold in H;
    destruct (find_area tbl i) as [a|] eqn:F; try discriminate;
    destruct (contains (aloc a) (gloc g)) eqn:C; cbn [negb] in H; try discriminate;
    cbv zeta in H.
  - rewrite <- F. eapply step_spec; try eassumption; try (rewrite F; eassumption).
    intros tbl2 E. injection E as <-. apply R_refl.
  - rewrite <- F. eapply step_spec; try eassumption; try (rewrite F; eassumption).
    intros tbl2 E. eapply children_spec; [| |exact E].
    + intros t j t' NDt Ht. exact (proj1 (IHd t j t' NDt Ht)).
    + eapply R_nodup; [|exact ND]. apply (R_update G tbl i a); [exact ND|exact F|reflexivity|].
      split; [reflexivity|]. split; [apply add_once_incl|]. split; [apply incl_refl|]. split.
      * intros x Hx. cbn [amem set_mem] in Hx. apply add_once_In in Hx.
        destruct Hx as [Hx| ->]; [now left|]. right. exists g. auto.
      * intros x Hx. now left.
Qed.

(* ------------------------------------------------------------------ the folds of _link_cds_to_parent and of the area insertions *)
(* the three folds of _link_cds_to_parent / add_<area>; the bodies are copied from Model.v so that they are
   convertible with the anonymous functions used there *)
Definition scan_step (g : gene) := fun (acc : res (list area)) (i : Z) =>
                       do t <- acc;
                       match find_area t i with
                       | Some a => if contains (aloc a) (gloc g) then add_cds DEPTH t i g else Ok t
                       | None => Err E_Key
                       end.
Definition win_step (g : gene) := fun (acc : res (list area * list (Z * Z))) (r : area) =>
                       do tl <- acc;
                       let '(t, lk) := tl in
                       if contains (aloc r) (gloc g)
                       then do t' <- add_cds DEPTH t (aid r) g; Ok (t', set_link lk (gid g) (aid r))
                       else Ok (t, lk).
Definition pair_step (a : area) (set_region : bool) := fun (acc : res (list area * list (Z * Z))) (g : gene) =>
                       do tl <- acc;
                       let '(t, lk) := tl in
                       do t' <- add_cds DEPTH t (aid a) g;
                       Ok (t', if set_region then set_link lk (gid g) (aid a) else lk).

(* ---------- helpers ---------- *)
Lemma static_defcond a b g : static a = static b -> defcond a g = defcond b g.
Proof. unfold static, defcond. intro H. injection H. intros. congruence. Qed.

Lemma static_aloc a b : static a = static b -> aloc a = aloc b.
Proof. unfold static. intro H. injection H. intros. congruence. Qed.

Lemma scan_err g ids k : fold_left (scan_step g) ids (Err k) = Err k.
Proof. induction ids as [|x l IH]; cbn [fold_left]; auto. Qed.

Lemma win_err g w k : fold_left (win_step g) w (Err k) = Err k.
Proof. induction w as [|x l IH]; cbn [fold_left]; auto. Qed.

Lemma pair_err a sr l k : fold_left (pair_step a sr) l (Err k) = Err k.
Proof. induction l as [|x l IH]; cbn [fold_left]; auto. Qed.

Lemma ex_or_all {A} (f : A -> bool) l :
  (exists r, In r l /\ f r = true) \/ (forall r, In r l -> f r = false).
Proof.
  induction l as [|x l IH].
  - right; intros r [].
  - destruct (f x) eqn:E.
    + left; exists x; split; [left; auto|auto].
    + destruct IH as [(r & Hr & Fr)|H].
      * left; exists r; split; [right|]; auto.
      * right; intros r [<-|Hr]; auto.
Qed.

Lemma find_filter_ne (lk : list (Z * Z)) g x : x <> g ->
  find (fun p : Z * Z => fst p =? x) (filter (fun y : Z * Z => negb (fst y =? g)) lk)
  = find (fun p : Z * Z => fst p =? x) lk.
Proof.
  intro N. induction lk as [|[u v] lk IH]; cbn [filter find fst]; auto.
  destruct (u =? g) eqn:E1; cbn [negb].
  - destruct (u =? x) eqn:E2; [lia|]. exact IH.
  - cbn [find fst]. destruct (u =? x); auto.
Qed.

(* ---------- the stub lemmas ---------- *)
Lemma link_of_set lk g r x : link_of (set_link lk g r) x = if x =? g then Some r else link_of lk x.
Proof.
  unfold link_of, set_link. cbn [find fst]. rewrite (Z.eqb_sym g x).
  destruct (x =? g) eqn:E; auto.
  rewrite find_filter_ne by lia. reflexivity.
Qed.

Lemma scan_fold_spec G g : In g G -> forall ids t1 t2, NoDup (map aid t1) ->
  fold_left (scan_step g) ids (Ok t1) = Ok t2 ->
  R G t1 t2 /\
  forall i a, In i ids -> find_area t1 i = Some a -> contains (aloc a) (gloc g) = true ->
    exists a2, find_area t2 i = Some a2 /\ In (gid g) (amem a2) /\ (defcond a g = true -> In (gid g) (adef a2)).
Proof.
  intros Hg ids. induction ids as [|x l IH]; intros t1 t2 ND F.
  - cbn in F. injection F as <-. split; [apply R_refl|]. intros i a [].
  - cbn [fold_left] in F.
    destruct (scan_step g (Ok t1) x) as [tm|k] eqn:E; [|rewrite scan_err in F; discriminate].
    assert (Rm : R G t1 tm /\
                 (forall a, find_area t1 x = Some a -> contains (aloc a) (gloc g) = true ->
                    exists a', find_area tm x = Some a' /\ In (gid g) (amem a') /\
                               (defcond a g = true -> In (gid g) (adef a')))).
    { unfold scan_step in E. cbn [bind] in E.
      destruct (find_area t1 x) as [a0|] eqn:Fx; [|discriminate].
      destruct (contains (aloc a0) (gloc g)) eqn:C.
      - destruct (add_cds_spec G g Hg _ _ _ _ ND E) as (Rr & a & a' & F1 & F2 & C1 & M & D).
        split; auto. intros b Hb _. rewrite Fx in F1. injection Hb as <-. injection F1 as <-.
        exists a'. auto.
      - injection E as <-. split; [apply R_refl|]. intros b Hb Cb. injection Hb as <-. congruence. }
    destruct Rm as [Rm Hm].
    assert (NDm : NoDup (map aid tm)) by (rewrite <- (R_aid _ _ _ Rm); exact ND).
    destruct (IH tm t2 NDm F) as [R2 H2].
    split; [eapply R_trans; eauto|].
    intros i a [->|Hi] Fa Ca.
    + destruct (Hm a Fa Ca) as (a' & Fa' & Ma & Da).
      destruct (R_find _ _ _ _ _ R2 Fa') as (a2 & Fa2 & E2).
      exists a2. destruct E2 as (S2 & I1 & I2 & _). split; auto.
    + destruct (R_find _ _ _ _ _ Rm Fa) as (a' & Fa' & E1).
      destruct E1 as (S1 & _).
      assert (Ca' : contains (aloc a') (gloc g) = true)
        by (rewrite <- (static_aloc _ _ S1); exact Ca).
      destruct (H2 i a' Hi Fa' Ca') as (a2 & Fa2 & M2 & D2).
      exists a2. split; auto. split; auto.
      intro D. apply D2. rewrite <- (static_defcond _ _ g S1). exact D.
Qed.

Lemma win_fold_spec G g : In g G -> forall w t lk t' lk', NoDup (map aid t) ->
  fold_left (win_step g) w (Ok (t, lk)) = Ok (t', lk') ->
  R G t t' /\
  (forall r, In r w -> contains (aloc r) (gloc g) = true ->
     exists a2, find_area t' (aid r) = Some a2 /\ In (gid g) (amem a2)) /\
  (forall x, x <> gid g -> link_of lk' x = link_of lk x) /\
  ((forall r, In r w -> contains (aloc r) (gloc g) = false) -> lk' = lk) /\
  (forall i0, (exists r, In r w /\ contains (aloc r) (gloc g) = true) ->
              (forall r, In r w -> contains (aloc r) (gloc g) = true -> aid r = i0) ->
              link_of lk' (gid g) = Some i0).
Proof.
  intros Hg w. induction w as [|x l IH]; intros t lk t' lk' ND F.
  - cbn in F. injection F as <- <-. split; [apply R_refl|]. split; [intros r []|].
    split; [auto|]. split; [auto|]. intros i0 (r & [] & _).
  - cbn [fold_left] in F.
    destruct (win_step g (Ok (t, lk)) x) as [[tm lkm]|k] eqn:E; [|rewrite win_err in F; discriminate].
    unfold win_step in E. cbn [bind] in E.
    destruct (contains (aloc x) (gloc g)) eqn:C.
    + destruct (add_cds DEPTH t (aid x) g) as [t1|k] eqn:A; cbn [bind] in E; [|discriminate].
      injection E as <- <-.
      destruct (add_cds_spec G g Hg _ _ _ _ ND A) as (Rm & a & a' & F1 & F2 & C1 & M & D).
      assert (NDm : NoDup (map aid t1)) by (rewrite <- (R_aid _ _ _ Rm); exact ND).
      destruct (IH _ _ _ _ NDm F) as (R2 & H2 & H3 & H4 & H5).
      split; [eapply R_trans; eauto|].
      split.
      { intros r [<-|Hr] Cr.
        - destruct (R_find _ _ _ _ _ R2 F2) as (a2 & Fa2 & E2). exists a2. split; auto.
          destruct E2 as (_ & I1 & _). auto.
        - auto. }
      split.
      { intros y Hy. rewrite (H3 y Hy), link_of_set. destruct (y =? gid g) eqn:Ey; [lia|auto]. }
      split.
      { intros Hall. specialize (Hall x (or_introl eq_refl)). congruence. }
      intros i0 _ Hall.
      assert (Ex : aid x = i0) by (apply Hall; [left; auto|auto]).
      destruct (ex_or_all (fun r => contains (aloc r) (gloc g)) l) as [Hex|Hno].
      * apply H5; auto. intros r Hr. apply Hall. right; auto.
      * rewrite (H4 Hno), link_of_set, Z.eqb_refl. congruence.
    + injection E as <- <-.
      destruct (IH _ _ _ _ ND F) as (R2 & H2 & H3 & H4 & H5).
      split; auto. split.
      { intros r [<-|Hr] Cr; [congruence|auto]. }
      split; auto. split.
      { intros Hall. apply H4. intros r Hr. apply Hall. right; auto. }
      intros i0 (r & [<-|Hr] & Cr) Hall; [congruence|].
      apply H5; [exists r; auto|]. intros r' Hr'. apply Hall; right; auto.
Qed.

Lemma pair_fold_spec G a sr : forall found t lk t' lk', (forall g, In g found -> In g G) -> NoDup (map aid t) ->
  fold_left (pair_step a sr) found (Ok (t, lk)) = Ok (t', lk') ->
  R G t t' /\
  (forall g, In g found -> exists a1 a2, find_area t (aid a) = Some a1 /\ find_area t' (aid a) = Some a2 /\
       In (gid g) (amem a2) /\ (defcond a1 g = true -> In (gid g) (adef a2))) /\
  (sr = false -> lk' = lk) /\
  (sr = true -> (forall x, ~ In x (map gid found) -> link_of lk' x = link_of lk x) /\
                (forall g, In g found -> link_of lk' (gid g) = Some (aid a))).
Proof.
  intros found. induction found as [|g0 l IH]; intros t lk t' lk' HG ND F.
  - cbn in F. injection F as <- <-. split; [apply R_refl|]. split; [intros g []|].
    split; [auto|]. intros _. split; [auto|intros g []].
  - cbn [fold_left] in F.
    destruct (pair_step a sr (Ok (t, lk)) g0) as [[tm lkm]|k] eqn:E; [|rewrite pair_err in F; discriminate].
    unfold pair_step in E. cbn [bind] in E.
    destruct (add_cds DEPTH t (aid a) g0) as [t1|k] eqn:A; cbn [bind] in E; [|discriminate].
    injection E as <- <-.
    assert (Hg0 : In g0 G) by (apply HG; left; auto).
    destruct (add_cds_spec G g0 Hg0 _ _ _ _ ND A) as (Rm & a0 & a0' & F1 & F2 & C1 & M & D).
    assert (NDm : NoDup (map aid t1)) by (rewrite <- (R_aid _ _ _ Rm); exact ND).
    assert (HG' : forall g, In g l -> In g G) by (intros; apply HG; right; auto).
    destruct (IH _ _ _ _ HG' NDm F) as (R2 & H2 & H3 & H4).
    split; [eapply R_trans; eauto|]. split.
    { intros g [<-|Hgl].
      - destruct (R_find _ _ _ _ _ R2 F2) as (a2 & Fa2 & E2). destruct E2 as (_ & I1 & I2 & _).
        exists a0, a2. split; [auto|]. split; [auto|]. split; auto.
      - destruct (H2 g Hgl) as (a1 & a2 & Fa1 & Fa2 & M2 & D2).
        rewrite F2 in Fa1. injection Fa1 as <-.
        destruct (R_find _ _ _ _ _ Rm F1) as (a'' & Fa'' & E1).
        rewrite F2 in Fa''. injection Fa'' as <-. destruct E1 as (S1 & _).
        exists a0, a2. split; [auto|]. split; [auto|]. split; [auto|].
        intro Dd. apply D2. rewrite <- (static_defcond _ _ g S1). exact Dd. }
    split.
    { intros ->. exact (H3 eq_refl). }
    intros ->. destruct (H4 eq_refl) as [H5 H6]. cbv iota in H5, H6. cbn [map] in *. split.
    { intros y Hy. rewrite H5 by (intro; apply Hy; right; auto). rewrite link_of_set.
      destruct (y =? gid g0) eqn:Ey; auto. exfalso; apply Hy; left. lia. }
    intros g [<-|Hgl]; auto.
    destruct (in_dec Z.eq_dec (gid g0) (map gid l)) as [Hin|Hnin].
    + apply in_map_iff in Hin. destruct Hin as (g' & Eg & Hg'). rewrite <- Eg. auto.
    + rewrite (H5 _ Hnin), link_of_set, Z.eqb_refl. auto.
Qed.

(* ------------------------------------------------------------------ gene list: bisect insertion, the look-up of an area, guard reflection *)
Lemma feat_lt_kle a b : feat_lt (gloc a) (gloc b) = true -> kle a b.
Proof.
  unfold kle, feat_lt, pair_lt. destruct (fkey (gloc a)) as [a1 a2], (fkey (gloc b)) as [b1 b2]. cbn [fst snd]. lia.
Qed.

(* add_cds_feature's bisect insertion (bisect_right: after the genes that are not greater) keeps the gene list in the
   order of Feature.__lt__, whatever the genes are *)
Lemma insert_KS l g : KS l ->
  exists A B, l = A ++ B /\
     insert_at (bisect (fun e => negb (feat_lt (gloc g) (gloc e))) l 0) g l = A ++ g :: B /\ KS (A ++ g :: B).
Proof.
  intros Hks.
  destruct (downward_split (fun e => negb (feat_lt (gloc g) (gloc e))) l) as (A & B & E & HA & HB).
  { intros a x b y E Hy Hp. pose proof Hks as Hks'. rewrite E in Hks'.
    apply KS_app in Hks'. destruct Hks' as (_ & [Hxb _] & _). specialize (Hxb y Hy).
    apply negb_true_iff in Hp. apply negb_true_iff. exact (kle_trans x y g Hxb Hp). }
  exists A, B. split; [exact E|]. subst l.
  rewrite (bisect_partition _ A B 0%nat HA HB (Nat.le_0_l _)).
  unfold insert_at. rewrite firstn_length_app, skipn_length_app. split; [reflexivity|].
  destruct (KS_app A B Hks) as (SA & SB & HAB).
  apply KS_app_intro; [exact SA|split; [|exact SB]|].
  - intros y Hy. apply feat_lt_kle. specialize (HB y Hy). cbn beta in HB. now apply negb_false_iff in HB.
  - intros x y Hx [<-|Hy]; [|now apply HAB].
    specialize (HA x Hx). cbn beta in HA. now apply negb_true_iff in HA.
Qed.

(* the look-up made by add_protocluster / add_subregion / add_region / add_candidate_cluster: every gene inside the area,
   nested or not *)
Lemma lookup_area l a : KS l -> (forall x, In x l -> simple_gene x = true) -> area_simple a = true ->
  lookup l (aloc a) false = filter (fun g => contains (aloc a) (gloc g)) l.
Proof.
  intros Hks Hsim Ha. unfold area_simple in Ha. apply andb_prop in Ha. destruct Ha as [Hq H0].
  apply Z.leb_le in H0. destruct (query_ok_inv _ Hq) as (p & E & Hp).
  unfold lookup. rewrite E. cbn [is_compound]. destruct l as [|g0 l']; [reflexivity|]. set (l := g0 :: l') in *.
  unfold lookup_simple. cbv zeta. rewrite <- E, (clamp_nonneg _ H0), E.
  rewrite (lookup_simple_core l p false Hp Hks).
  - apply filter_ext. intros g. unfold hit. cbn [andb]. apply orb_false_r.
  - intros g Hg. exact (proj1 (simple_parts_ok g (Hsim g Hg))).
  - intros g Hg. exact (proj2 (simple_parts_ok g (Hsim g (In_skipn _ _ _ Hg)))).
  - intros g Hg Hb. rewrite (proj2 (simple_parts_ok g (Hsim g Hg))) in Hb. discriminate.
Qed.

Lemma area_simple_simple a : area_simple a = true -> simple_area a /\ 0 <= as_ a.
Proof.
  intros Ha. unfold area_simple in Ha. apply andb_prop in Ha. destruct Ha as [Hq H0].
  apply Z.leb_le in H0. split; [|exact H0].
  destruct (query_ok_inv _ Hq) as (p & E & Hp). exists p. split; assumption.
Qed.

Lemma zmem_false_not_In x r : zmem x r = false -> ~ In x r.
Proof.
  intros H Hin. assert (Ht : zmem x r = true).
  { unfold zmem. apply existsb_exists. exists x. split; [exact Hin|apply Z.eqb_refl]. }
  rewrite Ht in H. discriminate.
Qed.

Lemma unique_ids_NoDup l : unique_ids l = true -> NoDup l.
Proof.
  induction l as [|x r IH]; intros H; [constructor|].
  change (negb (zmem x r) && unique_ids r = true) in H.
  apply andb_prop in H. destruct H as [H1 H2]. apply negb_true_iff in H1.
  constructor; [apply zmem_false_not_In; exact H1|apply IH; exact H2].
Qed.

Lemma area_fresh_spec a : area_fresh a = true -> amem a = [] /\ adef a = [].
Proof.
  unfold area_fresh. destruct (amem a); [|discriminate]. destruct (adef a); [|discriminate].
  intros _. split; reflexivity.
Qed.

(* ------------------------------------------------------------------ Record._regions as areas *)
Lemma find_area_snoc_new T a : ~ In (aid a) (map aid T) -> find_area (T ++ [a]) (aid a) = Some a.
Proof.
  unfold find_area. induction T as [|b T IH]; intros H.
  - cbn. now rewrite Z.eqb_refl.
  - cbn [app find]. cbn [map In] in H.
    destruct (aid b =? aid a) eqn:E.
    + exfalso. apply H. left. now apply Z.eqb_eq.
    + apply IH. intro Hin. apply H. now right.
Qed.

Lemma find_area_snoc_old T a i b : find_area T i = Some b -> find_area (T ++ [a]) i = Some b.
Proof.
  unfold find_area. induction T as [|c T IH]; intros H.
  - discriminate.
  - cbn [app find] in *. destruct (aid c =? i); [exact H|now apply IH].
Qed.

Lemma areas_of_cons_found T i b ids : find_area T i = Some b -> areas_of T (i :: ids) = b :: areas_of T ids.
Proof.
  intros H. unfold areas_of. cbn [flat_map]. now rewrite H.
Qed.

Lemma areas_of_app T l1 l2 : areas_of T (l1 ++ l2) = areas_of T l1 ++ areas_of T l2.
Proof. unfold areas_of. apply flat_map_app. Qed.

Lemma insert_at_0 {A} (x : A) l : insert_at 0 x l = x :: l.
Proof. reflexivity. Qed.
Lemma insert_at_S_cons {A} n (x y : A) l : insert_at (S n) x (y :: l) = y :: insert_at n x l.
Proof. reflexivity. Qed.
Lemma insert_at_S_nil {A} n (x : A) : insert_at (S n) x [] = [x].
Proof. reflexivity. Qed.

Lemma areas_of_insert T ids idx x a : (forall i, In i ids -> exists b, find_area T i = Some b) ->
  find_area T x = Some a -> areas_of T (insert_at idx x ids) = insert_at idx a (areas_of T ids).
Proof.
  intros Hall Hx. revert idx. induction ids as [|i ids IH]; intros idx.
  - destruct idx.
    + rewrite insert_at_0. rewrite (areas_of_cons_found T x a [] Hx). reflexivity.
    + rewrite insert_at_S_nil. rewrite (areas_of_cons_found T x a [] Hx). reflexivity.
  - destruct (Hall i (or_introl eq_refl)) as [b Hb].
    assert (Hall' : forall j, In j ids -> exists b, find_area T j = Some b)
      by (intros j Hj; apply Hall; now right).
    destruct idx.
    + rewrite !insert_at_0. now rewrite (areas_of_cons_found T x a _ Hx).
    + rewrite insert_at_S_cons.
      rewrite (areas_of_cons_found T i b _ Hb).
      rewrite (areas_of_cons_found T i b _ Hb).
      rewrite insert_at_S_cons. f_equal. now apply IH.
Qed.

Lemma areas_of_snoc T a ids : (forall i, In i ids -> exists b, find_area T i = Some b) ->
  areas_of (T ++ [a]) ids = areas_of T ids.
Proof.
  induction ids as [|i ids IH]; intros Hall.
  - reflexivity.
  - destruct (Hall i (or_introl eq_refl)) as [b Hb].
    rewrite (areas_of_cons_found T i b _ Hb).
    rewrite (areas_of_cons_found (T ++ [a]) i b _ (find_area_snoc_old T a i b Hb)).
    f_equal. apply IH. intros j Hj. apply Hall. now right.
Qed.

Lemma areas_of_in T ids r : In r (areas_of T ids) -> exists i, In i ids /\ find_area T i = Some r.
Proof.
  unfold areas_of. intros H. apply in_flat_map in H. destruct H as (i & Hi & Hr).
  exists i. split; [exact Hi|].
  destruct (find_area T i) as [b|]; cbn in Hr.
  - destruct Hr as [->|[]]. reflexivity.
  - destruct Hr.
Qed.

Lemma areas_of_in_intro T ids i r : In i ids -> find_area T i = Some r -> In r (areas_of T ids).
Proof.
  intros Hi Hr. unfold areas_of. apply in_flat_map. exists i. split; [exact Hi|].
  rewrite Hr. now left.
Qed.

Lemma R_areas_of G t t' ids : R G t t' -> Forall2 (ext G) (areas_of t ids) (areas_of t' ids).
Proof.
  intros HR. induction ids as [|i ids IH].
  - constructor.
  - destruct (find_area t i) as [a|] eqn:E.
    + destruct (R_find G t t' i a HR E) as (a' & E' & Hext).
      rewrite (areas_of_cons_found t i a _ E), (areas_of_cons_found t' i a' _ E').
      constructor; assumption.
    + pose proof (R_find_none G t t' i HR E) as E'.
      unfold areas_of in *. cbn [flat_map]. rewrite E, E'. cbn [app]. exact IH.
Qed.

Lemma Forall2_ext_in_r G l l' r' : Forall2 (ext G) l l' -> In r' l' -> exists r, In r l /\ ext G r r'.
Proof.
  induction 1 as [|x y l l' Hxy HF IH]; intros Hin.
  - destruct Hin.
  - destruct Hin as [<-|Hin].
    + exists x. split; [now left|exact Hxy].
    + destruct (IH Hin) as (r & Hr & He). exists r. split; [now right|exact He].
Qed.

Lemma Forall2_ext_in_l G l l' r : Forall2 (ext G) l l' -> In r l -> exists r', In r' l' /\ ext G r r'.
Proof.
  induction 1 as [|x y l l' Hxy HF IH]; intros Hin.
  - destruct Hin.
  - destruct Hin as [<-|Hin].
    + exists y. split; [now left|exact Hxy].
    + destruct (IH Hin) as (r' & Hr & He). exists r'. split; [now right|exact He].
Qed.

Lemma ext_bounds G a a' : ext G a a' -> aid a = aid a' /\ akind a = akind a' /\ aloc a = aloc a' /\ acore a = acore a' /\ aprod a = aprod a' /\ achild a = achild a'.
Proof.
  intros (Hs & _). unfold static in Hs. injection Hs. intros. repeat split; assumption.
Qed.

Lemma simple_area_ext G a a' : ext G a a' -> simple_area a -> simple_area a'.
Proof.
  intros He (p & Hp & Hlt). destruct (ext_bounds G a a' He) as (_ & _ & Hl & _).
  exists p. split; [now rewrite <- Hl|exact Hlt].
Qed.

Lemma RS_ext G l l' : Forall2 (ext G) l l' -> RS l -> RS l'.
Proof.
  induction 1 as [|x y l l' Hxy HF IH]; intros HRS.
  - exact I.
  - cbn [RS] in *. destruct HRS as [Hx HRS]. split; [|now apply IH].
    intros r' Hr'. destruct (Forall2_ext_in_r G l l' r' HF Hr') as (r & Hr & He).
    specialize (Hx r Hr).
    destruct (ext_bounds G x y Hxy) as (_ & _ & Hl1 & _).
    destruct (ext_bounds G r r' He) as (_ & _ & Hl2 & _).
    unfold ae, as_ in *. now rewrite <- Hl1, <- Hl2.
Qed.

(* ------------------------------------------------------------------ history invariant *)
(* ------------------------------------------------------------------ small list facts *)
Lemma in_mid {A} (x g : A) a b : In x (a ++ g :: b) <-> x = g \/ In x (a ++ b).
Proof.
  split; intros H.
  - apply in_app_or in H. destruct H as [H|[H|H]]; [right; apply in_or_app; now left|now left|right; apply in_or_app; now right].
  - destruct H as [->|H]; [apply in_or_app; right; now left|].
    apply in_app_or in H. destruct H as [H|H]; apply in_or_app; [now left|right; now right].
Qed.

Lemma in_insert_at {A} (x y : A) i l : In x (insert_at i y l) <-> x = y \/ In x l.
Proof.
  unfold insert_at. rewrite in_mid. rewrite firstn_skipn. reflexivity.
Qed.

Lemma NoDup_mid {A} (x : A) a b : NoDup (a ++ b) -> ~ In x (a ++ b) -> NoDup (a ++ x :: b).
Proof.
  intros Hn Hx. apply (NoDup_Add (Add_app x a b)). now split.
Qed.

Lemma NoDup_snoc {A} (x : A) l : NoDup l -> ~ In x l -> NoDup (l ++ [x]).
Proof.
  intros Hn Hx. apply NoDup_mid; rewrite app_nil_r; assumption.
Qed.

Lemma NoDup_map_inj {A B} (f : A -> B) l : NoDup (map f l) -> forall x y, In x l -> In y l -> f x = f y -> x = y.
Proof.
  induction l as [|a l IH]; intros Hn x y Hx Hy E; [destruct Hx|].
  cbn [map] in Hn. inversion Hn as [|? ? Hna Hnl]; subst.
  destruct Hx as [<-|Hx]; destruct Hy as [<-|Hy]; [reflexivity| | |now apply IH].
  - exfalso. apply Hna. rewrite E. now apply in_map.
  - exfalso. apply Hna. rewrite <- E. now apply in_map.
Qed.


Lemma window_incl {A} (r : A) n m l : In r (firstn n (skipn m l)) -> In r l.
Proof.
  intros H. apply (In_skipn r m l). rewrite <- (firstn_skipn n (skipn m l)). apply in_or_app. now left.
Qed.

Lemma existsb_false_all {A} (f : A -> bool) l : existsb f l = false -> forall x, In x l -> f x = false.
Proof.
  intros H x Hx. destruct (f x) eqn:E; [|reflexivity].
  assert (Ht : existsb f l = true) by (apply existsb_exists; now exists x). rewrite Ht in H. discriminate.
Qed.


Lemma fold_bind_err {A S} (f : S -> A -> res S) l k :
  fold_left (fun acc o => do st <- acc; f st o) l (Err k) = Err k.
Proof. induction l as [|x l IH]; [reflexivity|exact IH]. Qed.

(* ------------------------------------------------------------------ the invariant of a record under construction *)
Definition regs_of (st : state) : list area := areas_of (sareas st) (sregs st).

Record Inv (st : state) : Prop := mkInv {
  inv_simple : forall g, In g (sgenes st) -> simple_gene g = true;
  inv_ss : KS (sgenes st);
  inv_gid : NoDup (map gid (sgenes st));
  inv_aid : NoDup (map aid (sareas st));
  inv_asimple : forall a, In a (sareas st) -> area_simple a = true;
  inv_sound : forall a, In a (sareas st) -> mem_sound (sgenes st) a;
  inv_complete : forall a, In a (sareas st) -> mem_complete (sgenes st) a;
  inv_regs_found : forall i, In i (sregs st) -> exists a, find_area (sareas st) i = Some a /\ akind a = K_REGION;
  inv_regs_all : forall a, In a (sareas st) -> akind a = K_REGION -> In (aid a) (sregs st);
  inv_rs : RS (regs_of st);
  inv_link_complete : forall g r, In g (sgenes st) -> In r (regs_of st) -> contains (aloc r) (gloc g) = true ->
                        link_of (slink st) (gid g) = Some (aid r);
  inv_link_sound : forall x i, link_of (slink st) x = Some i ->
                     exists g r, In g (sgenes st) /\ gid g = x /\ In r (regs_of st) /\ aid r = i /\
                                 contains (aloc r) (gloc g) = true
}.

Lemma inv_empty : Inv empty_state.
Proof.
  constructor; cbn; try (intros; contradiction); try constructor; try exact I.
  - intros x i H. discriminate.
Qed.

Lemma regs_in_areas st r : In r (regs_of st) -> In r (sareas st) /\ In (aid r) (sregs st).
Proof.
  intros H. apply areas_of_in in H. destruct H as (i & Hi & Hf).
  destruct (find_area_in _ _ _ Hf) as [Hin <-]. now split.
Qed.

Lemma regs_simple st : Inv st -> forall r, In r (regs_of st) -> simple_area r.
Proof.
  intros I r Hr. apply area_simple_simple. apply (inv_asimple st I). now apply regs_in_areas.
Qed.

Lemma sound_ext G0 G a a' : mem_sound G0 a -> incl G0 G -> ext G a a' -> mem_sound G a'.
Proof.
  intros [S1 S2] Hinc Hext. pose proof Hext as (Est & _ & _ & E1 & E2).
  destruct (ext_bounds _ _ _ Hext) as (_ & _ & El & _).
  split.
  - intros x Hx. destruct (E1 x Hx) as [Hold|(g & Hg & Eg & Hc)].
    + destruct (S1 x Hold) as (g & Hg & Eg & Hc). exists g. rewrite <- El. repeat split; auto.
    + exists g. rewrite <- El. repeat split; auto.
  - intros x Hx. destruct (E2 x Hx) as [Hold|(g & Hg & Eg & Hc & Hd)].
    + destruct (S2 x Hold) as (g & Hg & Eg & Hc & Hd). exists g. rewrite <- El, <- (defcond_static a a' g Est). repeat split; auto.
    + exists g. rewrite <- El, <- (defcond_static a a' g Est). repeat split; auto.
Qed.

(* completeness survives any extension (for the genes it was known for) *)
Lemma complete_ext_old G a a' g : ext G a a' -> contains (aloc a') (gloc g) = true ->
  (contains (aloc a) (gloc g) = true -> In (gid g) (amem a) /\ (defcond a g = true -> In (gid g) (adef a))) ->
  In (gid g) (amem a') /\ (defcond a' g = true -> In (gid g) (adef a')).
Proof.
  intros Hext Hc Hold. pose proof Hext as (Est & I1 & I2 & _ & _).
  destruct (ext_bounds _ _ _ Hext) as (_ & _ & El & _).
  rewrite <- El in Hc. destruct (Hold Hc) as [H1 H2]. split; [now apply I1|].
  intros Hd. apply I2, H2. now rewrite (defcond_static a a' g Est).
Qed.

Lemma area_simple_ext G a a' : ext G a a' -> area_simple a = true -> area_simple a' = true.
Proof.
  intros Hext H. destruct (ext_bounds _ _ _ Hext) as (_ & _ & El & _). unfold area_simple in *. now rewrite <- El.
Qed.

(* the area with a given id in a table without duplicate ids *)
Lemma in_find_same tbl a b : NoDup (map aid tbl) -> In a tbl -> find_area tbl (aid a) = Some b -> a = b.
Proof.
  intros Hn Ha Hf. rewrite (find_area_nodup tbl a Hn Ha) in Hf. now injection Hf.
Qed.

(* ------------------------------------------------------------------ a gene is added (gene after areas) *)
Lemma step_gene st g st' : Inv st -> add_gene st g = Ok st' ->
  simple_gene g = true -> ~ In (gid g) (map gid (sgenes st)) ->
  Inv st' /\ (forall x, In x (sgenes st') <-> x = g \/ In x (sgenes st)) /\
  map static (sareas st') = map static (sareas st).
Proof.
  intros I H Hg Hfresh. unfold add_gene in H.
  destruct (existsb (fun x => loc_eqb (gloc x) (gloc g)) (sgenes st)); [discriminate|].
  destruct (insert_KS (sgenes st) g (inv_ss st I)) as (A & B & EAB & Eins & HSS).
  rewrite Eins in H. set (G := A ++ g :: B) in *.
  unfold link_cds in H. cbn [sgenes sareas sregs slink] in H.
  fold (regs_of st) in H.
  (* no region of such a record crosses the origin: nothing is put in front of the slice *)
  rewrite (link_first_simple (regs_of st) _ (regs_simple st I)) in H. cbn [app] in H.
  set (left := bisect (fun r => region_lt_cds r g) (regs_of st) 0) in *.
  set (right := bisect (fun r => negb (cds_lt_region g r)) (regs_of st) left) in *.
  set (window := firstn (S right - (left - 1)) (skipn (left - 1) (regs_of st))) in *.
  set (ids := map aid (filter (fun a => negb (akind a =? K_REGION)) (sareas st))) in *.
  match type of H with (do tl <- ?F; _) = _ => destruct F as [[t1 lk1]|] eqn:EW end; [|discriminate].
  cbn [bind] in H.
  match type of H with (do t2 <- ?F; _) = _ => destruct F as [t2|] eqn:ES end; [|discriminate].
  cbn [bind] in H. injection H as <-.
  assert (HinG : In g G) by (apply in_mid; now left).
  assert (HG : forall x, In x G <-> x = g \/ In x (sgenes st)) by (intros x; unfold G; rewrite in_mid, <- EAB; reflexivity).
  assert (Hincl : incl (sgenes st) G) by (intros x Hx; apply HG; now right).
  destruct (win_fold_spec G g HinG window (sareas st) (slink st) t1 lk1 (inv_aid st I) EW) as (R1 & W2 & W3 & W4 & W5).
  assert (Hn1 : NoDup (map aid t1)) by (rewrite <- (R_aid _ _ _ R1); exact (inv_aid st I)).
  destruct (scan_fold_spec G g HinG ids t1 t2 Hn1 ES) as (R2 & S2).
  pose proof (R_trans _ _ _ _ R1 R2) as R12.
  assert (Hn2 : NoDup (map aid t2)) by (rewrite <- (R_aid _ _ _ R12); exact (inv_aid st I)).
  assert (Hregs : Forall2 (ext G) (regs_of st) (areas_of t2 (sregs st))) by (apply R_areas_of; exact R12).
  assert (Hwin_in : forall r, In r window -> In r (regs_of st)) by (intros r Hr; exact (window_incl r _ _ _ Hr)).
  assert (Hnomem : forall r, In r (regs_of st) -> zmem (gid g) (amem r) = false).
  { intros r Hr. destruct (zmem (gid g) (amem r)) eqn:E; [exfalso|reflexivity].
    apply zmem_In in E. destruct (regs_in_areas st r Hr) as [Hra _].
    destruct (inv_sound st I r Hra) as [S1 _]. destruct (S1 _ E) as (g0 & Hg0 & Eg0 & _).
    apply Hfresh. rewrite <- Eg0. now apply in_map. }
  assert (Hwindow : forall r, In r (regs_of st) -> contains (aloc r) (gloc g) = true -> In r window).
  { exact (link_window_complete (regs_of st) g (inv_rs st I) (regs_simple st I) Hg Hnomem). }
  assert (Hgid_old : forall g0, In g0 (sgenes st) -> gid g0 <> gid g).
  { intros g0 Hg0 E. apply Hfresh. rewrite <- E. now apply in_map. }
  split; [|split; [exact HG|cbn [sareas]; symmetry; exact (R_static _ _ _ R12)]].
  constructor; cbn [sgenes sareas sregs slink]; fold G.
  - intros x Hx. apply HG in Hx. destruct Hx as [->|Hx]; [exact Hg|now apply (inv_simple st I)].
  - exact HSS.
  - unfold G. rewrite map_app. cbn [map]. apply NoDup_mid; rewrite <- map_app, <- EAB; [exact (inv_gid st I)|exact Hfresh].
  - exact Hn2.
  - intros a' Ha'. destruct (R_in _ _ _ _ R12 Ha') as (a & Ha & Hext).
    exact (area_simple_ext _ _ _ Hext (inv_asimple st I a Ha)).
  - intros a' Ha'. destruct (R_in _ _ _ _ R12 Ha') as (a & Ha & Hext).
    exact (sound_ext _ _ _ _ (inv_sound st I a Ha) Hincl Hext).
  - (* completeness *)
    intros a' Ha' g0 Hg0 Hc. destruct (R_in _ _ _ _ R12 Ha') as (a & Ha & Hext).
    apply HG in Hg0. destruct Hg0 as [->|Hg0].
    2:{ apply (complete_ext_old G a a' g0 Hext Hc). intros Hc0. exact (inv_complete st I a Ha g0 Hg0 Hc0). }
    destruct (ext_bounds _ _ _ Hext) as (Eid & Ekind & Eloc & _).
    pose proof Hext as (Est & _).
    rewrite <- Eloc in Hc.
    pose proof (find_area_nodup _ _ (inv_aid st I) Ha) as Hfa.
    destruct (akind a =? K_REGION) eqn:Ek.
    + (* a region: found through the bisected window *)
      assert (Hk : akind a = K_REGION) by lia.
      assert (Hreg : In a (regs_of st)).
      { apply (areas_of_in_intro _ _ (aid a)); [exact (inv_regs_all st I a Ha Hk)|exact Hfa]. }
      destruct (W2 a (Hwindow a Hreg Hc) Hc) as (a1 & Hf1 & Hm1).
      destruct (R_find _ _ _ _ _ R2 Hf1) as (a2 & Hf2 & Hext2).
      assert (a' = a2) by (apply (in_find_same t2 a' a2 Hn2 Ha'); rewrite <- Eid; exact Hf2). subst a2.
      split; [destruct Hext2 as (_ & Hi & _); now apply Hi|].
      intros Hd. unfold defcond in Hd. rewrite <- Ekind, Hk in Hd. discriminate.
    + (* any other collection: the exhaustive scan *)
      assert (Hi : In (aid a) ids).
      { unfold ids. apply in_map. apply filter_In. split; [exact Ha|now rewrite Ek]. }
      destruct (R_find _ _ _ _ _ R1 Hfa) as (a1 & Hf1 & Hext1).
      destruct (ext_bounds _ _ _ Hext1) as (_ & _ & Eloc1 & _). pose proof Hext1 as (Est1 & _).
      rewrite Eloc1 in Hc.
      destruct (S2 (aid a) a1 Hi Hf1 Hc) as (a2 & Hf2 & Hm2 & Hd2).
      assert (a' = a2) by (apply (in_find_same t2 a' a2 Hn2 Ha'); rewrite <- Eid; exact Hf2). subst a2.
      split; [exact Hm2|]. intros Hd. apply Hd2.
      rewrite <- (defcond_static a a1 g Est1), (defcond_static a a' g Est). exact Hd.
  - intros i Hi. destruct (inv_regs_found st I i Hi) as (a & Hf & Hk).
    destruct (R_find _ _ _ _ _ R12 Hf) as (a' & Hf' & Hext).
    exists a'. split; [exact Hf'|]. destruct (ext_bounds _ _ _ Hext) as (_ & Ek & _). now rewrite <- Ek.
  - intros a' Ha' Hk. destruct (R_in _ _ _ _ R12 Ha') as (a & Ha & Hext).
    destruct (ext_bounds _ _ _ Hext) as (Eid & Ek & _). rewrite <- Eid. apply (inv_regs_all st I a Ha). now rewrite Ek.
  - unfold regs_of. cbn [sareas sregs]. exact (RS_ext _ _ _ Hregs (inv_rs st I)).
  - (* every gene is linked to the region containing it *)
    unfold regs_of. cbn [sareas sregs]. intros g0 r' Hg0 Hr' Hc.
    destruct (Forall2_ext_in_r _ _ _ _ Hregs Hr') as (r & Hr & Hext).
    destruct (ext_bounds _ _ _ Hext) as (Eid & _ & Eloc & _). rewrite <- Eid. rewrite <- Eloc in Hc.
    apply HG in Hg0. destruct Hg0 as [->|Hg0].
    + apply W5; [exists r; split; [now apply Hwindow|exact Hc]|].
      intros r2 Hr2 Hc2. f_equal.
      exact (RS_contains_same (regs_of st) g r2 r (inv_rs st I) (regs_simple st I) Hg (Hwin_in r2 Hr2) Hr Hc2 Hc).
    + rewrite (W3 (gid g0) (Hgid_old g0 Hg0)). exact (inv_link_complete st I g0 r Hg0 Hr Hc).
  - (* and only to such a region *)
    unfold regs_of. cbn [sareas sregs]. intros x i Hl.
    destruct (Z.eq_dec x (gid g)) as [->|Hx].
    + destruct (existsb (fun r => contains (aloc r) (gloc g)) window) eqn:Eex.
      * apply existsb_exists in Eex. destruct Eex as (r & Hr & Hc).
        assert (Hl2 : link_of lk1 (gid g) = Some (aid r)).
        { apply W5; [exists r; now split|]. intros r2 Hr2 Hc2. f_equal.
          exact (RS_contains_same (regs_of st) g r2 r (inv_rs st I) (regs_simple st I) Hg (Hwin_in r2 Hr2) (Hwin_in r Hr) Hc2 Hc). }
        rewrite Hl2 in Hl. injection Hl as <-.
        destruct (Forall2_ext_in_l _ _ _ _ Hregs (Hwin_in r Hr)) as (r' & Hr' & Hext).
        destruct (ext_bounds _ _ _ Hext) as (Eid & _ & Eloc & _).
        exists g, r'. rewrite <- Eloc. repeat split; auto.
      * exfalso. pose proof (existsb_false_all _ _ Eex) as Hall. cbn beta in Hall.
        rewrite (W4 Hall) in Hl.
        destruct (inv_link_sound st I _ _ Hl) as (g0 & _ & Hg0 & E & _). exact (Hgid_old g0 Hg0 E).
    + rewrite (W3 x Hx) in Hl. destruct (inv_link_sound st I _ _ Hl) as (g0 & r & Hg0 & E & Hr & Ei & Hc).
      destruct (Forall2_ext_in_l _ _ _ _ Hregs Hr) as (r' & Hr' & Hext).
      destruct (ext_bounds _ _ _ Hext) as (Eid & _ & Eloc & _).
      exists g0, r'. rewrite <- Eloc, <- Eid. repeat split; auto.
Qed.

(* ------------------------------------------------------------------ an area is added (area after genes) *)
Lemma pair_tbl st a sr regs' st' : Inv st -> area_simple a = true -> amem a = [] -> adef a = [] ->
  ~ In (aid a) (map aid (sareas st)) ->
  pair_genes (mkState (sgenes st) (sareas st ++ [a]) regs' (slink st)) a sr = Ok st' ->
  exists t1 lk1, st' = mkState (sgenes st) t1 regs' lk1 /\ R (sgenes st) (sareas st ++ [a]) t1 /\
    NoDup (map aid t1) /\ (forall a', In a' t1 -> area_simple a' = true) /\
    (forall a', In a' t1 -> mem_sound (sgenes st) a') /\ (forall a', In a' t1 -> mem_complete (sgenes st) a') /\
    (sr = false -> lk1 = slink st) /\
    (sr = true ->
       (forall g, In g (sgenes st) -> contains (aloc a) (gloc g) = false -> link_of lk1 (gid g) = link_of (slink st) (gid g)) /\
       (forall g, In g (sgenes st) -> contains (aloc a) (gloc g) = true -> link_of lk1 (gid g) = Some (aid a)) /\
       (forall x i, link_of lk1 x = Some i ->
          (exists g, In g (sgenes st) /\ gid g = x /\ contains (aloc a) (gloc g) = true /\ i = aid a) \/
          link_of (slink st) x = Some i)).
Proof.
  intros I Has Hm Hd Hfresh H. unfold pair_genes in H. cbn [sgenes sareas sregs slink] in H.
  rewrite (lookup_area (sgenes st) a (inv_ss st I) (inv_simple st I) Has) in H.
  set (G := sgenes st) in *. set (T0 := sareas st ++ [a]) in *.
  set (found := filter (fun g => contains (aloc a) (gloc g)) G) in *.
  match type of H with (do tl <- ?F; _) = _ => destruct F as [[t1 lk1]|] eqn:EP end; [|discriminate].
  cbn [bind] in H. injection H as <-.
  assert (Hn0 : NoDup (map aid T0)).
  { unfold T0. rewrite map_app. cbn [map]. apply NoDup_snoc; [exact (inv_aid st I)|exact Hfresh]. }
  assert (Hfound : forall g, In g found <-> In g G /\ contains (aloc a) (gloc g) = true) by (intros g; apply filter_In).
  destruct (pair_fold_spec G a sr found T0 (slink st) t1 lk1 (fun g Hg => proj1 (proj1 (Hfound g) Hg)) Hn0 EP)
    as (R1 & P2 & P3 & P4).
  assert (Hn1 : NoDup (map aid t1)) by (rewrite <- (R_aid _ _ _ R1); exact Hn0).
  assert (Hfa : find_area T0 (aid a) = Some a) by (apply find_area_snoc_new; exact Hfresh).
  assert (HT0 : forall a0, In a0 T0 -> In a0 (sareas st) \/ a0 = a).
  { intros a0 H0. unfold T0 in H0. apply in_app_or in H0. destruct H0 as [H0|[<-|[]]]; [now left|now right]. }
  exists t1, lk1. split; [reflexivity|]. split; [exact R1|]. split; [exact Hn1|].
  split; [|split; [|split; [|split]]].
  - intros a' Ha'. destruct (R_in _ _ _ _ R1 Ha') as (a0 & Ha0 & Hext).
    apply (area_simple_ext _ _ _ Hext). destruct (HT0 a0 Ha0) as [Ho| ->]; [now apply (inv_asimple st I)|exact Has].
  - intros a' Ha'. destruct (R_in _ _ _ _ R1 Ha') as (a0 & Ha0 & Hext).
    apply (sound_ext G G a0 a'); [|apply incl_refl|exact Hext].
    destruct (HT0 a0 Ha0) as [Ho| ->]; [now apply (inv_sound st I)|].
    split; intros x Hx; [rewrite Hm in Hx|rewrite Hd in Hx]; destruct Hx.
  - intros a' Ha' g Hg Hc. destruct (R_in _ _ _ _ R1 Ha') as (a0 & Ha0 & Hext).
    destruct (HT0 a0 Ha0) as [Ho| ->].
    + apply (complete_ext_old G a0 a' g Hext Hc). intros Hc0. exact (inv_complete st I a0 Ho g Hg Hc0).
    + destruct (ext_bounds _ _ _ Hext) as (Eid & _ & Eloc & _). pose proof Hext as (Est & _).
      rewrite <- Eloc in Hc.
      destruct (P2 g (proj2 (Hfound g) (conj Hg Hc))) as (a1 & a2 & Hf1 & Hf2 & Hm2 & Hd2).
      rewrite Hfa in Hf1. injection Hf1 as <-.
      assert (a' = a2) by (apply (in_find_same t1 a' a2 Hn1 Ha'); rewrite <- Eid; exact Hf2). subst a2.
      split; [exact Hm2|]. intros Hdc. apply Hd2. now rewrite (defcond_static a a' g Est).
  - exact P3.
  - intros Hsr. destruct (P4 Hsr) as [L1 L2].
    assert (Hnotin : forall g, In g G -> contains (aloc a) (gloc g) = false -> ~ In (gid g) (map gid found)).
    { intros g Hg Hc Hin. apply in_map_iff in Hin. destruct Hin as (g1 & E1 & Hg1).
      apply Hfound in Hg1. destruct Hg1 as [Hg1 Hc1].
      assert (g1 = g) by (apply (NoDup_map_inj gid G (inv_gid st I)); assumption). subst g1.
      rewrite Hc in Hc1. discriminate. }
    split; [|split].
    + intros g Hg Hc. apply L1. now apply Hnotin.
    + intros g Hg Hc. apply L2. apply Hfound. now split.
    + intros x i Hl. destruct (in_dec Z.eq_dec x (map gid found)) as [Hin|Hnin].
      * left. apply in_map_iff in Hin. destruct Hin as (g1 & E1 & Hg1).
        pose proof (L2 g1 Hg1) as Hl2. rewrite E1, Hl in Hl2. injection Hl2 as ->.
        apply Hfound in Hg1. destruct Hg1 as [Hg1 Hc1]. exists g1. repeat split; auto.
      * right. now rewrite <- (L1 x Hnin).
Qed.

Lemma step_area st a st' : Inv st -> add_area st a = Ok st' ->
  area_simple a = true -> amem a = [] -> adef a = [] -> ~ In (aid a) (map aid (sareas st)) -> akind a <> K_REGION ->
  Inv st' /\ sgenes st' = sgenes st /\ map static (sareas st') = map static (sareas st) ++ [static a].
Proof.
  intros I H Has Hm Hd Hfresh Hk. unfold add_area in H.
  destruct (pair_tbl st a false (sregs st) st' I Has Hm Hd Hfresh H)
    as (t1 & lk1 & -> & R1 & Hn1 & T1 & T2 & T3 & L1 & _).
  specialize (L1 eq_refl). subst lk1.
  set (T0 := sareas st ++ [a]) in *.
  assert (Hfound0 : forall i, In i (sregs st) -> exists b, find_area T0 i = Some b).
  { intros i Hi. destruct (inv_regs_found st I i Hi) as (b & Hb & _). exists b. now apply find_area_snoc_old. }
  assert (Hregs : Forall2 (ext (sgenes st)) (regs_of st) (areas_of t1 (sregs st))).
  { unfold regs_of. rewrite <- (areas_of_snoc (sareas st) a (sregs st)).
    - apply R_areas_of. exact R1.
    - intros i Hi. destruct (inv_regs_found st I i Hi) as (b & Hb & _). now exists b. }
  split; [|split; [reflexivity|]].
  2:{ cbn [sareas]. rewrite <- (R_static _ _ _ R1). unfold T0. rewrite map_app. reflexivity. }
  constructor; cbn [sgenes sareas sregs slink]; try (unfold regs_of; cbn [sareas sregs]).
  - exact (inv_simple st I).
  - exact (inv_ss st I).
  - exact (inv_gid st I).
  - exact Hn1.
  - exact T1.
  - exact T2.
  - exact T3.
  - intros i Hi. destruct (inv_regs_found st I i Hi) as (b & Hb & Hkb).
    destruct (R_find _ _ _ _ _ R1 (find_area_snoc_old _ a _ _ Hb)) as (b' & Hb' & Hext).
    exists b'. split; [exact Hb'|]. destruct (ext_bounds _ _ _ Hext) as (_ & Ek & _). now rewrite <- Ek.
  - intros a' Ha' Hka. destruct (R_in _ _ _ _ R1 Ha') as (a0 & Ha0 & Hext).
    destruct (ext_bounds _ _ _ Hext) as (Eid & Ek & _).
    unfold T0 in Ha0. apply in_app_or in Ha0. destruct Ha0 as [Ha0|[<-|[]]].
    + rewrite <- Eid. apply (inv_regs_all st I a0 Ha0). now rewrite Ek.
    + exfalso. apply Hk. now rewrite Ek.
  - exact (RS_ext _ _ _ Hregs (inv_rs st I)).
  - intros g r' Hg Hr' Hc. destruct (Forall2_ext_in_r _ _ _ _ Hregs Hr') as (r & Hr & Hext).
    destruct (ext_bounds _ _ _ Hext) as (Eid & _ & Eloc & _). rewrite <- Eid. rewrite <- Eloc in Hc.
    exact (inv_link_complete st I g r Hg Hr Hc).
  - intros x i Hl. destruct (inv_link_sound st I x i Hl) as (g & r & Hg & Ex & Hr & Ei & Hc).
    destruct (Forall2_ext_in_l _ _ _ _ Hregs Hr) as (r' & Hr' & Hext).
    destruct (ext_bounds _ _ _ Hext) as (Eid & _ & Eloc & _).
    exists g, r'. rewrite <- Eloc, <- Eid. repeat split; auto.
Qed.

Lemma step_region st a st' : Inv st -> add_region st a = Ok st' ->
  area_simple a = true -> amem a = [] -> adef a = [] -> ~ In (aid a) (map aid (sareas st)) -> akind a = K_REGION ->
  Inv st' /\ sgenes st' = sgenes st /\ map static (sareas st') = map static (sareas st) ++ [static a].
Proof.
  intros I H Has Hm Hd Hfresh Hk. unfold add_region in H. fold (regs_of st) in H.
  destruct (region_index a (regs_of st) 0) as [idx|] eqn:Eidx; [|discriminate]. cbn [bind] in H.
  set (regs' := insert_at idx (aid a) (sregs st)) in *.
  destruct (pair_tbl st a true regs' st' I Has Hm Hd Hfresh H)
    as (t1 & lk1 & -> & R1 & Hn1 & T1 & T2 & T3 & _ & L).
  destruct (L eq_refl) as (L1 & L2 & L3). clear L.
  set (T0 := sareas st ++ [a]) in *. set (G := sgenes st) in *.
  assert (Hfa : find_area T0 (aid a) = Some a) by (apply find_area_snoc_new; exact Hfresh).
  assert (Hfound0 : forall i, In i (sregs st) -> exists b, find_area T0 i = Some b).
  { intros i Hi. destruct (inv_regs_found st I i Hi) as (b & Hb & _). exists b. now apply find_area_snoc_old. }
  assert (Hfoundold : forall i, In i (sregs st) -> exists b, find_area (sareas st) i = Some b).
  { intros i Hi. destruct (inv_regs_found st I i Hi) as (b & Hb & _). now exists b. }
  assert (E0 : areas_of T0 regs' = insert_at idx a (regs_of st)).
  { unfold regs'. rewrite (areas_of_insert T0 (sregs st) idx (aid a) a Hfound0 Hfa).
    unfold T0. rewrite (areas_of_snoc (sareas st) a (sregs st) Hfoundold). reflexivity. }
  pose proof (area_simple_simple a Has) as [Hsa _].
  assert (RS0 : RS (areas_of T0 regs')).
  { rewrite E0. exact (region_index_RS a (regs_of st) idx Hsa (regs_simple st I) (inv_rs st I) Eidx). }
  assert (Hsim0 : forall r, In r (areas_of T0 regs') -> simple_area r).
  { intros r Hr. rewrite E0 in Hr. apply in_insert_at in Hr. destruct Hr as [->|Hr]; [exact Hsa|now apply (regs_simple st I)]. }
  assert (Hregs : Forall2 (ext G) (areas_of T0 regs') (areas_of t1 regs')) by (apply R_areas_of; exact R1).
  split; [|split; [reflexivity|]].
  2:{ cbn [sareas]. rewrite <- (R_static _ _ _ R1). unfold T0. rewrite map_app. reflexivity. }
  constructor; cbn [sgenes sareas sregs slink]; try (unfold regs_of; cbn [sareas sregs]).
  - exact (inv_simple st I).
  - exact (inv_ss st I).
  - exact (inv_gid st I).
  - exact Hn1.
  - exact T1.
  - exact T2.
  - exact T3.
  - intros i Hi. unfold regs' in Hi. apply in_insert_at in Hi.
    assert (Hb : exists b, find_area T0 i = Some b /\ akind b = K_REGION).
    { destruct Hi as [->|Hi]; [exists a; now split|].
      destruct (inv_regs_found st I i Hi) as (b & Hb & Hkb). exists b. split; [now apply find_area_snoc_old|exact Hkb]. }
    destruct Hb as (b & Hb & Hkb).
    destruct (R_find _ _ _ _ _ R1 Hb) as (b' & Hb' & Hext).
    exists b'. split; [exact Hb'|]. destruct (ext_bounds _ _ _ Hext) as (_ & Ek & _). now rewrite <- Ek.
  - intros a' Ha' Hka. destruct (R_in _ _ _ _ R1 Ha') as (a0 & Ha0 & Hext).
    destruct (ext_bounds _ _ _ Hext) as (Eid & Ek & _). unfold regs'. apply in_insert_at.
    unfold T0 in Ha0. apply in_app_or in Ha0. destruct Ha0 as [Ha0|[<-|[]]].
    + right. rewrite <- Eid. apply (inv_regs_all st I a0 Ha0). now rewrite Ek.
    + left. now symmetry.
  - exact (RS_ext _ _ _ Hregs RS0).
  - intros g r' Hg Hr' Hc. destruct (Forall2_ext_in_r _ _ _ _ Hregs Hr') as (r & Hr & Hext).
    destruct (ext_bounds _ _ _ Hext) as (Eid & _ & Eloc & _). rewrite <- Eid. rewrite <- Eloc in Hc.
    assert (Hain : In a (areas_of T0 regs')) by (rewrite E0; apply in_insert_at; now left).
    destruct (contains (aloc a) (gloc g)) eqn:Hca.
    + rewrite (L2 g Hg Hca). do 2 f_equal.
      exact (RS_contains_same _ g a r RS0 Hsim0 (inv_simple st I g Hg) Hain Hr Hca Hc).
    + rewrite (L1 g Hg Hca). rewrite E0 in Hr. apply in_insert_at in Hr. destruct Hr as [->|Hr].
      * rewrite Hc in Hca. discriminate.
      * exact (inv_link_complete st I g r Hg Hr Hc).
  - intros x i Hl. destruct (L3 x i Hl) as [(g & Hg & Ex & Hc & ->)|Hold].
    + assert (Hain : In a (areas_of T0 regs')) by (rewrite E0; apply in_insert_at; now left).
      destruct (Forall2_ext_in_l _ _ _ _ Hregs Hain) as (r' & Hr' & Hext).
      destruct (ext_bounds _ _ _ Hext) as (Eid & _ & Eloc & _).
      exists g, r'. rewrite <- Eloc, <- Eid. repeat split; auto.
    + destruct (inv_link_sound st I x i Hold) as (g & r & Hg & Ex & Hr & Ei & Hc).
      assert (Hrin : In r (areas_of T0 regs')) by (rewrite E0; apply in_insert_at; now right).
      destruct (Forall2_ext_in_l _ _ _ _ Hregs Hrin) as (r' & Hr' & Hext).
      destruct (ext_bounds _ _ _ Hext) as (Eid & _ & Eloc & _).
      exists g, r'. rewrite <- Eloc, <- Eid. repeat split; auto.
Qed.

(* ------------------------------------------------------------------ whole histories *)
Definition GuardP (ops : list op) : Prop :=
  (forall g, In g (ops_genes ops) -> simple_gene g = true) /\
  NoDup (map gid (ops_genes ops)) /\
  (forall a, In a (ops_areas ops) -> area_simple a = true /\ amem a = [] /\ adef a = []) /\
  NoDup (map aid (ops_areas ops)) /\
  (forall o, In o ops -> op_kind_ok o = true).

Lemma history_guard_P ops : history_guard ops = true -> GuardP ops.
Proof.
  unfold history_guard. intros H.
  repeat (apply andb_prop in H; let H' := fresh "H" in destruct H as [H H']).
  unfold GuardP. repeat split.
  - apply forallb_forall. assumption.
  - apply unique_ids_NoDup. assumption.
  - rewrite forallb_forall in *. auto.
  - rewrite forallb_forall in *. apply area_fresh_spec. auto.
  - rewrite forallb_forall in *. apply area_fresh_spec. auto.
  - apply unique_ids_NoDup. assumption.
  - apply forallb_forall. assumption.
Qed.

Lemma ops_genes_app a b : ops_genes (a ++ b) = ops_genes a ++ ops_genes b.
Proof. apply flat_map_app. Qed.
Lemma ops_areas_app a b : ops_areas (a ++ b) = ops_areas a ++ ops_areas b.
Proof. apply flat_map_app. Qed.

Lemma NoDup_app_l {A} (a b : list A) : NoDup (a ++ b) -> NoDup a.
Proof.
  induction a as [|x a IH]; intros H; [constructor|].
  cbn [app] in H. inversion H as [|? ? Hx Hn]; subst. constructor; [|now apply IH].
  intros Hin. apply Hx. apply in_or_app. now left.
Qed.

Lemma GuardP_prefix ops o : GuardP (ops ++ [o]) -> GuardP ops.
Proof.
  intros (G1 & G3 & G4 & G5 & G6). rewrite ops_genes_app in G1, G3. rewrite ops_areas_app in G4, G5.
  rewrite map_app in G3, G5.
  repeat split.
  - intros g Hg. apply G1. apply in_or_app. now left.
  - exact (NoDup_app_l _ _ G3).
  - apply G4. apply in_or_app. now left.
  - apply G4. apply in_or_app. now left.
  - apply G4. apply in_or_app. now left.
  - exact (NoDup_app_l _ _ G5).
  - intros o' Ho'. apply G6. apply in_or_app. now left.
Qed.

Lemma exec_snoc ops o : exec (ops ++ [o]) = (do st <- exec ops; step st o).
Proof. unfold exec. rewrite fold_left_app. reflexivity. Qed.

Definition sid (s : Z * Z * loc * loc * list Z * list Z) : Z := let '(i, _, _, _, _, _) := s in i.
Lemma map_aid_static l : map aid l = map sid (map static l).
Proof. rewrite map_map. reflexivity. Qed.

Lemma NoDup_snoc_inv {A} (x : A) l : NoDup (l ++ [x]) -> ~ In x l.
Proof. intros H. apply NoDup_remove_2 in H. now rewrite app_nil_r in H. Qed.

Lemma exec_inv ops : forall st, GuardP ops -> exec ops = Ok st ->
  Inv st /\ (forall x, In x (sgenes st) <-> In x (ops_genes ops)) /\
  map static (sareas st) = map static (ops_areas ops).
Proof.
  induction ops as [|o ops IH] using rev_ind; intros st HG H.
  - cbn in H. injection H as <-. split; [exact inv_empty|]. split; [reflexivity|reflexivity].
  - rewrite exec_snoc in H. destruct (exec ops) as [st1|] eqn:E1; [|discriminate]. cbn [bind] in H.
    destruct (IH st1 (GuardP_prefix _ _ HG) eq_refl) as (I1 & Hgenes & Hareas).
    destruct HG as (G1 & G3 & G4 & G5 & G6).
    rewrite ops_genes_app in *. rewrite ops_areas_app in *.
    assert (Hk : op_kind_ok o = true) by (apply G6; apply in_or_app; right; now left).
    assert (Hfresh_a : forall a, ops_areas [o] = [a] -> ~ In (aid a) (map aid (sareas st1))).
    { intros a Ea. rewrite Ea, map_app in G5. cbn [map] in G5.
      rewrite map_aid_static, Hareas, <- map_aid_static. exact (NoDup_snoc_inv _ _ G5). }
    assert (Harea : forall a, ops_areas [o] = [a] -> area_simple a = true /\ amem a = [] /\ adef a = []).
    { intros a Ea. apply G4. rewrite Ea. apply in_or_app. right. now left. }
    destruct o as [g|a|a]; cbn [step] in H.
    + cbn [ops_genes ops_areas flat_map app] in *. rewrite app_nil_r.
      assert (Hg : simple_gene g = true) by (apply G1; apply in_or_app; right; now left).
      assert (Hfresh : ~ In (gid g) (map gid (sgenes st1))).
      { intros Hin. apply in_map_iff in Hin. destruct Hin as (x & Ex & Hx).
        rewrite map_app in G3. cbn [map] in G3. apply (NoDup_snoc_inv _ _ G3).
        rewrite <- Ex. apply in_map. now apply Hgenes. }
      destruct (step_gene st1 g st I1 H Hg Hfresh) as (I2 & Hg2 & Ha2).
      split; [exact I2|]. split; [|now rewrite Ha2].
      intros x. rewrite Hg2, in_app_iff, Hgenes. cbn [In]. intuition.
    + cbn [ops_genes ops_areas flat_map app] in *. rewrite app_nil_r.
      destruct (Harea a eq_refl) as (A1 & A2 & A3).
      assert (Hka : akind a <> K_REGION) by (cbn in Hk; lia).
      destruct (step_area st1 a st I1 H A1 A2 A3 (Hfresh_a a eq_refl) Hka) as (I2 & Hg2 & Ha2).
      split; [exact I2|]. split; [now rewrite Hg2|]. rewrite Ha2, Hareas, map_app. reflexivity.
    + cbn [ops_genes ops_areas flat_map app] in *. rewrite app_nil_r.
      destruct (Harea a eq_refl) as (A1 & A2 & A3).
      assert (Hka : akind a = K_REGION) by (cbn in Hk; lia).
      destruct (step_region st1 a st I1 H A1 A2 A3 (Hfresh_a a eq_refl) Hka) as (I2 & Hg2 & Ha2).
      split; [exact I2|]. split; [now rewrite Hg2|]. rewrite Ha2, Hareas, map_app. reflexivity.
Qed.

Lemma spec_members_in genes a x : In x (spec_members genes a) <->
  exists g, In g genes /\ gid g = x /\ contains (aloc a) (gloc g) = true.
Proof.
  unfold spec_members. rewrite in_map_iff. split.
  - intros (g & E & Hg). apply filter_In in Hg. destruct Hg. exists g. repeat split; auto.
  - intros (g & Hg & E & Hc). exists g. split; [exact E|]. apply filter_In. now split.
Qed.

Lemma spec_defs_in genes a x : akind a = K_PROTO -> In x (spec_defs genes a) <->
  exists g, In g genes /\ gid g = x /\ contains (aloc a) (gloc g) = true /\ defcond a g = true.
Proof.
  intros Hk. unfold spec_defs, defcond. rewrite Hk. change (K_PROTO =? K_PROTO) with true. cbn [andb].
  rewrite in_map_iff. split.
  - intros (g & E & Hg). apply filter_In in Hg. destruct Hg as [Hg Hc].
    exists g. rewrite <- andb_assoc in Hc. apply andb_prop in Hc. destruct Hc. repeat split; auto.
  - intros (g & Hg & E & Hc & Hd). exists g. split; [exact E|]. apply filter_In. split; [exact Hg|].
    rewrite <- andb_assoc, Hc, Hd. reflexivity.
Qed.

Lemma inv_members st : Inv st -> forall a, In a (sareas st) ->
  (forall x, In x (amem a) <-> exists g, In g (sgenes st) /\ gid g = x /\ contains (aloc a) (gloc g) = true) /\
  (forall x, In x (adef a) <-> exists g, In g (sgenes st) /\ gid g = x /\ contains (aloc a) (gloc g) = true /\ defcond a g = true).
Proof.
  intros I a Ha. destruct (inv_sound st I a Ha) as [S1 S2]. pose proof (inv_complete st I a Ha) as C.
  split; intros x; split.
  - apply S1.
  - intros (g & Hg & <- & Hc). exact (proj1 (C g Hg Hc)).
  - apply S2.
  - intros (g & Hg & <- & Hc & Hd). exact (proj2 (C g Hg Hc) Hd).
Qed.

Theorem membership_order_independent ops st : history_guard ops = true -> exec ops = Ok st ->
  (forall g, In g (sgenes st) <-> In g (ops_genes ops)) /\
  map static (sareas st) = map static (ops_areas ops) /\
  (forall a, In a (sareas st) ->
     (forall x, In x (amem a) <-> In x (spec_members (ops_genes ops) a)) /\
     (akind a = K_PROTO -> forall x, In x (adef a) <-> In x (spec_defs (ops_genes ops) a))) /\
  (forall a, In a (sareas st) -> akind a = K_REGION -> In a (areas_of (sareas st) (sregs st))) /\
  (forall g r, In g (ops_genes ops) -> In r (areas_of (sareas st) (sregs st)) ->
     contains (aloc r) (gloc g) = true -> link_of (slink st) (gid g) = Some (aid r)) /\
  (forall g i, In g (ops_genes ops) -> link_of (slink st) (gid g) = Some i ->
     exists r, In r (areas_of (sareas st) (sregs st)) /\ aid r = i /\ contains (aloc r) (gloc g) = true).
Proof.
  intros HG H. destruct (exec_inv ops st (history_guard_P ops HG) H) as (I & Hgenes & Hareas).
  split; [exact Hgenes|]. split; [exact Hareas|]. split; [|split; [|split]].
  - intros a Ha. destruct (inv_members st I a Ha) as [M1 M2]. split.
    + intros x. rewrite spec_members_in, M1. split; intros (g & Hg & R); exists g; (split; [now apply Hgenes|exact R]).
    + intros Hk x. rewrite (spec_defs_in _ _ _ Hk), M2. split; intros (g & Hg & R); exists g; (split; [now apply Hgenes|exact R]).
  - intros a Ha Hk. apply (areas_of_in_intro _ _ (aid a)); [exact (inv_regs_all st I a Ha Hk)|].
    exact (find_area_nodup _ _ (inv_aid st I) Ha).
  - intros g r Hg Hr Hc. apply (inv_link_complete st I g r); [now apply Hgenes|exact Hr|exact Hc].
  - intros g i Hg Hl. destruct (inv_link_sound st I _ _ Hl) as (g0 & r & Hg0 & E & Hr & Ei & Hc).
    assert (g0 = g) by (apply (NoDup_map_inj gid (sgenes st) (inv_gid st I)); [exact Hg0|now apply Hgenes|exact E]).
    subst g0. exists r. repeat split; auto.
Qed.

(* two histories over the same genes: an area present in both ends with the same members and the same
   definition genes, whatever the two orders of insertion were *)
Theorem build_order_irrelevant ops1 ops2 st1 st2 :
  history_guard ops1 = true -> history_guard ops2 = true -> exec ops1 = Ok st1 -> exec ops2 = Ok st2 ->
  (forall g, In g (ops_genes ops1) <-> In g (ops_genes ops2)) ->
  forall a1 a2, In a1 (sareas st1) -> In a2 (sareas st2) -> static a1 = static a2 ->
    (forall x, In x (amem a1) <-> In x (amem a2)) /\ (forall x, In x (adef a1) <-> In x (adef a2)).
Proof.
  intros G1 G2 H1 H2 Hsame a1 a2 Ha1 Ha2 Est.
  destruct (exec_inv ops1 st1 (history_guard_P _ G1) H1) as (I1 & Hg1 & _).
  destruct (exec_inv ops2 st2 (history_guard_P _ G2) H2) as (I2 & Hg2 & _).
  destruct (inv_members st1 I1 a1 Ha1) as [M1 D1]. destruct (inv_members st2 I2 a2 Ha2) as [M2 D2].
  assert (El : aloc a1 = aloc a2) by (unfold static in Est; now injection Est).
  split; intros x.
  - rewrite M1, M2. split; intros (g & Hg & R); exists g; (split; [apply Hg1 in Hg || apply Hg2 in Hg|]).
    + apply Hg2, Hsame, Hg.
    + now rewrite <- El.
    + apply Hg1, Hsame, Hg.
    + now rewrite El.
  - rewrite D1, D2. split; intros (g & Hg & E & Hc & Hd); exists g.
    + split; [apply Hg2, Hsame, Hg1, Hg|]. rewrite <- El, <- (defcond_static a1 a2 g Est). auto.
    + split; [apply Hg1, Hsame, Hg2, Hg|]. rewrite El, (defcond_static a1 a2 g Est). auto.
Qed.

(* ------------------------------------------------------------------ the gene list add_cds_feature builds, in any insertion order *)
Lemma add_gene_genes st g st' : add_gene st g = Ok st' ->
  sgenes st' = insert_at (bisect (fun e => negb (feat_lt (gloc g) (gloc e))) (sgenes st) 0) g (sgenes st).
Proof.
  unfold add_gene. destruct (existsb _ _); [discriminate|]. unfold link_cds. cbn [sgenes sareas sregs slink].
  intros H.
  match type of H with (do tl <- ?F; _) = _ => destruct F as [[t1 lk1]|] end; [|discriminate].
  cbn [bind] in H.
  match type of H with (do t2 <- ?F; _) = _ => destruct F as [t2|] end; [|discriminate].
  cbn [bind] in H. injection H as <-. reflexivity.
Qed.

Lemma build_sorted gs : forall st, build_genes gs = Ok st -> KS (sgenes st) /\ (forall x, In x (sgenes st) <-> In x gs).
Proof.
  unfold build_genes. induction gs as [|g gs IH] using rev_ind; intros st H.
  - cbn in H. injection H as <-. split; [exact I|reflexivity].
  - rewrite map_app in H. cbn [map] in H. rewrite exec_snoc in H.
    destruct (exec (map OGene gs)) as [st1|]; [|discriminate]. cbn [bind step] in H.
    destruct (IH st1 eq_refl) as [K1 M1]. rewrite (add_gene_genes _ _ _ H).
    destruct (insert_KS (sgenes st1) g K1) as (A & B & E & Ei & K2). rewrite Ei. split; [exact K2|].
    intros y. rewrite in_mid, <- E, M1, in_app_iff. cbn [In]. intuition congruence.
Qed.

(* the look-up on a record built by add_cds_feature in ANY order: every gene layout the Feature constructor accepts *)
Theorem lookup_built gs st q wo : build_genes gs = Ok st -> forallb gene_ok gs = true ->
  is_compound q = false -> query_ok (clamp q) = true ->
  lookup (sgenes st) q wo = filter (hit (clamp q) wo) (sgenes st).
Proof.
  intros Hb Hok Hc Hq. destruct (build_sorted gs st Hb) as [K M].
  apply lookup_exact; [|exact Hc|exact Hq].
  unfold layout_ok. apply andb_true_intro. split; [|exact (KS_key_sorted _ K)].
  apply forallb_forall. intros g Hg. rewrite forallb_forall in Hok. apply Hok. now apply M.
Qed.

(* single-part genes nested in each other in any way (the former refutation C08_lookup_refuted_nested, now positive);
   no sign condition on the coordinates *)
Theorem lookup_nested gs st q wo : build_genes gs = Ok st -> forallb simple_gene gs = true ->
  is_compound q = false -> query_ok (clamp q) = true ->
  lookup (sgenes st) q wo = filter (hit (clamp q) wo) (sgenes st).
Proof.
  intros Hb Hsim Hc Hq. destruct (build_sorted gs st Hb) as [K M].
  assert (Hs : forall g, In g (sgenes st) -> simple_gene g = true).
  { intros g Hg. rewrite forallb_forall in Hsim. apply Hsim. now apply M. }
  destruct (query_ok_inv _ Hq) as (qp & E & Hp).
  unfold lookup. rewrite Hc. destruct (sgenes st) as [|g0 l'] eqn:El; [reflexivity|]. rewrite <- El in *.
  unfold lookup_simple. cbv zeta. rewrite E.
  apply lookup_simple_core; [exact Hp|exact K| | |].
  - intros g Hg. exact (proj1 (simple_parts_ok g (Hs g Hg))).
  - intros g Hg. exact (proj2 (simple_parts_ok g (Hs g (In_skipn _ _ _ Hg)))).
  - intros g Hg Hb'. rewrite (proj2 (simple_parts_ok g (Hs g Hg))) in Hb'. discriminate.
Qed.
