(* C08 - lemmas and proofs *)
From Coq Require Import ZArith List Bool Lia ZifyBool.
From ASV.C08 Require Import Model.
Import ListNotations.
Open Scope Z_scope.

(* ------------------------------------------------------------------ generic list facts *)
Lemma skipn_length_app {A} (a b : list A) : skipn (length a) (a ++ b) = b.
Proof. induction a as [|x a IH]; [reflexivity|exact IH]. Qed.

Lemma firstn_length_app {A} (a b : list A) : firstn (length a) (a ++ b) = a.
Proof. induction a as [|x a IH]; [reflexivity|cbn [length app firstn]; now rewrite IH]. Qed.

Lemma firstn_S_nth {A} (l : list A) : forall j g, nth_error l j = Some g ->
  firstn (S j) l = firstn j l ++ [g].
Proof.
  induction l as [|x l IH]; intros j g H.
  - destruct j; discriminate.
  - destruct j as [|j].
    + cbn in H. injection H as ->. reflexivity.
    + cbn [nth_error] in H. change (firstn (S (S j)) (x :: l)) with (x :: firstn (S j) l).
      rewrite (IH j g H). reflexivity.
Qed.

Lemma nth_error_app_mid {A} (a : list A) x b : nth_error (a ++ x :: b) (length a) = Some x.
Proof. induction a as [|y a IH]; [reflexivity|exact IH]. Qed.

Lemma filter_all_false {A} (p : A -> bool) l : (forall x, In x l -> p x = false) -> filter p l = [].
Proof.
  induction l as [|x l IH]; intros H; [reflexivity|].
  cbn [filter]. rewrite (H x (or_introl eq_refl)). apply IH. intros y Hy. apply H. now right.
Qed.

Lemma filter_all_true {A} (p : A -> bool) l : (forall x, In x l -> p x = true) -> filter p l = l.
Proof.
  induction l as [|x l IH]; intros H; [reflexivity|].
  cbn [filter]. rewrite (H x (or_introl eq_refl)). f_equal. apply IH. intros y Hy. apply H. now right.
Qed.

(* ------------------------------------------------------------------ bisect *)
Lemma div2_bounds lo hi : (lo < hi)%nat -> (lo <= Nat.div2 (lo + hi) < hi)%nat.
Proof. intros H. rewrite Nat.div2_div. split.
  - apply Nat.div_le_lower_bound; lia.
  - apply Nat.div_lt_upper_bound; lia.
Qed.

(* on a list whose elements satisfy p exactly on a prefix a, the binary search returns |a| *)
Lemma bisect_go_partition {A} (p : A -> bool) (a b : list A) :
  (forall x, In x a -> p x = true) -> (forall x, In x b -> p x = false) ->
  forall fuel lo hi, (lo <= length a <= hi)%nat -> (hi <= length (a ++ b))%nat -> (hi - lo < fuel)%nat ->
  bisect_go p (a ++ b) fuel lo hi = length a.
Proof.
  intros Ha Hb. induction fuel as [|f IH]; intros lo hi Hk Hhi Hf; [lia|].
  cbn [bisect_go]. destruct (Nat.ltb lo hi) eqn:Hlt.
  - apply Nat.ltb_lt in Hlt. pose proof (div2_bounds lo hi Hlt) as Hm.
    set (mid := Nat.div2 (lo + hi)) in *.
    destruct (nth_error (a ++ b) mid) as [e|] eqn:Hn.
    + destruct (Nat.lt_ge_cases mid (length a)) as [Hma|Hma].
      * rewrite nth_error_app1 in Hn by exact Hma.
        rewrite (Ha e (nth_error_In _ _ Hn)). apply IH; lia.
      * rewrite nth_error_app2 in Hn by exact Hma.
        rewrite (Hb e (nth_error_In _ _ Hn)). apply IH; lia.
    + apply nth_error_None in Hn. lia.
  - apply Nat.ltb_ge in Hlt. lia.
Qed.

Lemma bisect_partition {A} (p : A -> bool) (a b : list A) lo :
  (forall x, In x a -> p x = true) -> (forall x, In x b -> p x = false) ->
  (lo <= length a)%nat -> bisect p (a ++ b) lo = length a.
Proof.
  intros Ha Hb Hlo. unfold bisect. apply bisect_go_partition; auto.
  - rewrite app_length. lia.
  - rewrite app_length. lia.
Qed.

(* a predicate that is downward closed along the list splits it into a true prefix and a false suffix *)
Lemma downward_split {A} (p : A -> bool) (l : list A) :
  (forall a x b y, l = a ++ x :: b -> In y b -> p y = true -> p x = true) ->
  exists a b, l = a ++ b /\ (forall x, In x a -> p x = true) /\ (forall x, In x b -> p x = false).
Proof.
  induction l as [|x l IH]; intros H.
  - exists [], []. repeat split; intros ? [].
  - destruct (p x) eqn:Hx.
    + destruct IH as (a & b & -> & Ha & Hb).
      { intros a0 x0 b0 y E Hy Hp. apply (H (x :: a0) x0 b0 y); [now rewrite E|exact Hy|exact Hp]. }
      exists (x :: a), b. repeat split; [|exact Hb]. intros z [<-|Hz]; [exact Hx|now apply Ha].
    + exists [], (x :: l). repeat split; [intros ? []|].
      intros z [<-|Hz]; [exact Hx|].
      destruct (p z) eqn:Hpz; [|reflexivity].
      rewrite (H [] x l z eq_refl Hz Hpz) in Hx. discriminate.
Qed.

(* ------------------------------------------------------------------ backstep *)
Lemma backstep_decomp (t : gene -> bool) (l : list gene) : forall i, (i <= length l)%nat ->
  exists pre mid, firstn i l = pre ++ mid /\ length pre = backstep t l i /\
                  (forall g, In g mid -> t g = true) /\
                  (pre = [] \/ exists pre' x, pre = pre' ++ [x] /\ t x = false).
Proof.
  induction i as [|j IH]; intros Hi.
  - exists [], []. repeat split; [intros ? []|now left].
  - destruct (nth_error l j) as [g|] eqn:Hn.
    2:{ apply nth_error_None in Hn. lia. }
    cbn [backstep]. rewrite Hn. rewrite (firstn_S_nth l j g Hn).
    destruct (t g) eqn:Ht.
    + destruct IH as (pre & mid & E & Hl & Hm & Hp); [lia|].
      exists pre, (mid ++ [g]). rewrite E, app_assoc. repeat split; auto.
      intros x Hx. apply in_app_or in Hx. destruct Hx as [Hx|[<-|[]]]; [now apply Hm|exact Ht].
    + exists (firstn j l ++ [g]), []. rewrite app_nil_r. repeat split.
      * rewrite app_length, firstn_length. cbn [length]. lia.
      * intros ? [].
      * right. exists (firstn j l), g. split; [reflexivity|exact Ht].
Qed.

(* ------------------------------------------------------------------ single-part genes *)
Definition gs (g : gene) : Z := lstart (gloc g).
Definition ge (g : gene) : Z := lend (gloc g).
Definition le2 (a b : gene) : Prop := gs a <= gs b /\ ge a <= ge b.

Fixpoint SS (l : list gene) : Prop :=
  match l with
  | [] => True
  | f :: r => (forall g, In g r -> le2 f g) /\ SS r
  end.

Lemma monotone_SS l : monotone l = true -> SS l.
Proof.
  induction l as [|a l IH]; intros H; [exact I|].
  destruct l as [|b t]; [split; [intros ? []|exact I]|].
  cbn [monotone] in H. apply andb_prop in H. destruct H as [H Hm].
  apply andb_prop in H. destruct H as [H1 H2].
  specialize (IH Hm). split; [|exact IH].
  intros g [<-|Hg].
  - unfold le2, gs, ge. lia.
  - destruct IH as [Hb _]. specialize (Hb g Hg). unfold le2, gs, ge in *. lia.
Qed.

Lemma SS_app a b : SS (a ++ b) -> SS a /\ SS b /\ (forall x y, In x a -> In y b -> le2 x y).
Proof.
  induction a as [|x a IH]; intros H.
  - split; [exact I|]. split; [exact H|]. intros ? ? [].
  - destruct H as [Hx Hs]. destruct (IH Hs) as (Sa & Sb & Hab). split; [|split].
    + split; [|exact Sa]. intros g Hg. apply Hx. apply in_or_app. now left.
    + exact Sb.
    + intros u v [<-|Hu] Hv; [apply Hx; apply in_or_app; now right|now apply Hab].
Qed.

Lemma simple_gene_inv g : simple_gene g = true ->
  exists p, gloc g = [p] /\ ps p < pe p /\ gs g = ps p /\ ge g = pe p.
Proof.
  unfold simple_gene, gs, ge. destruct (gloc g) as [|p [|? ?]]; try discriminate.
  intros H. exists p. repeat split. lia.
Qed.

Lemma query_ok_inv q : query_ok q = true -> exists p, q = [p] /\ ps p < pe p.
Proof.
  unfold query_ok. destruct q as [|p [|? ?]]; try discriminate. intros H. exists p. split; [reflexivity|lia].
Qed.

Lemma contains_single o i : contains [o] [i] = true <-> ps o <= ps i /\ ps i <= pe i /\ pe i <= pe o.
Proof. unfold contains, part_contains. cbn [forallb existsb]. lia. Qed.

Lemma overlap_single a b : ps a < pe a -> ps b < pe b ->
  (overlap [a] [b] = true <-> ps a < pe b /\ ps b < pe a).
Proof. intros Ha Hb. unfold overlap, part_overlap, in_part. cbn [existsb]. lia. Qed.

Lemma bridges_single p : bridges [p] = false.
Proof. reflexivity. Qed.

Lemma fkey_single p : fkey [p] = (ps p, pe p - ps p).
Proof. unfold fkey, kstart. rewrite bridges_single. unfold lstart, llen. cbn. f_equal. lia. Qed.

(* ------------------------------------------------------------------ the forward scan *)
Section Scan.
  Variable qp : part.
  Hypothesis Hq : ps qp < pe qp.
  Let q : loc := [qp].

  Lemma hit_simple wo g : simple_gene g = true ->
    hit q wo g = true <->
    (ps qp <= gs g /\ ge g <= pe qp) \/ (wo = true /\ gs g < pe qp /\ ps qp < ge g).
  Proof.
    intros Hg. destruct (simple_gene_inv g Hg) as (p & E & Hp & Es & Ee).
    unfold hit, q. rewrite E, Es, Ee.
    pose proof (contains_single qp p) as Hc. pose proof (overlap_single p qp Hp Hq) as Ho.
    destruct (contains [qp] [p]); destruct (overlap [p] [qp]); destruct wo; cbn [orb andb]; split; intros H;
      try reflexivity; try discriminate; intuition (try discriminate; try lia).
  Qed.

  (* once a gene at or after the query's start is missed, every later gene is missed *)
  Lemma hit_closed wo f g : simple_gene f = true -> simple_gene g = true -> le2 f g ->
    ps qp <= gs f -> hit q wo f = false -> hit q wo g = false.
  Proof.
    intros Hf Hg [L1 L2] Hs Hn.
    destruct (hit q wo g) eqn:Hh; [|reflexivity].
    apply (hit_simple wo g Hg) in Hh.
    assert (Hc : hit q wo f = true); [|rewrite Hc in Hn; discriminate].
    apply (hit_simple wo f Hf).
    destruct (simple_gene_inv f Hf) as (pf & _ & Hpf & Esf & Eef).
    destruct Hh as [Hh|Hh]; [left; lia|].
    destruct Hh as (-> & H1 & H2). right. repeat split; lia.
  Qed.

  Lemma scan_filter wo l : SS l -> (forall g, In g l -> simple_gene g = true) ->
    (forall g, In g l -> ps qp <= gs g) -> scan q wo l = filter (hit q wo) l.
  Proof.
    induction l as [|f r IH]; intros Hs Hsim Hst; [reflexivity|].
    destruct Hs as [Hf Hs].
    assert (IHr : scan q wo r = filter (hit q wo) r).
    { apply IH; [exact Hs| |]; intros g Hg; [apply Hsim|apply Hst]; now right. }
    cbn [scan filter]. unfold hit at 1.
    destruct (contains q (gloc f)) eqn:Hc; cbn [orb]; [now rewrite IHr|].
    destruct (wo && overlap (gloc f) q) eqn:Ho; [now rewrite IHr|].
    assert (Hnone : filter (hit q wo) r = []).
    { apply filter_all_false. intros g Hg.
      apply (hit_closed wo f g); [apply Hsim; now left|apply Hsim; now right|now apply Hf|apply Hst; now left|].
      unfold hit. now rewrite Hc, Ho. }
    rewrite Hnone. destruct r as [|n r']; [reflexivity|].
    destruct (contains (gloc f) (gloc n)); [now rewrite IHr, Hnone|reflexivity].
  Qed.

  Lemma scan_hits_app wo m r : (forall g, In g m -> hit q wo g = true) -> scan q wo (m ++ r) = m ++ scan q wo r.
  Proof.
    induction m as [|f m IH]; intros H; [reflexivity|].
    cbn [app scan]. pose proof (H f (or_introl eq_refl)) as Hf. unfold hit in Hf.
    destruct (contains q (gloc f)); [f_equal; apply IH; intros g Hg; apply H; now right|].
    cbn [orb] in Hf. rewrite Hf. f_equal. apply IH. intros g Hg. apply H. now right.
  Qed.

  Lemma feat_lt_simple g : simple_gene g = true ->
    feat_lt (gloc g) q = true <-> (gs g < ps qp \/ (gs g = ps qp /\ ge g - gs g < pe qp - ps qp)).
  Proof.
    intros Hg. destruct (simple_gene_inv g Hg) as (p & E & Hp & Es & Ee).
    unfold feat_lt, q. rewrite E, Es, Ee, !fkey_single. unfold pair_lt. cbn [fst snd]. lia.
  Qed.

  Theorem lookup_simple_exact genes wo : layout_ok genes = true ->
    scan q wo (skipn (find_start q genes wo) genes) = filter (hit q wo) genes.
  Proof.
    intros Hl. unfold layout_ok in Hl. apply andb_prop in Hl. destruct Hl as [Hsim Hmono].
    assert (Hsimple : forall g, In g genes -> simple_gene g = true) by (apply forallb_forall; exact Hsim).
    pose proof (monotone_SS genes Hmono) as Hss.
    (* the bisection *)
    destruct (downward_split (fun g => feat_lt (gloc g) q) genes) as (A & B & EAB & HA & HB).
    { intros a x b y E Hy Hp. subst genes.
      assert (Hx : simple_gene x = true) by (apply Hsimple, in_or_app; right; now left).
      assert (Hy' : simple_gene y = true) by (apply Hsimple, in_or_app; right; now right).
      apply SS_app in Hss. destruct Hss as (_ & [Hxb _] & _). specialize (Hxb y Hy). destruct Hxb as [L1 L2].
      apply (feat_lt_simple x Hx). apply (feat_lt_simple y Hy') in Hp. lia. }
    unfold find_start. rewrite EAB. rewrite (bisect_partition _ A B 0%nat HA HB (Nat.le_0_l _)).
    rewrite <- EAB.
    (* first back-step: genes with the query's start *)
    destruct (backstep_decomp (fun g => lstart (gloc g) =? lstart q) genes (length A)) as (pre1 & mid1 & E1 & L1 & M1 & P1).
    { rewrite EAB, app_length. lia. }
    rewrite EAB, firstn_length_app in E1.
    assert (Egenes : genes = pre1 ++ mid1 ++ B) by (rewrite app_assoc, <- E1; exact EAB).
    assert (HsimA : forall g, In g A -> gs g <= ps qp).
    { intros g Hg. assert (Hs : simple_gene g = true) by (apply Hsimple; rewrite EAB; apply in_or_app; now left).
      specialize (HA g Hg). cbn beta in HA. apply (feat_lt_simple g Hs) in HA. lia. }
    assert (Hpre1 : forall g, In g pre1 -> gs g < ps qp).
    { destruct P1 as [->|(pre' & x & -> & Hx)]; [intros ? []|].
      assert (Hxa : In x A) by (rewrite E1; apply in_or_app; left; apply in_or_app; right; now left).
      assert (Hxs : gs x < ps qp).
      { specialize (HsimA x Hxa). unfold gs in *. unfold q, lstart at 2 in Hx. cbn in Hx. lia. }
      intros g Hg. apply in_app_or in Hg. destruct Hg as [Hg|[<-|[]]]; [|exact Hxs].
      rewrite Egenes in Hss. apply SS_app in Hss. destruct Hss as (Hss1 & _ & _).
      apply SS_app in Hss1. destruct Hss1 as (_ & _ & Hc). destruct (Hc g x Hg (or_introl eq_refl)). lia. }
    assert (HR1 : forall g, In g (mid1 ++ B) -> ps qp <= gs g).
    { intros g Hg. apply in_app_or in Hg. destruct Hg as [Hg|Hg].
      - specialize (M1 g Hg). cbn beta in M1. unfold gs. unfold q, lstart at 2 in M1. cbn in M1. lia.
      - assert (Hs : simple_gene g = true) by (apply Hsimple; rewrite EAB; apply in_or_app; now right).
        specialize (HB g Hg). cbn beta in HB.
        destruct (Z_lt_ge_dec (gs g) (ps qp)) as [Hlt|Hge]; [|lia].
        assert (Ht : feat_lt (gloc g) q = true) by (apply (feat_lt_simple g Hs); lia).
        rewrite Ht in HB. discriminate. }
    assert (Hss' := Hss). rewrite Egenes in Hss'. apply SS_app in Hss'. destruct Hss' as (SSpre1 & SSR1 & _).
    assert (HsimR1 : forall g, In g (mid1 ++ B) -> simple_gene g = true).
    { intros g Hg. apply Hsimple. rewrite Egenes. apply in_or_app. now right. }
    assert (Hmiss1 : forall g, In g pre1 -> contains q (gloc g) = false).
    { intros g Hg. assert (Hs : simple_gene g = true) by (apply Hsimple; rewrite Egenes; apply in_or_app; now left).
      destruct (simple_gene_inv g Hs) as (p & E & Hp & Es & Ee). specialize (Hpre1 g Hg).
      destruct (contains q (gloc g)) eqn:Hc; [|reflexivity]. unfold q in Hc. rewrite E in Hc.
      apply contains_single in Hc. lia. }
    destruct wo.
    - (* with_overlapping: second back-step over overlapping predecessors *)
      destruct (backstep_decomp (fun g => overlap (gloc g) q) genes (backstep (fun g => lstart (gloc g) =? lstart q) genes (length A)))
        as (pre2 & mid2 & E2 & L2 & M2 & P2).
      { rewrite <- L1, Egenes, app_length. lia. }
      rewrite <- L1 in E2. rewrite Egenes in E2 at 1. rewrite firstn_length_app in E2.
      rewrite <- L2. rewrite Egenes at 1. rewrite E2, <- app_assoc, skipn_length_app.
      assert (Hmid2 : forall g, In g mid2 -> hit q true g = true).
      { intros g Hg. unfold hit. rewrite (M2 g Hg). cbn. apply orb_true_r. }
      rewrite (scan_hits_app true mid2 (mid1 ++ B) Hmid2).
      rewrite (scan_filter true (mid1 ++ B) SSR1 HsimR1 HR1).
      rewrite Egenes at 1. rewrite E2, <- app_assoc, !filter_app.
      rewrite (filter_all_true _ mid2 Hmid2).
      rewrite (filter_all_false (hit q true) pre2); [reflexivity|].
      intros g Hg.
      assert (Hgp : In g pre1) by (rewrite E2; apply in_or_app; now left).
      assert (Hs : simple_gene g = true) by (apply Hsimple; rewrite Egenes; apply in_or_app; now left).
      unfold hit. rewrite (Hmiss1 g Hgp). cbn [orb andb].
      destruct P2 as [->|(pre' & x & -> & Hx)]; [destruct Hg|].
      assert (Hxp : In x pre1) by (rewrite E2; apply in_or_app; left; apply in_or_app; right; now left).
      assert (Hxs : simple_gene x = true) by (apply Hsimple; rewrite Egenes; apply in_or_app; now left).
      destruct (simple_gene_inv x Hxs) as (px & Ex & Hpx & Esx & Eex).
      pose proof (Hpre1 x Hxp) as Hxlt.
      rewrite Ex in Hx. unfold q in Hx.
      assert (Hxe : ge x <= ps qp).
      { destruct (Z_lt_ge_dec (ps qp) (ge x)) as [Hlt|Hge]; [|lia].
        assert (Ho : overlap [px] [qp] = true) by (apply overlap_single; lia).
        rewrite Ho in Hx. discriminate. }
      assert (Hge : ge g <= ps qp).
      { apply in_app_or in Hg. destruct Hg as [Hg|[<-|[]]]; [|exact Hxe].
        rewrite E2 in SSpre1. apply SS_app in SSpre1. destruct SSpre1 as (Sp & _ & _).
        apply SS_app in Sp. destruct Sp as (_ & _ & Hc). destruct (Hc g x Hg (or_introl eq_refl)). lia. }
      destruct (simple_gene_inv g Hs) as (p & E & Hp & Es & Ee). rewrite E. unfold q.
      destruct (overlap [p] [qp]) eqn:Ho; [|reflexivity]. apply overlap_single in Ho; lia.
    - rewrite <- L1. rewrite Egenes at 1. rewrite skipn_length_app.
      rewrite (scan_filter false (mid1 ++ B) SSR1 HsimR1 HR1).
      rewrite Egenes. rewrite (filter_app _ pre1).
      rewrite (filter_all_false (hit q false) pre1); [reflexivity|].
      intros g Hg. unfold hit. rewrite (Hmiss1 g Hg). reflexivity.
  Qed.
End Scan.

Theorem lookup_exact genes q wo :
  layout_ok genes = true -> is_compound q = false -> query_ok (clamp q) = true ->
  lookup genes q wo = filter (hit (clamp q) wo) genes.
Proof.
  intros Hl Hc Hq. destruct (query_ok_inv _ Hq) as (qp & E & Hp).
  unfold lookup. rewrite Hc. destruct genes as [|g0 genes']; [reflexivity|].
  unfold lookup_simple. rewrite E. apply lookup_simple_exact; assumption.
Qed.

(* a query that starts at or after 0 is used as it is; a negative start is cut at 0, which does not
   change which genes (all of which start at >= 0) are contained or overlapped *)
Lemma clamp_nonneg q : 0 <= lstart q -> clamp q = q.
Proof. intros H. unfold clamp. destruct (lstart q <? 0) eqn:E; [lia|reflexivity]. Qed.

Lemma clamp_same_hits qp wo g : ps qp < 0 -> 1 <= pe qp -> simple_gene g = true -> 0 <= gs g ->
  hit (clamp [qp]) wo g = hit [qp] wo g.
Proof.
  intros Hneg Hend Hg Hs. destruct (simple_gene_inv g Hg) as (p & E & Hp & Es & Ee).
  unfold clamp, lstart, lend. cbn [map lmin lmax fold_left].
  destruct (ps qp <? 0) eqn:En; [|lia].
  unfold hit. rewrite E. rewrite Es in Hs.
  assert (Hm : Z.max 1 (pe qp) = pe qp) by lia. rewrite Hm.
  assert (Hc : contains [mkPart 0 (pe qp) S_None] [p] = contains [qp] [p]).
  { unfold contains, part_contains. cbn [forallb existsb ps pe]. lia. }
  assert (Ho : overlap [p] [mkPart 0 (pe qp) S_None] = overlap [p] [qp]).
  { unfold overlap, part_overlap, in_part. cbn [existsb ps pe]. lia. }
  now rewrite Hc, Ho.
Qed.

(* ------------------------------------------------------------------ soundness for every layout *)
Lemma scan_sound q wo l g : In g (scan q wo l) -> In g l /\ hit q wo g = true.
Proof.
  induction l as [|f r IH]; intros H; [destruct H|].
  cbn [scan] in H. unfold hit.
  destruct (contains q (gloc f)) eqn:Hc.
  - destruct H as [<-|H]; [split; [now left|now rewrite Hc]|]. destruct (IH H). split; [now right|assumption].
  - destruct (wo && overlap (gloc f) q) eqn:Ho.
    + destruct H as [<-|H]; [split; [now left|rewrite Hc, Ho; reflexivity]|]. destruct (IH H). split; [now right|assumption].
    + destruct r as [|n r']; [destruct H|].
      destruct (contains (gloc f) (gloc n)); [|destruct H]. destruct (IH H). split; [now right|assumption].
Qed.

Lemma In_skipn {A} (x : A) n l : In x (skipn n l) -> In x l.
Proof. intros H. rewrite <- (firstn_skipn n l). apply in_or_app. now right. Qed.

Lemma lookup_simple_sound genes q wo g : In g (lookup_simple genes q wo) -> In g genes /\ hit (clamp q) wo g = true.
Proof.
  unfold lookup_simple. intros H. apply scan_sound in H. destruct H as [H1 H2]. split; [|exact H2].
  exact (In_skipn _ _ _ H1).
Qed.

Lemma extend_new_in acc found g : In g (extend_new acc found) -> In g acc \/ In g found.
Proof.
  revert acc. induction found as [|f r IH]; intros acc H; [now left|].
  cbn [extend_new] in H. destruct (gmem f acc).
  - destruct (IH _ H); [now left|right; now right].
  - destruct (IH _ H) as [Ha|Hr]; [|right; now right].
    apply in_app_or in Ha. destruct Ha as [Ha|[<-|[]]]; [now left|right; now left].
Qed.

Lemma compound_feats_sound genes g : forall parts acc,
  In g (fold_left (fun acc p => extend_new acc (lookup_simple genes [p] true)) parts acc) ->
  In g acc \/ (In g genes /\ exists p, In p parts /\ hit (clamp [p]) true g = true).
Proof.
  induction parts as [|p parts IH]; intros acc H; [now left|].
  cbn [fold_left] in H. destruct (IH _ H) as [Ha|(Hg & p' & Hp' & Hh)].
  - destruct (extend_new_in _ _ _ Ha) as [Hacc|Hf]; [now left|].
    apply lookup_simple_sound in Hf. destruct Hf as [Hg Hh]. right. split; [exact Hg|].
    exists p. split; [now left|exact Hh].
  - right. split; [exact Hg|]. exists p'. split; [now right|exact Hh].
Qed.

(* every gene returned is a gene of the record and is contained in (overlaps) the query *)
Theorem lookup_sound genes q wo g : In g (lookup genes q wo) ->
  In g genes /\
  (is_compound q = false -> hit (clamp q) wo g = true) /\
  (is_compound q = true -> exists p, In p q /\ hit (clamp [p]) true g = true) /\
  (is_compound q = true -> wo = false -> contains q (gloc g) = true).
Proof.
  unfold lookup. destruct genes as [|g0 genes']; [intros []|]. set (genes := g0 :: genes').
  destruct (is_compound q) eqn:Hc.
  - destruct wo.
    + intros H. apply compound_feats_sound in H. destruct H as [[]|(Hg & p & Hp & Hh)].
      repeat split; auto; try discriminate. intros _. exists p. now split.
    + intros H. apply filter_In in H. destruct H as [H Hcont].
      apply compound_feats_sound in H. destruct H as [[]|(Hg & p & Hp & Hh)].
      repeat split; auto; try discriminate. intros _. exists p. now split.
  - intros H. apply lookup_simple_sound in H. destruct H as [Hg Hh].
    repeat split; auto; discriminate.
Qed.

(* ------------------------------------------------------------------ refutations (witnesses) *)
Lemma lookup_refuted_nested : exists gs st q,
  build_genes gs = Ok st /\ forallb simple_gene gs = true /\ query_ok q = true /\
  lookup (sgenes st) q false <> filter (hit q false) (sgenes st).
Proof.
  exists [mkGene 0 [mkPart 6 10 1] []; mkGene 1 [mkPart 6 23 1] []; mkGene 2 [mkPart 6 26 1] []; mkGene 3 [mkPart 8 19 1] []].
  eexists. exists [mkPart 5 20 1].
  split; [vm_compute; reflexivity|]. split; [reflexivity|]. split; [reflexivity|].
  vm_compute. discriminate.
Qed.

Lemma lookup_refuted_origin : exists gs st q,
  build_genes gs = Ok st /\ query_ok q = true /\
  lookup (sgenes st) q true <> filter (hit q true) (sgenes st).
Proof.
  exists [mkGene 0 [mkPart 35 40 1; mkPart 0 4 1] []; mkGene 1 [mkPart 10 14 1] []; mkGene 2 [mkPart 20 30 1] []].
  eexists. exists [mkPart 36 40 1].
  split; [vm_compute; reflexivity|]. split; [reflexivity|].
  vm_compute. discriminate.
Qed.

(* ------------------------------------------------------------------ add_cds *)
Lemma add_cds_contained depth tbl i g tbl' : add_cds depth tbl i g = Ok tbl' ->
  exists a, find_area tbl i = Some a /\ contains (aloc a) (gloc g) = true.
Proof.
  destruct depth; cbn [add_cds]; destruct (find_area tbl i) as [a|]; try discriminate;
    (destruct (contains (aloc a) (gloc g)) eqn:Hc; cbn [negb]; [intros _; exists a; now split|discriminate]).
Qed.

(* ------------------------------------------------------------------ the region window of _link_cds_to_parent *)
Lemma bisect_go_ge {A} (p : A -> bool) l : forall fuel lo hi, (lo <= bisect_go p l fuel lo hi)%nat.
Proof.
  induction fuel as [|f IH]; intros lo hi; cbn [bisect_go]; [lia|].
  destruct (Nat.ltb lo hi) eqn:Hlt; [|lia].
  apply Nat.ltb_lt in Hlt. pose proof (div2_bounds lo hi Hlt) as Hm.
  destruct (nth_error l (Nat.div2 (lo + hi))); [|lia].
  destruct (p a).
  - specialize (IH (S (Nat.div2 (lo + hi))) hi). lia.
  - apply IH.
Qed.

Definition simple_area (a : area) : Prop := exists p, aloc a = [p] /\ ps p < pe p.
Definition as_ (a : area) : Z := lstart (aloc a).
Definition ae (a : area) : Z := lend (aloc a).

(* the regions of a record: disjoint and in ascending order *)
Fixpoint RS (l : list area) : Prop :=
  match l with
  | [] => True
  | r :: t => (forall r', In r' t -> ae r <= as_ r') /\ RS t
  end.

Lemma RS_app a b : RS (a ++ b) -> RS a /\ RS b /\ (forall x y, In x a -> In y b -> ae x <= as_ y).
Proof.
  induction a as [|x a IH]; intros H.
  - split; [exact I|]. split; [exact H|]. intros ? ? [].
  - destruct H as [Hx Hs]. destruct (IH Hs) as (Sa & Sb & Hab). split; [|split].
    + split; [|exact Sa]. intros g Hg. apply Hx. apply in_or_app. now left.
    + exact Sb.
    + intros u v [<-|Hu] Hv; [apply Hx; apply in_or_app; now right|now apply Hab].
Qed.

Lemma ckey_single p : ckey [p] = (ps p, - (pe p - ps p)).
Proof. unfold ckey, kstart. rewrite bridges_single. unfold lstart, llen. cbn. f_equal. lia. Qed.

Lemma region_lt_cds_simple r g pr pg : aloc r = [pr] -> gloc g = [pg] -> ps pr < pe pr -> ps pg < pe pg ->
  zmem (gid g) (amem r) = false ->
  (region_lt_cds r g = true -> ps pr <= ps pg) /\ (ps pr < ps pg -> region_lt_cds r g = true).
Proof.
  intros Er Eg Hr Hg Hm. unfold region_lt_cds. rewrite Hm, Er, Eg, !ckey_single. unfold pair_lt. cbn [fst snd].
  destruct (contains [pr] [pg] && negb (contains [pg] [pr])) eqn:Hc.
  - split; [|reflexivity]. intros _. apply andb_prop in Hc. destruct Hc as [Hc _]. apply contains_single in Hc. lia.
  - split; lia.
Qed.

Lemma link_window_complete regs g :
  RS regs -> (forall r, In r regs -> simple_area r) -> simple_gene g = true ->
  (forall r, In r regs -> zmem (gid g) (amem r) = false) ->
  let left := bisect (fun r => region_lt_cds r g) regs 0 in
  let right := bisect (fun r => negb (cds_lt_region g r)) regs left in
  let window := firstn (S right - (left - 1)) (skipn (left - 1) regs) in
  forall r, In r regs -> contains (aloc r) (gloc g) = true -> In r window.
Proof.
  intros Hrs Hsim Hg Hmem left right window r Hr Hc.
  destruct (simple_gene_inv g Hg) as (pg & Eg & Hpg & _ & _).
  assert (Hfacts : forall x, In x regs -> exists px, aloc x = [px] /\ ps px < pe px /\
                     (region_lt_cds x g = true -> ps px <= ps pg) /\ (ps px < ps pg -> region_lt_cds x g = true)).
  { intros x Hx. destruct (Hsim x Hx) as (px & Ex & Hpx). exists px. split; [exact Ex|]. split; [exact Hpx|].
    apply (region_lt_cds_simple x g px pg Ex Eg Hpx Hpg (Hmem x Hx)). }
  assert (Hbounds : forall x px, aloc x = [px] -> as_ x = ps px /\ ae x = pe px).
  { intros x px Ex. unfold as_, ae. rewrite Ex. split; reflexivity. }
  destruct (downward_split (fun x => region_lt_cds x g) regs) as (A & B & EAB & HA & HB).
  { intros a x b y E Hy Hp. subst regs.
    destruct (Hfacts x) as (px & Ex & Hpx & _ & Hx2); [apply in_or_app; right; now left|].
    destruct (Hfacts y) as (py & Ey & Hpy & Hy1 & _); [apply in_or_app; right; now right|].
    apply RS_app in Hrs. destruct Hrs as (_ & [Hxb _] & _). specialize (Hxb y Hy).
    destruct (Hbounds x px Ex) as [_ Exe]. destruct (Hbounds y py Ey) as [Eys _].
    apply Hx2. specialize (Hy1 Hp). lia. }
  assert (Eleft : left = length A).
  { unfold left. rewrite EAB. apply bisect_partition; auto. lia. }
  assert (Hright : (left <= right)%nat) by (unfold right, bisect; apply bisect_go_ge).
  rewrite Eleft in Hright.
  destruct (Hfacts r Hr) as (pr & Er & Hpr & Hr1 & Hr2).
  rewrite Er, Eg in Hc. apply contains_single in Hc.
  destruct (Hbounds r pr Er) as [Ers Ere].
  rewrite EAB in Hr. apply in_app_or in Hr. destruct Hr as [Hr|Hr].
  - (* r satisfies the bisection predicate: it is the last such region *)
    apply in_split in Hr. destruct Hr as (A1 & A2 & EA).
    assert (HA2 : A2 = []).
    { destruct A2 as [|r2 A2']; [reflexivity|exfalso].
      assert (Hr2in : In r2 regs) by (rewrite EAB, EA; apply in_or_app; left; apply in_or_app; right; right; now left).
      destruct (Hfacts r2 Hr2in) as (p2 & E2 & Hp2 & H21 & _).
      assert (HP2 : region_lt_cds r2 g = true) by (apply HA; rewrite EA; apply in_or_app; right; right; now left).
      specialize (H21 HP2).
      rewrite EAB, EA in Hrs. apply RS_app in Hrs. destruct Hrs as (Hrs & _ & _).
      apply RS_app in Hrs. destruct Hrs as (_ & [Hx _] & _). specialize (Hx r2 (or_introl eq_refl)).
      destruct (Hbounds r2 p2 E2) as [E2s _]. lia. }
    subst A2. rewrite EA, app_length in Hright. cbn [length] in Hright.
    unfold window. rewrite Eleft, EA, app_length. cbn [length].
    replace (length A1 + 1 - 1)%nat with (length A1) by lia.
    rewrite EAB, EA, <- app_assoc, skipn_length_app. cbn [app].
    destruct (S right - length A1)%nat eqn:En; [lia|]. now left.
  - (* r does not: it is the first such region *)
    apply in_split in Hr. destruct Hr as (B1 & B2 & EB).
    assert (HB1 : B1 = []).
    { destruct B1 as [|r1 B1']; [reflexivity|exfalso].
      assert (Hr1in : In r1 regs) by (rewrite EAB, EB; apply in_or_app; right; now left).
      destruct (Hfacts r1 Hr1in) as (p1 & E1 & Hp1 & _ & H12).
      assert (HP1 : region_lt_cds r1 g = false) by (apply HB; rewrite EB; now left).
      rewrite EAB, EB in Hrs. apply RS_app in Hrs. destruct Hrs as (_ & Hrs & _).
      cbn [app] in Hrs. destruct Hrs as [Hx _].
      assert (Hin : In r (B1' ++ r :: B2)) by (apply in_or_app; right; now left).
      specialize (Hx r Hin).
      destruct (Hbounds r1 p1 E1) as [_ E1e].
      rewrite H12 in HP1; [discriminate|lia]. }
    subst B1. cbn [app] in EB. unfold window. rewrite Eleft.
    destruct A as [|a0 A'] using rev_ind.
    + cbn [length Nat.sub skipn]. rewrite EAB, EB. cbn [app firstn]. now left.
    + clear IHA'. rewrite app_length. cbn [length].
      replace (length A' + 1 - 1)%nat with (length A') by lia.
      rewrite EAB, EB, <- app_assoc, skipn_length_app. cbn [app].
      rewrite app_length in Hright. cbn [length] in Hright.
      destruct (S right - length A')%nat as [|[|n]] eqn:En; [lia|lia|].
      cbn [firstn]. right. now left.
Qed.
