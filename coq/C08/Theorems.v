(* C08 - property theorems. *)
From ASV.C08 Require Import Model Proofs.

(* look-up, exact under the guard: when every gene is a single non-empty part and along the sorted gene
   list starts and ends are non-decreasing (no gene strictly nested in another), a simple query returns
   exactly the genes it contains (with_overlapping: contains or shares a base with), in list order *)
Theorem C08_lookup : forall genes q wo,
  layout_ok genes = true -> is_compound q = false -> query_ok (clamp q) = true ->
  lookup genes q wo = filter (hit (clamp q) wo) genes.
Proof. exact lookup_exact. Qed.
Print Assumptions C08_lookup.

(* the cut of a negative query start at 0 does not change the answer for genes that start at >= 0 *)
Theorem C08_clamp_same_hits : forall qp wo g,
  ps qp < 0 -> 1 <= pe qp -> simple_gene g = true -> 0 <= gs g ->
  hit (clamp [qp]) wo g = hit [qp] wo g.
Proof. exact clamp_same_hits. Qed.
Print Assumptions C08_clamp_same_hits.

(* look-up, sound for EVERY layout and query (nested, multi-exon, origin-spanning genes; simple,
   negative and compound queries): whatever is returned is a gene of the record that the query
   contains / overlaps - the recorded defects can only lose genes, never invent one *)
Theorem C08_lookup_sound : forall genes q wo g, In g (lookup genes q wo) ->
  In g genes /\
  (is_compound q = false -> hit (clamp q) wo g = true) /\
  (is_compound q = true -> exists p, In p q /\ hit (clamp [p]) true g = true) /\
  (is_compound q = true -> wo = false -> contains q (gloc g) = true).
Proof. exact lookup_sound. Qed.
Print Assumptions C08_lookup_sound.

(* without the guard the statement is false: nested genes (finding class nested_genes) *)
Theorem C08_lookup_refuted_nested : exists gs st q,
  build_genes gs = Ok st /\ forallb simple_gene gs = true /\ query_ok q = true /\
  lookup (sgenes st) q false <> filter (hit q false) (sgenes st).
Proof. exact lookup_refuted_nested. Qed.
Print Assumptions C08_lookup_refuted_nested.

(* ... and a gene spanning the origin (finding class origin_spanning_gene) *)
Theorem C08_lookup_refuted_origin : exists gs st q,
  build_genes gs = Ok st /\ query_ok q = true /\
  lookup (sgenes st) q true <> filter (hit q true) (sgenes st).
Proof. exact lookup_refuted_origin. Qed.
Print Assumptions C08_lookup_refuted_origin.

(* gene added after the areas: the slice of the (disjoint, ascending) region list that _link_cds_to_parent
   inspects contains every region that contains the gene - so for regions the bisected window finds what an
   exhaustive scan would find (the other collections ARE scanned exhaustively).  After repair 17153368
   (max(0, left - 1)); before it the statement failed for a gene equal to the first region *)
Theorem C08_link_window : forall regs g,
  RS regs -> (forall r, In r regs -> simple_area r) -> simple_gene g = true ->
  (forall r, In r regs -> zmem (gid g) (amem r) = false) ->
  let left := bisect (fun r => region_lt_cds r g) regs 0 in
  let right := bisect (fun r => negb (cds_lt_region g r)) regs left in
  let window := firstn (S right - (left - 1)) (skipn (left - 1) regs) in
  forall r, In r regs -> contains (aloc r) (gloc g) = true -> In r window.
Proof. exact link_window_complete. Qed.
Print Assumptions C08_link_window.

(* add_cds never stores a gene that the collection's location does not contain (it raises instead) *)
Theorem C08_add_cds_contained : forall depth tbl i g tbl', add_cds depth tbl i g = Ok tbl' ->
  exists a, find_area tbl i = Some a /\ contains (aloc a) (gloc g) = true.
Proof. exact add_cds_contained. Qed.
Print Assumptions C08_add_cds_contained.

(* ---- non-vacuity ---- *)
Example C08_ex_lookup_guard :
  let genes := [mkGene 0 [mkPart 2 9 1] []; mkGene 1 [mkPart 2 12 (-1)] []; mkGene 2 [mkPart 5 12 1] []; mkGene 3 [mkPart 11 20 1] []] in
  let q := [mkPart (-3) 12 1] in
  layout_ok genes = true /\ is_compound q = false /\ query_ok (clamp q) = true /\
  map gid (lookup genes q false) = [0; 1; 2] /\ map gid (lookup genes q true) = [0; 1; 2; 3].
Proof. vm_compute. repeat split. Qed.

(* the witness of the repaired defect F30: a gene equal to the first of three regions lies in the window *)
Example C08_ex_link_window :
  let mk := fun i s e => mkArea i K_REGION [mkPart s e 1] [] 0 [] [] [] in
  let regs := [mk 1 100 200; mk 2 400 500; mk 3 700 800] in
  let g := mkGene 0 [mkPart 100 200 1] [] in
  RS regs /\ (forall r, In r regs -> simple_area r) /\ simple_gene g = true /\
  (forall r, In r regs -> zmem (gid g) (amem r) = false) /\
  exists r, In r regs /\ contains (aloc r) (gloc g) = true.
Proof.
  cbv zeta. split; [|split; [|split; [reflexivity|split]]].
  - cbn [RS]. repeat split; intros r' H; cbn [In] in H; unfold ae, as_;
      repeat (destruct H as [<-|H]; [vm_compute; discriminate|]); destruct H.
  - intros r H. cbn [In] in H. unfold simple_area.
    repeat (destruct H as [<-|H]; [eexists; split; [reflexivity|cbn; reflexivity]|]). destruct H.
  - intros r H. cbn [In] in H. repeat (destruct H as [<-|H]; [reflexivity|]). destruct H.
  - eexists. split; [left; reflexivity|reflexivity].
Qed.

(* a history that exercises both directions ends in the specified state *)
Example C08_ex_history :
  let sub := mkArea 100 K_SUB [mkPart 0 30 1] [] 0 [] [] [] in
  let g0 := mkGene 0 [mkPart 2 9 1] [] in
  let g1 := mkGene 1 [mkPart 12 40 1] [] in
  let g2 := mkGene 2 [mkPart 10 30 (-1)] [] in
  exists st, exec [OGene g0; OGene g1; OArea sub; OGene g2] = Ok st /\
             map amem (sareas st) = [[0; 2]].
Proof. eexists. split; vm_compute; reflexivity. Qed.
