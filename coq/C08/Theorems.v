(* C08 - property theorems. *)
From ASV.C08 Require Import Model Proofs.

(* look-up, exact for EVERY gene layout (repair of findings F13a nested_genes / F13b origin_spanning_gene): when the gene
   list is in the order of Feature.__lt__ and every gene is one the Feature constructor accepts with non-empty exons
   (layout_ok: >= 1 part, every part 0 <= start < end, an origin-crossing location splits at the origin) - genes nested in
   each other, sharing starts or ends, multi-exon, crossing the origin, in any number -, a simple query returns exactly
   the genes it contains (with_overlapping: contains or shares a base with), in list order = what a scan of the whole
   list returns *)
Theorem C08_lookup : forall genes q wo,
  layout_ok genes = true -> is_compound q = false -> query_ok (clamp q) = true ->
  lookup genes q wo = filter (hit (clamp q) wo) genes.
Proof. exact lookup_exact. Qed.
Print Assumptions C08_lookup.

(* the cut of a negative query start at 0 does not change the answer for genes that start at >= 0 *)
Theorem C08_clamp_same_hits : forall qp wo g,
  ps qp < 0 -> 1 <= pe qp -> simple_gene g = true -> 0 <= gs g ->
  hit (clamp [qp]) wo g = hit [qp] wo g.
Proof. exact clamp_same_hits. Qed.
Print Assumptions C08_clamp_same_hits.

(* look-up, sound for EVERY layout and query (nested, multi-exon, origin-spanning genes; simple,
   negative and compound queries): whatever is returned is a gene of the record that the query
   contains / overlaps - the recorded defects can only lose genes, never invent one *)
Theorem C08_lookup_sound : forall genes q wo g, In g (lookup genes q wo) ->
  In g genes /\
  (is_compound q = false -> hit (clamp q) wo g = true) /\
  (is_compound q = true -> exists p, In p q /\ hit (clamp [p]) true g = true) /\
  (is_compound q = true -> wo = false -> contains q (gloc g) = true).
Proof. exact lookup_sound. Qed.
Print Assumptions C08_lookup_sound.

(* formerly C08_lookup_refuted_nested (the unguarded statement was false).  Now positive: on the list add_cds_feature
   builds from single-part genes supplied in ANY order - nested in each other in any way, no condition on the sign of the
   coordinates - every simple query returns exactly its hits, in list order *)
Theorem C08_lookup_nested : forall gs st q wo,
  build_genes gs = Ok st -> forallb simple_gene gs = true -> is_compound q = false -> query_ok (clamp q) = true ->
  lookup (sgenes st) q wo = filter (hit (clamp q) wo) (sgenes st).
Proof. exact lookup_nested. Qed.
Print Assumptions C08_lookup_nested.

(* formerly C08_lookup_refuted_origin.  Now positive: on the list add_cds_feature builds from ANY genes the Feature
   constructor accepts (multi-exon, origin-crossing ones included; add_cds_feature keeps the list in the order of
   Feature.__lt__, so the hypothesis key_sorted of C08_lookup is discharged) every simple query returns exactly its hits *)
Theorem C08_lookup_origin : forall gs st q wo,
  build_genes gs = Ok st -> forallb gene_ok gs = true -> is_compound q = false -> query_ok (clamp q) = true ->
  lookup (sgenes st) q wo = filter (hit (clamp q) wo) (sgenes st).
Proof. exact lookup_built. Qed.
Print Assumptions C08_lookup_origin.

(* gene added after the areas: the candidates that _link_cds_to_parent inspects - the slice of the (disjoint,
   ascending) region list around the bisection point, preceded by region 0 when that region crosses the origin and the
   slice does not start there (repair of C06-K4 late_gene_origin_region_unlinked) - contain every region that contains
   the gene, so for regions the bisection finds what an exhaustive scan would find (the other collections ARE scanned
   exhaustively).  After repair 17153368 (max(0, left - 1)); before it the statement failed for a gene equal to the
   first region.  Guard: one-part regions, one-part gene; the region that crosses the origin is C08_link_first, and
   one-part regions NEXT TO such a region are proved on the same code in C06 (C06_late_gene_link_layout,
   C06_late_gene_link_complete). *)
Theorem C08_link_window : forall regs g,
  RS regs -> (forall r, In r regs -> simple_area r) -> simple_gene g = true ->
  (forall r, In r regs -> zmem (gid g) (amem r) = false) ->
  let left := bisect (fun r => region_lt_cds r g) regs 0 in
  let right := bisect (fun r => negb (cds_lt_region g r)) regs left in
  let candidates := link_first regs (left - 1) ++ firstn (S right - (left - 1)) (skipn (left - 1) regs) in
  forall r, In r regs -> contains (aloc r) (gloc g) = true -> In r candidates.
Proof.
  intros regs g Hrs Hsim Hg Hmem left right candidates r Hr Hc. apply in_or_app. right.
  exact (link_window_complete regs g Hrs Hsim Hg Hmem r Hr Hc).
Qed.
Print Assumptions C08_link_window.

(* no guard at all: whatever the region list and whatever the gene (multi-exon, origin-crossing), region 0 is among the
   candidates whenever it crosses the origin - the case the unrepaired code missed (a region crossing the origin sorts
   first, the bisection for a gene in its part before the origin ends at the other end of the list) *)
Theorem C08_link_first : forall regs g r0, nth_error regs 0 = Some r0 -> bridges (aloc r0) = true ->
  let left := bisect (fun r => region_lt_cds r g) regs 0 in
  let right := bisect (fun r => negb (cds_lt_region g r)) regs left in
  In r0 (link_first regs (left - 1) ++ firstn (S right - (left - 1)) (skipn (left - 1) regs)).
Proof. exact link_first_complete. Qed.
Print Assumptions C08_link_first.

(* the witness of C06-K4 on this model: regions 900..50, 100..200, 400..500, 600..700 on a ring of 1000 and the gene
   950..980 added afterwards: the gene is linked to the first region (before the repair: to none) *)
Example C08_ex_link_first :
  let mk := fun i l => mkArea i K_REGION l [] [] [] [] [] in
  let regs := [mk 1 [mkPart 900 1000 1; mkPart 0 50 1]; mk 2 [mkPart 100 200 1]; mk 3 [mkPart 400 500 1];
               mk 4 [mkPart 600 700 1]] in
  let st := mkState [] regs [1; 2; 3; 4] [] in
  exists st', add_gene st (mkGene 0 [mkPart 950 980 1] []) = Ok st' /\ slink st' = [(0, 1)] /\
              map amem (sareas st') = [[0]; []; []; []].
Proof. cbv zeta. eexists. split; [vm_compute; reflexivity|]. split; reflexivity. Qed.


(* add_cds never stores a gene that the collection's location does not contain (it raises instead) *)
Theorem C08_add_cds_contained : forall depth tbl i g tbl', add_cds depth tbl i g = Ok tbl' ->
  exists a, find_area tbl i = Some a /\ contains (aloc a) (gloc g) = true.
Proof. exact add_cds_contained. Qed.
Print Assumptions C08_add_cds_contained.

(* THE HISTORY THEOREM.  For every list of operations (add_cds_feature / add_protocluster, add_candidate_cluster,
   add_subregion / add_region in ANY interleaving) that satisfies the guard - single-part genes (nested in each other
   or not: since the repair of F13a the guard no longer asks for "none strictly nested"), single-part areas, unique
   identifiers - and that the record accepts (no exception),
   the final record has: exactly the genes of the history; exactly its areas; every area lists exactly the genes
   its location contains; every protocluster's definition genes are exactly the genes inside its location and
   core that carry a CORE annotation for its product (string equality); every region is in the region list; every
   gene is linked to the region that contains it, and only to such a region.  The right-hand sides do not
   mention the order of the operations.  Composes C08_lookup (area after genes), C08_link_window + the
   exhaustive scan (gene after areas) and C08_add_cds_contained. *)
Theorem C08_membership_order_independent : forall ops st,
  history_guard ops = true -> exec ops = Ok st ->
  (forall g, In g (sgenes st) <-> In g (ops_genes ops)) /\
  map static (sareas st) = map static (ops_areas ops) /\
  (forall a, In a (sareas st) ->
     (forall x, In x (amem a) <-> In x (spec_members (ops_genes ops) a)) /\
     (akind a = K_PROTO -> forall x, In x (adef a) <-> In x (spec_defs (ops_genes ops) a))) /\
  (forall a, In a (sareas st) -> akind a = K_REGION -> In a (areas_of (sareas st) (sregs st))) /\
  (forall g r, In g (ops_genes ops) -> In r (areas_of (sareas st) (sregs st)) ->
     contains (aloc r) (gloc g) = true -> link_of (slink st) (gid g) = Some (aid r)) /\
  (forall g i, In g (ops_genes ops) -> link_of (slink st) (gid g) = Some i ->
     exists r, In r (areas_of (sareas st) (sregs st)) /\ aid r = i /\ contains (aloc r) (gloc g) = true).
Proof. exact membership_order_independent. Qed.
Print Assumptions C08_membership_order_independent.

(* ... hence two accepted histories over the same genes agree on the members and the definition genes of every
   area they have in common, whatever the two insertion orders were *)
Theorem C08_build_order_irrelevant : forall ops1 ops2 st1 st2,
  history_guard ops1 = true -> history_guard ops2 = true -> exec ops1 = Ok st1 -> exec ops2 = Ok st2 ->
  (forall g, In g (ops_genes ops1) <-> In g (ops_genes ops2)) ->
  forall a1 a2, In a1 (sareas st1) -> In a2 (sareas st2) -> static a1 = static a2 ->
    (forall x, In x (amem a1) <-> In x (amem a2)) /\ (forall x, In x (adef a1) <-> In x (adef a2)).
Proof. exact build_order_irrelevant. Qed.
Print Assumptions C08_build_order_irrelevant.

(* ---- non-vacuity ---- *)
Example C08_ex_lookup_guard :
  let genes := [mkGene 0 [mkPart 2 9 1] []; mkGene 1 [mkPart 2 12 (-1)] []; mkGene 2 [mkPart 5 12 1] []; mkGene 3 [mkPart 11 20 1] []] in
  let q := [mkPart (-3) 12 1] in
  layout_ok genes = true /\ is_compound q = false /\ query_ok (clamp q) = true /\
  map gid (lookup genes q false) = [0; 1; 2] /\ map gid (lookup genes q true) = [0; 1; 2; 3].
Proof. vm_compute. repeat split. Qed.

(* the witness of the repaired defect F13a: [8:19) lies inside the query although [6:23) and [6:26), sorted before it, do not *)
Example C08_ex_lookup_nested :
  let gs := [mkGene 0 [mkPart 6 10 1] []; mkGene 1 [mkPart 6 23 1] []; mkGene 2 [mkPart 6 26 1] []; mkGene 3 [mkPart 8 19 1] []] in
  exists st, build_genes gs = Ok st /\ layout_ok (sgenes st) = true /\
    map gid (lookup (sgenes st) [mkPart 5 20 1] false) = [0; 3] /\
    map gid (lookup (sgenes st) [mkPart 20 22 1] true) = [1; 2].
Proof. eexists. split; [vm_compute; reflexivity|]. vm_compute. repeat split. Qed.

(* the witness of the repaired defect F13b: the gene crossing the origin is found by a query before the origin, by one
   after it, listed first by a simple query and between the genes before and after the origin by a wrapped query *)
Example C08_ex_lookup_origin :
  let gs := [mkGene 1 [mkPart 10 14 1] []; mkGene 2 [mkPart 20 30 1] []; mkGene 0 [mkPart 35 40 1; mkPart 0 4 1] [];
             mkGene 3 [mkPart 32 37 1] []] in
  exists st, build_genes gs = Ok st /\ layout_ok (sgenes st) = true /\
    map gid (lookup (sgenes st) [mkPart 36 40 1] true) = [0; 3] /\
    map gid (lookup (sgenes st) [mkPart 2 12 1] true) = [0; 1] /\
    map gid (lookup (sgenes st) [mkPart 31 40 1; mkPart 0 12 1] true) = [3; 0; 1] /\
    map gid (lookup (sgenes st) [mkPart 31 40 1; mkPart 0 12 1] false) = [3; 0].
Proof. eexists. split; [vm_compute; reflexivity|]. vm_compute. repeat split. Qed.

(* the witness of the repaired defect F30: a gene equal to the first of three regions lies in the window *)
Example C08_ex_link_window :
  let mk := fun i s e => mkArea i K_REGION [mkPart s e 1] [] [] [] [] [] in
  let regs := [mk 1 100 200; mk 2 400 500; mk 3 700 800] in
  let g := mkGene 0 [mkPart 100 200 1] [] in
  RS regs /\ (forall r, In r regs -> simple_area r) /\ simple_gene g = true /\
  (forall r, In r regs -> zmem (gid g) (amem r) = false) /\
  exists r, In r regs /\ contains (aloc r) (gloc g) = true.
Proof.
  cbv zeta. split; [|split; [|split; [reflexivity|split]]].
  - cbn [RS]. repeat split; intros r' H; cbn [In] in H; unfold ae, as_;
      repeat (destruct H as [<-|H]; [vm_compute; discriminate|]); destruct H.
  - intros r H. cbn [In] in H. unfold simple_area.
    repeat (destruct H as [<-|H]; [eexists; split; [reflexivity|cbn; reflexivity]|]). destruct H.
  - intros r H. cbn [In] in H. repeat (destruct H as [<-|H]; [reflexivity|]). destruct H.
  - eexists. split; [left; reflexivity|reflexivity].
Qed.

(* a history that exercises both directions ends in the specified state *)
Example C08_ex_history :
  let sub := mkArea 100 K_SUB [mkPart 0 30 1] [] [] [] [] [] in
  let g0 := mkGene 0 [mkPart 2 9 1] [] in
  let g1 := mkGene 1 [mkPart 12 40 1] [] in
  let g2 := mkGene 2 [mkPart 10 30 (-1)] [] in
  exists st, exec [OGene g0; OGene g1; OArea sub; OGene g2] = Ok st /\
             map amem (sareas st) = [[0; 2]].
Proof. eexists. split; vm_compute; reflexivity. Qed.

(* the guard of the history theorem is met by a history with overlapping protoclusters whose product names are
   prefixes of each other, a candidate cluster, a sub-region and a region, genes before, between and after the
   areas; the gene with a CORE annotation for "AB" only is NOT a definition gene of the "ABC" protocluster *)
Example C08_ex_history_guard :
  let AB := [65; 66] in let ABC := [65; 66; 67] in
  let p1 := mkArea 100 K_PROTO [mkPart 0 40 1] [mkPart 5 30 1] AB [] [] [] in
  let p2 := mkArea 101 K_PROTO [mkPart 5 60 1] [mkPart 10 50 1] ABC [] [] [] in
  let cc := mkArea 102 K_CAND [mkPart 0 60 1] [] [] [100; 101] [] [] in
  let sb := mkArea 103 K_SUB [mkPart 70 90 1] [] [] [] [] [] in
  let r1 := mkArea 104 K_REGION [mkPart 70 90 1] [] [] [103] [] [] in
  let r0 := mkArea 105 K_REGION [mkPart 0 60 1] [] [] [102] [] [] in
  let g0 := mkGene 0 [mkPart 10 20 1] [AB] in
  let g1 := mkGene 1 [mkPart 12 30 (-1)] [ABC; AB] in
  let g2 := mkGene 2 [mkPart 35 50 1] [ABC] in
  let g3 := mkGene 3 [mkPart 70 90 1] [] in
  let ops := [OGene g1; OArea p1; OGene g3; OArea p2; OArea cc; OGene g0; OArea sb; ORegion r1; ORegion r0; OGene g2] in
  history_guard ops = true /\
  exists st, exec ops = Ok st /\
    map (fun a => (aid a, amem a, zsort (adef a))) (sareas st) =
      [(100, [1; 0], [0; 1]); (101, [1; 0; 2], [1; 2]); (102, [1; 0; 2], []); (103, [3], []); (104, [3], []); (105, [0; 1; 2], [])] /\
    sregs st = [105; 104] /\
    map (fun g => link_of (slink st) (gid g)) (sgenes st) = [Some 105; Some 105; Some 105; Some 104].
Proof. cbv zeta. split; [vm_compute; reflexivity|]. eexists. split; [vm_compute; reflexivity|]. vm_compute. repeat split. Qed.
