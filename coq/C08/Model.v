(* C08: genes belong to exactly the areas that contain them, whatever the build order.
   Faithful executable model of
     antismash/common/secmet/features/feature.py       Feature.__lt__ (comparator (start, len))
     antismash/common/secmet/features/cdscollection.py  CDSCollection.__lt__, CDSCollection.add_cds
     antismash/common/secmet/features/protocluster.py   Protocluster.add_cds (definition genes)
     antismash/common/secmet/record.py                  add_cds_feature (duplicate location, bisect
         insertion), _link_cds_to_parent (bisect window over the regions + exhaustive scan of the
         other collections), get_cds_features_within_location AS REPAIRED (findings F13a nested_genes /
         F13b origin_spanning_gene): compound branch (a gene crossing the origin stays with the last part that
         reaches it), the leading run of origin-crossing genes, find_start_in_list (bisect from that run + the
         equal-start back-step), the earlier genes that end after the query's start (with_overlapping only),
         the forward walk up to the query's end, one test of every candidate),
         add_protocluster / add_candidate_cluster / add_subregion / add_region (gene pairing).
   Locations, locations_overlap, location_contains_other, location_bridges_origin and
   split_origin_bridging_location come from Common/Loc.v.  Area locations are inputs (how a
   candidate cluster or region obtains its location is connect_locations, property C04/C06).
   Not modelled: the order of Record._protoclusters/_candidate_clusters/_subregions (the exhaustive
   scan appends the gene to each collection's own list, so the scan order is unobservable), the
   pre/cross/post-origin sections of a collection, numbering, clear_*. *)
From ASV Require Export Base Loc.

Record gene := mkGene { gid : Z; gloc : loc; gcore : list (list Z) }.
(* gcore: the products (strings = lists of character codes) for which the gene carries a CORE gene function *)

(* core.product == self.product on str: equality of the character lists (NOT substring / prefix) *)
Definition str_eqb (a b : list Z) : bool := list_eqb Z.eqb a b.
(* any(core.product == product for core in cores) *)
Definition smem (product : list Z) (cores : list (list Z)) : bool := existsb (fun c => str_eqb c product) cores.

(* ---------- the two comparators ---------- *)
Definition pair_lt (a b : Z * Z) : bool :=
  (fst a <? fst b) || ((fst a =? fst b) && (snd a <? snd b)).

(* the `start` of get_comparator: for an origin-bridging location
   min(head starts) - max(head ends) of the half before the origin (a negative number) *)
Definition kstart (l : loc) : Z :=
  if bridges l then
    match split_bridging l with
    | Ok (_, head) => lmin (map ps head) - lmax (map pe head)
    | Err _ => lstart l      (* the split raises; such locations are rejected by the decoder (key_ok) *)
    end
  else lstart l.
Definition key_ok (l : loc) : bool :=
  if bridges l then match split_bridging l with Ok _ => true | Err _ => false end else true.

Definition fkey (l : loc) : Z * Z := (kstart l, llen l).       (* Feature.__lt__ *)
Definition ckey (l : loc) : Z * Z := (kstart l, - llen l).     (* CDSCollection.__lt__ *)
(* Feature.__lt__(self, other) for a feature that is not of type "source" *)
Definition feat_lt (a b : loc) : bool := pair_lt (fkey a) (fkey b).

(* ---------- bisect ---------- *)
(* bisect.bisect_left(a, x, lo, hi) with `p e` standing for a[mid] < x; the exact binary search.
   bisect_right(a, x, lo) is the same loop with `not (x < a[mid])`. *)
Fixpoint bisect_go {A} (p : A -> bool) (l : list A) (fuel : nat) (lo hi : nat) : nat :=
  match fuel with
  | O => lo
  | S f =>
    if Nat.ltb lo hi then
      let mid := Nat.div2 (lo + hi) in
      match nth_error l mid with
      | Some e => if p e then bisect_go p l f (S mid) hi else bisect_go p l f lo mid
      | None => lo
      end
    else lo
  end.
Definition bisect {A} (p : A -> bool) (l : list A) (lo : nat) : nat :=
  bisect_go p l (S (length l)) lo (length l).
Definition insert_at {A} (i : nat) (x : A) (l : list A) : list A := firstn i l ++ x :: skipn i l.

(* ---------- get_cds_features_within_location (repaired) ---------- *)
(* while index > first and test(features[index - 1]): index -= 1 *)
Fixpoint backstep (first : nat) (test : gene -> bool) (l : list gene) (i : nat) : nat :=
  match i with
  | O => O
  | S j => if Nat.leb i first then i else
           match nth_error l j with
           | Some g => if test g then backstep first test l j else i
           | None => i
           end
  end.

(* first = 0; while first < len(features) and features[first].crosses_origin(): first += 1 *)
Fixpoint lead_cross (l : list gene) : nat :=
  match l with
  | f :: r => if bridges (gloc f) then S (lead_cross r) else O
  | [] => O
  end.

(* find_start_in_list(location, features, first): bisect_left(features, dummy, lo=first), then back over the genes with
   the query's start *)
Definition find_start (q : loc) (features : list gene) (first : nat) : nat :=
  let i0 := bisect (fun g => feat_lt (gloc g) q) features first in
  backstep first (fun g => lstart (gloc g) =? lstart q) features i0.

Fixpoint take_while {A} (p : A -> bool) (l : list A) : list A :=
  match l with
  | x :: r => if p x then x :: take_while p r else []
  | [] => []
  end.

(* feature.is_contained_by(location) or with_overlapping and feature.overlaps_with(location) *)
Definition hit (q : loc) (wo : bool) (g : gene) : bool :=
  contains q (gloc g) || (wo && overlap (gloc g) q).

(* candidates = features[:first]
   if with_overlapping: candidates.extend(f for f in features[first:index] if f.location.end > location.start)
   while index < len(features) and features[index].location.start < location.end: candidates.append(features[index]) *)
Definition candidates (features : list gene) (q : loc) (wo : bool) : list gene :=
  let first := lead_cross features in
  let index := find_start q features first in
  firstn first features
  ++ (if wo then filter (fun f => lstart q <? lend (gloc f)) (firstn (index - first) (skipn first features)) else [])
  ++ take_while (fun f => lstart (gloc f) <? lend q) (skipn index features).

(* a query with a negative start is a FeatureLocation and is replaced by [0, max(1, end)) *)
Definition clamp (q : loc) : loc :=
  if lstart q <? 0 then [mkPart 0 (Z.max 1 (lend q)) S_None] else q.

Definition lookup_simple (features : list gene) (q : loc) (wo : bool) : list gene :=
  let q' := clamp q in
  filter (hit q' wo) (candidates features q' wo).

Definition gmem (g : gene) (l : list gene) : bool := existsb (fun x => gid x =? gid g) l.

(* features.extend(f for f in found if f not in features) *)
Fixpoint extend_new (acc found : list gene) : list gene :=
  match found with
  | [] => acc
  | f :: r => if gmem f acc then extend_new acc r else extend_new (acc ++ [f]) r
  end.

(* one part of a compound query:
   features = [f for f in features if not (f.crosses_origin() and f in found)]; features.extend(new ones of found) *)
Definition compound_step (features : list gene) (acc : list gene) (p : part) : list gene :=
  let found := lookup_simple features [p] true in
  extend_new (filter (fun f => negb (bridges (gloc f) && gmem f found)) acc) found.

Definition lookup (features : list gene) (q : loc) (wo : bool) : list gene :=
  match features with
  | [] => []
  | _ =>
    if is_compound q then
      let feats := fold_left (compound_step features) q [] in
      if wo then feats else filter (fun f => contains q (gloc f)) feats
    else lookup_simple features q wo
  end.

(* ---------- areas ---------- *)
Definition K_PROTO := 1.
Definition K_CAND := 2.
Definition K_SUB := 3.
Definition K_REGION := 4.

Record area := mkArea {
  aid : Z; akind : Z; aloc : loc;
  acore : loc; aprod : list Z;     (* protoclusters only; the product name as character codes *)
  achild : list Z;                 (* child collections, by id *)
  amem : list Z;                   (* cds_children: gene ids in insertion order, each once *)
  adef : list Z }.                 (* definition_cdses (a set; reported sorted) *)

Definition zmem (x : Z) (l : list Z) : bool := existsb (fun y => y =? x) l.
Definition add_once (x : Z) (l : list Z) : list Z := if zmem x l then l else l ++ [x].

Definition set_mem (a : area) (m : list Z) : area :=
  mkArea (aid a) (akind a) (aloc a) (acore a) (aprod a) (achild a) m (adef a).
Definition set_def (a : area) (d : list Z) : area :=
  mkArea (aid a) (akind a) (aloc a) (acore a) (aprod a) (achild a) (amem a) d.

Definition find_area (tbl : list area) (i : Z) : option area := find (fun a => aid a =? i) tbl.
Definition update_area (tbl : list area) (a : area) : list area :=
  map (fun b => if aid b =? aid a then a else b) tbl.

(* CDSCollection.add_cds + Protocluster.add_cds on the collection with id i; `depth` bounds the
   nesting region -> candidate cluster -> protocluster *)
Fixpoint add_cds (depth : nat) (tbl : list area) (i : Z) (g : gene) : res (list area) :=
  match find_area tbl i with
  | None => Err E_Key
  | Some a =>
    if negb (contains (aloc a) (gloc g)) then Err E_Value else
    let a1 := set_mem a (add_once (gid g) (amem a)) in
    let tbl1 := update_area tbl a1 in
    do tbl2 <-
      match depth with
      | O => Ok tbl1
      | S d =>
        fold_left (fun acc c =>
                     do t <- acc;
                     match find_area t c with
                     | Some ch => if contains (aloc ch) (gloc g) then add_cds d t c g else Ok t
                     | None => Err E_Key
                     end) (achild a) (Ok tbl1)
      end;
    if akind a =? K_PROTO then
      if negb (contains (acore a) (gloc g)) then Ok tbl2
      else if smem (aprod a) (gcore g) then
        match find_area tbl2 i with
        | Some a2 => Ok (update_area tbl2 (set_def a2 (add_once (gid g) (adef a2))))
        | None => Err E_Key
        end
      else Ok tbl2
    else Ok tbl2
  end.
Definition DEPTH : nat := 3.

Record state := mkState {
  sgenes : list gene;              (* Record._cds_features, sorted *)
  sareas : list area;              (* every collection of the record, in insertion order *)
  sregs : list Z;                  (* Record._regions (ids), in list order *)
  slink : list (Z * Z) }.          (* cds.region: gene id -> region id *)

Definition empty_state : state := mkState [] [] [] [].

Definition set_link (lk : list (Z * Z)) (g r : Z) : list (Z * Z) :=
  (g, r) :: filter (fun x => negb (fst x =? g)) lk.

(* CDSCollection.__lt__(region, cds): `cds in region` shortcut, containment shortcut, (start, -len) *)
Definition region_lt_cds (r : area) (g : gene) : bool :=
  if zmem (gid g) (amem r) then true
  else if contains (aloc r) (gloc g) && negb (contains (gloc g) (aloc r)) then true
  else if contains (gloc g) (aloc r) && negb (contains (aloc r) (gloc g)) then false  (* mirrored shortcut: repair of finding F53 / C10-F46 *)
  else pair_lt (ckey (aloc r)) (ckey (gloc g)).
(* Feature.__lt__(cds, region) *)
Definition cds_lt_region (g : gene) (r : area) : bool := feat_lt (gloc g) (aloc r).

Definition areas_of (tbl : list area) (ids : list Z) : list area :=
  flat_map (fun i => match find_area tbl i with Some a => [a] | None => [] end) ids.

(* _link_cds_to_parent: what is put in front of the slice of the region list -
     if first > 0 and self._regions[0].crosses_origin(): candidates.insert(0, self._regions[0])
   (repair of finding C06-K4 late_gene_origin_region_unlinked: a region crossing the origin always sorts first,
   wherever its part before the origin lies, so the bisection can end far away from it) *)
Definition link_first (regs : list area) (from : nat) : list area :=
  match regs with
  | r0 :: _ => if Nat.ltb 0 from && bridges (aloc r0) then [r0] else []
  | [] => []
  end.

(* _link_cds_to_parent *)
Definition link_cds (st : state) (g : gene) : res state :=
  let regs := areas_of (sareas st) (sregs st) in
  let left := bisect (fun r => region_lt_cds r g) regs 0 in
  let right := bisect (fun r => negb (cds_lt_region g r)) regs left in
  (* first = max(0, left - 1); candidates = self._regions[first:right + 1]; natural-number subtraction stops at 0 *)
  let from := (left - 1)%nat in
  let window := link_first regs from ++ firstn (S right - from)%nat (skipn from regs) in
  do tl <- fold_left (fun acc r =>
                       do tl <- acc;
                       let '(t, lk) := tl in
                       if contains (aloc r) (gloc g)
                       then do t' <- add_cds DEPTH t (aid r) g; Ok (t', set_link lk (gid g) (aid r))
                       else Ok (t, lk))
                    window (Ok (sareas st, slink st));
  let '(t1, lk1) := tl in
  (* the other collections: exhaustive *)
  do t2 <- fold_left (fun acc i =>
                       do t <- acc;
                       match find_area t i with
                       | Some a => if contains (aloc a) (gloc g) then add_cds DEPTH t i g else Ok t
                       | None => Err E_Key
                       end)
                    (map aid (filter (fun a => negb (akind a =? K_REGION)) (sareas st))) (Ok t1);
  Ok (mkState (sgenes st) t2 (sregs st) lk1).

(* add_cds_feature: a second gene with the same str(location) is refused; the index is
   bisect.bisect_right(self._cds_features, cds_feature) - the search with the test "not (new < stored)", after the
   stored genes with an equal key (it was bisect_left; repair of finding C10-F47 equal_key_genes_order) *)
Definition add_gene (st : state) (g : gene) : res state :=
  if existsb (fun x => loc_eqb (gloc x) (gloc g)) (sgenes st) then Err E_SecmetInvalid else
  let index := bisect (fun e => negb (feat_lt (gloc g) (gloc e))) (sgenes st) 0 in
  link_cds (mkState (insert_at index g (sgenes st)) (sareas st) (sregs st) (slink st)) g.

(* for cds in self.get_cds_features_within_location(area.location): area.add_cds(cds) *)
Definition pair_genes (st : state) (a : area) (set_region : bool) : res state :=
  let found := lookup (sgenes st) (aloc a) false in
  do tl <- fold_left (fun acc g =>
                       do tl <- acc;
                       let '(t, lk) := tl in
                       do t' <- add_cds DEPTH t (aid a) g;
                       Ok (t', if set_region then set_link lk (gid g) (aid a) else lk))
                    found (Ok (sareas st, slink st));
  let '(t1, lk1) := tl in
  Ok (mkState (sgenes st) t1 (sregs st) lk1).

(* add_protocluster / add_candidate_cluster / add_subregion *)
Definition add_area (st : state) (a : area) : res state :=
  pair_genes (mkState (sgenes st) (sareas st ++ [a]) (sregs st) (slink st)) a false.

(* CDSCollection.__lt__(new region, existing region): neither is a child of the other *)
Definition region_lt_region (a b : area) : bool :=
  if contains (aloc a) (aloc b) && negb (contains (aloc b) (aloc a)) then true
  else if contains (aloc b) (aloc a) && negb (contains (aloc a) (aloc b)) then false  (* mirrored shortcut: repair of finding F53 / C10-F46 *)
  else pair_lt (ckey (aloc a)) (ckey (aloc b)).

(* add_region: ValueError when the new region overlaps ANY existing region, then the insertion loop: the index of the
   first existing region the new one is less than *)
Fixpoint region_pos (a : area) (existing : list area) (i : nat) : nat :=
  match existing with
  | [] => i
  | x :: r => if region_lt_region a x then i else region_pos a r (S i)
  end.
Definition region_index (a : area) (existing : list area) (i : nat) : res nat :=
  if existsb (fun x => overlap (aloc a) (aloc x)) existing then Err E_Value else Ok (region_pos a existing i).

Definition add_region (st : state) (a : area) : res state :=
  do index <- region_index a (areas_of (sareas st) (sregs st)) 0;
  pair_genes (mkState (sgenes st) (sareas st ++ [a]) (insert_at index (aid a) (sregs st)) (slink st)) a true.

Inductive op :=
| OGene (g : gene)
| OArea (a : area)       (* protocluster, candidate cluster or sub-region *)
| ORegion (a : area).

Definition step (st : state) (o : op) : res state :=
  match o with
  | OGene g => add_gene st g
  | OArea a => add_area st a
  | ORegion a => add_region st a
  end.

Definition exec (ops : list op) : res state :=
  fold_left (fun acc o => do st <- acc; step st o) ops (Ok empty_state).

(* ---------- specification-side functions (decidable, used at run time and in the theorems) ---------- *)
(* hypotheses of C08_lookup on the gene list (every generated record satisfies them; no layout is excluded):
   gene_ok - what the Feature constructor enforces plus non-empty exons: at least one part, every part has
   0 <= start < end, and an origin-crossing location can be split at the origin (otherwise Feature.__lt__ raises);
   key_sorted - the list is in the order of Feature.__lt__ (start, length), which add_cds_feature maintains
   (lemma build_sorted) *)
Definition simple_gene (g : gene) : bool :=
  match gloc g with [p] => ps p <? pe p | _ => false end.
Definition gene_ok (g : gene) : bool :=
  nonempty (gloc g) && forallb (fun p => (0 <=? ps p) && (ps p <? pe p)) (gloc g) && key_ok (gloc g).
Fixpoint key_sorted (l : list gene) : bool :=
  match l with
  | a :: ((b :: _) as t) => negb (feat_lt (gloc b) (gloc a)) && key_sorted t
  | _ => true
  end.
Definition layout_ok (genes : list gene) : bool := forallb gene_ok genes && key_sorted genes.
Definition query_ok (q : loc) : bool :=
  match q with [p] => ps p <? pe p | _ => false end.

(* the genes of a state in the order of insertion do not matter for the specification *)
Definition spec_members (genes : list gene) (a : area) : list Z :=
  map gid (filter (fun g => contains (aloc a) (gloc g)) genes).
Definition spec_defs (genes : list gene) (a : area) : list Z :=
  map gid (filter (fun g => contains (aloc a) (gloc g) && contains (acore a) (gloc g) && smem (aprod a) (gcore g)) genes).

Definition same_set (a b : list Z) : bool :=
  forallb (fun x => zmem x b) a && forallb (fun x => zmem x a) b.

(* ---------- encoding ---------- *)
Definition dGene : dec gene := fun l =>
  match dPair dZ (dPair dLoc (dList (dList dZ))) l with
  | Some ((i, (lc, cs)), r) => Some (mkGene i lc cs, r)
  | None => None
  end.
Definition dArea : dec area := fun l =>
  match dPair (dPair dZ dZ) (dPair (dPair dLoc dLoc) (dPair (dList dZ) (dList dZ))) l with
  | Some (((i, k), ((lc, core), (prod, ch))), r) => Some (mkArea i k lc core prod ch [] [], r)
  | None => None
  end.
Definition dOp : dec op := fun l =>
  match l with
  | 1 :: r => match dGene r with Some (g, r') => Some (OGene g, r') | None => None end
  | 2 :: r => match dArea r with
              | Some (a, r') => Some ((if akind a =? K_REGION then ORegion a else OArea a), r')
              | None => None
              end
  | _ => None
  end.

Definition loc_ok (l : loc) : bool := nonempty l && key_ok l.
Definition op_ok (o : op) : bool :=
  match o with
  | OGene g => loc_ok (gloc g)
  | OArea a => loc_ok (aloc a)
  | ORegion a => loc_ok (aloc a)
  end.

Fixpoint insert_sorted (x : Z) (l : list Z) : list Z :=
  match l with
  | [] => [x]
  | y :: r => if x <=? y then x :: l else y :: insert_sorted x r
  end.
Definition zsort (l : list Z) : list Z := fold_right insert_sorted [] l.

Definition eArea (a : area) : list Z := aid a :: eList (fun x => [x]) (amem a) ++ eList (fun x => [x]) (zsort (adef a)).
Definition eState (st : state) : list Z :=
  eList (fun g => [gid g]) (sgenes st)
  ++ eList eArea (sareas st)
  ++ eList (fun x => [x]) (sregs st)
  ++ eList (fun g => [gid g; match find (fun x => fst x =? gid g) (slink st) with Some (_, r) => r | None => -1 end])
           (sgenes st).

(* genes are supplied in insertion order; the sorted list is built by add_cds_feature *)
Definition build_genes (gs : list gene) : res state := exec (map OGene gs).

(* spec verdict of a look-up: [spec_ok; guard; class]   class 1 = nested genes / compound gene,
   2 = a gene spans the origin (kstart < 0); the classes name the repaired findings F13a / F13b in the report of a
   violation, nothing is suppressed for them any more *)
Definition lookup_class (genes : list gene) : Z :=
  if existsb (fun g => bridges (gloc g)) genes then 2 else 1.

Definition unique_ids (l : list Z) : bool :=
  (fix go (l : list Z) : bool := match l with [] => true | x :: r => negb (zmem x r) && go r end) l.

(* verdict on the final state reported by the implementation: every area lists exactly the
   genes its location contains, definition genes, and every gene points to the region that
   contains it (None when there is none) *)
Definition state_spec_ok (genes : list gene) (areas : list area) (regs : list Z) (mems : list (Z * (list Z * list Z)))
           (links : list (Z * Z)) : bool :=
  forallb (fun a =>
             match find (fun m => fst m =? aid a) mems with
             | Some (_, (mem, defs)) =>
               same_set mem (spec_members genes a) && unique_ids mem &&
               (if akind a =? K_PROTO then same_set defs (spec_defs genes a) else true)
             | None => false
             end) areas
  && forallb (fun g =>
                let want := filter (fun a => (akind a =? K_REGION) && contains (aloc a) (gloc g)) areas in
                match find (fun x => fst x =? gid g) links with
                | Some (_, r) => match want with
                                 | [] => r =? -1
                                 | _ => existsb (fun a => aid a =? r) want
                                 end
                | None => false
                end) genes.

Definition ops_genes (ops : list op) : list gene :=
  flat_map (fun o => match o with OGene g => [g] | _ => [] end) ops.
Definition ops_areas (ops : list op) : list area :=
  flat_map (fun o => match o with OGene _ => [] | OArea a => [a] | ORegion a => [a] end) ops.

Definition area_simple (a : area) : bool := query_ok (aloc a) && (0 <=? lstart (aloc a)).

(* guard of C08_membership_order_independent: every gene is one non-empty part (genes may be nested in each other, share
   starts or ends, in any number: since the repair of F13a the look-up finds them all); every area is one non-empty
   part starting at >= 0 and enters the record without members; identifiers are unique; an area is added through
   add_region exactly when it is a region.  Multi-exon and origin-crossing genes stay outside (the window of
   _link_cds_to_parent is proved for single-part genes only). *)
Definition area_fresh (a : area) : bool :=
  match amem a, adef a with [], [] => true | _, _ => false end.
Definition op_kind_ok (o : op) : bool :=
  match o with
  | OGene _ => true
  | OArea a => negb (akind a =? K_REGION)
  | ORegion a => akind a =? K_REGION
  end.
Definition history_guard (ops : list op) : bool :=
  let genes := ops_genes ops in
  let areas := ops_areas ops in
  forallb simple_gene genes && unique_ids (map gid genes)
  && forallb area_simple areas && forallb area_fresh areas && unique_ids (map aid areas)
  && forallb op_kind_ok ops.

Definition run_C08 (fn : Z) (l : list Z) : list Z :=
  match fn with
  | 1 => (* look-up: genes (insertion order), query, with_overlapping *)
    match dPair (dList dGene) (dPair dLoc dBool) l with
    | Some ((gs, (q, wo)), []) =>
      if forallb (fun g => loc_ok (gloc g)) gs && nonempty q then
        eRes (fun st => eList (fun g => [gid g]) (lookup (sgenes st) q wo)) (build_genes gs)
      else bad_input
    | _ => bad_input
    end
  | 2 => (* history *)
    match dList dOp l with
    | Some (ops, []) =>
      if forallb op_ok ops then eRes eState (exec ops) else bad_input
    | _ => bad_input
    end
  | 101 => (* spec of the look-up on the implementation's answer *)
    match dPair (dList dGene) (dPair dLoc dBool) l with
    | Some ((gs, (q, wo)), 0 :: out) =>
      match dList dZ out, build_genes gs with
      | Some (ids, []), Ok st =>
        let want := map gid (filter (hit (clamp q) wo) (sgenes st)) in
        let exact := if is_compound q then same_set ids want && unique_ids ids
                     else list_eqb Z.eqb ids want in
        let guard := layout_ok (sgenes st) && forallb (fun p => query_ok (clamp [p])) q in
        eBool exact ++ eBool guard ++ [lookup_class gs]
      | _, _ => bad_input
      end
    | Some (_, 1 :: _) => [1; 0; 0]     (* an exception: judged by the correspondence only *)
    | _ => bad_input
    end
  | 102 => (* spec of a history on the implementation's final state *)
    match dList dOp l with
    | Some (ops, 0 :: out) =>
      match dPair (dList dZ)
                  (dPair (dList (dPair dZ (dPair (dList dZ) (dList dZ))))
                         (dPair (dList dZ) (dList (dPair dZ dZ)))) out with
      | Some ((_, (mems, (regs, links))), []) =>
        let genes := ops_genes ops in
        let areas := ops_areas ops in
        let guard := history_guard ops in
        eBool (state_spec_ok genes areas regs mems links) ++ eBool guard ++ [lookup_class genes]
      | _ => bad_input
      end
    | Some (_, 1 :: _) => [1; 0; 0]
    | _ => bad_input
    end
  | _ => bad_input
  end.
