(* Tie between coq/C16/Model.v and the kernels regenerated from antismash/common/record_processing.py
   (Gen/K_ids_gen.v): the 16-character test of fix_record_name_id and the 12-digit test of _shorten_ids. *)
From Coq Require Import ZArith List Bool Lia ZifyBool.
From ASV Require Import Base.
From ASV.C16 Require Import Model.
From ASV.Gen Require Import K_ids_gen.
Import ListNotations.
Open Scope Z_scope.

Ltac kernel_is K M tac := let H := fresh "HK" in assert (H : K = M) by tac; rewrite ?H; clear H.

Lemma tie_shorten cn idx s :
  shorten cn idx s =
  let number := pad5 (cn idx s) in
  if k_ids_no_room_test (zlen number) then firstn 14 s ++ [46; 46]
  else [99] ++ number ++ [95] ++ firstn (12 - length number) s ++ [46; 46].
Proof.
  unfold shorten. cbv zeta.
  kernel_is (k_ids_no_room_test (zlen (pad5 (cn idx s)))) (12 <? zlen (pad5 (cn idx s))) ltac:(unfold k_ids_no_room_test; lia).
  reflexivity.
Qed.

Lemma tie_fix_name cn allow idx name :
  fix_name cn allow idx name = strip (if k_ids_too_long_test (zlen name) allow then shorten cn idx name else name).
Proof.
  unfold fix_name.
  kernel_is (k_ids_too_long_test (zlen name) allow) ((16 <? zlen name) && negb allow) ltac:(unfold k_ids_too_long_test; lia).
  reflexivity.
Qed.

(* the guard of the block that renames an over-long id: outside it the id and the id set are unchanged *)
Lemma tie_fix_long_id_guard cn allow idx old_id set :
  k_ids_too_long_test (zlen old_id) allow = false -> fix_long_id cn allow idx old_id set = Ok (old_id, set).
Proof.
  intros H. unfold fix_long_id.
  assert (E : (16 <? zlen old_id) && negb allow = false) by (unfold k_ids_too_long_test in H; lia).
  rewrite E. reflexivity.
Qed.
