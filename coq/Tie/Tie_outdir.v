(* Tie between coq/C20/Model.v (ignore_patterns, refusal_reason) and the kernels regenerated from antismash/main.py
   (_ignore_patterns, _refusal_reason; Gen/K_outdir_gen.v). *)
From Coq Require Import ZArith List Bool Lia ZifyBool.
From ASV Require Import Base.
From ASV.C20 Require Import Model.
From ASV.Gen Require Import K_outdir_gen.
Import ListNotations.
Open Scope Z_scope.

Lemma tie_ignore_patterns v e :
  ignore_patterns v e = k_ignore_patterns (en_input e) (en_isdir e) (lg_given v) (apath_eqb (entry_path e) (lg_path v)).
Proof. reflexivity. Qed.

(* a reason is returned (code 1: not a directory, code 2: foreign content in a fresh run) iff the model refuses *)
Lemma tie_refusal_reason v kind reuse dmeta entries :
  refusal_reason v kind reuse dmeta entries =
  negb (k_refusal_reason (kind =? 1) reuse
          (match filter (ignore_patterns v) (list_dir dmeta entries) with [] => false | _ => true end) =? 0).
Proof.
  unfold refusal_reason, k_refusal_reason. destruct (kind =? 1); cbn [negb]; [|reflexivity].
  destruct reuse; cbn [negb andb]; [reflexivity|].
  destruct (filter (ignore_patterns v) (list_dir dmeta entries)); reflexivity.
Qed.
