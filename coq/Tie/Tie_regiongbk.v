(* Tie between coq/C12/Model.v and the kernels regenerated from secmet/features/region/helpers.py
   (Gen/K_regiongbk_gen.v): RegionData.crosses_origin, the whole-ring test of _linearise_location and the
   "every part lies in one half of the region" test of _build_record_from_cross_origin. *)
From Coq Require Import ZArith List Bool Lia ZifyBool.
From ASV Require Import Base Loc.
From ASV.C12 Require Import Model.
From ASV.Gen Require Import K_regiongbk_gen.
From ASV.Tie Require Import TieLib.
Import ListNotations.
Open Scope Z_scope.

Lemma tie_crosses r : crosses r = k_region_crosses_origin r.
Proof. unfold crosses, k_region_crosses_origin; lia. Qed.

Lemma tie_linearise l start N :
  linearise_loc l start N =
  if k_linearise_whole_ring_test l N then do p <- mkFL 0 N (lstrand l); Ok [p]
  else offset_location l (- start) (Some N).
Proof.
  unfold linearise_loc.
  assert (H : k_linearise_whole_ring_test l N = (llen l =? N)) by (unfold k_linearise_whole_ring_test; lia).
  rewrite H. reflexivity.
Qed.

Lemma tie_in_wrapped_region r l : in_wrapped_region r l = k_in_wrapped_region r l.
Proof.
  unfold in_wrapped_region, k_in_wrapped_region. apply forallb_pointwise. intros p. first [reflexivity | lia].
Qed.

(* _linearise_location as a WHOLE: the whole-ring case through the FeatureLocation constructor, every other location
   through clone_with_offset(-region.start, wrap_point=record_length) = Loc.offset_location *)
Lemma tie_linearise_location l r N : linearise_loc l (rstart r) N = k_linearise_location l r N.
Proof. reflexivity. Qed.
