(* C01: the cutoff a rule is evaluated with through Parser / Ruleset constructions (cutoff_life) *)
From Coq Require Import ZArith List Bool Lia ZifyBool.
From ASV Require Import Base.
From ASV.Gen Require Import K_scale_gen.
From ASV.C01 Require Import Model.
Open Scope Z_scope.

Lemma tie_scale_parser m c : 0 <= c -> 0 <= fst m -> 0 < snd m -> scale m c = k_parser_scale_cutoff c (fst m) (snd m).
Proof. intros Hv Hn Hd. unfold scale, k_parser_scale_cutoff. rewrite Z.quot_div_nonneg; [reflexivity|nia|lia]. Qed.

Lemma tie_scale_ruleset m c : 0 <= c -> 0 <= fst m -> 0 < snd m -> scale m c = k_ruleset_scale_cutoff c (fst m) (snd m).
Proof. intros Hv Hn Hd. unfold scale, k_ruleset_scale_cutoff. rewrite Z.quot_div_nonneg; [reflexivity|nia|lia]. Qed.
