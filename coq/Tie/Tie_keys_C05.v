(* C05: the inner sort of _ordered (formation.py): (product, core_start, core_end), compared as Python compares tuples *)
From Coq Require Import ZArith List Bool Lia ZifyBool.
From ASV Require Import Base Loc.
From ASV.C05 Require Import Model.
From ASV.Gen Require Import K_keys_gen.
Open Scope Z_scope.

Definition lex3_lt (x y : Z * Z * Z) : bool :=
  let '(a, b, c) := x in let '(d, e, f) := y in (a <? d) || ((a =? d) && ((b <? e) || ((b =? e) && (c <? f)))).

Lemma tie_pre_lt a b :
  pre_lt a b = lex3_lt (k_ordered_key (pprod a) (fstart (pcore a)) (fend (pcore a)))
                       (k_ordered_key (pprod b) (fstart (pcore b)) (fend (pcore b))).
Proof. reflexivity. Qed.
