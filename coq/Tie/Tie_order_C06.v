(* C06: kstart / coll_lt (create_regions, add_region, add_subregion ...) and feat_lt (_link_cds_to_parent) *)
From Coq Require Import ZArith List Bool Lia ZifyBool.
From ASV Require Import Base Loc.
From ASV.Gen Require Import K_order_gen.
From ASV.Tie Require Import Tie_order.
From ASV.C06 Require Import Model.
Open Scope Z_scope.

Lemma tie_kstart l : kstart l = gstart l.
Proof. reflexivity. Qed.

Lemma tie_coll_lt a b : split_ok a = true -> split_ok b = true -> coll_lt a b = k_coll_lt a b.
Proof. intros Ha Hb. rewrite (k_coll_lt_eq a b Ha Hb). reflexivity. Qed.

Lemma tie_feat_lt a b : split_ok a = true -> split_ok b = true -> feat_lt a b = k_feat_lt a b false.
Proof.
  intros Ha Hb. rewrite (k_feat_lt_eq a b false Ha Hb). rewrite andb_false_r. reflexivity.
Qed.
