(* Tie between coq/C01/Model.v (the rule condition evaluator) and the kernels regenerated from
   antismash/common/hmm_rule_parser/rule_parser.py (Gen/K_rule_gen.v): Details.in_range, the score comparison of
   ScoreCondition.is_satisfied and the two count comparisons of MinimumCondition.is_satisfied. *)
From Coq Require Import ZArith List Bool Lia ZifyBool.
From ASV Require Import Base Loc.
From ASV.C01 Require Import Model.
From ASV.Gen Require Import K_rule_gen.
Import ListNotations.
Open Scope Z_scope.

Ltac kernel_is K M tac := let H := fresh "HK" in assert (H : K = M) by tac; rewrite ?H; clear H.

(* Details.in_range: truthiness of circular_origin chooses the call with or without wrap point, then `< cutoff` *)
Lemma tie_in_range cx g o :
  in_range cx g o = k_in_range (loc_of cx g) (loc_of cx o) (match circ cx with Some n => n | None => 0 end) (cutoff cx).
Proof.
  unfold in_range, wrap, k_in_range. destruct (circ cx) as [n|]; cbv zeta.
  - destruct (n =? 0); reflexivity.
  - reflexivity.
Qed.

(* ScoreCondition: `result.query_id == self.name and result.bitscore >= self.score` on every hit of the gene
   (scores and thresholds both doubled in the model) *)
Lemma tie_scored cx g p s :
  scored cx g p s = existsb (fun h => k_score_test (fst h) p (snd h) (2 * s)) (hits_of cx g).
Proof.
  unfold scored. induction (hits_of cx g) as [|h t IH]; [reflexivity|]. cbn [existsb]. rewrite IH.
  f_equal; first [reflexivity | unfold k_score_test; lia].
Qed.

(* MinimumCondition: `hit_count >= self.count` before and after the neighbours are counted *)
Lemma tie_minimum cx neg k opts g local :
  eval cx (Minimum neg k opts) g local =
  let hits := sinter opts (poss cx g) in
  if k_minimum_count_test (zlen hits) k then mkRes (negb neg) hits []
  else
    let other_hits := map (fun o => (o, sinter opts (poss cx o))) (feat_others cx g) in
    let other_hits := filter (fun e => match snd e with [] => false | _ => true end) other_hits in
    let count := fold_left (fun acc e => acc + zlen (snd e)) other_hits (zlen hits) in
    if k_minimum_count_test_after count k then mkRes (negb neg) hits (amerge other_hits []) else mkRes neg hits [].
Proof.
  cbn [eval]. cbv zeta.
  kernel_is (k_minimum_count_test (zlen (sinter opts (poss cx g))) k) (k <=? zlen (sinter opts (poss cx g)))
    ltac:(unfold k_minimum_count_test; lia).
  match goal with |- context [k_minimum_count_test_after ?c k] =>
    kernel_is (k_minimum_count_test_after c k) (k <=? c) ltac:(unfold k_minimum_count_test_after; lia) end.
  reflexivity.
Qed.
