(* Tie between coq/C05/Model.v (hybrid_extend: the containment extension of a chemical hybrid group) and the
   kernels regenerated from candidate_cluster/formation.py:_find_hybrids (Gen/K_cand_gen.v). *)
From Coq Require Import ZArith List Bool Lia ZifyBool ZifyNat.
From ASV Require Import Base Loc.
From ASV.C05 Require Import Model.
From ASV.Gen Require Import K_cand_gen.
Import ListNotations.
Open Scope Z_scope.

(* one pass of `for cluster in clusters[index:]`: the break test against core.end / core.parts[-1].end *)
Lemma tie_contained_until_step core limit c r :
  contained_until core limit (c :: r) =
  if k_hybrid_break_test2 (ploc c) limit then []
  else if contains core (pcore c) then c :: contained_until core limit r
  else contained_until core limit r.
Proof.
  cbn [contained_until].
  assert (H : k_hybrid_break_test2 (ploc c) limit = (limit <? lstart (ploc c))) by (unfold k_hybrid_break_test2; lia).
  rewrite H. reflexivity.
Qed.

Lemma tie_hybrid_break_first core cl : k_hybrid_break_test core cl = k_hybrid_break_test2 cl (lend core).
Proof. unfold k_hybrid_break_test, k_hybrid_break_test2; lia. Qed.

Lemma tie_is_compound (l : loc) : is_compound l = k_hybrid_second_scan_test l.
Proof.
  unfold k_hybrid_second_scan_test, zlen. destruct l as [|p [|q r]]; cbn [is_compound length]; try reflexivity.
  rewrite !Nat2Z.inj_succ. lia.
Qed.

(* the whole extension with the kernels where the source has them *)
Lemma tie_hybrid_extend w clusters group :
  hybrid_extend w clusters group =
  do core <- connect_locations (map pcore group) w;
  let pos := Z.of_nat (bisect_left (fun x => x <? lstart core) (map (fun c => fstart (pcore c)) clusters)) in
  let index := Z.to_nat (k_hybrid_index pos) in
  let a := contained_until core (lend core) (skipn index clusters) in
  let b := if k_hybrid_second_scan_test core
           then contained_until core (match last_opt core with Some p => pe p | None => 0 end) clusters
           else [] in
  Ok (group ++ first_occ group (a ++ b)).
Proof.
  unfold hybrid_extend. destruct (connect_locations (map pcore group) w) as [core|k]; [|reflexivity].
  cbn [bind]. cbv zeta. rewrite <- tie_is_compound.
  assert (H : forall pos, k_hybrid_index pos = Z.max 0 (pos - 1)) by (intros; unfold k_hybrid_index; cbv zeta; lia).
  rewrite H. reflexivity.
Qed.
