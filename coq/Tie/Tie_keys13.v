(* C13: the total sort key of refine_hmmscan_results (repair of start_tie_order): (query_start, query_end, hit_id,
   -bitscore, evalue), compared as Python compares tuples *)
From Coq Require Import ZArith List Bool Lia ZifyBool.
From ASV Require Import Base.
From ASV.C13 Require Import Model.
From ASV.Gen Require Import K_keys13_gen.
Open Scope Z_scope.

Definition lex5_lt (x y : Z * Z * Z * Z * Z) : bool :=
  let '(a1, a2, a3, a4, a5) := x in let '(b1, b2, b3, b4, b5) := y in
  (a1 <? b1) || ((a1 =? b1) && ((a2 <? b2) || ((a2 =? b2) && ((a3 <? b3) || ((a3 =? b3) && ((a4 <? b4) || ((a4 =? b4) && (a5 <? b5)))))))).

Lemma tie_key_lt a b : key_lt a b = lex5_lt (k_refine_sort_key a) (k_refine_sort_key b).
Proof. unfold key_lt, k_refine_sort_key, lex5_lt. lia. Qed.
