(* Tie between coq/C14/Model.v (ensure_suitable, is_complete, is_trans_at, is_nrps) and the kernels regenerated from
   module_identification.py (Gen/K_modules_gen.v): the decision structure of the module rules comes from the source;
   the lemmas say which fact about the component / the module each boolean parameter stands for. *)
From Coq Require Import ZArith List Bool Lia ZifyBool.
From ASV Require Import Base.
From ASV.C14 Require Import Model.
From ASV.Gen Require Import Tables_gen K_modules_gen.
Import ListNotations.
Open Scope Z_scope.

Definition of_starter (m : module) (f : comp -> bool) : bool :=
  match m_starter m with Some s => f s | None => false end.
Definition of_loader (m : module) (f : comp -> bool) : bool :=
  match m_loader m with Some s => f s | None => false end.

Lemma tie_ensure_suitable m c la :
  ensure_suitable m c la =
  k_ensure_suitable (c_ignored c) (c_special c) (isSome (m_end m)) (c_starter c) (c_loader c) (nonempty (m_comps m))
                    (isSome (m_loader m)) (isSome (m_starter m)) (of_starter m c_pks) (c_nrps c) (of_starter m c_nrps) (c_pks c)
                    (isSome (m_cp m)) (nonempty (m_mods m)) (c_mod c) (is_trans_at m) (c_kr c) (c_cp c)
                    (existsb c_cp (m_others m)) (map lab la) (c_end c).
Proof.
  unfold ensure_suitable, k_ensure_suitable, of_starter, double_case. cbv zeta.
  destruct (c_ignored c || c_special c); [reflexivity|].
  destruct (isSome (m_end m)) eqn:Eend; [reflexivity|].
  destruct (c_starter c && negb (c_loader c)); [destruct (nonempty (m_comps m)); reflexivity|].
  destruct (c_loader c).
  { destruct (isSome (m_loader m)); [reflexivity|].
    destruct (m_starter m) as [s|]; cbn [isSome].
    - destruct (c_pks s && c_nrps c); cbn [orb]; [reflexivity|].
      destruct (c_nrps s && c_pks c); [reflexivity|]. reflexivity.
    - reflexivity. }
  destruct (c_mod c).
  { destruct (isSome (m_cp m) && negb (is_trans_at m && c_kr c)); reflexivity. }
  destruct (c_cp c).
  { destruct (isSome (m_cp m)); [|reflexivity].
    destruct (existsb c_cp (m_others m)); [reflexivity|]. cbn [orb].
    destruct (existsb _ c14_double_transporter_cases); reflexivity. }
  destruct (c_end c); reflexivity.
Qed.

Lemma tie_is_trans_at m :
  is_trans_at m =
  k_is_trans_at (is_pks m) (isSome (m_starter m)) (isSome (m_loader m)) (of_starter m (fun s => subtype_is s S_Trans_AT_KS))
                (existsb (fun c => lab c =? c14_L_Trans_AT_docking) (m_others m)).
Proof.
  unfold is_trans_at, k_is_trans_at, of_starter. destruct (m_starter m) as [s|]; cbn [isSome].
  - destruct (is_pks m); cbn [andb]; [|reflexivity]. destruct (isSome (m_loader m)); cbn [negb andb]; [reflexivity|].
    destruct (subtype_is s S_Trans_AT_KS); reflexivity.
  - rewrite andb_false_r. reflexivity.
Qed.

Lemma tie_is_nrps m :
  is_nrps m = k_is_nrps (isSome (m_starter m)) (of_starter m c_nrps) (isSome (m_loader m)) (of_loader m c_nrps).
Proof. unfold is_nrps, k_is_nrps, of_starter, of_loader. destruct (m_starter m), (m_loader m); reflexivity. Qed.

Lemma tie_is_complete m :
  is_complete m =
  k_is_complete (isSome (m_starter m)) (same_comp (m_starter m) (m_loader m)) (m_first m) (isSome (m_loader m))
                (isSome (m_cp m)) (is_trans_at m).
Proof. reflexivity. Qed.
