(* C07: Ruleset.__post_init__ scales copies of the rules (scale / scale_rule of the ruleset history model) *)
From Coq Require Import ZArith List Bool Lia ZifyBool.
From ASV Require Import Base.
From ASV.Gen Require Import K_scale_gen.
From ASV.C07 Require Import Model.
Open Scope Z_scope.

Lemma tie_scale_cutoff d m : scale d m = k_ruleset_scale_cutoff d (fst m) (snd m).
Proof. reflexivity. Qed.

Lemma tie_scale_neighbourhood d m : scale d m = k_ruleset_scale_neighbourhood d (fst m) (snd m).
Proof. reflexivity. Qed.

Lemma tie_scale_rule m r :
  scale_rule m r = mkRule (r_name r) (r_cat r) (k_ruleset_scale_cutoff (r_cutoff r) (fst (m_cutoff m)) (snd (m_cutoff m)))
                          (k_ruleset_scale_neighbourhood (r_nb r) (fst (m_nb m)) (snd (m_nb m))).
Proof. reflexivity. Qed.
