(* Tie between coq/C13/Model.v and the kernels regenerated from antismash/common/hmmscan_refinement.py and
   cluster_prediction.hsp_overlap_size (Gen/K_hmm_gen.v).  Float comparisons of the source are carried as
   cross-multiplied integer comparisons by the translator (0.2 = 1/5, 1.5 = 3/2, 0.5 = 1/2, 1/3), the same rational
   reading the model uses; the lemmas below then hold by linear arithmetic. *)
From Coq Require Import ZArith List Bool Lia ZifyBool.
From ASV Require Import Base.
From ASV.C13 Require Import Model.
From ASV.Gen Require Import K_hmm_gen.
Import ListNotations.
Open Scope Z_scope.

Ltac kernel_is K M tac := let H := fresh "HK" in assert (H : K = M) by tac; rewrite ?H; clear H.

Lemma tie_hlen h : hlen h = k_hit_len h.
Proof. first [reflexivity | unfold hlen, k_hit_len; lia]. Qed.

Lemma tie_merge a b : merge a b = k_hit_merge a b.
Proof. first [reflexivity | unfold merge, k_hit_merge; cbv zeta; f_equal; lia]. Qed.

(* _remove_overlapping: the overlap test and the replacement test of one pass of the loop *)
Lemma tie_ovl L r p : ovl L r p = k_ro_overlap_test L r p.
Proof. unfold ovl, k_ro_overlap_test; cbv zeta; lia. Qed.

Lemma tie_ro_step L prev r rs :
  ro L prev (r :: rs) =
  if k_ro_overlap_test L r prev
  then (if k_ro_replace_test r prev then ro L r rs else ro L prev rs)
  else prev :: ro L r rs.
Proof.
  cbn [ro]. rewrite tie_ovl. destruct (k_ro_overlap_test L r prev); [|reflexivity].
  kernel_is (k_ro_replace_test r prev) (sc prev <? sc r) ltac:(unfold k_ro_replace_test; lia). reflexivity.
Qed.

(* _merge_immediate_neigbours: both tests of one pass *)
Lemma tie_mn_step L cur d ds :
  mn L cur (d :: ds) =
  if k_mn_other_profile_test d cur then cur :: mn L d ds
  else if k_mn_span_test L d cur then mn L (k_hit_merge cur d) ds
  else cur :: mn L d ds.
Proof.
  cbn [mn]. rewrite (tie_merge cur d).
  kernel_is (k_mn_other_profile_test d cur) (negb (prof d =? prof cur)) ltac:(unfold k_mn_other_profile_test; lia).
  kernel_is (k_mn_span_test L d cur) (2 * (en d - st cur) <? 3 * L (prof d)) ltac:(unfold k_mn_span_test; lia).
  reflexivity.
Qed.

(* remove_incomplete: the completeness test, the update test of the "longest" loop, the fallback test *)
Lemma tie_is_complete L d : is_complete L d = k_incomplete_test L d.
Proof. unfold is_complete, k_incomplete_test, hlen; cbv zeta; lia. Qed.

Lemma tie_longest_step L num den best d :
  longest_step L (num, den, best) d =
  if k_longest_test L d num den then (hlen d, L (prof d), Some d) else (num, den, best).
Proof.
  unfold longest_step.
  kernel_is (k_longest_test L d num den) (num * L (prof d) <? hlen d * den) ltac:(unfold k_longest_test, hlen; cbv zeta; lia).
  reflexivity.
Qed.

Lemma tie_fallback num den : (den <? 3 * num) = k_fallback_test num den.
Proof. unfold k_fallback_test; lia. Qed.

(* the assert `fallback <= threshold` on the default arguments holds *)
Lemma tie_fallback_le_threshold : k_fallback_le_threshold = true.
Proof. vm_compute. reflexivity. Qed.

(* remove_incomplete of the model written over the kernels: where each of them sits *)
Lemma tie_remove_incomplete L reg l :
  remove_incomplete L reg l =
  match filter (k_incomplete_test L) l with
  | (_ :: _) as complete => complete
  | [] =>
    let '(num, den, best) := longest L l in
    match (if k_fallback_test num den then best else None) with
    | Some d => [d]
    | None => match filter (fun d => reg (prof d)) l with d :: _ => [d] | [] => [] end
    end
  end.
Proof.
  unfold remove_incomplete.
  replace (filter (k_incomplete_test L) l) with (filter (is_complete L) l).
  2:{ apply filter_ext. intros d. apply tie_is_complete. }
  destruct (filter (is_complete L) l); [|reflexivity].
  destruct (longest L l) as [[num den] best]. rewrite tie_fallback. reflexivity.
Qed.

(* cluster_prediction.hsp_overlap_size, asserts included *)
Lemma tie_hsp_overlap_size a b : hsp_overlap_size a b = k_hsp_overlap_size a b.
Proof.
  unfold hsp_overlap_size, k_hsp_overlap_size.
  destruct (f_hs a <? f_he a); cbn [negb]; [|reflexivity].
  destruct (f_hs b <? f_he b); cbn [negb]; [|reflexivity].
  cbv zeta. first [reflexivity | f_equal; lia].
Qed.

(* _remove_overlapping as a WHOLE (k_remove_overlapping: `non_overlapping = [results[0]]`, the loop over results[1:] with
   non_overlapping[-1] read, replaced or appended to): the model's [ro] carries the last kept hit separately; any step
   function that treats the accumulated list this way folds to [ro] *)
Lemma fold_is_ro (f : list hit -> hit -> list hit) L :
  (forall pre prev r, f (pre ++ [prev]) r =
     if ovl L r prev then (if sc prev <? sc r then pre ++ [r] else pre ++ [prev]) else (pre ++ [prev]) ++ [r]) ->
  forall rs pre prev, fold_left f rs (pre ++ [prev]) = pre ++ ro L prev rs.
Proof.
  intros Hf. induction rs as [|r rs IH]; intros pre prev; cbn [fold_left ro]; [reflexivity|].
  rewrite Hf. destruct (ovl L r prev).
  - destruct (sc prev <? sc r); apply IH.
  - rewrite IH. rewrite <- app_assoc. reflexivity.
Qed.

Lemma tie_remove_overlapping L r0 rs : k_remove_overlapping (r0 :: rs) L = ro L r0 rs.
Proof.
  unfold k_remove_overlapping. cbn [hd tl]. cbv zeta.
  change [r0] with ([] ++ [r0]) at 1.
  rewrite (fold_is_ro _ L); [reflexivity|].
  intros pre prev r. cbv beta. rewrite last_last, removelast_last.
  match goal with |- (if ?t then _ else _) = _ => assert (H : t = ovl L r prev) by (unfold ovl; lia); rewrite H end.
  destruct (ovl L r prev); [|reflexivity]. destruct (sc prev <? sc r); reflexivity.
Qed.

(* _merge_immediate_neigbours as a WHOLE (k_merge_immediate_neighbours: `result = [domains[0]]`, the loop over
   domains[1:] with `continue`, result[-1] read, merged into, or appended to) *)
Lemma fold_is_mn (f : list hit -> hit -> list hit) L :
  (forall pre cur d, f (pre ++ [cur]) d =
     if negb (prof d =? prof cur) then (pre ++ [cur]) ++ [d]
     else if 2 * (en d - st cur) <? 3 * L (prof d) then pre ++ [merge cur d]
     else (pre ++ [cur]) ++ [d]) ->
  forall ds pre cur, fold_left f ds (pre ++ [cur]) = pre ++ mn L cur ds.
Proof.
  intros Hf. induction ds as [|d ds IH]; intros pre cur; cbn [fold_left mn]; [reflexivity|].
  rewrite Hf. destruct (negb (prof d =? prof cur)).
  - rewrite IH, <- app_assoc. reflexivity.
  - destruct (2 * (en d - st cur) <? 3 * L (prof d)); [apply IH|]. rewrite IH, <- app_assoc. reflexivity.
Qed.

Lemma tie_merge_immediate_neighbours L d0 ds : k_merge_immediate_neighbours (d0 :: ds) L = mn L d0 ds.
Proof.
  unfold k_merge_immediate_neighbours. cbn [hd tl]. cbv zeta.
  change [d0] with ([] ++ [d0]) at 1.
  rewrite (fold_is_mn _ L); [reflexivity|].
  intros pre cur d. cbv beta. rewrite !last_last, removelast_last, <- (tie_merge cur d).
  destruct (negb (prof d =? prof cur)); [reflexivity|].
  match goal with |- (if ?t then _ else _) = _ =>
    assert (H : t = (2 * (en d - st cur) <? 3 * L (prof d))) by lia; rewrite H end.
  reflexivity.
Qed.
