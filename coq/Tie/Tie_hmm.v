(* Tie between coq/C13/Model.v and the kernels regenerated from antismash/common/hmmscan_refinement.py and
   cluster_prediction.hsp_overlap_size (Gen/K_hmm_gen.v).  Float comparisons of the source are carried as
   cross-multiplied integer comparisons by the translator (0.2 = 1/5, 1.5 = 3/2, 0.5 = 1/2, 1/3), the same rational
   reading the model uses; the lemmas below then hold by linear arithmetic. *)
From Coq Require Import ZArith List Bool Lia ZifyBool.
From ASV Require Import Base.
From ASV.C13 Require Import Model.
From ASV.Gen Require Import K_hmm_gen.
Import ListNotations.
Open Scope Z_scope.

Ltac kernel_is K M tac := let H := fresh "HK" in assert (H : K = M) by tac; rewrite ?H; clear H.

Lemma tie_hlen h : hlen h = k_hit_len h.
Proof. first [reflexivity | unfold hlen, k_hit_len; lia]. Qed.

Lemma tie_merge a b : merge a b = k_hit_merge a b.
Proof. first [reflexivity | unfold merge, k_hit_merge; cbv zeta; f_equal; lia]. Qed.

(* _remove_overlapping: the overlap test and the replacement test of one pass of the loop *)
Lemma tie_ovl L r p : ovl L r p = k_ro_overlap_test L r p.
Proof. unfold ovl, k_ro_overlap_test; cbv zeta; lia. Qed.

Lemma tie_ro_step L prev r rs :
  ro L prev (r :: rs) =
  if k_ro_overlap_test L r prev
  then (if k_ro_replace_test r prev then ro L r rs else ro L prev rs)
  else prev :: ro L r rs.
Proof.
  cbn [ro]. rewrite tie_ovl. destruct (k_ro_overlap_test L r prev); [|reflexivity].
  kernel_is (k_ro_replace_test r prev) (sc prev <? sc r) ltac:(unfold k_ro_replace_test; lia). reflexivity.
Qed.

(* _merge_immediate_neigbours: both tests of one pass *)
Lemma tie_mn_step L cur d ds :
  mn L cur (d :: ds) =
  if k_mn_other_profile_test d cur then cur :: mn L d ds
  else if k_mn_span_test L d cur then mn L (k_hit_merge cur d) ds
  else cur :: mn L d ds.
Proof.
  cbn [mn]. rewrite (tie_merge cur d).
  kernel_is (k_mn_other_profile_test d cur) (negb (prof d =? prof cur)) ltac:(unfold k_mn_other_profile_test; lia).
  kernel_is (k_mn_span_test L d cur) (2 * (en d - st cur) <? 3 * L (prof d)) ltac:(unfold k_mn_span_test; lia).
  reflexivity.
Qed.

(* remove_incomplete: the completeness test, the update test of the "longest" loop, the fallback test *)
Lemma tie_is_complete L d : is_complete L d = k_incomplete_test L d.
Proof. unfold is_complete, k_incomplete_test, hlen; cbv zeta; lia. Qed.

Lemma tie_longest_step L num den best d :
  longest_step L (num, den, best) d =
  if k_longest_test L d num den then (hlen d, L (prof d), Some d) else (num, den, best).
Proof.
  unfold longest_step.
  kernel_is (k_longest_test L d num den) (num * L (prof d) <? hlen d * den) ltac:(unfold k_longest_test, hlen; cbv zeta; lia).
  reflexivity.
Qed.

Lemma tie_fallback num den : (den <? 3 * num) = k_fallback_test num den.
Proof. unfold k_fallback_test; lia. Qed.

(* the assert `fallback <= threshold` on the default arguments holds *)
Lemma tie_fallback_le_threshold : k_fallback_le_threshold = true.
Proof. vm_compute. reflexivity. Qed.

(* remove_incomplete of the model written over the kernels: where each of them sits *)
Lemma tie_remove_incomplete L reg l :
  remove_incomplete L reg l =
  match filter (k_incomplete_test L) l with
  | (_ :: _) as complete => complete
  | [] =>
    let '(num, den, best) := longest L l in
    match (if k_fallback_test num den then best else None) with
    | Some d => [d]
    | None => match filter (fun d => reg (prof d)) l with d :: _ => [d] | [] => [] end
    end
  end.
Proof.
  unfold remove_incomplete.
  replace (filter (k_incomplete_test L) l) with (filter (is_complete L) l).
  2:{ apply filter_ext. intros d. apply tie_is_complete. }
  destruct (filter (is_complete L) l); [|reflexivity].
  destruct (longest L l) as [[num den] best]. rewrite tie_fallback. reflexivity.
Qed.

(* cluster_prediction.hsp_overlap_size, asserts included *)
Lemma tie_hsp_overlap_size a b : hsp_overlap_size a b = k_hsp_overlap_size a b.
Proof.
  unfold hsp_overlap_size, k_hsp_overlap_size.
  destruct (f_hs a <? f_he a); cbn [negb]; [|reflexivity].
  destruct (f_hs b <? f_he b); cbn [negb]; [|reflexivity].
  cbv zeta. first [reflexivity | f_equal; lia].
Qed.
