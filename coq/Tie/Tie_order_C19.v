(* C19: coll_lt (Region.get_unique_protoclusters and the order in which areas are packed into rows) *)
From Coq Require Import ZArith List Bool Lia ZifyBool.
From ASV Require Import Base Loc.
From ASV.Gen Require Import K_order_gen.
From ASV.Tie Require Import Tie_order.
From ASV.C19 Require Import Model.
Open Scope Z_scope.

Lemma tie_coll_lt a b : split_ok (floc a) = true -> split_ok (floc b) = true -> coll_lt a b = k_coll_lt (floc a) (floc b).
Proof. intros Ha Hb. rewrite (k_coll_lt_eq _ _ Ha Hb). reflexivity. Qed.
