(* Tie between coq/C09/Model.v (convert = locations.convert_protein_position_to_dna) and the kernels regenerated
   from the current source (Gen/K_conv_gen.v): the argument check and the strand branch, the bounds test of a
   simple location, one pass of the loop over the sorted exons, and the two asserts + bounds test after the loop. *)
From Coq Require Import ZArith List Bool Lia ZifyBool.
From ASV Require Import Base Loc.
From ASV.C09 Require Import Model.
From ASV.Gen Require Import K_conv_gen.
Import ListNotations.
Open Scope Z_scope.

(* one pass of `for part in parts` (after the `break` test at its top) *)
Lemma tie_conv_loop_step p r gap last_end sf ef ds de :
  conv_loop (p :: r) gap last_end sf ef ds de =
  if sf && ef then (sf, ef, ds, de) else
  let '(gap', last', sf', ef', ds', de') := k_convert_protein_step p gap last_end sf ef ds de in
  conv_loop r gap' last' sf' ef' ds' de'.
Proof.
  cbn [conv_loop]. destruct (sf && ef) eqn:E; [reflexivity|].
  unfold k_convert_protein_step.
  first [reflexivity
        | cbv zeta; destruct sf, ef; cbn [negb andb];
          repeat match goal with |- context [in_part ?x ?q] => destruct (in_part x q) eqn:? end; reflexivity ].
Qed.

(* the whole function as a composition of the generated kernels and the loop *)
Lemma tie_convert s e l :
  convert s e l =
  match k_convert_protein_head s e l with
  | Err k => Err k
  | Ok (ds0, de0) =>
    if negb (is_compound l) then k_convert_protein_simple l ds0 de0
    else match sort_by by_start l with
         | [] => Err E_Index
         | p0 :: _ =>
           let '(sf, ef, ds, de) := conv_loop (sort_by by_start l) 0 (ps p0) false false ds0 de0 in
           k_convert_protein_tail l sf ef ds de
         end
  end.
Proof.
  unfold convert, k_convert_protein_head, k_convert_protein_simple, k_convert_protein_tail.
  destruct (negb ((0 <=? s) && (s <? e) && (e <=? llen l / 3))); [reflexivity|].
  destruct (lstrand l =? -1); cbv zeta;
    (destruct (negb (is_compound l));
     [ match goal with |- context [negb ?c] => destruct c end; reflexivity
     | destruct (sort_by by_start l) as [|p0 ps0]; [reflexivity|];
       match goal with |- context [conv_loop ?a ?b ?c ?d ?e ?f ?g] => destruct (conv_loop a b c d e f g) as [[[sf ef] ds] de] end;
       destruct sf, ef; cbn [negb]; try reflexivity;
       match goal with |- context [negb ?c] => destruct c end; reflexivity ]).
Qed.
