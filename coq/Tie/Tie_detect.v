(* Tie between coq/C03/Model.v (find_protoclusters, _extend_area_location) and the kernels regenerated from
   antismash/common/hmm_rule_parser/cluster_prediction.py (Gen/K_detect_gen.v). *)
From Coq Require Import ZArith List Bool Lia ZifyBool.
From ASV Require Import Base Loc.
From ASV.C03 Require Import Model.
From ASV.Gen Require Import K_detect_gen.
Import ListNotations.
Open Scope Z_scope.

Ltac Zify.zify_post_hook ::= Z.to_euclidean_division_equations.
Ltac kernel_is K M tac := let H := fresh "HK" in assert (H : K = M) by tac; rewrite ?H; clear H.

(* _extend_area_location on a circular record: the distance is capped by the generated formula
   min(distance, (len(record) - len(location)) // 2 + 1).  Stated through the model itself: capping the argument
   with the KERNEL beforehand changes nothing, which holds exactly when the model's own cap is the kernel's
   (min is idempotent; any other cap - a dropped `+ 1`, another divisor - differs for some argument). *)
Lemma tie_extend_area_distance_value l d N :
  k_extend_area_distance l d N = Z.min d ((N - llen l) / 2 + 1).
Proof. unfold k_extend_area_distance; cbv zeta; lia. Qed.

Lemma tie_extend_area_distance l d N force :
  extend_area l d N true force = extend_area l (k_extend_area_distance l d N) N true force.
Proof.
  unfold extend_area. rewrite tie_extend_area_distance_value.
  destruct ((lstrand l =? S_None) && negb (zlen l =? 1)); [reflexivity|].
  destruct (is_compound l && negb (bridges l)); [reflexivity|].
  cbn [bind]. rewrite <- Z.min_assoc, Z.min_id. reflexivity.
Qed.

(* the midpoint at which a full-circle neighbourhood of an origin-crossing core is cut:
   math.floor((start - end) / 2) + end *)
Lemma tie_extend_area_mid a b : (a - b) / 2 + b = k_extend_area_mid a b.
Proof. unfold k_extend_area_mid; cbv zeta; lia. Qed.

(* find_protoclusters: the test for a chain through the origin made of the first and the last core, and the
   distance test that merges them *)
Lemma tie_first_last_test circular (cores : list loc) first_start last_start :
  circular && (1 <? zlen cores) && (last_start <? first_start) =
  k_first_last_test circular (1 <? zlen cores) first_start last_start.
Proof. unfold k_first_last_test; generalize (1 <? zlen cores); intros b; first [reflexivity | lia]. Qed.

Lemma tie_first_last_close d cutoff : (d <? cutoff) = k_first_last_close_test d cutoff.
Proof. unfold k_first_last_close_test; lia. Qed.
