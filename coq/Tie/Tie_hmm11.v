(* Tie between coq/C11/Model.v (`overlaps`: the co-location test add_internal_hits makes when a saved HMMResult is
   rebuilt from JSON) and the kernel regenerated from HMMResult.overlaps_with (Gen/K_hmm11_gen.v). *)
From Coq Require Import ZArith List Bool Lia ZifyBool.
From ASV Require Import Base.
From ASV.C13 Require Model.
From ASV.C11 Require Import Model.
From ASV.Gen Require Import K_hmm11_gen.
Open Scope Z_scope.

Lemma tie_overlaps hs he ps pe p1 e1 s1 p2 e2 s2 :
  overlaps hs he ps pe = k_hit_overlaps_with (C13.Model.mkHit p1 hs he e1 s1) (C13.Model.mkHit p2 ps pe e2 s2).
Proof. unfold overlaps, k_hit_overlaps_with; cbn [C13.Model.st C13.Model.en]; lia. Qed.
