(* Tie between the hand-written orderings of features in the models (Feature.__lt__ and CDSCollection.__lt__ are
   transcribed in C04, C05, C06, C08, C15 and C19) and the kernels regenerated from feature.py / cdscollection.py
   (Gen/K_order_gen.v).  This file: the kernels in closed form; the files Tie_order_Cnn.v: one model each. *)
From Coq Require Import ZArith List Bool Lia ZifyBool.
From ASV Require Import Base Loc.
From ASV.Gen Require Import K_order_gen.
Import ListNotations.
Open Scope Z_scope.

(* split_origin_bridging_location does not raise on the location (it is only called for bridging locations) *)
Definition split_ok (l : loc) : bool :=
  if bridges l then match split_bridging l with Ok _ => true | Err _ => false end else true.

(* the first component of both comparators *)
Definition gstart (l : loc) : Z :=
  if bridges l then
    match split_bridging l with
    | Ok (_, head) => lmin (map ps head) - lmax (map pe head)
    | Err _ => lstart l
    end
  else lstart l.

Lemma k_coll_comparator_eq l : split_ok l = true -> k_coll_comparator l = (gstart l, - llen l).
Proof.
  unfold split_ok, k_coll_comparator, split_pair, gstart. destruct (bridges l); [|reflexivity].
  destruct (split_bridging l) as [[lower head]|k]; [reflexivity|discriminate].
Qed.

Lemma k_feat_comparator_eq l : split_ok l = true -> k_feat_comparator l = (gstart l, llen l).
Proof.
  unfold split_ok, k_feat_comparator, split_pair, gstart. destruct (bridges l); [|reflexivity].
  destruct (split_bridging l) as [[lower head]|k]; [reflexivity|discriminate].
Qed.

Definition lex_lt (a b : Z * Z) : bool := (fst a <? fst b) || ((fst a =? fst b) && (snd a <? snd b)).

Lemma k_coll_lt_eq a b : split_ok a = true -> split_ok b = true ->
  k_coll_lt a b =
  if contains a b && negb (contains b a) then true
  else if contains b a && negb (contains a b) then false
  else lex_lt (gstart a, - llen a) (gstart b, - llen b).
Proof.
  intros Ha Hb. unfold k_coll_lt. rewrite (k_coll_comparator_eq a Ha), (k_coll_comparator_eq b Hb). reflexivity.
Qed.

Lemma k_feat_lt_eq a b src : split_ok a = true -> split_ok b = true ->
  k_feat_lt a b src =
  if ((gstart a =? gstart b) && (llen a =? llen b)) && src then true
  else lex_lt (gstart a, llen a) (gstart b, llen b).
Proof.
  intros Ha Hb. unfold k_feat_lt. rewrite (k_feat_comparator_eq a Ha), (k_feat_comparator_eq b Hb).
  cbv zeta. unfold lex_lt. cbn [fst snd].
  destruct ((gstart a =? gstart b) && (llen a =? llen b)); destruct src; reflexivity.
Qed.
