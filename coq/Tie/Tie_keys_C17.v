(* C17: the pre-sort key of Region.get_unique_protoclusters (repair of unique_protoclusters_set_order) *)
From Coq Require Import ZArith List Bool Lia ZifyBool.
From ASV Require Import Base.
From ASV.C17 Require Import Model.
From ASV.Gen Require Import K_keys_gen.
Open Scope Z_scope.

Lemma tie_upre_key p : upre_key p = k_unique_presort_key (uprod p) (ucs p) (uce p).
Proof. reflexivity. Qed.
