(* C02: the scaling of a freshly parsed rule's distances in Parser.__init__ (int(value * multiplier)); the model divides
   with floor, Python's int() truncates towards zero: equal for the non-negative distances and positive multipliers
   the grammar and Multipliers.__post_init__ admit *)
From Coq Require Import ZArith List Bool Lia ZifyBool.
From ASV Require Import Base.
From ASV.Gen Require Import K_scale_gen.
From ASV.C02 Require Import Model.
Open Scope Z_scope.

Lemma tie_scale_cutoff v num den : 0 <= v -> 0 <= num -> 0 < den -> scale v num den = k_parser_scale_cutoff v num den.
Proof. intros Hv Hn Hd. unfold scale, k_parser_scale_cutoff. rewrite Z.quot_div_nonneg; [reflexivity|nia|lia]. Qed.

Lemma tie_scale_neighbourhood v num den : 0 <= v -> 0 <= num -> 0 < den -> scale v num den = k_parser_scale_neighbourhood v num den.
Proof. intros Hv Hn Hd. unfold scale, k_parser_scale_neighbourhood. rewrite Z.quot_div_nonneg; [reflexivity|nia|lia]. Qed.
