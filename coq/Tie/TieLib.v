(* small helpers for the tie lemmas *)
From Coq Require Import List Bool.
Import ListNotations.

Lemma forallb_pointwise {A} (f g : A -> bool) l : (forall x, f x = g x) -> forallb f l = forallb g l.
Proof. intros H; induction l as [|x l IH]; [reflexivity|]; cbn [forallb]; rewrite (H x), IH; reflexivity. Qed.

Lemma existsb_pointwise {A} (f g : A -> bool) l : (forall x, f x = g x) -> existsb f l = existsb g l.
Proof. intros H; induction l as [|x l IH]; [reflexivity|]; cbn [existsb]; rewrite (H x), IH; reflexivity. Qed.

Ltac kernel_is K M tac := let H := fresh "HK" in assert (H : K = M) by tac; rewrite ?H; clear H.
