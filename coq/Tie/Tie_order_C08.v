(* C08: fkey / ckey / feat_lt (bisections of add_cds_feature, get_cds_features_within_location, _link_cds_to_parent) *)
From Coq Require Import ZArith List Bool Lia ZifyBool.
From ASV Require Import Base Loc.
From ASV.Gen Require Import K_order_gen.
From ASV.Tie Require Import Tie_order.
From ASV.C08 Require Import Model.
Open Scope Z_scope.

Lemma tie_fkey l : split_ok l = true -> fkey l = k_feat_comparator l.
Proof. intros H. rewrite (k_feat_comparator_eq l H). reflexivity. Qed.

Lemma tie_ckey l : split_ok l = true -> ckey l = k_coll_comparator l.
Proof. intros H. rewrite (k_coll_comparator_eq l H). reflexivity. Qed.

Lemma tie_key_ok l : key_ok l = split_ok l.
Proof. reflexivity. Qed.

Lemma tie_feat_lt a b : split_ok a = true -> split_ok b = true -> feat_lt a b = k_feat_lt a b false.
Proof. intros Ha Hb. rewrite (k_feat_lt_eq a b false Ha Hb). rewrite andb_false_r. reflexivity. Qed.
