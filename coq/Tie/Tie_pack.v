(* Tie between coq/C19/Model.v (can_fit, area_crosses) and the kernels regenerated from
   antismash/outputs/html/area_packing.py: Row.can_fit, Area.crosses_origin (Gen/K_pack_gen.v). *)
From Coq Require Import ZArith List Bool Lia ZifyBool.
From ASV Require Import Base Loc.
From ASV.C19 Require Import Model.
From ASV.Gen Require Import K_pack_gen.
Import ListNotations.
Open Scope Z_scope.

Lemma tie_can_fit r a : can_fit r a = k_row_can_fit r a.
Proof.
  unfold can_fit, k_row_can_fit. destruct (r_contents r) as [|x xs] eqn:E; cbn [nonempty negb].
  - first [reflexivity | lia].
  - destruct (fcrosses a); [destruct (negb (r_end r =? -1)) eqn:E2|].
    + replace (negb (r_end r =? - (1))) with true by lia. reflexivity.
    + replace (negb (r_end r =? - (1))) with false by lia. reflexivity.
    + first [reflexivity | lia].
Qed.

Lemma tie_area_crosses a : area_crosses a = k_area_crosses_origin a.
Proof. unfold area_crosses, k_area_crosses_origin; lia. Qed.
