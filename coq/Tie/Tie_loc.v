(* Tie between the hand-written model of antismash/common/secmet/locations.py (Common/Loc.v) and the kernels
   regenerated from the current source by translator/kernels.py (Gen/K_loc_gen.v).  Every lemma says: the model's
   definition IS the generated kernel (for all arguments).  The proofs do not depend on how the kernel is written,
   only on what it computes (boolean/linear arithmetic by lia), so a rewrite of the source that keeps the meaning
   still checks and an edit that changes a comparison, an operand or a constant does not. *)
From Coq Require Import ZArith List Bool Lia ZifyBool.
From ASV Require Import Base Loc.
From ASV.Gen Require Import K_loc_gen.
From ASV.Tie Require Import TieLib.
Import ListNotations.
Open Scope Z_scope.

Ltac Zify.zify_post_hook ::= Z.to_euclidean_division_equations.

(* locations_overlap, both arguments single parts *)
Lemma tie_part_overlap a b : part_overlap a b = k_locations_overlap_simple a b.
Proof. first [reflexivity | unfold part_overlap, k_locations_overlap_simple, in_part; lia]. Qed.

(* location_contains_other, both arguments single parts *)
Lemma tie_part_contains o i : part_contains o i = k_location_contains_simple o i.
Proof. first [reflexivity | unfold part_contains, k_location_contains_simple; lia]. Qed.

Lemma lmin4 a b c d : lmin [a; b; c; d] = Z.min (Z.min (Z.min a b) c) d.
Proof. reflexivity. Qed.

(* get_distance_between_locations, single parts, no wrap point (None or 0) *)
Lemma tie_pdist_line a b :
  pdist_line a b = if k_locations_overlap_simple a b then 0 else k_distance_simple_nowrap a b.
Proof.
  unfold pdist_line. rewrite tie_part_overlap.
  destruct (k_locations_overlap_simple a b); [reflexivity|].
  first [reflexivity | unfold k_distance_simple_nowrap; cbv zeta; rewrite !lmin4; lia].
Qed.

(* get_distance_between_locations, single parts, wrap point w <> 0 *)
Lemma tie_pdist_wrap a b w : w <> 0 ->
  pdist a b (Some w) = if k_locations_overlap_simple a b then 0 else k_distance_simple_wrap a b w.
Proof.
  intros Hw. unfold pdist. rewrite tie_part_overlap.
  destruct (k_locations_overlap_simple a b); [reflexivity|].
  destruct (w =? 0) eqn:E; [lia|].
  first [reflexivity | unfold k_distance_simple_wrap; cbv zeta; rewrite !lmin4; f_equal; lia].
Qed.

Lemma tie_pdist_nowrap a b : pdist a b None = pdist_line a b /\ pdist a b (Some 0) = pdist_line a b.
Proof. unfold pdist, pdist_line. destruct (part_overlap a b); split; reflexivity. Qed.

(* the test that sends a call with a multi-part argument to the pairwise minimum *)
Lemma tie_dist_compound_test a b w :
  dist a b w = if overlap a b then 0 else
               if k_distance_compound_test a b
               then match a, b with [p], [q] => pdist p q w
                                  | _, _ => lmin (flat_map (fun p => map (fun q => pdist p q w) b) a) end
               else match a, b with [p], [q] => pdist p q w | _, _ => 0 end.
Proof.
  unfold dist, k_distance_compound_test, zlen. destruct (overlap a b); [reflexivity|].
  destruct a as [|p [|p' a]]; destruct b as [|q [|q' b]]; cbn [length]; try reflexivity;
    repeat match goal with |- context [Z.of_nat (S ?n)] => rewrite (Nat2Z.inj_succ n) end; cbn [Z.of_nat];
    match goal with |- context [if ?c then _ else _] => destruct c eqn:E end; try reflexivity; lia.
Qed.

(* _is_wrapping_shorter: the comparison made for every location after the first *)
Lemma tie_wrapping_shorter locs w :
  wrapping_shorter locs w =
  if existsb bridges locs then true else
  match sort_by key_lt locs with
  | [] => false
  | first :: rest => existsb (fun second => k_wrapping_shorter_step first second w) rest
  end.
Proof.
  unfold wrapping_shorter. destruct (existsb bridges locs); [reflexivity|].
  destruct (sort_by key_lt locs) as [|f rest]; [reflexivity|].
  induction rest as [|s rest IH]; [reflexivity|]. cbn [existsb]. rewrite IH.
  f_equal; first [reflexivity | unfold k_wrapping_shorter_step; lia].
Qed.

(* locations_overlap / location_contains_other as WHOLE functions: the compound branches recurse into the case they reach
   (a CompoundLocation against anything -> each part against the other; a part against a CompoundLocation -> each pair
   of parts), the simple branch is the kernel above.  The model's [overlap] / [contains] over lists of parts are these. *)
Lemma tie_overlap a b : overlap a b = k_overlap_loc_loc a b.
Proof.
  unfold overlap, k_overlap_loc_loc, k_overlap_part_loc.
  apply existsb_pointwise. intros p. apply existsb_pointwise. intros q. apply tie_part_overlap.
Qed.

Lemma tie_contains o i : contains o i = k_contains_loc_loc o i.
Proof.
  unfold contains, k_contains_loc_loc, k_contains_loc_part.
  apply forallb_pointwise. intros ip. apply existsb_pointwise. intros op. apply tie_part_contains.
Qed.

(* get_distance_between_locations, the branch for locations of more than one part: 0 when they overlap, otherwise the
   smallest distance over all pairs of parts (each pair through the single-part case, tie_pdist_* above) *)
Lemma tie_dist a b w :
  dist a b w = match a, b with
               | [p], [q] => if k_overlap_loc_loc a b then 0 else pdist p q w
               | _, _ => k_distance_compound a b w
               end.
Proof.
  unfold dist, k_distance_compound. rewrite tie_overlap.
  destruct a as [|p [|p' a]]; destruct b as [|q [|q' b]]; reflexivity.
Qed.
