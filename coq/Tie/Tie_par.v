(* Tie between coq/C18/Model.v (parallel_function) and the kernels regenerated from
   antismash/common/subprocessing/base.py:parallel_function (Gen/K_par_gen.v): the defaulting of `cpus` and the test
   that decides between the in-process list comprehension and a worker pool (`cpus == 1 and timeout is None`,
   repair of finding C18-K2). *)
From Coq Require Import ZArith List Bool Lia ZifyBool.
From ASV Require Import Base.
From ASV.C18 Require Import Model.
From ASV.Gen Require Import K_par_gen.
Import ListNotations.
Open Scope Z_scope.

Lemma tie_effective_cpus cfg cpus : effective_cpus cfg cpus = k_parallel_default_cpus cpus cfg.
Proof. unfold effective_cpus, k_parallel_default_cpus. destruct (cpus =? 0) eqn:E; cbn [negb]; cbv zeta; first [reflexivity | lia]. Qed.

Lemma tie_parallel_function {A B} (f : A -> res B) cfg cpus timeout sched args :
  parallel_function f cfg cpus timeout sched args =
  let c := k_parallel_default_cpus cpus cfg in
  if k_parallel_inprocess_test c (no_timeout timeout) then mapM f args else pool_map f c timeout sched args.
Proof.
  unfold parallel_function. rewrite tie_effective_cpus. cbv zeta.
  assert (H : forall c b, k_parallel_inprocess_test c b = (c =? 1) && b) by (intros; unfold k_parallel_inprocess_test; lia).
  rewrite H. reflexivity.
Qed.
