(* Tie between coq/C06/Model.v (csweep, cfixup, cmerge_pass, add_region, add_scan) and the kernels regenerated from
   Record.create_regions / Record.add_region (Gen/K_regions_gen.v). *)
From Coq Require Import ZArith List Bool Lia ZifyBool ZifyNat.
From ASV Require Import Base Loc.
From ASV.C06 Require Import Model.
From ASV.Gen Require Import K_regions_gen.
Import ListNotations.
Open Scope Z_scope.

(* one pass of `for area in areas[1:]`: the model keeps `included_areas` and `sections` reversed *)
Lemma tie_csweep_step w location incl_rev secs_rev a r :
  csweep w location incl_rev secs_rev (a :: r) =
  match k_sweep_step a location (rev incl_rev) (rev secs_rev) w with
  | Err k => Err k
  | Ok (secs', loc', incl') => csweep w loc' (rev incl') (rev secs') r
  end.
Proof.
  unfold k_sweep_step. cbn [csweep]. destruct (overlap (cloc a) location); cbn [negb].
  - destruct (connect_locations [cloc a; location] w) as [l|k]; [|reflexivity]. cbn [bind].
    rewrite rev_app_distr, !rev_involutive. reflexivity.
  - rewrite rev_app_distr, !rev_involutive. reflexivity.
Qed.

(* `merged = len(sections) > 1` *)
Lemma tie_cfixup w secs : cfixup w secs = if k_fixup_needed secs then cmerge_loop (S (length secs)) w secs else Ok secs.
Proof.
  unfold cfixup, k_fixup_needed. cbv zeta. destruct secs as [|x [|y t]]; [reflexivity|reflexivity|].
  match goal with |- context [1 <? ?z] => assert (H : (1 <? z) = true) by (unfold zlen; cbn [length]; lia); rewrite H end.
  reflexivity.
Qed.

(* the test of the merge loop *)
Lemma tie_cmerge_pass_step w floc fareas oloc oareas r kept merged :
  cmerge_pass w floc fareas ((oloc, oareas) :: r) kept merged =
  if negb (k_fixup_overlap_test floc oloc) then cmerge_pass w floc fareas r ((oloc, oareas) :: kept) merged
  else do l <- connect_locations [floc; oloc] w;
       cmerge_pass w l (fareas ++ filter (fun a => negb (in_areas a fareas)) oareas) r kept true.
Proof. reflexivity. Qed.

(* add_region: the two assertions, then the overlap test against every existing region *)
Lemma tie_add_region N regs r :
  add_region N regs r =
  if negb (k_add_region_start_ok r && k_add_region_end_ok r N) then Err E_Assert else
  do index <- add_scan (rloc r) regs 0; Ok (insert_at index r regs).
Proof.
  unfold add_region, k_add_region_start_ok, k_add_region_end_ok.
  assert (H : ((lstart (rloc r) <? 0) || (N <? lend (rloc r))) = negb ((0 <=? lstart (rloc r)) && (lend (rloc r) <=? N))) by lia.
  rewrite H. reflexivity.
Qed.

Lemma tie_add_scan r existing i :
  add_scan (rloc r) existing i =
  if existsb (k_add_region_overlap_test r) existing then Err E_Value else Ok (add_index (rloc r) existing i).
Proof. reflexivity. Qed.
