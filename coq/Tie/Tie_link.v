(* Tie between coq/C08/Model.v (link_cds: the window of regions searched for the region of a late gene) and the
   kernels regenerated from Record._link_cds_to_parent (Gen/K_link_gen.v).  The model counts in nat. *)
From Coq Require Import ZArith List Bool Lia ZifyBool ZifyNat.
From ASV Require Import Base Loc.
From ASV.C08 Require Import Model.
From ASV.Gen Require Import K_link_gen.
Import ListNotations.
Open Scope Z_scope.

(* first = max(0, left - 1): the model's truncated subtraction *)
Lemma tie_link_first (left : nat) : Z.of_nat (left - 1)%nat = k_link_first (Z.of_nat left).
Proof. unfold k_link_first; cbv zeta; lia. Qed.

(* candidates = self._regions[first:right + 1]: the model takes S right - first regions from position first *)
Lemma tie_link_stop (right from : nat) :
  Z.of_nat (S right - from)%nat = Z.max 0 (k_link_stop (Z.of_nat right) - Z.of_nat from).
Proof. unfold k_link_stop; lia. Qed.

(* if first > 0 and self._regions[0].crosses_origin(): the origin-crossing first region is searched too *)
Lemma tie_link_origin_region regs from :
  link_first regs from =
  match regs with
  | r0 :: _ => if k_link_origin_region_test (Z.of_nat from) (bridges (aloc r0)) then [r0] else []
  | [] => []
  end.
Proof.
  unfold link_first. destruct regs as [|r0 rest]; [reflexivity|].
  assert (H : Nat.ltb 0 from && bridges (aloc r0) = k_link_origin_region_test (Z.of_nat from) (bridges (aloc r0))).
  { unfold k_link_origin_region_test. destruct (bridges (aloc r0)); lia. }
  rewrite H. reflexivity.
Qed.
