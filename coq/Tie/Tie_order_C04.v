(* C04: cmp_key / feature_lt / collection_lt (function ids of the C04 run that compare a feature with a location) *)
From Coq Require Import ZArith List Bool Lia ZifyBool.
From ASV Require Import Base Loc.
From ASV.Gen Require Import K_order_gen.
From ASV.Tie Require Import Tie_order.
From ASV.C04 Require Import Model.
Open Scope Z_scope.

Lemma tie_cmp_key_coll l : split_ok l = true -> cmp_key (-1) l = Ok (k_coll_comparator l).
Proof.
  intros H. rewrite (k_coll_comparator_eq l H). unfold split_ok in H. unfold cmp_key, gstart.
  assert (E : -1 * llen l = - llen l) by lia. rewrite E.
  destruct (bridges l); [|reflexivity].
  destruct (split_bridging l) as [[lower head]|k]; [|discriminate]. reflexivity.
Qed.

Lemma tie_cmp_key_feat l : split_ok l = true -> cmp_key 1 l = Ok (k_feat_comparator l).
Proof.
  intros H. rewrite (k_feat_comparator_eq l H). unfold split_ok in H. unfold cmp_key, gstart.
  assert (E : 1 * llen l = llen l) by lia. rewrite E.
  destruct (bridges l); [|reflexivity].
  destruct (split_bridging l) as [[lower head]|k]; [|discriminate]. reflexivity.
Qed.

Lemma tie_collection_lt a b : split_ok a = true -> split_ok b = true -> collection_lt a b = Ok (k_coll_lt a b).
Proof.
  intros Ha Hb. unfold collection_lt, k_coll_lt.
  destruct (contains a b && negb (contains b a)); [reflexivity|].
  destruct (contains b a && negb (contains a b)); [reflexivity|].
  rewrite (tie_cmp_key_coll a Ha), (tie_cmp_key_coll b Hb). cbn [bind]. unfold pair_lt.
  destruct (k_coll_comparator a), (k_coll_comparator b). reflexivity.
Qed.

Lemma tie_feature_lt src a b : split_ok a = true -> split_ok b = true -> feature_lt src a b = Ok (k_feat_lt a b src).
Proof.
  intros Ha Hb. unfold feature_lt, k_feat_lt.
  rewrite (tie_cmp_key_feat a Ha), (tie_cmp_key_feat b Hb). cbn [bind]. cbv zeta. unfold pair_lt, pair_eqb.
  destruct (k_feat_comparator a), (k_feat_comparator b). cbn [fst snd].
  destruct ((z =? z1) && (z0 =? z2)); destruct src; reflexivity.
Qed.
