(* C05: comparator / coll_lt (every sorted(), bisect and _ordered of candidate cluster formation) *)
From Coq Require Import ZArith List Bool Lia ZifyBool.
From ASV Require Import Base Loc.
From ASV.Gen Require Import K_order_gen.
From ASV.Tie Require Import Tie_order.
From ASV.C05 Require Import Model.
Open Scope Z_scope.

Lemma tie_comparator l : split_ok l = true -> comparator l = k_coll_comparator l.
Proof. intros H. rewrite (k_coll_comparator_eq l H). reflexivity. Qed.

(* the shortcut for a child of the collection (the pinned first statement of __lt__) in front, then the kernel *)
Lemma tie_coll_lt sl children ol oid : split_ok sl = true -> split_ok ol = true ->
  coll_lt sl children ol oid =
  if match oid with Some i => existsb (fun c => pid c =? i) children | None => false end then true
  else k_coll_lt sl ol.
Proof.
  intros Ha Hb. unfold coll_lt. rewrite (k_coll_lt_eq sl ol Ha Hb).
  destruct (match oid with Some i => existsb (fun c => pid c =? i) children | None => false end); reflexivity.
Qed.
