(* C15: feature_lt (the order in which find_all_orfs returns the new genes and sees the existing ones) *)
From Coq Require Import ZArith List Bool Lia ZifyBool.
From ASV Require Import Base Loc.
From ASV.Gen Require Import K_order_gen.
From ASV.Tie Require Import Tie_order.
From ASV.C15 Require Import Model.
Open Scope Z_scope.

Lemma tie_feature_lt a b : split_ok a = true -> split_ok b = true -> feature_lt a b = k_feat_lt a b false.
Proof. intros Ha Hb. rewrite (k_feat_lt_eq a b false Ha Hb). rewrite andb_false_r. reflexivity. Qed.
