(* Tie between coq/C15/Model.v (orf_location, orf_coords, the minimum-length filter of frame_orfs) and the kernels
   regenerated from the coordinate block of antismash/common/all_orfs.py:scan_orfs (Gen/K_orf_gen.v). *)
From Coq Require Import ZArith List Bool Lia ZifyBool.
From ASV Require Import Base Loc.
From ASV.C15 Require Import Model.
From ASV.Gen Require Import K_orf_gen.
Import ListNotations.
Open Scope Z_scope.

Ltac Zify.zify_post_hook ::= Z.to_euclidean_division_equations.

(* `end = i + 2` with i = frame + 3 * (index of the stop codon) *)
Lemma tie_orf_coords frame se :
  snd (orf_coords frame se) = k_orf_end (frame + 3 * Z.of_nat (snd se)).
Proof. unfold orf_coords, k_orf_end; cbn [snd]; cbv zeta; lia. Qed.

(* `if end - start < minimum_length: ... continue` *)
Lemma tie_frame_filter minimum c :
  negb (snd c - fst c <? minimum) = negb (k_orf_too_short (fst c) (snd c) minimum).
Proof. unfold k_orf_too_short; lia. Qed.

(* record_length is None: one part with the translated coordinates *)
Lemma tie_orf_location_line direction offset seq_len start end_ :
  orf_location direction offset seq_len None (start, end_) =
  let '(ls, le) := k_orf_coords_line start end_ direction offset seq_len in [mkPart ls le direction].
Proof.
  unfold orf_location, k_orf_coords_line. destruct (direction =? 1); cbv zeta;
  first [reflexivity | repeat f_equal; lia].
Qed.

(* record_length given: coordinates reduced modulo the record length, two parts when the ORF runs over the origin
   (or covers the whole ring), parts reversed on the reverse strand *)
Lemma tie_orf_location_ring direction offset seq_len n start end_ :
  orf_location direction offset seq_len (Some n) (start, end_) =
  let '(ls, le) := k_orf_coords_ring start end_ direction offset seq_len n in
  if k_orf_wraps_test ls le then
    (if k_orf_reverse_parts_test direction then [mkPart 0 le direction; mkPart ls n direction]
     else [mkPart ls n direction; mkPart 0 le direction])
  else [mkPart ls le direction].
Proof.
  unfold orf_location, k_orf_coords_ring, k_orf_wraps_test, k_orf_reverse_parts_test.
  destruct (direction =? 1) eqn:E; cbv zeta; first [reflexivity |
    match goal with |- (if ?a then _ else _) = (if ?b then _ else _) =>
      let H := fresh in assert (H : a = b) by lia; rewrite H; destruct b end;
    [ match goal with |- (if ?a then _ else _) = (if ?b then _ else _) =>
        let H := fresh in assert (H : a = b) by lia; rewrite H; destruct b end |];
    repeat f_equal; lia ].
Qed.

Lemma fold_left_ext_ {A B} (f g : A -> B -> A) : (forall a b, f a b = g a b) -> forall l i, fold_left f l i = fold_left g l i.
Proof. intros H. induction l as [|x l IH]; intros i; cbn [fold_left]; [reflexivity|]. rewrite H. apply IH. Qed.

(* find_intergenic_areas as a WHOLE (k_find_intergenic_areas: the scan over the genes with `continue`, the closing gap,
   the filter by minimum length); genes as (start, end) pairs *)
Lemma tie_find_intergenic_areas start end_ genes min_length padding :
  C15.Model.find_intergenic_areas start end_ genes min_length padding
  = k_find_intergenic_areas start end_ genes min_length padding.
Proof.
  unfold C15.Model.find_intergenic_areas, k_find_intergenic_areas. cbv zeta.
  match goal with |- context [fold_left ?f genes ([], start)] =>
    assert (H : forall gl last acc, fold_left f gl (acc, last) = C15.Model.intergenic_go start end_ padding gl last acc) end.
  { induction gl as [|[gs ge] rest IH]; intros last acc; cbn [fold_left C15.Model.intergenic_go]; [reflexivity|].
    cbv beta iota. cbn [fst snd]. destruct (last <? gs + padding); [apply IH|].
    destruct ((gs <=? last) && (last <=? ge)); apply IH. }
  rewrite H. destruct (C15.Model.intergenic_go start end_ padding genes start []) as [areas last]. reflexivity.
Qed.

(* _overlap_size as a WHOLE: the sum over all pairs of parts of the bases two parts share *)
Lemma tie_overlap_size o c : C15.Model.overlap_size o c = k_overlap_size o c.
Proof. reflexivity. Qed.
