(* C17 - same input, same output, whatever the hash seed / memory layout.
   Every stage of the pipeline whose Python source iterates a `set` (or a dict keyed by hashed
   objects) is modelled with an explicit ENUMERATION-ORDER argument `o`: the list of the set's
   elements in the order the interpreter happens to yield them.  The interpreter's choice itself
   (string hash seed, identity hashes = memory layout) is not modelled; the theorems quantify over
   all orders.

   Stages (file : function) and their model
     1/2  antismash/common/hmmscan_refinement.py : gather_by_query + refine_hmmscan_results
          (neighbour / default mode)           -> C13.Model.refine_table at the order `o`
          (pre-repair variant with the start-only sort key: refine_gene_startkey)
     3    antismash/common/hmm_rule_parser/cluster_prediction.py : find_protoclusters
          `sorted(record.get_cds_by_name(cds) for cds in cds_names)` + the sweep (linear records,
          rules without extenders/superiors)   -> anchor_sort, find_protoclusters_o (sweep of C03)
     4    antismash/common/secmet/features/candidate_cluster/formation.py :
          create_candidates_from_protoclusters -> C05.Model.create_candidates (set iteration =
          ascending protocluster id; another order = another numbering of the same protoclusters),
          `_ordered` = C05.Model.ordered_list (pre-sort key (product, core_start, core_end) since the repair of
          same_product_equal_coordinates_member_order; the singles loop iterates _ordered(set(unassigned)) since the
          repair of single_candidates_set_order)
     5    antismash/common/secmet/features/region/structures.py : Region.get_unique_protoclusters
          (both branches)                      -> unique_protoclusters
     6    cluster_prediction.py : CDSResults.to_json `sorted(set of str)`;
          antismash/detection/hmm_detection/__init__.py : run_on_record `sorted(get_rule_names())`
                                               -> sorted_set (pre-repair: list_of_set)
     7    antismash/common/secmet/features/feature.py : Feature.to_biopython `sorted(notes)`,
          `sorted(quals.items())`              -> sorted_list
   No proofs in this file. *)
From ASV Require Import Base.
From ASV.C03 Require Model.
From ASV.C05 Require Model.
From ASV.C13 Require Model.

(* ------------------------------------------------------------------ strings (lists of code points) *)
(* Python's str.__lt__: lexicographic by code point, a proper prefix is smaller *)
Fixpoint str_lt (a b : list Z) : bool :=
  match a, b with
  | _, [] => false
  | [], _ :: _ => true
  | x :: xs, y :: ys => (x <? y) || ((x =? y) && str_lt xs ys)
  end.
Definition str_eqb (a b : list Z) : bool := list_eqb Z.eqb a b.

(* sorted(a_set_of_str): `o` = enumeration of the set, possibly listing an element twice
   (the set keeps one) *)
Definition sorted_set (o : list (list Z)) : list (list Z) :=
  sort_by str_lt (C13.Model.dedupe str_eqb o).
(* the code before the repairs 9d58b7b1 / 4a88672f: list(a_set) *)
Definition list_of_set (o : list (list Z)) : list (list Z) := C13.Model.dedupe str_eqb o.
(* sorted(a_list_of_str): duplicates stay *)
Definition sorted_list (o : list (list Z)) : list (list Z) := sort_by str_lt o.

(* ------------------------------------------------------------------ stage 1/2: refinement *)
Definition refine_o (neighbour : bool) (t : C13.Model.ptable) (o : list (Z * C13.Model.hit))
  : res (list (Z * list C13.Model.hit)) := C13.Model.refine_table neighbour t o.

(* everything after the sort *)
Definition refine_sorted (neighbour : bool) (L : Z -> Z) (reg : Z -> bool) (refined : list C13.Model.hit)
  : res (list C13.Model.hit) :=
  if neighbour then
    do r1 <- C13.Model.remove_overlapping_l L refined;
    do r2 <- C13.Model.merge_neighbours_l L r1;
    Ok (C13.Model.remove_incomplete L reg r2)
  else
    do r2 <- C13.Model.remove_overlapping_l L (C13.Model.merge_domain_list L refined);
    Ok (C13.Model.remove_incomplete L reg r2).
(* the code before repair 6f19f05d: sorted(list(results), key=lambda result: result.query_start);
   `o` = enumeration of the set of the gene's HMMResults (no duplicates) *)
Definition refine_gene_startkey (neighbour : bool) (L : Z -> Z) (reg : Z -> bool) (o : list C13.Model.hit)
  : res (list C13.Model.hit) :=
  refine_sorted neighbour L reg (sort_by C13.Model.start_lt o).

(* ------------------------------------------------------------------ stage 3: anchoring genes *)
(* a CDS feature that does not cross the origin: identity, location.start, location.end
   (Feature.__lt__ compares (location.start, len(location)); the sweep uses the location only) *)
Record agene := mkAG { aid : Z; aloc : C03.Model.itv }.
Definition agene_lt (a b : agene) : bool := C03.Model.itv_lt (aloc a) (aloc b).
(* cds_features = sorted(record.get_cds_by_name(cds) for cds in cds_names) *)
Definition anchor_sort (o : list agene) : list agene := sort_by agene_lt o.
(* cores (oldest first) with their neighbourhoods, from the sorted features *)
Definition protoclusters_of_sorted (N c nb : Z) (sorted : list C03.Model.itv) : list (Z * Z * Z * Z) :=
  map (fun g : C03.Model.group => let '(cs, he, _) := g in (cs, he, Z.max 0 (cs - nb), Z.min N (he + nb)))
      (rev (C03.Model.sweep N c sorted)).
Definition find_protoclusters_o (N c nb : Z) (o : list agene) : list (Z * Z * Z * Z) :=
  protoclusters_of_sorted N c nb (map aloc (anchor_sort o)).

(* ------------------------------------------------------------------ stage 5: Region.get_unique_protoclusters *)
(* a protocluster as the function sees it: identity, Feature.start, Feature.end, len(location),
   product (numbered in string order), core_start, core_end.  In a region that does not cross the origin
   every protocluster has a single part, so start/end are the location's. *)
Record uproto := mkU { uid : Z; ust : Z; uen : Z; ulen : Z; uprod : Z; ucs : Z; uce : Z }.
Definition lex2 (a b : Z * Z) : bool :=
  (fst a <? fst b) || ((fst a =? fst b) && (snd a <? snd b)).
Definition lex3 (a b : Z * Z * Z) : bool :=
  lex2 (fst a) (fst b) || ((fst (fst a) =? fst (fst b)) && (snd (fst a) =? snd (fst b)) && (snd a <? snd b)).
(* location_contains_other for two single-part locations *)
Definition u_contains (a b : uproto) : bool :=
  (ust a <=? ust b) && (ust b <=? uen b) && (uen b <=? uen a).
(* CDSCollection.__lt__ between two protoclusters (no child collections: `other in self` is False) *)
Definition u_lt (a b : uproto) : bool :=
  if u_contains a b && negb (u_contains b a) then true
  else if u_contains b a && negb (u_contains a b) then false  (* mirrored shortcut: repair of finding F53 / C10-F46 *)
  else lex2 (ust a, - ulen a) (ust b, - ulen b).
(* `by_product = sorted(clusters, key=(product, core_start, core_end)); return sorted(by_product)`,
   clusters a set of identity-hashed objects enumerated as `o` (the pre-sort is the repair of
   unique_protoclusters_set_order; before it: sort_by u_lt o) *)
Definition upre_key (p : uproto) : Z * Z * Z := (uprod p, ucs p, uce p).
Definition upre_lt (a b : uproto) : bool := lex3 (upre_key a) (upre_key b).
Definition unique_linear (o : list uproto) : list uproto := sort_by u_lt (sort_by upre_lt o).
(* the code before the repair *)
Definition unique_linear_unrepaired (o : list uproto) : list uproto := sort_by u_lt o.
(* `reduction`: collection.start < record_length / 2  <->  2 * start < record_length *)
Definition red_key (N : Z) (p : uproto) : Z * Z * Z :=
  ((if 2 * ust p <? N then ust p + N else ust p), - ulen p, uprod p).
Definition red_lt (N : Z) (a b : uproto) : bool := lex3 (red_key N a) (red_key N b).
Definition unique_crossing (N : Z) (o : list uproto) : list uproto := sort_by (red_lt N) o.
Definition unique_protoclusters (crossing : bool) (N : Z) (o : list uproto) : list uproto :=
  if crossing then unique_crossing N o else unique_linear o.

(* the order the docstring promises ("sorted by location start, then by decreasing size, then by
   product"), made total by the identity: the decidable specification evaluated on outputs *)
Definition doc_key_lt (crossing : bool) (N : Z) (a b : uproto) : bool :=
  let ka := if crossing then red_key N a else (ust a, - ulen a, uprod a) in
  let kb := if crossing then red_key N b else (ust b, - ulen b, uprod b) in
  lex3 ka kb.
(* out (a list of identities) lists the protoclusters in non-decreasing documented order *)
Fixpoint doc_sorted (crossing : bool) (N : Z) (l : list uproto) : bool :=
  match l with
  | a :: ((b :: _) as t) => negb (doc_key_lt crossing N b a) && doc_sorted crossing N t
  | _ => true
  end.
Definition find_u (o : list uproto) (i : Z) : option uproto := find (fun p => uid p =? i) o.
(* guard of the linear branch: no two protoclusters of the set share (start, length) *)
Fixpoint no_equal_coords (l : list uproto) : bool :=
  match l with
  | [] => true
  | a :: t => forallb (fun b => negb ((ust a =? ust b) && (ulen a =? ulen b))) t && no_equal_coords t
  end.

(* ------------------------------------------------------------------ encoding *)
Definition dStr : dec (list Z) := dList dZ.
Definition eStrs (l : list (list Z)) : list Z := eList (eList (fun c => [c])) l.
Definition dAGene : dec agene := fun l =>
  match l with i :: a :: b :: r => Some (mkAG i (C03.Model.mkItv a b), r) | _ => None end.
Definition dARule : dec (Z * Z * list agene) := dPair (dPair dZ dZ) (dList dAGene).
Definition dU : dec uproto := fun l =>
  match l with i :: a :: b :: c :: d :: cs :: ce :: r => Some (mkU i a b c d cs ce, r) | _ => None end.
Definition eUIds (l : list uproto) : list Z := eList (fun p => [uid p]) l.

Definition run_C17 (fn : Z) (l : list Z) : list Z :=
  match fn with
  | 1 => C13.Model.run_refine true l
  | 2 => C13.Model.run_refine false l
  | 3 => match dPair dZ (dList dARule) l with
         | Some ((N, rules), []) =>
           eList (fun r : Z * Z * list agene => let '(c, nb, o) := r in
                    eList (fun p : Z * Z * Z * Z => let '(a, b, x, y) := p in [a; b; x; y])
                          (find_protoclusters_o N c nb o))
                 rules
         | _ => bad_input
         end
  | 4 => C05.Model.run_C05 2 l
  | 5 => match dPair (dPair dBool dZ) (dList dU) l with
         | Some ((crossing, N, o), []) => eUIds (unique_protoclusters crossing N o)
         | _ => bad_input
         end
  | 6 => match dList dStr l with
         | Some (o, []) => eStrs (sorted_set o)
         | _ => bad_input
         end
  | 7 => match dList dStr l with
         | Some (o, []) => eStrs (sorted_list o)
         | _ => bad_input
         end
  | 105 => (* payload of fn 5 followed by an output (list of ids):
              [in documented order; guard of the branch (no equal (start, len) pair / always 1)] *)
         match dPair (dPair dBool dZ) (dList dU) l with
         | Some ((crossing, N, o), r) =>
           match dList dZ r with
           | Some (ids, []) =>
             let out := flat_map (fun i => match find_u o i with Some p => [p] | None => [] end) ids in
             eBool ((zlen out =? zlen o) && doc_sorted crossing N out)
             ++ eBool (crossing || no_equal_coords o)
           | _ => bad_input
           end
         | None => bad_input
         end
  | _ => bad_input
  end.
