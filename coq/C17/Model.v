(* C17 - same input, same output, whatever the hash seed / memory layout.
   Every stage of the pipeline whose Python source iterates a `set` (or a dict keyed by hashed
   objects) is modelled with an explicit ENUMERATION-ORDER argument `o`: the list of the set's
   elements in the order the interpreter happens to yield them.  The interpreter's choice itself
   (string hash seed, identity hashes = memory layout) is not modelled; the theorems quantify over
   all orders.

   Stages (file : function) and their model
     0    antismash/common/hmm_rule_parser/cluster_prediction.py : filter_results on a set of identity-hashed HSPs; the
          best hit of a group is searched in the order of the gene's hit list since the repair of
          filter_results_score_tie_set_order (only the removal loop still iterates the set)
          -> filter_gene_o (C13.Model.fr_cds under a rank assignment);
          CDSResults.annotate, loop over sorted(Set[str] of definition domains) (repair of
          annotate_definition_domains_set_order) -> annotate_core
          antismash/modules/terpene/terpene_analysis.py : filter_incomplete (total sort key since the repair of
          terpene_start_tie_set_order) -> terpene_filter_o
     1/2  antismash/common/hmmscan_refinement.py : gather_by_query + refine_hmmscan_results
          (neighbour / default mode)           -> C13.Model.refine_table at the order `o`
          (pre-repair variant with the start-only sort key: refine_gene_startkey)
     3    antismash/common/hmm_rule_parser/cluster_prediction.py : find_protoclusters
          `sorted(record.get_cds_by_name(cds) for cds in cds_names)` + the sweep (linear records,
          rules without extenders/superiors)   -> anchor_sort, find_protoclusters_o (sweep of C03)
     4    antismash/common/secmet/features/candidate_cluster/formation.py :
          create_candidates_from_protoclusters -> C05.Model.create_candidates (set iteration =
          ascending protocluster id; another order = another numbering of the same protoclusters),
          `_ordered` = C05.Model.ordered_list (pre-sort key (product, core_start, core_end) since the repair of
          same_product_equal_coordinates_member_order; the singles loop iterates _ordered(set(unassigned)) since the
          repair of single_candidates_set_order);
          module FO: the same formation with an explicit enumerator at each of its nine set-iteration sites
          (create_candidates_o; = C05.Model.create_candidates at the ascending-id enumerator)
     5    antismash/common/secmet/features/region/structures.py : Region.get_unique_protoclusters
          (both branches)                      -> unique_protoclusters
     6    cluster_prediction.py : CDSResults.to_json `sorted(set of str)`;
          antismash/detection/hmm_detection/__init__.py : run_on_record `sorted(get_rule_names())`
                                               -> sorted_set (pre-repair: list_of_set);
          antismash/outputs/html/js.py : convert_regions `sorted(region.product_categories)` -> sorted_set (before the
          repair of html_product_categories_set_order: list_of_set); the terpene module's
          `tuple(sorted(subtypes))` and build_intersection's tuples sorted by compound name (repairs of
          terpene_subtypes_set_order / terpene_reaction_intersection_set_order) are sorted_set as well
     7    antismash/common/secmet/features/feature.py : Feature.to_biopython `sorted(notes)`,
          `sorted(quals.items())`              -> sorted_list
   No proofs in this file. *)
From ASV Require Import Base.
From ASV Require Loc.
From ASV.C03 Require Model.
From ASV.C05 Require Model.
From ASV.C13 Require Model.

(* ------------------------------------------------------------------ strings (lists of code points) *)
(* Python's str.__lt__: lexicographic by code point, a proper prefix is smaller *)
Fixpoint str_lt (a b : list Z) : bool :=
  match a, b with
  | _, [] => false
  | [], _ :: _ => true
  | x :: xs, y :: ys => (x <? y) || ((x =? y) && str_lt xs ys)
  end.
Definition str_eqb (a b : list Z) : bool := list_eqb Z.eqb a b.

(* sorted(a_set_of_str): `o` = enumeration of the set, possibly listing an element twice
   (the set keeps one) *)
Definition sorted_set (o : list (list Z)) : list (list Z) :=
  sort_by str_lt (C13.Model.dedupe str_eqb o).
(* the code before the repairs 9d58b7b1 / 4a88672f: list(a_set) *)
Definition list_of_set (o : list (list Z)) : list (list Z) := C13.Model.dedupe str_eqb o.
(* sorted(a_list_of_str): duplicates stay *)
Definition sorted_list (o : list (list Z)) : list (list Z) := sort_by str_lt o.

(* ------------------------------------------------------------------ stage 1/2: refinement *)
Definition refine_o (neighbour : bool) (t : C13.Model.ptable) (o : list (Z * C13.Model.hit))
  : res (list (Z * list C13.Model.hit)) := C13.Model.refine_table neighbour t o.

(* everything after the sort *)
Definition refine_sorted (neighbour : bool) (L : Z -> Z) (reg : Z -> bool) (refined : list C13.Model.hit)
  : res (list C13.Model.hit) :=
  if neighbour then
    do r1 <- C13.Model.remove_overlapping_l L refined;
    do r2 <- C13.Model.merge_neighbours_l L r1;
    Ok (C13.Model.remove_incomplete L reg r2)
  else
    do r2 <- C13.Model.remove_overlapping_l L (C13.Model.merge_domain_list L refined);
    Ok (C13.Model.remove_incomplete L reg r2).
(* the code before repair 6f19f05d: sorted(list(results), key=lambda result: result.query_start);
   `o` = enumeration of the set of the gene's HMMResults (no duplicates) *)
Definition refine_gene_startkey (neighbour : bool) (L : Z -> Z) (reg : Z -> bool) (o : list C13.Model.hit)
  : res (list C13.Model.hit) :=
  refine_sorted neighbour L reg (sort_by C13.Model.start_lt o).

(* ------------------------------------------------------------------ terpene: filter_incomplete *)
(* antismash/modules/terpene/terpene_analysis.py : filter_incomplete
       results_by_id = gather_by_query(hmmscan_results)
       for cds, results in results_by_id.items():
           refined = sorted(list(results), key=lambda result: (result.query_start, result.query_end, result.hit_id,
                                                               -result.bitscore, result.evalue))
           refined = remove_incomplete(refined, hmm_lengths)       (the total key of refine_hmmscan_results = C13.Model.canonical
           if refined: refined_results[cds] = refined               since the repair of terpene_start_tie_set_order)
   `o` = the hits gene by gene in the enumeration order of the gather_by_query sets; the result is observed key-sorted *)
Definition terpene_gene (L : Z -> Z) (reg : Z -> bool) (o : list C13.Model.hit) : list C13.Model.hit :=
  C13.Model.remove_incomplete L reg (C13.Model.canonical o).
(* the code before the repair: key = query_start only *)
Definition terpene_gene_startkey (L : Z -> Z) (reg : Z -> bool) (o : list C13.Model.hit) : list C13.Model.hit :=
  C13.Model.remove_incomplete L reg (sort_by C13.Model.start_lt (C13.Model.dedupe C13.Model.hit_eqb o)).
Definition terpene_filter_with (gene : (Z -> Z) -> (Z -> bool) -> list C13.Model.hit -> list C13.Model.hit)
    (t : C13.Model.ptable) (o : list (Z * C13.Model.hit)) : res (list (Z * list C13.Model.hit)) :=
  if forallb (fun gh : Z * C13.Model.hit => C13.Model.ppresent t (C13.Model.prof (snd gh))) o
  then Ok (filter (fun gr : Z * list C13.Model.hit => match snd gr with [] => false | _ => true end)
                  (map (fun g => (g, gene (C13.Model.plen t) (C13.Model.preg t) (C13.Model.hits_of g o)))
                       (C13.Model.genes_of o)))
  else Err E_Key.
Definition terpene_filter_startkey := terpene_filter_with terpene_gene_startkey.
Definition terpene_filter_o := terpene_filter_with terpene_gene.

(* ------------------------------------------------------------------ stage 3: anchoring genes *)
(* a CDS feature that does not cross the origin: identity, location.start, location.end
   (Feature.__lt__ compares (location.start, len(location)); the sweep uses the location only) *)
Record agene := mkAG { aid : Z; aloc : C03.Model.itv }.
Definition agene_lt (a b : agene) : bool := C03.Model.itv_lt (aloc a) (aloc b).
(* cds_features = sorted(record.get_cds_by_name(cds) for cds in cds_names) *)
Definition anchor_sort (o : list agene) : list agene := sort_by agene_lt o.
(* cores (oldest first) with their neighbourhoods, from the sorted features *)
Definition protoclusters_of_sorted (N c nb : Z) (sorted : list C03.Model.itv) : list (Z * Z * Z * Z) :=
  map (fun g : C03.Model.group => let '(cs, he, _) := g in (cs, he, Z.max 0 (cs - nb), Z.min N (he + nb)))
      (rev (C03.Model.sweep N c sorted)).
Definition find_protoclusters_o (N c nb : Z) (o : list agene) : list (Z * Z * Z * Z) :=
  protoclusters_of_sorted N c nb (map aloc (anchor_sort o)).

(* ------------------------------------------------------------------ stage 5: Region.get_unique_protoclusters *)
(* a protocluster as the function sees it: identity, Feature.start, Feature.end, len(location),
   product (numbered in string order), core_start, core_end.  In a region that does not cross the origin
   every protocluster has a single part, so start/end are the location's. *)
Record uproto := mkU { uid : Z; ust : Z; uen : Z; ulen : Z; uprod : Z; ucs : Z; uce : Z }.
Definition lex2 (a b : Z * Z) : bool :=
  (fst a <? fst b) || ((fst a =? fst b) && (snd a <? snd b)).
Definition lex3 (a b : Z * Z * Z) : bool :=
  lex2 (fst a) (fst b) || ((fst (fst a) =? fst (fst b)) && (snd (fst a) =? snd (fst b)) && (snd a <? snd b)).
(* location_contains_other for two single-part locations *)
Definition u_contains (a b : uproto) : bool :=
  (ust a <=? ust b) && (ust b <=? uen b) && (uen b <=? uen a).
(* CDSCollection.__lt__ between two protoclusters (no child collections: `other in self` is False) *)
Definition u_lt (a b : uproto) : bool :=
  if u_contains a b && negb (u_contains b a) then true
  else if u_contains b a && negb (u_contains a b) then false  (* mirrored shortcut: repair of finding F53 / C10-F46 *)
  else lex2 (ust a, - ulen a) (ust b, - ulen b).
(* `by_product = sorted(clusters, key=(product, core_start, core_end)); return sorted(by_product)`,
   clusters a set of identity-hashed objects enumerated as `o` (the pre-sort is the repair of
   unique_protoclusters_set_order; before it: sort_by u_lt o) *)
Definition upre_key (p : uproto) : Z * Z * Z := (uprod p, ucs p, uce p).
Definition upre_lt (a b : uproto) : bool := lex3 (upre_key a) (upre_key b).
Definition unique_linear (o : list uproto) : list uproto := sort_by u_lt (sort_by upre_lt o).
(* the code before the repair *)
Definition unique_linear_unrepaired (o : list uproto) : list uproto := sort_by u_lt o.
(* `reduction`: collection.start < record_length / 2  <->  2 * start < record_length;
   key (shifted start, -len(location), product, core_start, core_end): the two core components are the repair of
   unique_crossing_same_product_set_order.  red_key = the first three components (the documented order),
   red_key5 = the whole key, compared as Python compares tuples *)
Definition red_key (N : Z) (p : uproto) : Z * Z * Z :=
  ((if 2 * ust p <? N then ust p + N else ust p), - ulen p, uprod p).
Definition red_key5 (N : Z) (p : uproto) : (Z * Z * Z) * (Z * Z) := (red_key N p, (ucs p, uce p)).
Definition eq3 (a b : Z * Z * Z) : bool :=
  (fst (fst a) =? fst (fst b)) && (snd (fst a) =? snd (fst b)) && (snd a =? snd b).
Definition lex32 (a b : (Z * Z * Z) * (Z * Z)) : bool :=
  lex3 (fst a) (fst b) || (eq3 (fst a) (fst b) && lex2 (snd a) (snd b)).
Definition red_lt (N : Z) (a b : uproto) : bool := lex32 (red_key5 N a) (red_key5 N b).
Definition unique_crossing (N : Z) (o : list uproto) : list uproto := sort_by (red_lt N) o.
(* the code before the repair: key without the cores *)
Definition unique_crossing_unrepaired (N : Z) (o : list uproto) : list uproto :=
  sort_by (fun a b => lex3 (red_key N a) (red_key N b)) o.
Definition unique_protoclusters (crossing : bool) (N : Z) (o : list uproto) : list uproto :=
  if crossing then unique_crossing N o else unique_linear o.

(* the order the docstring promises ("sorted by location start, then by decreasing size, then by
   product"), made total by the identity: the decidable specification evaluated on outputs *)
Definition doc_key_lt (crossing : bool) (N : Z) (a b : uproto) : bool :=
  let ka := if crossing then red_key N a else (ust a, - ulen a, uprod a) in
  let kb := if crossing then red_key N b else (ust b, - ulen b, uprod b) in
  lex3 ka kb.
(* out (a list of identities) lists the protoclusters in non-decreasing documented order *)
Fixpoint doc_sorted (crossing : bool) (N : Z) (l : list uproto) : bool :=
  match l with
  | a :: ((b :: _) as t) => negb (doc_key_lt crossing N b a) && doc_sorted crossing N t
  | _ => true
  end.
Definition find_u (o : list uproto) (i : Z) : option uproto := find (fun p => uid p =? i) o.
(* guard of the linear branch: no two protoclusters of the set share (start, length) *)
Fixpoint no_equal_coords (l : list uproto) : bool :=
  match l with
  | [] => true
  | a :: t => forallb (fun b => negb ((ust a =? ust b) && (ulen a =? ulen b))) t && no_equal_coords t
  end.

(* ------------------------------------------------------------------ stage 0: filter_results (cluster_prediction.py) *)
(* the groups of overlapping hits are SETS of identity-hashed HSP objects: C13.Model.filter_results models the set order by
   the field f_rank of every hit (ascending rank = iteration order).  Another memory layout = another rank assignment
   `rho` (by object identity), everything else unchanged.  Since the repair of filter_results_score_tie_set_order
   (`ordered = [hit for hit in cdsresults if hit in group]; best = ordered[0]; for hit in ordered: ...`) only the removal
   loop `for hit in group` follows the ranks; before it the search for the best hit did (`best = list(group)[0]`),
   C13.Model.group_pass_unrepaired. *)
Definition rerank (rho : Z -> Z) (h : C13.Model.fhit) : C13.Model.fhit :=
  C13.Model.mkFH (C13.Model.f_id h) (C13.Model.f_prof h) (C13.Model.f_hs h) (C13.Model.f_he h) (C13.Model.f_sc h)
                 (rho (C13.Model.f_id h)).
(* one gene under one equivalence group at the layout rho: (ids left in `results`, ids left for the gene) *)
Definition filter_gene_o (rho : Z -> Z) (eqg : list Z) (results mine : list C13.Model.fhit) : res (list Z * list Z) :=
  match C13.Model.fr_cds eqg (Ok (map (rerank rho) results, [])) (map (rerank rho) mine) with
  | (Ok (r, _), m) => Ok (map C13.Model.f_id r, map C13.Model.f_id m)
  | (Err k, _) => Err k
  end.
(* the code before the repair: `best = list(group)[0]; for hit in group: if hit.bitscore > best.bitscore: best = hit` *)
Definition group_pass_unrepaired (s : list C13.Model.fhit * list C13.Model.fhit * list Z) (g : list C13.Model.fhit)
  : list C13.Model.fhit * list C13.Model.fhit * list Z :=
  match C13.Model.best_of (C13.Model.rank_order g) with
  | None => s
  | Some best => fold_left (C13.Model.removal_step best) (C13.Model.rank_order g) s
  end.
Definition filter_gene_unrepaired (rho : Z -> Z) (eqg : list Z) (results mine0 : list C13.Model.fhit) : res (list Z * list Z) :=
  let mine := map (rerank rho) mine0 in
  if negb (C13.Model.competing eqg mine) then Ok (map C13.Model.f_id results, map C13.Model.f_id mine) else
  match C13.Model.overlapping_groups mine with
  | Err k => Err k
  | Ok groups =>
    let '(results', mine', _) := fold_left group_pass_unrepaired groups (map (rerank rho) results, mine, []) in
    match mine' with
    | [] => Err E_Assert
    | _ => Ok (map C13.Model.f_id results', map C13.Model.f_id mine')
    end
  end.

(* ------------------------------------------------------------------ CDSResults.annotate (cluster_prediction.py) *)
(* for cluster_type, matching_domains in self.definition_domains.items():      (dict: insertion order, fixed)
       for domain in sorted(matching_domains):                                  (Set[str] enumerated as `o`, sorted:
           self.cds.gene_functions.add(GeneFunction.CORE, tool, domain, cluster_type)    repair of annotate_definition_domains_set_order)
   result: the CORE gene functions (domain, cluster type) in the order they are added = the order of the
   gene_functions qualifier of the CDS in the GenBank output *)
Definition annotate_core (defs : list (list Z * list (list Z))) : list (list Z * list Z) :=
  flat_map (fun d : list Z * list (list Z) => map (fun dom => (dom, fst d)) (sorted_set (snd d))) defs.
(* the code before the repair: `for domain in matching_domains` *)
Definition annotate_core_unrepaired (defs : list (list Z * list (list Z))) : list (list Z * list Z) :=
  flat_map (fun d : list Z * list (list Z) => map (fun dom => (dom, fst d)) (list_of_set (snd d))) defs.

(* ------------------------------------------------------------------ stage 4 with explicit enumerators *)
(* formation.py again, this time with EVERY iteration over a Python set made explicit: `en k s` is the order in
   which the interpreter yields the elements of the set `s` (given as a list) at iteration site k.  The rest is the
   transcription of C05.Model, definition by definition (create_candidates_o (fun _ => iter) = C05.Model.create_candidates,
   lemma formation_o_iter_proof).  Sites:
     1  build_candidates: list(existing_clusters)            2  build_candidates: list(extras) / for extra in extras
     3  _ordered(set(unassigned)) of the singles loop         4  _merge_sets: _ordered(group) of each merged set
     5  _find_hybrids: sorted(unassigned, key=core start)     6  _find_hybrids: _ordered(unassigned)
     7  _find_interleaved: sorted(set(clusters).difference(found))
     8  _find_neighbouring: for single in unassigned (origin-crossing edge candidates)
     (site 9, _find_neighbouring: sorted(unassigned), is gone since the repair of C05's finding
      neighbouring_singles_not_linked: the function now passes the list `singles` it was given)
   (set sizes, membership tests, min() over a set and set equality do not depend on the order and stay as in C05) *)
Module FO.
Import ASV.Common.Loc C05.Model.
Definition enum := Z -> list proto -> list proto.
Definition ordered_set_o (en : enum) (k : Z) (g : list proto) : list proto := ordered_list (en k g).
Definition merge_sets_o (en : enum) (groups : list (list proto)) : list (list proto) :=
  map (ordered_set_o en 4) (merge_core groups).

Fixpoint build_go_o (en : enum) (w : option Z) (kind : Z) (groups : list (list proto))
                    (existing : table) (singles : list proto) : res (table * list proto) :=
  match groups with
  | [] => Ok (existing, singles)
  | group :: rest =>
    if negb ((kind =? K_SINGLE) || (1 <? zlen group)) then Err E_Assert else
    do candidate <- mk_cand w kind (ordered_list group);
    let key := ckey candidate in
    match tget key existing with
    | None => build_go_o en w kind rest (tset key candidate existing) singles
    | Some ex =>
      let existing_clusters := en 1 (cmem ex) in
      let extras := en 2 (diff group existing_clusters) in
      if is_empty extras then build_go_o en w kind rest existing singles else
      do replacement <- mk_cand w (ckind ex) (ordered_list (existing_clusters ++ extras));
      build_go_o en w kind rest (tset key replacement existing) (fold_left (fun s x => set_add x s) extras singles)
    end
  end.
Definition build_candidates_o (en : enum) (w : option Z) (kind : Z) (groups : list (list proto))
                              (existing : table) (singles : list proto)
  : res (list cand * table * list proto) :=
  do es <- build_go_o en w kind groups existing singles;
  let '(e, s) := es in
  Ok (sort_by lt_cc (tvalues e), e, s).

Definition find_hybrids_o (en : enum) (clusters : list proto) (w : option Z)
  : res (list (list proto) * list proto) :=
  let sorted_c := sort_by core_key_lt clusters in
  let pairs := pairs_rel defs_intersect sorted_c in
  let extra := match first_last sorted_c with
               | Some (f, l) => if negb (pid f =? pid l) && defs_intersect f l then [(f, l)] else []
               | None => []
               end in
  let groups := map (fun xy => [fst xy; snd xy]) (pairs ++ extra) in
  let unassigned := diff clusters (concat groups) in
  let merged := merge_sets_o en groups in
  let by_core := sort_by core_start_lt (en 5 unassigned) in
  do extended <- mapM (hybrid_extend w by_core) merged;
  let unassigned' := diff unassigned (concat extended) in
  Ok (map ordered_list extended, ordered_set_o en 6 unassigned').

Definition find_interleaved_o (en : enum) (clusters : list proto) (cands : list cand) (w : option Z)
  : res (list (list proto) * list proto) :=
  do cc <- with_cores w cands;
  let groups0 := find_interleaved_candidates cc in
  let by_core := sort_by core_start_lt clusters in
  let pp := core_pairs by_core in
  let groups1 := groups0 ++ map (fun xy => [fst xy; snd xy]) pp in
  let found1 := concat (map (fun xy => [fst xy; snd xy]) pp) in
  let hits := flat_map (fun cl =>
                  map (fun ck => (ck, cl))
                      (filter (fun ck : cand * loc => overlap (snd ck) (pcore cl)) cc)) by_core in
  let groups2 := groups1 ++ map (fun h => cmem (fst (fst h)) ++ [snd h]) hits in
  let found2 := found1 ++ map snd hits in
  do fg <- find_cross_origin_interleaved w cc by_core groups2;
  let '(found3, groups3) := fg in
  Ok (merge_sets_o en groups3, sort_by lt_pp (en 7 (diff clusters (found2 ++ found3)))).

Definition find_neighbouring_o (en : enum) (singles : list proto) (cands : list cand) : list (list proto) :=
  let groups0 := find_neighbouring_candidates cands in
  let hits := flat_map (fun s =>
                 map (fun c => (c, s))
                     (filter (fun c => overlap (ploc s) (cloc c)) cands)) singles in
  let groups1 := groups0 ++ map (fun h => union (cmem (fst h)) [snd h]) hits in
  let unassigned := diff singles (map snd hits) in
  let edges :=
    if is_empty unassigned || is_empty cands then [] else
    (match cands with c0 :: _ => if bridges (cloc c0) then [c0] else [] | [] => [] end)
    ++ (match cands with
        | _ :: _ :: _ => match last_opt cands with
                         | Some cl => if bridges (cloc cl) then [cl] else []
                         | None => []
                         end
        | _ => []
        end) in
  let edge_groups := flat_map (fun c =>
                        match filter (fun s => overlap (ploc s) (cloc c)) (en 8 unassigned) with
                        | s :: _ => [cmem c ++ [s]]
                        | [] => []
                        end) edges in
  let groups2 := groups1 ++ edge_groups in
  merge_sets_o en (groups2 ++ find_neighbouring_protoclusters singles).

Definition formation_body_o (en : enum) (protos : list proto) (w : option Z) : res (list cand) :=
  let unassigned0 := ordered_list protos in
  do hu <- find_hybrids_o en unassigned0 w;
  let '(hybrid_groups, unassigned1) := hu in
  do b1 <- build_candidates_o en w K_HYBRID hybrid_groups [] [];
  let '(cands1, ex1, singles1) := b1 in
  do iu <- find_interleaved_o en unassigned1 cands1 w;
  let '(inter_groups, unassigned2) := iu in
  do b2 <- build_candidates_o en w K_INTERLEAVED inter_groups ex1 singles1;
  let '(cands2, ex2, singles2) := b2 in
  let neigh_groups := find_neighbouring_o en unassigned2 cands2 in
  do b3 <- build_candidates_o en w K_NEIGHBOURING neigh_groups ex2 singles2;
  let '(cands3, ex3, singles3) := b3 in
  do ss <- singles_go w ex3 (ordered_set_o en 3 (unassigned2 ++ singles3));
  Ok (cands3 ++ ss).

Definition create_candidates_o (en : enum) (protos : list proto) (w : option Z) : res (list cand) :=
  match protos with
  | [] => Ok []
  | _ =>
    do cands <- formation_body_o en protos w;
    if negb (assigned_count cands =? zlen protos) then Err E_Assert else
    Ok (sort_by lt_cc cands)
  end.

(* two concrete enumerators: ascending id (the one of C05.Model, = what the harness observes with id-hashed
   objects) and descending id *)
Definition en_asc : enum := fun _ s => iter s.
Definition en_desc : enum := fun _ s => rev (iter s).
(* a family of scrambled enumerations: at site k the elements are ordered by ((id + 1) * a + k * b) mod m (stable on
   ascending id); used by the harness to evaluate the model at many enumeration orders *)
Definition en_hash (a b m : Z) : enum := fun k s =>
  sort_by (fun x y => ((pid x + 1) * a + k * b) mod m <? ((pid y + 1) * a + k * b) mod m) (iter s).
End FO.

(* ------------------------------------------------------------------ stage 3 on circular records, with explicit enumerators *)
(* cluster_prediction.py : find_protoclusters on ANY record (circular ones with origin-crossing genes included), rules
   with extenders and superiors: C03.Model's transcription of the pipeline again, with the ONE place where the code iterates
   a Python set made explicit:
       for cluster_type, cds_names in cds_by_cluster_type.items():            (dict: insertion order, fixed)
           cds_features = sorted(record.get_cds_by_name(cds) for cds in cds_names)        <- cds_names : Set[str]
           cross_origin = (feature for feature in cds_features if location_bridges_origin(feature.location))
           cds_features = sorted([feature for feature in cds_features if not location_bridges_origin(feature.location)])
   `en ri s` = the order in which the interpreter yields the names of the genes satisfying rule ri (given as the list s of
   those genes in record order).  The origin-crossing genes become the FIRST cores in the order of the first sorted();
   the sweep compares every later gene with the newest core only and the closing test looks at the first and the last core
   only, so that order is observable.  apply_extenders, remove_redundant_protoclusters and merge_over_origin iterate lists
   only (C03.Model.extend_proto / remove_redundant / merge_over_origin_protos, used as they are); apply_cluster_rules builds
   the sets by add/update and iterates dicts and lists only (C03.Model.apply_cluster_rules).
   At the identity enumerator this is C03.Model.pipeline (lemma detection_o_id_proof), which is what the correspondence run of
   C03 and fn 16 of this check tie to the code. *)
Module DO.
Import ASV.Common.Loc C03.Model.
Definition enum := Z -> list gene -> list gene.
Definition gene_lt (a b : gene) : bool := klt (snd a) (snd b).
(* the cores of one rule from the genes of the rule in enumeration order `o`; `presort` = false is the function WITHOUT the
   first sorted() (the origin-crossing genes taken in enumeration order): not the code, kept for the theorem that the
   first sort is needed *)
Definition rule_cores_gen (presort : bool) (N : Z) (circular : bool) (r : rule) (o : list gene) : res (list loc) :=
  let w := wrap_of N circular in
  let feats := if presort then sort_by gene_lt o else o in
  let cross := filter (fun g : gene => bridges (snd g)) feats in
  let plain := sort_by gene_lt (filter (fun g : gene => negb (bridges (snd g))) feats) in
  do cross_cores <- mapM (fun g : gene => do c <- connect_locations (map (fun p => [p]) (snd g)) w; mk_feature c) cross;
  do cores_rev <- fold_left (sweep_step N circular (r_cut r)) (map snd plain) (Ok (rev cross_cores));
  let cores := rev cores_rev in
  match cores, cores_rev with
  | [], _ => Err E_Assert
  | first :: _, last :: before_rev =>
    if circular && (1 <? zlen cores) && (lstart last <? match first with p0 :: _ => ps p0 | [] => 0 end) then
      if dist first last w <? r_cut r then
        do c <- connect_locations [last; first] w;
        Ok (c :: tl (rev before_rev))
      else Ok cores
    else Ok cores
  | _, _ => Ok cores
  end.
Definition rule_cores_o := rule_cores_gen true.
Definition anchoring (gs : list gene) (ids : list Z) : list gene :=
  filter (fun g : gene => existsb (Z.eqb (fst g)) ids) gs.
Definition initial_protos_gen (presort : bool) (en : enum) (N : Z) (circular : bool) (gs : list gene) (rules : list rule)
    (a : anchors) : res (list proto) :=
  do per <- mapM (fun e : Z * list Z =>
                    let r := nth_rule rules (fst e) in
                    do cores <- rule_cores_gen presort N circular r (en (fst e) (anchoring gs (snd e)));
                    mapM (fun core => do sur <- extend_area core (r_nb r) N circular true;
                                      do _ <- mk_proto core sur; Ok (fst e, core, sur)) cores) a;
  Ok (concat per).
Definition find_protoclusters_gen (presort : bool) (en : enum) (N : Z) (circular : bool) (gs : list gene) (hs : hits)
    (rules : list rule) (a : anchors) : res (list proto) :=
  do cl <- initial_protos_gen presort en N circular gs rules a;
  do cl <- mapM (extend_proto N circular gs hs rules) cl;
  do cl <- remove_redundant gs rules cl;
  merge_over_origin_protos N circular rules key_ext_start cl.
Definition pipeline_gen (presort : bool) (en : enum) (N : Z) (circular : bool) (gs : list gene) (hs : hits)
    (rules : list rule) (cached : bool) : res (list proto) :=
  match gs with
  | [] => Ok []
  | _ =>
    do _ <- mapM (fun g : gene => fkey (snd g)) gs;
    match hs with
    | [] => Ok []
    | _ => do a <- apply_cluster_rules N circular gs hs rules cached; find_protoclusters_gen presort en N circular gs hs rules a
    end
  end.
Definition find_protoclusters_o := find_protoclusters_gen true.
Definition pipeline_o := pipeline_gen true.
(* enumerators: the identity (record order, the one C03.Model uses), the reverse, and the one a child process observed:
   obs = [(rule index, ids of the genes in the order list(the set) gave)] *)
Definition en_id : enum := fun _ s => s.
Definition en_rev : enum := fun _ s => rev s.
Definition en_obs (obs : list (Z * list Z)) : enum := fun ri s =>
  match lookup ri obs with
  | Some ids => flat_map (fun i => filter (fun g : gene => fst g =? i) s) ids
  | None => s
  end.
(* guard of the order-independence theorem: two genes of the enumerated set that Feature.__lt__ does not separate have the
   same location *)
Fixpoint no_key_ties (l : list loc) : bool :=
  match l with
  | [] => true
  | a :: t => forallb (fun b => klt a b || klt b a || loc_eqb a b) t && no_key_ties t
  end.
End DO.

(* ------------------------------------------------------------------ encoding *)
Definition dStr : dec (list Z) := dList dZ.
Definition eStrs (l : list (list Z)) : list Z := eList (eList (fun c => [c])) l.
Definition dAGene : dec agene := fun l =>
  match l with i :: a :: b :: r => Some (mkAG i (C03.Model.mkItv a b), r) | _ => None end.
Definition dARule : dec (Z * Z * list agene) := dPair (dPair dZ dZ) (dList dAGene).
Definition dU : dec uproto := fun l =>
  match l with i :: a :: b :: c :: d :: cs :: ce :: r => Some (mkU i a b c d cs ce, r) | _ => None end.
Definition eUIds (l : list uproto) : list Z := eList (fun p => [uid p]) l.

(* ---------- hmm_detection.get_ruleset with --hmmdetection-limit-to-rule-names: `name_subset` is a set of str,
     rules = filter(lambda rule: rule.name in name_subset, ruleset.rules)
   the rules of the files (numbered 0 .. n-1 in file order) that the selection names, in FILE order; `en` = an
   enumeration of the set of selected names (ids; only membership is asked of it).  select_in_set_order is the variant
   that fetches the rules while iterating the set: [get_rule_by_name(name) for name in name_subset] *)
Definition select_rules (n : Z) (en : list Z) : list Z :=
  filter (fun i => existsb (Z.eqb i) en) (map Z.of_nat (seq 0 (Z.to_nat n))).
Definition select_in_set_order (n : Z) (en : list Z) : list Z :=
  filter (fun i => (0 <=? i) && (i <? n)) en.

(* ---------- SecMetQualifier.add_domains over a history of calls: every call appends, in the order it lists them, the
   domains whose name the qualifier does not hold yet (unique_domain_ids is only asked for membership) ---------- *)
Definition add_domains (held : list Z) (batch : list Z) : list Z :=
  fold_left (fun acc d => if existsb (Z.eqb d) acc then acc else acc ++ [d]) batch held.
Definition add_domains_history (batches : list (list Z)) : list Z := fold_left add_domains batches [].

Definition run_C17 (fn : Z) (l : list Z) : list Z :=
  match fn with
  | 1 => C13.Model.run_refine true l
  | 2 => C13.Model.run_refine false l
  | 3 => match dPair dZ (dList dARule) l with
         | Some ((N, rules), []) =>
           eList (fun r : Z * Z * list agene => let '(c, nb, o) := r in
                    eList (fun p : Z * Z * Z * Z => let '(a, b, x, y) := p in [a; b; x; y])
                          (find_protoclusters_o N c nb o))
                 rules
         | _ => bad_input
         end
  | 4 => C05.Model.run_C05 2 l
  | 8 => (* CDSResults.annotate: [(cluster type, observed enumeration of its set of domains)] -> CORE functions *)
    match dList (dPair dStr (dList dStr)) l with
    | Some (defs, []) => eList (fun p : list Z * list Z => eList (fun c => [c]) (fst p) ++ eList (fun c => [c]) (snd p))
                               (annotate_core defs)
    | _ => bad_input
    end
  | 10 => (* terpene filter_incomplete: payload of fn 1 / 2 (profile table, hits in observed order) *)
    match dPair (dList C13.Model.dPEntry) (dList C13.Model.dGHit) l with
    | Some ((t, hits), []) =>
      if C13.Model.table_ok t hits then eRes C13.Model.eGenes (terpene_filter_o t hits) else bad_input
    | _ => bad_input
    end
  | 14 => (* payload of fn 4; create_candidates_from_protoclusters with every set enumerated in DESCENDING id *)
    match dPair (dOpt dZ) (dList C05.Model.dProtoD) l with
    | Some ((w, protos), []) => eRes (eList C05.Model.eCand) (FO.create_candidates_o FO.en_desc protos w)
    | _ => bad_input
    end
  | 15 => (* [a; b; m] followed by the payload of fn 4: the formation at the scrambled enumeration en_hash a b m *)
    match l with
    | a :: b :: m :: l' =>
      match dPair (dOpt dZ) (dList C05.Model.dProtoD) l' with
      | Some ((w, protos), []) => eRes (eList C05.Model.eCand) (FO.create_candidates_o (FO.en_hash a b m) protos w)
      | _ => bad_input
      end
    | _ => bad_input
    end
  | 16 => (* [(rule index, observed enumeration of the ids of its anchoring genes)] followed by the payload of C03 fn 2:
             the detection pipeline at the observed enumeration; 17: the same at the reversed record order; 18: at record order *)
    match dList (dPair dZ (dList dZ)) l with
    | Some (obs, l') =>
      match C03.Model.dInput l' with
      | Some (N, circ, gs, hs, rules) => C03.Model.eProtos (DO.pipeline_o (DO.en_obs obs) N circ gs hs rules true)
      | None => bad_input
      end
    | None => bad_input
    end
  | 17 =>
    match C03.Model.dInput l with
    | Some (N, circ, gs, hs, rules) => C03.Model.eProtos (DO.pipeline_o DO.en_rev N circ gs hs rules true)
    | None => bad_input
    end
  | 18 => (* the same at the identity enumeration (record order) = C03.Model.pipeline *)
    match C03.Model.dInput l with
    | Some (N, circ, gs, hs, rules) => C03.Model.eProtos (DO.pipeline_o DO.en_id N circ gs hs rules true)
    | None => bad_input
    end
  | 5 => match dPair (dPair dBool dZ) (dList dU) l with
         | Some ((crossing, N, o), []) => eUIds (unique_protoclusters crossing N o)
         | _ => bad_input
         end
  | 6 => match dList dStr l with
         | Some (o, []) => eStrs (sorted_set o)
         | _ => bad_input
         end
  | 7 => match dList dStr l with
         | Some (o, []) => eStrs (sorted_list o)
         | _ => bad_input
         end
  | 105 => (* payload of fn 5 followed by an output (list of ids):
              [in documented order; guard of the branch (no equal (start, len) pair / always 1)] *)
         match dPair (dPair dBool dZ) (dList dU) l with
         | Some ((crossing, N, o), r) =>
           match dList dZ r with
           | Some (ids, []) =>
             let out := flat_map (fun i => match find_u o i with Some p => [p] | None => [] end) ids in
             eBool ((zlen out =? zlen o) && doc_sorted crossing N out)
             ++ eBool (crossing || no_equal_coords o)
           | _ => bad_input
           end
         | None => bad_input
         end
  | 21 => match dList (dList dZ) l with
          | Some (batches, []) => eList (fun i => [i]) (add_domains_history batches)
          | _ => bad_input
          end
  | 20 => match l with
          | n :: r => match dList dZ r with Some (en, []) => eList (fun i => [i]) (select_rules n en) | _ => bad_input end
          | _ => bad_input
          end
  | _ => bad_input
  end.
