(* C17 - property theorems: every stage that enumerates a set gives the same result for every
   enumeration order `o` (all permutations: an over-approximation of what the hash seed and the
   memory layout can do), under the stated guard; where the guard is needed the unguarded statement
   is refuted by a witness. *)
From ASV Require Import Base Loc.
From ASV.C03 Require Model.
From ASV.C05 Require Model.
From ASV.C13 Require Model.
From ASV.C17 Require Import Model Proofs.
From Coq Require Import Sorting.Sorted Sorting.Permutation.

(* ---- refinement (gather_by_query sets + refine_hmmscan_results, both modes, incl. the KeyError
   outcome): the whole result is the same for every enumeration order of the hits *)
Theorem C17_refinement_perm : forall neighbour table o o',
  Permutation o o' -> refine_o neighbour table o = refine_o neighbour table o'.
Proof. exact refine_o_perm_proof. Qed.
Print Assumptions C17_refinement_perm.

(* ... per gene, only the SET of hits matters (an element enumerated twice changes nothing) *)
Theorem C17_refinement_set : forall neighbour L reg o o', (forall x, In x o <-> In x o') ->
  C13.Model.refine_gene neighbour L reg o = C13.Model.refine_gene neighbour L reg o'.
Proof. exact refine_gene_set_proof. Qed.
Print Assumptions C17_refinement_set.

(* ... which was FALSE of the code before repair 6f19f05d (sort key = query_start only): two
   equal-start, equal-score hits of different profiles; the repaired code agrees on the same input *)
Theorem C17_refinement_startkey_refuted : exists neighbour L reg o o',
  Permutation o o' /\ NoDup o /\
  refine_gene_startkey neighbour L reg o <> refine_gene_startkey neighbour L reg o' /\
  C13.Model.refine_gene neighbour L reg o = C13.Model.refine_gene neighbour L reg o'.
Proof. exact refine_startkey_refuted_proof. Qed.
Print Assumptions C17_refinement_startkey_refuted.

(* ---- filter_results (cluster_prediction.py): the groups of overlapping hits of competing profiles are SETS of
   identity-hashed HSP objects.  A memory layout is a rank assignment rho (C13.Model: f_rank).  Since the repair of
   filter_results_score_tie_set_order the best hit of a group is searched in the order of the gene's hit list (the first of
   the highest scoring hits is kept: C13_filter_results_tie_rule), so for EVERY input of the domain (hit_start < hit_end,
   distinct objects), bitscore ties included, the kept hits are the same for all layouts, and filter_results does not raise *)
Theorem C17_filter_results_layout_perm : forall eqg results mine rho rho',
  C13.Model.fwf mine = true ->
  filter_gene_o rho eqg results mine = filter_gene_o rho' eqg results mine /\
  exists r m, filter_gene_o rho eqg results mine = Ok (r, m).
Proof. exact filter_gene_layout_proof. Qed.
Print Assumptions C17_filter_results_layout_perm.

(* the former witness (two overlapping competing hits with equal bitscore): the code before the repair
   (`best = list(group)[0]`) kept the hit the layout put first; now the hit listed first in the gene's hit list is kept
   under both layouts (repaired finding filter_results_score_tie_set_order) *)
Theorem C17_filter_results_tie_witness :
  C13.Model.fwf [w_f1; w_f2] = true /\ NoDup (map C13.Model.f_id [w_f1; w_f2]) /\
  filter_gene_unrepaired (fun i => i) [0; 1] [w_f1; w_f2] [w_f1; w_f2]
    <> filter_gene_unrepaired (fun i => 1 - i) [0; 1] [w_f1; w_f2] [w_f1; w_f2] /\
  filter_gene_o (fun i => i) [0; 1] [w_f1; w_f2] [w_f1; w_f2] = Ok ([0], [0]) /\
  filter_gene_o (fun i => 1 - i) [0; 1] [w_f1; w_f2] [w_f1; w_f2] = Ok ([0], [0]) /\
  filter_gene_o (fun i => i) [0; 1] [w_f2; w_f1] [w_f2; w_f1] = Ok ([1], [1]).
Proof. exact filter_gene_tie_witness_proof. Qed.
Print Assumptions C17_filter_results_tie_witness.

(* ---- CDSResults.annotate: the CORE gene functions of a gene are added in the order of
   `sorted(matching_domains)` (repair of annotate_definition_domains_set_order): they depend on the SETS of definition
   domains only, for any input ... *)
Theorem C17_annotate_perm : forall defs defs',
  Forall2 (fun d d' => fst d = fst d' /\ forall x, In x (snd d) <-> In x (snd d')) defs defs' ->
  annotate_core defs = annotate_core defs'.
Proof. exact annotate_perm_proof. Qed.
Print Assumptions C17_annotate_perm.

(* ... the former witness: the loop over the Set[str] itself (the code before the repair) gave two gene_functions
   lists for two enumerations of the same set; the repaired code gives one *)
Theorem C17_annotate_witness :
  let defs := [([114], [[97]; [98]])] in let defs' := [([114], [[98]; [97]])] in
  Forall2 (fun d d' => fst d = fst d' /\ forall x, In x (snd d) <-> In x (snd d')) defs defs' /\
  annotate_core_unrepaired defs <> annotate_core_unrepaired defs' /\
  annotate_core defs = [([97], [114]); ([98], [114])] /\ annotate_core defs' = [([97], [114]); ([98], [114])].
Proof. exact annotate_witness_proof. Qed.
Print Assumptions C17_annotate_witness.

(* ---- terpene filter_incomplete: gather_by_query sets sorted by the total key of refine_hmmscan_results (repair of
   terpene_start_tie_set_order), then remove_incomplete: same result for every enumeration, no guard ... *)
Theorem C17_terpene_filter_perm : forall t o o', Permutation o o' ->
  terpene_filter_o t o = terpene_filter_o t o'.
Proof. exact terpene_filter_perm_proof. Qed.
Print Assumptions C17_terpene_filter_perm.

(* ... the former witness: with the start-only key of the code before the repair two complete hits of different profiles
   starting at the same position came out in enumeration order; now both enumerations give [w_t1; w_t2] *)
Theorem C17_terpene_filter_witness :
  let t := [(1, 30, 0); (1, 50, 0)] in let o := [(0, w_t1); (0, w_t2)] in let o' := [(0, w_t2); (0, w_t1)] in
  Permutation o o' /\ NoDup o /\ terpene_filter_startkey t o <> terpene_filter_startkey t o' /\
  terpene_filter_o t o = Ok [(0, [w_t1; w_t2])] /\ terpene_filter_o t o' = Ok [(0, [w_t1; w_t2])].
Proof. exact terpene_filter_witness_proof. Qed.
Print Assumptions C17_terpene_filter_witness.

(* ---- find_protoclusters: `sorted(record.get_cds_by_name(cds) for cds in cds_names)`.
   The sorted list of FEATURES does depend on the set order when two anchoring genes have equal
   (start, length) - same coordinates on the two strands ... *)
Theorem C17_anchor_order_refuted : exists o o',
  Permutation o o' /\ NoDup (map aid o) /\ anchor_sort o <> anchor_sort o'.
Proof. exact anchor_order_refuted_proof. Qed.
Print Assumptions C17_anchor_order_refuted.

(* ... it does not otherwise ... *)
Theorem C17_anchor_sort_perm : forall o o', Permutation o o' ->
  (forall a b, In a o -> In b o -> aloc a = aloc b -> a = b) ->
  anchor_sort o = anchor_sort o'.
Proof. exact anchor_sort_perm_proof. Qed.
Print Assumptions C17_anchor_sort_perm.

(* ... and, with or without such ties, the sequence of LOCATIONS the sweep consumes, hence the
   cores and neighbourhoods of the protoclusters, are the same for every set order (no guard) *)
Theorem C17_anchor_locations_perm : forall o o', Permutation o o' ->
  map aloc (anchor_sort o) = map aloc (anchor_sort o').
Proof. exact anchor_locations_perm_proof. Qed.
Print Assumptions C17_anchor_locations_perm.

Theorem C17_find_protoclusters_perm : forall N c nb o o', Permutation o o' ->
  find_protoclusters_o N c nb o = find_protoclusters_o N c nb o'.
Proof. exact find_protoclusters_perm_proof. Qed.
Print Assumptions C17_find_protoclusters_perm.

(* the stage is the sweep of C03 on the genes' locations (so C03_chain_linear applies to it) *)
Theorem C17_find_protoclusters_is_C03 : forall N c nb o,
  find_protoclusters_o N c nb o = C03.Model.protoclusters N c nb (map aloc o).
Proof. exact find_protoclusters_is_C03_proof. Qed.
Print Assumptions C17_find_protoclusters_is_C03.

(* ---- candidate formation, member order: `_ordered` applied to a set of protoclusters with
   single-part locations returns the same list for every enumeration of the set, unless two
   protoclusters share coordinates AND product AND core start/end (prekey = (product, core_start,
   core_end), the pre-sort key since the repair of same_product_equal_coordinates_member_order) ... *)
Theorem C17_formation_members_perm_partial : forall g g',
  Forall simple g -> Permutation g g' ->
  (forall a b, In a g -> In b g -> pkey a = pkey b -> prekey a = prekey b -> a = b) ->
  C05.Model.ordered_list g = C05.Model.ordered_list g'.
Proof. exact ordered_perm_proof. Qed.
Print Assumptions C17_formation_members_perm_partial.

(* ... namely the arrangement ordered by (start, -length), ties by (product, core start, core end) *)
Theorem C17_formation_members_sorted : forall g, Forall simple g ->
  Permutation (C05.Model.ordered_list g) g /\ wsorted (lex_lt lexpp prod_lt) (C05.Model.ordered_list g).
Proof. exact ordered_sorted_proof. Qed.
Print Assumptions C17_formation_members_sorted.

(* the product pre-sort is what achieves this: `sorted(group)` alone (the code before 13b45ace)
   exposes the enumeration order for identical coordinates with different products *)
Theorem C17_formation_presort_needed_refuted : exists g g',
  Forall simple g /\ Permutation g g' /\ NoDup (map C05.Model.pprod g) /\
  sort_by C05.Model.lt_pp g <> sort_by C05.Model.lt_pp g' /\
  C05.Model.ordered_list g = C05.Model.ordered_list g'.
Proof. exact ordered_presort_needed_proof. Qed.
Print Assumptions C17_formation_presort_needed_refuted.

(* repaired finding same_product_equal_coordinates_member_order: two protoclusters with the same product and
   identical coordinates but different cores satisfy the guard of C17_formation_members_perm_partial and are listed in
   the same order for both enumerations; the pre-sort by product alone (the code before the repair) exposed the order *)
Theorem C17_formation_members_same_product :
  Forall simple [w_pa'; w_pb'] /\ Permutation [w_pa'; w_pb'] [w_pb'; w_pa'] /\
  pkey w_pa' = pkey w_pb' /\ C05.Model.pprod w_pa' = C05.Model.pprod w_pb' /\
  (forall a b, In a [w_pa'; w_pb'] -> In b [w_pa'; w_pb'] -> pkey a = pkey b -> prekey a = prekey b -> a = b) /\
  map C05.Model.pid (C05.Model.ordered_list [w_pa'; w_pb']) = [0; 1] /\
  map C05.Model.pid (C05.Model.ordered_list [w_pb'; w_pa']) = [0; 1] /\
  sort_by C05.Model.lt_pp (sort_by (fun a b => C05.Model.pprod a <? C05.Model.pprod b) [w_pa'; w_pb'])
    <> sort_by C05.Model.lt_pp (sort_by (fun a b => C05.Model.pprod a <? C05.Model.pprod b) [w_pb'; w_pa']).
Proof. exact ordered_same_product_proof. Qed.
Print Assumptions C17_formation_members_same_product.

(* repaired finding single_candidates_set_order: SINGLE candidates are created in `_ordered` order of
   set(unassigned); the two numberings of the same three protoclusters (the model iterates sets in ascending
   protocluster id, so these are the two possible set orders) now give the same candidate list *)
Theorem C17_formation_singles_witness :
  view (C05.Model.create_candidates [w_pa; w_pb; w_pc] None)
    = Ok [(C05.Model.K_NEIGHBOURING, [0; 1; 2]); (C05.Model.K_SINGLE, [0]); (C05.Model.K_SINGLE, [1]); (C05.Model.K_SINGLE, [2])] /\
  view (C05.Model.create_candidates [w_pa2; w_pb2; w_pc] None)
    = Ok [(C05.Model.K_NEIGHBOURING, [0; 1; 2]); (C05.Model.K_SINGLE, [0]); (C05.Model.K_SINGLE, [1]); (C05.Model.K_SINGLE, [2])].
Proof. exact singles_order_proof. Qed.
Print Assumptions C17_formation_singles_witness.

(* ... and in general the singles loop visits the same protoclusters in the same order for every enumeration of
   set(unassigned) (under the guard of C17_formation_members_perm_partial).  The whole formation as one
   permutation theorem is still not proved (other set iterations of the formation are modelled in ascending id). *)
Theorem C17_formation_singles_perm : forall u u', Forall simple u -> Permutation u u' ->
  (forall a b, In a u -> In b u -> pkey a = pkey b -> prekey a = prekey b -> a = b) ->
  forall w ex, C05.Model.singles_go w ex (C05.Model.ordered_list u) = C05.Model.singles_go w ex (C05.Model.ordered_list u').
Proof. exact singles_visit_perm_proof. Qed.
Print Assumptions C17_formation_singles_perm.

(* ---- the WHOLE formation (create_candidates_from_protoclusters) with every iteration over a Python set made explicit:
   `en k s` = the order in which the set s is enumerated at site k (Model.v, module FO, sites 1..9).  At the
   ascending-id enumeration it is C05.Model.create_candidates, the model compared with the code on every run - for
   every input *)
Theorem C17_formation_model_is_C05 : forall protos w,
  FO.create_candidates_o FO.en_asc protos w = C05.Model.create_candidates protos w.
Proof. exact formation_o_iter_proof. Qed.
Print Assumptions C17_formation_model_is_C05.

(* the candidates (kinds, members, member order, locations, list order, and the error outcome) are the same for all
   enumerations of the sets at sites 1, 2, 3, 4, 6 (build_candidates' existing/extras sets, the singles loop, every
   _ordered(set)) and, on LINEAR records, also at site 5 (the scan of _find_hybrids over `sorted(set, key=core start)`:
   equal core starts may come in any order) and site 8 (never reached) - records without origin-crossing protoclusters,
   unique ids, no two protoclusters sharing coordinates AND product AND core start/end.  At the PLAIN location sort
   of a set (site 7: `sorted(set)` without the product pre-sort; site 9 is gone since the repair of C05's finding
   neighbouring_singles_not_linked) the enumerations must be tie neutral; on circular
   records sites 5 and 8 must follow ascending id: partial *)
Theorem C17_formation_perm_partial : forall P w en en',
  Forall simple P -> NoDup (map C05.Model.pid P) ->
  (forall a b, In a P -> In b P -> pkey a = pkey b -> prekey a = prekey b -> a = b) ->
  enumerator en -> enumerator en' -> tie_neutral P en -> tie_neutral P en' ->
  linear_or_neutral P w en -> linear_or_neutral P w en' ->
  FO.create_candidates_o en P w = FO.create_candidates_o en' P w.
Proof. exact formation_perm_partial_proof. Qed.
Print Assumptions C17_formation_perm_partial.

(* linear records, proper single-part locations and cores, no two protoclusters with the same coordinates (equal core
   starts, equal products, nested and overlapping areas allowed): EVERY enumeration of EVERY set the formation iterates
   gives the same candidates - no hypothesis on the enumerations *)
Theorem C17_formation_perm_linear : forall P en en',
  Forall proper2 P -> NoDup (map C05.Model.pid P) ->
  (forall a b, In a P -> In b P -> pkey a = pkey b -> a = b) ->
  enumerator en -> enumerator en' ->
  FO.create_candidates_o en P None = FO.create_candidates_o en' P None.
Proof. exact formation_perm_linear_proof. Qed.
Print Assumptions C17_formation_perm_linear.

(* the scan of _find_hybrids on a linear record: for any arrangement of the unassigned protoclusters that is sorted by
   core start, the window scan with its early break returns exactly those whose core lies inside the joint core *)
Theorem C17_hybrid_scan_is_containment : forall h l, wsorted C05.Model.core_start_lt l -> Forall proper2 l ->
  C05.Model.contained_until [h] (lend [h])
    (skipn (Z.to_nat (Z.max 0 (Z.of_nat (C05.Model.bisect_left (fun x => x <? lstart [h])
                                           (map (fun c => C05.Model.fstart (C05.Model.pcore c)) l)) - 1))) l)
  = filter (in_core h) l.
Proof. exact scan_is_filter. Qed.
Print Assumptions C17_hybrid_scan_is_containment.

(* ---- Region.get_unique_protoclusters, origin-crossing branch (key (shifted start, -length, product, core start, core end)
   since the repair of unique_crossing_same_product_set_order): same list for every set order unless two protoclusters share
   coordinates AND product AND core (indistinguishable protoclusters; same guard as the other branch) ... *)
Theorem C17_unique_crossing_perm : forall N o o', Permutation o o' ->
  (forall a b, In a o -> In b o -> red_key5 N a = red_key5 N b -> a = b) ->
  unique_crossing N o = unique_crossing N o'.
Proof. exact unique_crossing_perm_proof. Qed.
Print Assumptions C17_unique_crossing_perm.

(* ... the former witness (same shifted start, length AND product, different cores): the guard holds, both set orders
   give [1; 0]; the key of the code before the repair (without the cores) followed the set order *)
Theorem C17_unique_crossing_witness :
  let a := mkU 0 900 100 200 0 950 980 in let b := mkU 1 900 100 200 0 20 60 in
  Permutation [a; b] [b; a] /\ NoDup (map uid [a; b]) /\
  (forall x y, In x [a; b] -> In y [a; b] -> red_key5 1000 x = red_key5 1000 y -> x = y) /\
  map uid (unique_crossing_unrepaired 1000 [a; b]) <> map uid (unique_crossing_unrepaired 1000 [b; a]) /\
  map uid (unique_crossing 1000 [a; b]) = [1; 0] /\ map uid (unique_crossing 1000 [b; a]) = [1; 0].
Proof. exact unique_crossing_witness_proof. Qed.
Print Assumptions C17_unique_crossing_witness.

(* ... and always in the documented order (shifted start, decreasing size, product) *)
Theorem C17_unique_crossing_documented_order : forall N o, doc_sorted true N (unique_crossing N o) = true.
Proof. exact unique_crossing_doc_sorted_proof. Qed.
Print Assumptions C17_unique_crossing_documented_order.

(* branch for regions that do not cross the origin (pre-sort by (product, core_start, core_end), then
   `sorted`): same list for every set order unless two protoclusters share (start, length) AND
   (product, core start, core end) ... *)
Theorem C17_unique_linear_perm : forall o o', Forall wf_u o -> Permutation o o' ->
  (forall a b, In a o -> In b o -> lin_key a = lin_key b -> upre_key a = upre_key b -> a = b) ->
  unique_linear o = unique_linear o'.
Proof. exact unique_linear_perm_proof. Qed.
Print Assumptions C17_unique_linear_perm.

(* ... and always in the documented order (start, decreasing size, product) - positive statement after the
   repair of finding unique_protoclusters_set_order *)
Theorem C17_unique_linear_documented_order : forall o, Forall wf_u o -> doc_sorted false 0 (unique_linear o) = true.
Proof. exact unique_linear_doc_sorted_proof. Qed.
Print Assumptions C17_unique_linear_documented_order.

(* the former witness (identical coordinates, different products): both set orders give [a; b; c]; the code
   before the repair (`sorted(clusters)`) followed the set order and violated the documented order for one of them *)
Theorem C17_unique_linear_witness :
  Forall wf_u [w_u1; w_u2; w_u3] /\ Permutation [w_u1; w_u2; w_u3] [w_u2; w_u1; w_u3] /\
  map uid (unique_linear [w_u1; w_u2; w_u3]) = [1; 2; 3] /\ map uid (unique_linear [w_u2; w_u1; w_u3]) = [1; 2; 3] /\
  map uid (unique_linear_unrepaired [w_u1; w_u2; w_u3]) <> map uid (unique_linear_unrepaired [w_u2; w_u1; w_u3]) /\
  doc_sorted false 0 (unique_linear_unrepaired [w_u2; w_u1; w_u3]) = false.
Proof. exact unique_linear_witness_proof. Qed.
Print Assumptions C17_unique_linear_witness.

(* ---- serialised sets of strings (definition_domains, enabled_types): `sorted(a_set)` depends on
   the set only; it lists exactly the members, once each, in strictly increasing string order *)
Theorem C17_sorted_set_order_independent : forall o o', (forall x, In x o <-> In x o') ->
  sorted_set o = sorted_set o'.
Proof. exact sorted_set_ext_proof. Qed.
Print Assumptions C17_sorted_set_order_independent.

Theorem C17_sorted_set_spec : forall o,
  (forall x, In x (sorted_set o) <-> In x o) /\ NoDup (sorted_set o) /\
  StronglySorted (fun a b => str_lt a b = true) (sorted_set o).
Proof. exact sorted_set_spec_proof. Qed.
Print Assumptions C17_sorted_set_spec.

(* `list(a_set)` / `tuple(a_set)` (the code before 9d58b7b1 / 4a88672f, and before the repairs of
   html_product_categories_set_order (js.py product_categories), terpene_subtypes_set_order (subtypes) and
   terpene_reaction_intersection_set_order (substrates / products of a merged reaction), all of which are `sorted(...)` of
   the set now) is the enumeration order itself; sorted_set is not *)
Theorem C17_list_of_set_refuted : exists o o',
  (forall x, In x o <-> In x o') /\ list_of_set o <> list_of_set o' /\ sorted_set o = sorted_set o'.
Proof. exact list_of_set_refuted_proof. Qed.
Print Assumptions C17_list_of_set_refuted.

(* ---- Feature.to_biopython: sorted notes / qualifier keys do not depend on arrival order
   (duplicates allowed) *)
Theorem C17_sorted_notes_perm : forall o o', Permutation o o' -> sorted_list o = sorted_list o'.
Proof. exact sorted_list_perm_proof. Qed.
Print Assumptions C17_sorted_notes_perm.

(* ---- composition over the modelled stages, under the union of the guards: hits, anchoring genes, every set of the
   candidate formation (whole create_candidates_from_protoclusters, hypotheses of C17_formation_perm_partial), the
   members of any group, the protoclusters of a region, rule names and notes may each be enumerated in any order *)
Theorem C17_pipeline_partial : forall neighbour table N c nb crossing RN w
    (hits hits' : list (Z * C13.Model.hit)) (genes genes' : list agene) (P : list C05.Model.proto) (en en' : FO.enum)
    (protos protos' : list uproto) (names names' notes notes' : list (list Z)),
  Permutation hits hits' -> Permutation genes genes' ->
  enumerator en -> enumerator en' ->
  Permutation protos protos' -> (forall x, In x names <-> In x names') -> Permutation notes notes' ->
  Forall simple P -> NoDup (map C05.Model.pid P) -> tie_guard P ->
  tie_neutral P en -> tie_neutral P en' -> linear_or_neutral P w en -> linear_or_neutral P w en' ->
  (crossing = true -> forall a b, In a protos -> In b protos -> red_key5 RN a = red_key5 RN b -> a = b) ->
  (crossing = false -> Forall wf_u protos /\
                       forall a b, In a protos -> In b protos -> lin_key a = lin_key b -> upre_key a = upre_key b -> a = b) ->
  refine_o neighbour table hits = refine_o neighbour table hits' /\
  find_protoclusters_o N c nb genes = find_protoclusters_o N c nb genes' /\
  FO.create_candidates_o en P w = FO.create_candidates_o en' P w /\
  (forall g g', incl g P -> Permutation g g' -> C05.Model.ordered_list g = C05.Model.ordered_list g') /\
  unique_protoclusters crossing RN protos = unique_protoclusters crossing RN protos' /\
  sorted_set names = sorted_set names' /\
  sorted_list notes = sorted_list notes'.
Proof. exact pipeline_partial_proof. Qed.
Print Assumptions C17_pipeline_partial.

(* ---- non-vacuity *)
Example C17_ex_refinement :
  Permutation [(0, w_h1); (0, w_h2)] [(0, w_h2); (0, w_h1)] /\
  refine_o true [(1, 10, 0); (1, 10, 0)] [(0, w_h1); (0, w_h2)] = Ok [(0, [w_h1])].
Proof. split; [apply perm_swap|vm_compute; reflexivity]. Qed.
(* tied anchoring genes (both strands), three genes, two cores *)
Example C17_ex_anchors :
  find_protoclusters_o 20000 1000 500
    [mkAG 2 (C03.Model.mkItv 100 400); mkAG 1 (C03.Model.mkItv 100 400); mkAG 3 (C03.Model.mkItv 5000 5300)]
  = [(100, 400, 0, 900); (5000, 5300, 4500, 5800)].
Proof. vm_compute. reflexivity. Qed.
(* the guard of the member-order theorem holds for identical coordinates with different products *)
Example C17_ex_members :
  Forall simple [w_pa; w_pb; w_pc] /\
  (forall a b, In a [w_pa; w_pb; w_pc] -> In b [w_pa; w_pb; w_pc] -> pkey a = pkey b ->
               prekey a = prekey b -> a = b) /\
  map C05.Model.pid (C05.Model.ordered_list [w_pb; w_pc; w_pa]) = [0; 1; 2].
Proof.
  split; [repeat constructor; eexists; eexists; eexists; (split; [reflexivity|lia])|].
  split; [|vm_compute; reflexivity].
  intros a b Ia Ib _ E. cbn in Ia, Ib.
  destruct Ia as [<-|[<-|[<-|[]]]]; destruct Ib as [<-|[<-|[<-|[]]]]; try reflexivity; vm_compute in E; discriminate.
Qed.
Example C17_ex_unique_crossing :
  (forall a b, In a [mkU 0 900 100 200 1 900 100; mkU 1 900 100 200 0 900 100; mkU 2 50 300 250 0 50 300] ->
               In b [mkU 0 900 100 200 1 900 100; mkU 1 900 100 200 0 900 100; mkU 2 50 300 250 0 50 300] ->
               red_key5 1000 a = red_key5 1000 b -> a = b) /\
  map uid (unique_crossing 1000 [mkU 0 900 100 200 1 900 100; mkU 1 900 100 200 0 900 100; mkU 2 50 300 250 0 50 300]) = [1; 0; 2].
Proof.
  split; [|vm_compute; reflexivity].
  intros a b Ia Ib E. cbn in Ia, Ib.
  destruct Ia as [<-|[<-|[<-|[]]]]; destruct Ib as [<-|[<-|[<-|[]]]]; try reflexivity; vm_compute in E; discriminate.
Qed.
Example C17_ex_unique_linear :
  Forall wf_u [w_u3; w_u1] /\
  (forall a b, In a [w_u3; w_u1] -> In b [w_u3; w_u1] -> lin_key a = lin_key b -> upre_key a = upre_key b -> a = b) /\
  map uid (unique_linear [w_u3; w_u1]) = [1; 3].
Proof.
  split; [repeat constructor; cbn; lia|]. split; [|vm_compute; reflexivity].
  intros a b Ia Ib E _. cbn in Ia, Ib.
  destruct Ia as [<-|[<-|[]]]; destruct Ib as [<-|[<-|[]]]; try reflexivity; vm_compute in E; discriminate.
Qed.
(* "r10" < "r2" < "ra" and a duplicate *)
Example C17_ex_strings :
  sorted_set [[114; 97]; [114; 50]; [114; 49; 48]; [114; 50]] = [[114; 49; 48]; [114; 50]; [114; 97]] /\
  sorted_list [[98]; [97]; [98]; []] = [[]; [97]; [98]; [98]].
Proof. split; vm_compute; reflexivity. Qed.

(* whole formation: identical coordinates with different products (tie guard holds, coordinates NOT distinct): descending
   id at sites 1, 2, 3, 4, 6 gives the candidates of ascending id; hypotheses of C17_formation_perm_partial hold *)
Example C17_ex_formation_partial :
  enumerator en_mixed /\ enumerator FO.en_asc /\
  (tie_neutral [w_pa; w_pb; w_pc] en_mixed /\ linear_or_neutral [w_pa; w_pb; w_pc] None en_mixed) /\
  (tie_neutral [w_pa; w_pb; w_pc] FO.en_asc /\ linear_or_neutral [w_pa; w_pb; w_pc] None FO.en_asc) /\
  NoDup (map C05.Model.pid [w_pa; w_pb; w_pc]) /\
  view (FO.create_candidates_o en_mixed [w_pa; w_pb; w_pc] None)
    = Ok [(C05.Model.K_NEIGHBOURING, [0; 1; 2]); (C05.Model.K_SINGLE, [0]); (C05.Model.K_SINGLE, [1]); (C05.Model.K_SINGLE, [2])].
Proof.
  split; [exact en_mixed_enumerator|]. split; [exact en_asc_enumerator|].
  split; [apply en_mixed_neutral|]. split; [apply en_asc_neutral|].
  split; [cbn; repeat constructor; cbn; intuition discriminate|vm_compute; reflexivity].
Qed.
(* linear record, distinct coordinates, EQUAL core starts (w_l1, w_l2 share the defining gene 7: hybrid pair; w_l4's
   core lies inside their joint core and starts where w_l1's does): descending id everywhere is an enumerator and gives
   the same candidates *)
Definition w_l1 := C05.Model.mkProto 0 [mkPart 0 300 1] [mkPart 100 200 1] 0 [7].
Definition w_l2 := C05.Model.mkProto 1 [mkPart 50 400 1] [mkPart 150 250 1] 1 [7].
Definition w_l3 := C05.Model.mkProto 2 [mkPart 350 600 1] [mkPart 450 500 1] 2 [].
Definition w_l4 := C05.Model.mkProto 3 [mkPart 90 260 1] [mkPart 100 180 1] 3 [].
Definition w_l5 := C05.Model.mkProto 4 [mkPart 80 270 1] [mkPart 100 190 1] 4 [].
Example C17_ex_formation_linear_ties :
  Forall proper2 [w_l1; w_l2; w_l3; w_l4; w_l5] /\ NoDup (map C05.Model.pid [w_l1; w_l2; w_l3; w_l4; w_l5]) /\
  (forall a b, In a [w_l1; w_l2; w_l3; w_l4; w_l5] -> In b [w_l1; w_l2; w_l3; w_l4; w_l5] -> pkey a = pkey b -> a = b) /\
  view (FO.create_candidates_o FO.en_desc [w_l1; w_l2; w_l3; w_l4; w_l5] None)
    = view (FO.create_candidates_o FO.en_asc [w_l1; w_l2; w_l3; w_l4; w_l5] None) /\
  view (FO.create_candidates_o FO.en_desc [w_l1; w_l2; w_l3; w_l4; w_l5] None)
    = Ok [(C05.Model.K_NEIGHBOURING, [0; 1; 4; 3; 2]); (C05.Model.K_HYBRID, [0; 1; 4; 3]); (C05.Model.K_SINGLE, [2])].
Proof.
  split; [repeat constructor; try (eexists; (split; [reflexivity|cbn; lia])); eexists; (split; [reflexivity|cbn; lia])|].
  split; [cbn; repeat constructor; cbn; intuition discriminate|].
  split; [|split; vm_compute; reflexivity].
  intros a b Ia Ib E. cbn in Ia, Ib.
  repeat (destruct Ia as [<-|Ia]); try contradiction; repeat (destruct Ib as [<-|Ib]); try contradiction; try reflexivity; vm_compute in E; discriminate.
Qed.
Example C17_ex_formation_linear :
  Forall proper [w_l1; w_l2; w_l3] /\ NoDup (map C05.Model.pid [w_l1; w_l2; w_l3]) /\ enumerator FO.en_desc /\
  view (FO.create_candidates_o FO.en_desc [w_l1; w_l2; w_l3] None)
    = Ok [(C05.Model.K_NEIGHBOURING, [0; 1; 2]); (C05.Model.K_HYBRID, [0; 1]); (C05.Model.K_SINGLE, [2])].
Proof.
  split; [repeat constructor; eexists; (split; [reflexivity|cbn; lia])|].
  split; [cbn; repeat constructor; cbn; intuition discriminate|].
  split; [exact en_desc_enumerator|vm_compute; reflexivity].
Qed.

(* filter_results: two overlapping hits of competing profiles with different scores - hit 1 (score 120) kept *)
Example C17_ex_filter_results :
  C13.Model.fwf [w_f1; C13.Model.mkFH 1 1 10 200 120 0] = true /\
  filter_gene_o (fun i => 1 - i) [0; 1] [w_f1; C13.Model.mkFH 1 1 10 200 120 0] [w_f1; C13.Model.mkFH 1 1 10 200 120 0] = Ok ([1], [1]).
Proof. repeat split; vm_compute; reflexivity. Qed.
(* annotate: rule "r" with one domain, rule "s" with none *)
Example C17_ex_annotate :
  annotate_core [([114], [[97]; [97]]); ([115], [])] = [([97], [114])].
Proof. vm_compute. reflexivity. Qed.
(* terpene: different starts, both hits complete *)
Example C17_ex_terpene :
  terpene_filter_o [(1, 30, 0); (1, 50, 0)] [(0, C13.Model.mkHit 1 9 60 1 20); (0, w_t1)]
  = Ok [(0, [w_t1; C13.Model.mkHit 1 9 60 1 20])].
Proof. vm_compute. reflexivity. Qed.

(* ---- rule-based detection on ANY record, circular ones with several origin-crossing genes included (cluster_prediction.py:
   apply_cluster_rules, find_protoclusters, apply_extenders, remove_redundant_protoclusters, merge_over_origin): the one
   place that iterates a Python set is find_protoclusters' `sorted(record.get_cds_by_name(cds) for cds in cds_names)` over
   the Set[str] of the names of the genes satisfying a rule.  Model.v module DO repeats C03's transcription with that
   enumeration as an explicit argument `en rule_index genes_in_record_order`.  At the identity enumerator it IS
   C03.Model.pipeline (no guard) - the model the correspondence runs of C03 and of this check (run function 16, at the order
   each child process observed) compare with the code *)
Theorem C17_detection_model_is_C03 : forall N circular gs hs rules cached,
  DO.pipeline_o DO.en_id N circular gs hs rules cached = C03.Model.pipeline N circular gs hs rules cached.
Proof. exact DetP.detection_o_id_proof. Qed.
Print Assumptions C17_detection_model_is_C03.

(* the cores of one rule (origin-crossing genes first, sweep against the newest core, closing test on the first and the last
   core) are the same for every enumeration of the set of its genes, provided Feature.__lt__ separates any two of them that
   differ in location *)
Theorem C17_detection_cores_perm : forall N circular r o o',
  Permutation o o' -> DetP.key_separates o -> DO.rule_cores_o N circular r o = DO.rule_cores_o N circular r o'.
Proof. exact DetP.rule_cores_perm. Qed.
Print Assumptions C17_detection_cores_perm.

(* the WHOLE detection (all rules, extenders, superiors, merge over the origin; error outcome included): the same
   protoclusters for all enumerations of all sets, under the guard "within each rule, two anchoring genes that
   Feature.__lt__ does not separate have the same location" *)
Theorem C17_detection_perm : forall en en' N circular gs hs rules cached,
  DetP.enumerates en -> DetP.enumerates en' ->
  (forall a, C03.Model.apply_cluster_rules N circular gs hs rules cached = Ok a -> DetP.anchors_separated gs a) ->
  DO.pipeline_o en N circular gs hs rules cached = DO.pipeline_o en' N circular gs hs rules cached.
Proof. exact DetP.detection_perm_proof. Qed.
Print Assumptions C17_detection_perm.

(* ... in particular under the decidable record-wide guard *)
Theorem C17_detection_perm_record : forall en en' N circular gs hs rules cached,
  DetP.enumerates en -> DetP.enumerates en' -> DO.no_key_ties (map snd gs) = true ->
  DO.pipeline_o en N circular gs hs rules cached = DO.pipeline_o en' N circular gs hs rules cached.
Proof. exact DetP.detection_perm_record_proof. Qed.
Print Assumptions C17_detection_perm_record.

(* the guard is needed - finding C17-K11 crossing_anchor_key_tie_set_order: two origin-crossing genes with the same start and
   length but other exons, a gene within the cutoff of one of them only, a superior rule: two enumerations of the same set
   of gene names give different protoclusters (core 99001..3000 or 99001..3800 over the origin) *)
Theorem C17_detection_key_tie_refuted :
  exists N gs hs rules en en', DetP.enumerates en /\ DetP.enumerates en' /\
    DO.pipeline_o en N true gs hs rules true <> DO.pipeline_o en' N true gs hs rules true.
Proof. exact DetP.detection_key_tie_refuted_proof. Qed.
Print Assumptions C17_detection_key_tie_refuted.

(* the first of the two sorted() calls is needed (seeded defect of round 4: without it the origin-crossing genes become the
   first cores in set order): a short origin-crossing gene nested in a long one, no two genes tied on the key; without the
   first sort two enumerations give different protoclusters, the code (with it) gives one result *)
Theorem C17_detection_presort_needed_refuted :
  exists N gs hs rules en en', DetP.enumerates en /\ DetP.enumerates en' /\ DO.no_key_ties (map snd gs) = true /\
    DO.pipeline_gen false en N true gs hs rules true <> DO.pipeline_gen false en' N true gs hs rules true /\
    DO.pipeline_o en N true gs hs rules true = DO.pipeline_o en' N true gs hs rules true.
Proof. exact DetP.detection_presort_needed_refuted_proof. Qed.
Print Assumptions C17_detection_presort_needed_refuted.

(* non-vacuity: the nested origin-crossing genes meet the guard; reversed enumeration: three protoclusters, the inferior one
   over the origin keeps the core of the long gene *)
Example C17_ex_detection :
  DO.no_key_ties (map snd DetP.w_nested_genes) = true /\ DetP.enumerates DO.en_rev /\
  DO.pipeline_o DO.en_rev 100000 true DetP.w_nested_genes DetP.w_hits DetP.w_nested_rules true
  = Ok [(1, [mkPart 99001 100000 1; mkPart 0 3000 1], [mkPart 98001 100000 1; mkPart 0 4000 1]);
        (1, [mkPart 50000 50600 1], [mkPart 49000 51600 1]);
        (0, [mkPart 4000 4600 1], [mkPart 3000 5600 1])].
Proof. split; [vm_compute; reflexivity|]. split; [exact DetP.en_rev_enumerates|vm_compute; reflexivity]. Qed.


(* ---- hmm_detection.get_ruleset limited to rule names: the rules handed out are the named rules of the files in FILE
   order; only membership is asked of the set of names, so its enumeration (PYTHONHASHSEED) cannot show.  Fetching the
   rules while iterating the set (seeded defect of round 5) gives the enumeration order *)
Theorem C17_ruleset_selection_order_independent : forall n en en', (forall x, In x en <-> In x en') ->
  select_rules n en = select_rules n en'.
Proof. exact select_rules_ext_proof. Qed.
Print Assumptions C17_ruleset_selection_order_independent.

Theorem C17_ruleset_selection_spec : forall n en i, In i (select_rules n en) <-> (0 <= i < n /\ In i en).
Proof. exact select_rules_spec_proof. Qed.
Print Assumptions C17_ruleset_selection_spec.

Theorem C17_ruleset_selection_in_set_order_refuted : exists n en en', (forall x, In x en <-> In x en') /\
  select_in_set_order n en <> select_in_set_order n en' /\ select_rules n en = select_rules n en'.
Proof. exact select_in_set_order_refuted_proof. Qed.
Print Assumptions C17_ruleset_selection_in_set_order_refuted.

Example C17_ex_ruleset_selection : select_rules 6 [4; 1; 4; 2] = [1; 2; 4].
Proof. vm_compute. reflexivity. Qed.


(* ---- SecMetQualifier.add_domains (sec_met_domain qualifier, domain_ids, the ADDITIONAL gene functions derived from it):
   over any history of calls the stored order is the order of first mention - the history of calls gives what ONE call with
   the batches concatenated gives; the set unique_domain_ids is only asked for membership, so no set order can show.  (A
   seeded change of round 6 appended the new names of a later call in set order.) *)
Theorem C17_add_domains_history_is_order_of_mention : forall batches,
  add_domains_history batches = add_domains [] (concat batches).
Proof. intros batches. exact (add_domains_history_concat batches []). Qed.
Print Assumptions C17_add_domains_history_is_order_of_mention.

Example C17_ex_add_domains : add_domains_history [[5; 2; 5]; [2; 9; 1]; [1; 7]] = [5; 2; 9; 1; 7].
Proof. vm_compute. reflexivity. Qed.
