(* C17 - lemmas and proofs. *)
From ASV Require Import Base Loc.
From ASV.C03 Require Model.
From ASV.C05 Require Model.
From ASV.C13 Require Model Proofs.
From ASV.C17 Require Import Model.
From Coq Require Import Sorting.Sorted Sorting.Permutation ZifyBool.

(* ================================================================== generic: the stable insertion sort *)
Lemma insert_by_perm {A} (lt : A -> A -> bool) x : forall l, Permutation (insert_by lt x l) (x :: l).
Proof.
  induction l as [|y ys IH]; cbn [insert_by]; [apply Permutation_refl|].
  destruct (lt x y); [apply Permutation_refl|].
  apply Permutation_trans with (y :: x :: ys); [apply perm_skip; exact IH|apply perm_swap].
Qed.

Lemma fold_insert_perm {A} (lt : A -> A -> bool) : forall l acc,
  Permutation (fold_left (fun acc x => insert_by lt x acc) l acc) (l ++ acc).
Proof.
  induction l as [|x xs IH]; intros acc; cbn [fold_left app]; [apply Permutation_refl|].
  apply Permutation_trans with (xs ++ insert_by lt x acc); [apply IH|].
  apply Permutation_trans with (xs ++ x :: acc).
  - apply Permutation_app_head. apply insert_by_perm.
  - apply Permutation_sym. apply Permutation_middle.
Qed.

Lemma sort_by_perm {A} (lt : A -> A -> bool) l : Permutation (sort_by lt l) l.
Proof. unfold sort_by. rewrite <- (app_nil_r l) at 2. apply fold_insert_perm. Qed.

(* weakly sorted: no later element is smaller than an earlier one *)
Definition wsorted {A} (lt : A -> A -> bool) (l : list A) : Prop :=
  StronglySorted (fun a b => lt b a = false) l.

Section Order.
Context {A : Type}.
Variable lt : A -> A -> bool.
Hypothesis Hirr : forall a, lt a a = false.
Hypothesis Htrans : forall a b c, lt a b = true -> lt b c = true -> lt a c = true.

Lemma lt_asym a b : lt a b = true -> lt b a = false.
Proof.
  intros H. destruct (lt b a) eqn:E; [|reflexivity].
  pose proof (Htrans _ _ _ H E) as X. rewrite Hirr in X. discriminate.
Qed.

Lemma insert_by_wsorted x : forall l, wsorted lt l -> wsorted lt (insert_by lt x l).
Proof.
  induction l as [|y ys IH]; intros Hs; cbn [insert_by].
  - constructor; [constructor|constructor].
  - inversion Hs as [|? ? Hs' Hall]; subst.
    destruct (lt x y) eqn:E.
    + constructor; [exact Hs|]. constructor; [apply lt_asym; exact E|].
      rewrite Forall_forall in *. intros z Hz.
      destruct (lt z x) eqn:Ezx; [|reflexivity].
      pose proof (Htrans _ _ _ Ezx E) as X. rewrite (Hall z Hz) in X. discriminate.
    + constructor; [apply IH; exact Hs'|].
      rewrite Forall_forall in *. intros z Hz.
      apply (Permutation_in _ (insert_by_perm lt x ys)) in Hz. destruct Hz as [Hz|Hz].
      * subst z. exact E.
      * apply Hall. exact Hz.
Qed.

Lemma fold_insert_wsorted : forall l acc, wsorted lt acc ->
  wsorted lt (fold_left (fun acc x => insert_by lt x acc) l acc).
Proof.
  induction l as [|x xs IH]; intros acc Hs; cbn [fold_left]; [exact Hs|].
  apply IH. apply insert_by_wsorted. exact Hs.
Qed.

Lemma sort_by_wsorted l : wsorted lt (sort_by lt l).
Proof. unfold sort_by. apply fold_insert_wsorted. constructor. Qed.

(* two weakly sorted arrangements of the same elements coincide when no two different elements tie *)
Lemma wsorted_unique : forall l1 l2,
  wsorted lt l1 -> wsorted lt l2 -> Permutation l1 l2 ->
  (forall a b, In a l1 -> In b l1 -> lt a b = false -> lt b a = false -> a = b) ->
  l1 = l2.
Proof.
  induction l1 as [|a t1 IH]; intros l2 H1 H2 Hp Htot.
  - apply Permutation_nil in Hp. symmetry. exact Hp.
  - destruct l2 as [|b t2]; [apply Permutation_sym in Hp; apply Permutation_nil in Hp; discriminate|].
    inversion H1 as [|? ? H1' Ha]; subst. inversion H2 as [|? ? H2' Hb]; subst.
    rewrite Forall_forall in Ha, Hb.
    assert (Hab : a = b).
    { assert (Ia : In a (b :: t2)) by (apply (Permutation_in _ Hp); left; reflexivity).
      assert (Ib : In b (a :: t1)) by (apply (Permutation_in _ (Permutation_sym Hp)); left; reflexivity).
      destruct Ia as [E|Ia]; [symmetry; exact E|].
      destruct Ib as [E|Ib]; [exact E|].
      apply Htot; [left; reflexivity|right; exact Ib|apply Hb; exact Ia|apply Ha; exact Ib]. }
    subst b. f_equal. apply IH; [exact H1'|exact H2'|apply Permutation_cons_inv with a; exact Hp|].
    intros x y Hx Hy. apply Htot; right; assumption.
Qed.

(* the sort of a permuted list is the same list, provided no two different elements tie *)
Lemma sort_by_perm_unique l l' :
  Permutation l l' ->
  (forall a b, In a l -> In b l -> lt a b = false -> lt b a = false -> a = b) ->
  sort_by lt l = sort_by lt l'.
Proof.
  intros Hp Htot. apply wsorted_unique; [apply sort_by_wsorted|apply sort_by_wsorted| |].
  - apply Permutation_trans with l; [apply sort_by_perm|].
    apply Permutation_trans with l'; [exact Hp|apply Permutation_sym; apply sort_by_perm].
  - intros a b Ia Ib. apply Htot; apply (Permutation_in _ (sort_by_perm lt l)); assumption.
Qed.
End Order.

(* two comparisons that agree on the elements give the same sort *)
Lemma insert_by_ext_in {A} (lt lt' : A -> A -> bool) x : forall l,
  (forall y, In y l -> lt x y = lt' x y) -> insert_by lt x l = insert_by lt' x l.
Proof.
  induction l as [|y ys IH]; intros H; cbn [insert_by]; [reflexivity|].
  rewrite <- (H y (or_introl eq_refl)). destruct (lt x y); [reflexivity|].
  f_equal. apply IH. intros z Hz. apply H. right. exact Hz.
Qed.

Lemma fold_insert_ext_in {A} (lt lt' : A -> A -> bool) : forall l acc,
  (forall a b, In a (l ++ acc) -> In b (l ++ acc) -> lt a b = lt' a b) ->
  fold_left (fun acc x => insert_by lt x acc) l acc = fold_left (fun acc x => insert_by lt' x acc) l acc.
Proof.
  induction l as [|x xs IH]; intros acc H; cbn [fold_left]; [reflexivity|].
  rewrite (insert_by_ext_in lt lt' x acc).
  - apply IH. intros a b Ia Ib. apply H.
    + cbn [app]. apply in_app_or in Ia. destruct Ia as [Ia|Ia]; [right; apply in_or_app; left; exact Ia|].
      apply (Permutation_in _ (insert_by_perm lt' x acc)) in Ia. destruct Ia as [Ia|Ia]; [left; exact Ia|right; apply in_or_app; right; exact Ia].
    + cbn [app]. apply in_app_or in Ib. destruct Ib as [Ib|Ib]; [right; apply in_or_app; left; exact Ib|].
      apply (Permutation_in _ (insert_by_perm lt' x acc)) in Ib. destruct Ib as [Ib|Ib]; [left; exact Ib|right; apply in_or_app; right; exact Ib].
  - intros y Hy. apply H; [left; reflexivity|right; apply in_or_app; right; exact Hy].
Qed.

Lemma sort_by_ext_in {A} (lt lt' : A -> A -> bool) l :
  (forall a b, In a l -> In b l -> lt a b = lt' a b) -> sort_by lt l = sort_by lt' l.
Proof.
  intros H. unfold sort_by. apply fold_insert_ext_in. rewrite app_nil_r. exact H.
Qed.

(* sorting commutes with a projection that carries the comparison *)
Lemma insert_by_map {A B} (f : A -> B) (ltA : A -> A -> bool) (ltB : B -> B -> bool)
  (H : forall a b, ltA a b = ltB (f a) (f b)) x :
  forall l, map f (insert_by ltA x l) = insert_by ltB (f x) (map f l).
Proof.
  induction l as [|y ys IH]; cbn [insert_by map]; [reflexivity|].
  rewrite <- H. destruct (ltA x y); cbn [map]; [reflexivity|]. f_equal. exact IH.
Qed.

Lemma sort_by_map {A B} (f : A -> B) (ltA : A -> A -> bool) (ltB : B -> B -> bool)
  (H : forall a b, ltA a b = ltB (f a) (f b)) l :
  map f (sort_by ltA l) = sort_by ltB (map f l).
Proof.
  unfold sort_by. change (@nil B) with (map f (@nil A)). generalize (@nil A).
  induction l as [|x xs IH]; intros acc; cbn [fold_left map]; [reflexivity|].
  rewrite IH. rewrite (insert_by_map f ltA ltB H). reflexivity.
Qed.

(* stability: a second sort of a list already sorted by lt1 is the sort by "lt2, ties by lt1" *)
Definition lex_lt {A} (lt2 lt1 : A -> A -> bool) (a b : A) : bool :=
  lt2 a b || (negb (lt2 b a) && lt1 a b).

Lemma fold_insert_stable {A} (lt2 lt1 : A -> A -> bool) : forall l acc,
  StronglySorted (fun y x => lt1 x y = false) l ->
  (forall x y, In x l -> In y acc -> lt1 x y = false) ->
  fold_left (fun acc x => insert_by lt2 x acc) l acc =
  fold_left (fun acc x => insert_by (lex_lt lt2 lt1) x acc) l acc.
Proof.
  induction l as [|x xs IH]; intros acc Hs Hacc; cbn [fold_left]; [reflexivity|].
  inversion Hs as [|? ? Hs' Hall]; subst. rewrite Forall_forall in Hall.
  assert (E : insert_by lt2 x acc = insert_by (lex_lt lt2 lt1) x acc).
  { apply insert_by_ext_in. intros y Hy. unfold lex_lt.
    rewrite (Hacc x y (or_introl eq_refl) Hy). rewrite andb_false_r, orb_false_r. reflexivity. }
  rewrite E. apply IH; [exact Hs'|].
  intros z y Hz Hy. apply (Permutation_in _ (insert_by_perm _ x acc)) in Hy. destruct Hy as [Hy|Hy].
  - subst y. apply Hall. exact Hz.
  - apply Hacc; [right; exact Hz|exact Hy].
Qed.

Lemma sort_by_stable {A} (lt2 lt1 : A -> A -> bool) l :
  wsorted lt1 l -> sort_by lt2 l = sort_by (lex_lt lt2 lt1) l.
Proof.
  intros Hs. unfold sort_by. apply fold_insert_stable; [exact Hs|]. intros x y _ [].
Qed.

(* ================================================================== strings *)
Lemma str_lt_irrefl : forall a, str_lt a a = false.
Proof. induction a as [|x xs IH]; cbn [str_lt]; [reflexivity|]. rewrite IH. lia. Qed.

Lemma str_lt_trans : forall a b c, str_lt a b = true -> str_lt b c = true -> str_lt a c = true.
Proof.
  induction a as [|x xs IH]; intros b c Hab Hbc.
  - destruct b as [|y ys]; [cbn in Hab; discriminate|]. destruct c as [|z zs]; [cbn in Hbc; discriminate|reflexivity].
  - destruct b as [|y ys]; [cbn in Hab; discriminate|]. destruct c as [|z zs]; [cbn in Hbc; discriminate|].
    cbn [str_lt] in *.
    destruct (str_lt xs ys) eqn:E1; destruct (str_lt ys zs) eqn:E2; destruct (str_lt xs zs) eqn:E3; try lia.
    rewrite (IH ys zs E1 E2) in E3. discriminate.
Qed.

Lemma str_lt_total : forall a b, str_lt a b = false -> str_lt b a = false -> a = b.
Proof.
  induction a as [|x xs IH]; intros b Hab Hba.
  - destruct b as [|y ys]; [reflexivity|cbn in Hab; discriminate].
  - destruct b as [|y ys]; [cbn in Hba; discriminate|].
    cbn [str_lt] in *.
    destruct (str_lt xs ys) eqn:E1; destruct (str_lt ys xs) eqn:E2.
    + assert (x = y) by lia. lia.
    + lia.
    + lia.
    + assert (x = y) by lia. subst y. f_equal. apply IH; [exact E1|exact E2].
Qed.

Lemma str_eqb_eq : forall a b, str_eqb a b = true <-> a = b.
Proof.
  unfold str_eqb. induction a as [|x xs IH]; intros b; destruct b as [|y ys]; cbn [list_eqb]; split; intros H; try reflexivity; try discriminate.
  - apply andb_true_iff in H. destruct H as [H1 H2]. apply Z.eqb_eq in H1. apply IH in H2. subst. reflexivity.
  - injection H as H1 H2. subst. apply andb_true_iff. split; [apply Z.eqb_refl|apply IH; reflexivity].
Qed.

Lemma sorted_list_perm_proof : forall o o', Permutation o o' -> sorted_list o = sorted_list o'.
Proof.
  intros o o' Hp. unfold sorted_list.
  apply (sort_by_perm_unique str_lt str_lt_irrefl str_lt_trans); [exact Hp|].
  intros a b _ _. apply str_lt_total.
Qed.

Lemma sorted_set_ext_proof : forall o o', (forall x, In x o <-> In x o') -> sorted_set o = sorted_set o'.
Proof.
  intros o o' H. unfold sorted_set.
  apply (C13.Proofs.sort_dedupe_ext str_eqb str_lt str_eqb_eq str_lt_irrefl str_lt_trans str_lt_total). exact H.
Qed.

Lemma sorted_set_spec_proof : forall o,
  (forall x, In x (sorted_set o) <-> In x o) /\ NoDup (sorted_set o) /\
  StronglySorted (fun a b => str_lt a b = true) (sorted_set o).
Proof.
  intros o. unfold sorted_set. split; [|split].
  - intros x. rewrite C13.Proofs.sort_by_In. apply C13.Proofs.dedupe_In. exact str_eqb_eq.
  - apply (Permutation_NoDup (Permutation_sym (sort_by_perm str_lt _))).
    apply C13.Proofs.dedupe_NoDup. exact str_eqb_eq.
  - unfold sort_by. apply (C13.Proofs.fold_insert_ssorted str_lt str_lt_trans str_lt_total).
    + apply C13.Proofs.dedupe_NoDup. exact str_eqb_eq.
    + intros x _ [].
    + constructor.
Qed.

Lemma list_of_set_refuted_proof : exists o o',
  (forall x, In x o <-> In x o') /\ list_of_set o <> list_of_set o' /\ sorted_set o = sorted_set o'.
Proof.
  exists [[1]; [2]], [[2]; [1]]. split; [|split].
  - intros x. cbn. tauto.
  - vm_compute. discriminate.
  - vm_compute. reflexivity.
Qed.

(* ================================================================== stage 1/2: refinement *)
Lemma refine_o_perm_proof : forall nb t o o', Permutation o o' -> refine_o nb t o = refine_o nb t o'.
Proof. intros. unfold refine_o. apply C13.Proofs.refine_table_perm. assumption. Qed.

Lemma refine_gene_set_proof : forall nb L reg o o', (forall x, In x o <-> In x o') ->
  C13.Model.refine_gene nb L reg o = C13.Model.refine_gene nb L reg o'.
Proof. intros. apply C13.Proofs.refine_gene_ext. assumption. Qed.

(* the repaired code is refine_sorted after the total-key sort *)
Lemma refine_gene_is_refine_sorted : forall nb L reg o,
  C13.Model.refine_gene nb L reg o = refine_sorted nb L reg (C13.Model.canonical o).
Proof. intros. reflexivity. Qed.

Definition w_h1 := C13.Model.mkHit 0 0 10 1 20.
Definition w_h2 := C13.Model.mkHit 1 0 10 1 20.
Lemma refine_startkey_refuted_proof : exists nb L reg o o',
  Permutation o o' /\ NoDup o /\
  refine_gene_startkey nb L reg o <> refine_gene_startkey nb L reg o' /\
  C13.Model.refine_gene nb L reg o = C13.Model.refine_gene nb L reg o'.
Proof.
  exists true, (fun _ => 10), (fun _ => false), [w_h1; w_h2], [w_h2; w_h1].
  split; [apply perm_swap|]. split.
  - constructor; [intros [H|[]]; discriminate|constructor; [intros []|constructor]].
  - split; [vm_compute; discriminate|vm_compute; reflexivity].
Qed.

(* ================================================================== stage 3: anchoring genes *)
Lemma itv_lt_irrefl : forall a, C03.Model.itv_lt a a = false.
Proof. intros [s e]. unfold C03.Model.itv_lt. cbn [C03.Model.s C03.Model.e]. lia. Qed.
Lemma itv_lt_trans : forall a b c, C03.Model.itv_lt a b = true -> C03.Model.itv_lt b c = true -> C03.Model.itv_lt a c = true.
Proof. intros [s1 e1] [s2 e2] [s3 e3]. unfold C03.Model.itv_lt. cbn [C03.Model.s C03.Model.e]. lia. Qed.
Lemma itv_lt_total : forall a b, C03.Model.itv_lt a b = false -> C03.Model.itv_lt b a = false -> a = b.
Proof.
  intros [s1 e1] [s2 e2]. unfold C03.Model.itv_lt. cbn [C03.Model.s C03.Model.e]. intros H1 H2.
  assert (s1 = s2 /\ e1 = e2) as [-> ->] by lia. reflexivity.
Qed.

Lemma anchor_locations_proof : forall o, map aloc (anchor_sort o) = sort_by C03.Model.itv_lt (map aloc o).
Proof. intros o. unfold anchor_sort. apply sort_by_map. intros a b. reflexivity. Qed.

Lemma anchor_locations_perm_proof : forall o o', Permutation o o' ->
  map aloc (anchor_sort o) = map aloc (anchor_sort o').
Proof.
  intros o o' Hp. rewrite !anchor_locations_proof.
  apply (sort_by_perm_unique C03.Model.itv_lt itv_lt_irrefl itv_lt_trans).
  - apply Permutation_map. exact Hp.
  - intros a b _ _. apply itv_lt_total.
Qed.

Lemma find_protoclusters_is_C03_proof : forall N c nb o,
  find_protoclusters_o N c nb o = C03.Model.protoclusters N c nb (map aloc o).
Proof.
  intros. unfold find_protoclusters_o, protoclusters_of_sorted, C03.Model.protoclusters.
  rewrite anchor_locations_proof. reflexivity.
Qed.

Lemma find_protoclusters_perm_proof : forall N c nb o o', Permutation o o' ->
  find_protoclusters_o N c nb o = find_protoclusters_o N c nb o'.
Proof.
  intros N c nb o o' Hp. unfold find_protoclusters_o. rewrite (anchor_locations_perm_proof o o' Hp). reflexivity.
Qed.

Lemma agene_lt_irrefl : forall a, agene_lt a a = false.
Proof. intros a. apply itv_lt_irrefl. Qed.
Lemma agene_lt_trans : forall a b c, agene_lt a b = true -> agene_lt b c = true -> agene_lt a c = true.
Proof. intros a b c. apply itv_lt_trans. Qed.

Lemma anchor_sort_perm_proof : forall o o', Permutation o o' ->
  (forall a b, In a o -> In b o -> aloc a = aloc b -> a = b) ->
  anchor_sort o = anchor_sort o'.
Proof.
  intros o o' Hp Hg. unfold anchor_sort.
  apply (sort_by_perm_unique agene_lt agene_lt_irrefl agene_lt_trans); [exact Hp|].
  intros a b Ia Ib H1 H2. apply Hg; [exact Ia|exact Ib|]. apply itv_lt_total; assumption.
Qed.

Lemma anchor_order_refuted_proof : exists o o',
  Permutation o o' /\ NoDup (map aid o) /\ anchor_sort o <> anchor_sort o'.
Proof.
  exists [mkAG 1 (C03.Model.mkItv 10 20); mkAG 2 (C03.Model.mkItv 10 20)],
         [mkAG 2 (C03.Model.mkItv 10 20); mkAG 1 (C03.Model.mkItv 10 20)].
  split; [apply perm_swap|]. split.
  - cbn. constructor; [intros [H|[]]; discriminate|constructor; [intros []|constructor]].
  - vm_compute. discriminate.
Qed.

(* ================================================================== lexicographic keys *)
Lemma lex2_irrefl : forall a, lex2 a a = false.
Proof. intros [x y]. unfold lex2. cbn [fst snd]. lia. Qed.
Lemma lex2_trans : forall a b c, lex2 a b = true -> lex2 b c = true -> lex2 a c = true.
Proof. intros [x1 y1] [x2 y2] [x3 y3]. unfold lex2. cbn [fst snd]. lia. Qed.
Lemma lex2_total : forall a b, lex2 a b = false -> lex2 b a = false -> a = b.
Proof.
  intros [x1 y1] [x2 y2]. unfold lex2. cbn [fst snd]. intros H1 H2.
  assert (x1 = x2 /\ y1 = y2) as [-> ->] by lia. reflexivity.
Qed.
Lemma lex3_irrefl : forall a, lex3 a a = false.
Proof. intros [[x y] z]. unfold lex3, lex2. cbn [fst snd]. lia. Qed.
Lemma lex3_trans : forall a b c, lex3 a b = true -> lex3 b c = true -> lex3 a c = true.
Proof. intros [[x1 y1] z1] [[x2 y2] z2] [[x3 y3] z3]. unfold lex3, lex2. cbn [fst snd]. lia. Qed.
Lemma lex3_total : forall a b, lex3 a b = false -> lex3 b a = false -> a = b.
Proof.
  intros [[x1 y1] z1] [[x2 y2] z2]. unfold lex3, lex2. cbn [fst snd]. intros H1 H2.
  assert (x1 = x2 /\ y1 = y2 /\ z1 = z2) as [-> [-> ->]] by lia. reflexivity.
Qed.

(* sorting by a totally ordered key: any arrangement of the same elements gives the same list,
   provided no two different elements have the same key *)
Lemma sort_by_key_perm {A K} (key : A -> K) (klt : K -> K -> bool)
  (Hirr : forall k, klt k k = false)
  (Htrans : forall a b c, klt a b = true -> klt b c = true -> klt a c = true)
  (Htot : forall a b, klt a b = false -> klt b a = false -> a = b) :
  forall l l', Permutation l l' ->
  (forall a b, In a l -> In b l -> key a = key b -> a = b) ->
  sort_by (fun a b => klt (key a) (key b)) l = sort_by (fun a b => klt (key a) (key b)) l'.
Proof.
  intros l l' Hp Hg.
  apply (sort_by_perm_unique (fun a b => klt (key a) (key b))).
  - intros a. apply Hirr.
  - intros a b c. apply Htrans.
  - exact Hp.
  - intros a b Ia Ib H1 H2. apply Hg; [exact Ia|exact Ib|]. apply Htot; assumption.
Qed.

(* adjacent form of weak sortedness *)
Lemma wsorted_adjacent {A} (lt : A -> A -> bool) : forall l, wsorted lt l ->
  (fix adj (l : list A) : bool :=
     match l with a :: ((b :: _) as t) => negb (lt b a) && adj t | _ => true end) l = true.
Proof.
  induction l as [|a t IH]; intros H; [reflexivity|].
  inversion H as [|? ? H' Ha]; subst. destruct t as [|b t']; [reflexivity|].
  rewrite Forall_forall in Ha. rewrite (Ha b (or_introl eq_refl)). cbn [negb andb]. apply IH. exact H'.
Qed.

(* ================================================================== stage 5: get_unique_protoclusters *)
Lemma unique_crossing_perm_proof : forall N o o', Permutation o o' ->
  (forall a b, In a o -> In b o -> red_key N a = red_key N b -> a = b) ->
  unique_crossing N o = unique_crossing N o'.
Proof.
  intros N o o' Hp Hg. unfold unique_crossing, red_lt.
  apply (sort_by_key_perm (red_key N) lex3 lex3_irrefl lex3_trans lex3_total); assumption.
Qed.

Lemma unique_crossing_doc_sorted_proof : forall N o, doc_sorted true N (unique_crossing N o) = true.
Proof.
  intros N o.
  assert (W : wsorted (red_lt N) (unique_crossing N o)).
  { unfold unique_crossing. apply sort_by_wsorted.
    - intros a. apply lex3_irrefl.
    - intros a b c. apply lex3_trans. }
  pose proof (wsorted_adjacent (red_lt N) _ W) as H.
  revert H. generalize (unique_crossing N o). induction l as [|a t IH]; intros H; [reflexivity|].
  destruct t as [|b t']; [reflexivity|]. cbn [doc_sorted]. unfold doc_key_lt. fold (red_lt N b a).
  apply andb_true_iff in H. destruct H as [H1 H2]. rewrite H1. cbn [andb]. apply IH. exact H2.
Qed.

Definition wf_u (p : uproto) : Prop := ust p < uen p /\ ulen p = uen p - ust p.
Definition lin_key (p : uproto) : Z * Z := (ust p, - ulen p).
Definition lin_lt (a b : uproto) : bool := lex2 (lin_key a) (lin_key b).

(* between well-formed single-part locations the containment shortcut agrees with the comparator *)
Lemma u_lt_lin : forall a b, wf_u a -> wf_u b -> u_lt a b = lin_lt a b.
Proof.
  intros a b [Ha1 Ha2] [Hb1 Hb2]. unfold u_lt, lin_lt, lin_key, u_contains, lex2. cbn [fst snd].
  destruct ((ust a <=? ust b) && (ust b <=? uen b) && (uen b <=? uen a) &&
            negb ((ust b <=? ust a) && (ust a <=? uen a) && (uen a <=? uen b))) eqn:E; [lia|].
  destruct ((ust b <=? ust a) && (ust a <=? uen a) && (uen a <=? uen b) &&
            negb ((ust a <=? ust b) && (ust b <=? uen b) && (uen b <=? uen a))) eqn:E2; lia.
Qed.

(* the repaired branch: stable sort by the comparison after the pre-sort = one sort by
   (start, -length) then (product, core_start, core_end) *)
Lemma upre_lt_irrefl : forall a, upre_lt a a = false.
Proof. intros a. apply lex3_irrefl. Qed.
Lemma upre_lt_trans : forall a b c, upre_lt a b = true -> upre_lt b c = true -> upre_lt a c = true.
Proof. intros a b c. apply lex3_trans. Qed.

Lemma unique_linear_is_lin : forall o, Forall wf_u o ->
  unique_linear o = sort_by (lex_lt lin_lt upre_lt) (sort_by upre_lt o).
Proof.
  intros o Hwf. unfold unique_linear.
  assert (Hwf1 : forall x, In x (sort_by upre_lt o) -> wf_u x).
  { rewrite Forall_forall in Hwf. intros x Hx. apply Hwf. apply (Permutation_in _ (sort_by_perm upre_lt o)). exact Hx. }
  rewrite (sort_by_ext_in u_lt lin_lt).
  - apply sort_by_stable. apply sort_by_wsorted; [exact upre_lt_irrefl|exact upre_lt_trans].
  - intros a b Ia Ib. apply u_lt_lin; apply Hwf1; assumption.
Qed.

Lemma lin_pre_irrefl : forall a, lex_lt lin_lt upre_lt a a = false.
Proof. intros a. unfold lex_lt, lin_lt. rewrite lex2_irrefl, upre_lt_irrefl. reflexivity. Qed.

Lemma lin_pre_trans : forall a b c,
  lex_lt lin_lt upre_lt a b = true -> lex_lt lin_lt upre_lt b c = true -> lex_lt lin_lt upre_lt a c = true.
Proof.
  intros a b c. unfold lex_lt, lin_lt, upre_lt, lex3, lex2, lin_key, upre_key. cbn [fst snd]. lia.
Qed.

Lemma lin_pre_total : forall a b,
  lex_lt lin_lt upre_lt a b = false -> lex_lt lin_lt upre_lt b a = false -> lin_key a = lin_key b /\ upre_key a = upre_key b.
Proof.
  intros a b. unfold lex_lt, lin_lt, upre_lt, lex3, lex2, lin_key, upre_key. cbn [fst snd]. intros H1 H2.
  assert (ust a = ust b /\ - ulen a = - ulen b /\ uprod a = uprod b /\ ucs a = ucs b /\ uce a = uce b)
    as (-> & -> & -> & -> & ->) by lia.
  split; reflexivity.
Qed.

(* same list for every set order unless two protoclusters share (start, length) AND (product, core start, core end) *)
Lemma unique_linear_perm_proof : forall o o', Forall wf_u o -> Permutation o o' ->
  (forall a b, In a o -> In b o -> lin_key a = lin_key b -> upre_key a = upre_key b -> a = b) ->
  unique_linear o = unique_linear o'.
Proof.
  intros o o' Hwf Hp Hg.
  assert (Hwf' : Forall wf_u o').
  { rewrite Forall_forall in *. intros x Hx. apply Hwf. apply (Permutation_in _ (Permutation_sym Hp)). exact Hx. }
  rewrite (unique_linear_is_lin o Hwf), (unique_linear_is_lin o' Hwf').
  apply (sort_by_perm_unique (lex_lt lin_lt upre_lt) lin_pre_irrefl lin_pre_trans).
  - apply Permutation_trans with o; [apply sort_by_perm|].
    apply Permutation_trans with o'; [exact Hp|apply Permutation_sym; apply sort_by_perm].
  - intros a b Ia Ib H1 H2.
    apply (Permutation_in _ (sort_by_perm upre_lt o)) in Ia.
    apply (Permutation_in _ (sort_by_perm upre_lt o)) in Ib.
    destruct (lin_pre_total a b H1 H2) as [E1 E2]. apply Hg; assumption.
Qed.

(* ... and always in the documented order (start, decreasing size, product) *)
Lemma unique_linear_doc_sorted_proof : forall o, Forall wf_u o -> doc_sorted false 0 (unique_linear o) = true.
Proof.
  intros o Hwf.
  assert (W : wsorted (lex_lt lin_lt upre_lt) (unique_linear o)).
  { rewrite (unique_linear_is_lin o Hwf). apply sort_by_wsorted; [exact lin_pre_irrefl|exact lin_pre_trans]. }
  pose proof (wsorted_adjacent (lex_lt lin_lt upre_lt) _ W) as H.
  revert H. generalize (unique_linear o). induction l as [|a t IH]; intros H; [reflexivity|].
  destruct t as [|b t']; [reflexivity|]. cbn [doc_sorted].
  apply andb_true_iff in H. destruct H as [H1 H2]. apply andb_true_iff. split; [|apply IH; exact H2].
  apply negb_true_iff in H1. apply negb_true_iff.
  revert H1. unfold doc_key_lt, lex_lt, lin_lt, upre_lt, lex3, lex2, lin_key, upre_key. cbn [fst snd]. lia.
Qed.

(* the witness of the repaired finding unique_protoclusters_set_order: identical coordinates, different products *)
Definition w_u1 := mkU 1 1000 2000 1000 0 1000 2000.
Definition w_u2 := mkU 2 1000 2000 1000 1 1000 2000.
Definition w_u3 := mkU 3 1500 3000 1500 2 1500 3000.
Lemma unique_linear_witness_proof :
  Forall wf_u [w_u1; w_u2; w_u3] /\ Permutation [w_u1; w_u2; w_u3] [w_u2; w_u1; w_u3] /\
  map uid (unique_linear [w_u1; w_u2; w_u3]) = [1; 2; 3] /\ map uid (unique_linear [w_u2; w_u1; w_u3]) = [1; 2; 3] /\
  (* the code before the repair followed the set order and broke the documented order for one of them *)
  map uid (unique_linear_unrepaired [w_u1; w_u2; w_u3]) <> map uid (unique_linear_unrepaired [w_u2; w_u1; w_u3]) /\
  doc_sorted false 0 (unique_linear_unrepaired [w_u2; w_u1; w_u3]) = false.
Proof.
  split; [repeat constructor; cbn; lia|].
  split; [apply perm_swap|].
  split; [vm_compute; reflexivity|]. split; [vm_compute; reflexivity|].
  split; [vm_compute; discriminate|vm_compute; reflexivity].
Qed.

(* ================================================================== stage 4: _ordered *)
Import C05.Model.

Definition simple (p : proto) : Prop := exists s e st, ploc p = [mkPart s e st] /\ s <= e.
Definition pkey (p : proto) : Z * Z := (lstart (ploc p), - llen (ploc p)).
Definition lexpp (a b : proto) : bool := lex2 (pkey a) (pkey b).
(* the pre-sort key of _ordered: (product, core_start, core_end) *)
Definition prekey (p : proto) : Z * Z * Z := (pprod p, fstart (pcore p), fend (pcore p)).
Definition prod_lt (a b : proto) : bool := pre_lt a b.
Lemma prod_lt_irrefl : forall a, prod_lt a a = false.
Proof. intros a. unfold prod_lt, pre_lt, pair_lt. cbn [fst snd]. lia. Qed.
Lemma prod_lt_trans : forall a b c, prod_lt a b = true -> prod_lt b c = true -> prod_lt a c = true.
Proof. intros a b c. unfold prod_lt, pre_lt, pair_lt. cbn [fst snd]. lia. Qed.

Lemma lt_pp_simple : forall a b, simple a -> simple b -> lt_pp a b = lexpp a b.
Proof.
  intros a b (s1 & e1 & st1 & Ha & Hle1) (s2 & e2 & st2 & Hb & Hle2).
  unfold lt_pp, coll_lt, lexpp, pkey, comparator. rewrite Ha, Hb.
  cbn [existsb]. unfold bridges. cbn [is_compound].
  unfold contains. cbn [forallb existsb]. unfold part_contains. cbn [ps pe].
  unfold lstart, llen, lmin. cbn [map fold_left fold_right ps pe].
  unfold pair_lt, lex2. cbn [fst snd].
  destruct (((s1 <=? s2) && (s2 <=? e2) && (e2 <=? e1) || false) && true &&
            negb (((s2 <=? s1) && (s1 <=? e1) && (e1 <=? e2) || false) && true)) eqn:E; [lia|].
  repeat match goal with |- context [if ?c then _ else _] => destruct c eqn:? end; lia.
Qed.

Lemma ordered_list_is_lex : forall g, Forall simple g ->
  ordered_list g = sort_by (lex_lt lexpp prod_lt) (sort_by prod_lt g).
Proof.
  intros g Hs. unfold ordered_list. change pre_lt with prod_lt.
  assert (Hs1 : forall x, In x (sort_by prod_lt g) -> simple x).
  { rewrite Forall_forall in Hs. intros x Hx. apply Hs. apply (Permutation_in _ (sort_by_perm prod_lt g)). exact Hx. }
  rewrite (sort_by_ext_in lt_pp lexpp).
  - apply sort_by_stable. apply sort_by_wsorted; [exact prod_lt_irrefl|exact prod_lt_trans].
  - intros a b Ia Ib. apply lt_pp_simple; apply Hs1; assumption.
Qed.

Lemma lexpp_prod_irrefl : forall a, lex_lt lexpp prod_lt a a = false.
Proof. intros a. unfold lex_lt, lexpp. rewrite lex2_irrefl, prod_lt_irrefl. reflexivity. Qed.

Lemma lexpp_prod_trans : forall a b c,
  lex_lt lexpp prod_lt a b = true -> lex_lt lexpp prod_lt b c = true -> lex_lt lexpp prod_lt a c = true.
Proof.
  intros a b c. unfold lex_lt, lexpp, prod_lt, pre_lt, pair_lt, lex2.
  destruct (pkey a) as [x1 y1]. destruct (pkey b) as [x2 y2]. destruct (pkey c) as [x3 y3].
  cbn [fst snd]. lia.
Qed.

Lemma lexpp_prod_total : forall a b,
  lex_lt lexpp prod_lt a b = false -> lex_lt lexpp prod_lt b a = false -> pkey a = pkey b /\ prekey a = prekey b.
Proof.
  intros a b. unfold lex_lt, lexpp, prod_lt, pre_lt, pair_lt, lex2, prekey.
  destruct (pkey a) as [x1 y1]. destruct (pkey b) as [x2 y2]. cbn [fst snd]. intros H1 H2.
  assert (x1 = x2 /\ y1 = y2 /\ pprod a = pprod b /\ fstart (pcore a) = fstart (pcore b) /\ fend (pcore a) = fend (pcore b))
    as (-> & -> & -> & -> & ->) by lia.
  split; reflexivity.
Qed.

(* the member order of a candidate cluster does not depend on the order in which the set of its
   protoclusters is enumerated, unless two of them share coordinates AND product AND core start/end *)
Lemma ordered_perm_proof : forall g g', Forall simple g -> Permutation g g' ->
  (forall a b, In a g -> In b g -> pkey a = pkey b -> prekey a = prekey b -> a = b) ->
  ordered_list g = ordered_list g'.
Proof.
  intros g g' Hs Hp Hg.
  assert (Hs' : Forall simple g').
  { rewrite Forall_forall in *. intros x Hx. apply Hs. apply (Permutation_in _ (Permutation_sym Hp)). exact Hx. }
  rewrite (ordered_list_is_lex g Hs), (ordered_list_is_lex g' Hs').
  apply (sort_by_perm_unique (lex_lt lexpp prod_lt) lexpp_prod_irrefl lexpp_prod_trans).
  - apply Permutation_trans with g; [apply sort_by_perm|].
    apply Permutation_trans with g'; [exact Hp|apply Permutation_sym; apply sort_by_perm].
  - intros a b Ia Ib H1 H2.
    apply (Permutation_in _ (sort_by_perm prod_lt g)) in Ia.
    apply (Permutation_in _ (sort_by_perm prod_lt g)) in Ib.
    destruct (lexpp_prod_total a b H1 H2) as [E1 E2]. apply Hg; assumption.
Qed.

(* ... and the result is THE arrangement ordered by (start, -length, product, core start, core end) *)
Lemma ordered_sorted_proof : forall g, Forall simple g ->
  Permutation (ordered_list g) g /\ wsorted (lex_lt lexpp prod_lt) (ordered_list g).
Proof.
  intros g Hs. rewrite (ordered_list_is_lex g Hs). split.
  - apply Permutation_trans with (sort_by prod_lt g); apply sort_by_perm.
  - apply sort_by_wsorted; [exact lexpp_prod_irrefl|exact lexpp_prod_trans].
Qed.

Definition w_pa := mkProto 0 [mkPart 100 200 1] [mkPart 110 120 1] 0 [].
Definition w_pb := mkProto 1 [mkPart 100 200 1] [mkPart 170 180 1] 1 [].
Definition w_pc := mkProto 2 [mkPart 150 300 1] [mkPart 250 260 1] 2 [].

(* the code before repair 13b45ace (`sorted(group)` alone) exposed the enumeration order *)
Lemma ordered_presort_needed_proof : exists g g',
  Forall simple g /\ Permutation g g' /\ NoDup (map pprod g) /\
  sort_by lt_pp g <> sort_by lt_pp g' /\ ordered_list g = ordered_list g'.
Proof.
  exists [w_pa; w_pb; w_pc], [w_pb; w_pa; w_pc].
  split; [repeat constructor; eexists; eexists; eexists; (split; [reflexivity|lia])|].
  split; [apply perm_swap|].
  split; [cbn; repeat constructor; cbn; intuition discriminate|].
  split; [vm_compute; discriminate|vm_compute; reflexivity].
Qed.

(* same product and same coordinates, different cores (witness of the repaired finding
   same_product_equal_coordinates_member_order): the core now breaks the tie; the guard of ordered_perm_proof holds *)
Definition w_pa' := mkProto 0 [mkPart 0 400 1] [mkPart 110 120 1] 0 [].
Definition w_pb' := mkProto 1 [mkPart 0 400 1] [mkPart 270 280 1] 0 [].
Lemma ordered_same_product_proof :
  Forall simple [w_pa'; w_pb'] /\ Permutation [w_pa'; w_pb'] [w_pb'; w_pa'] /\
  pkey w_pa' = pkey w_pb' /\ pprod w_pa' = pprod w_pb' /\
  (forall a b, In a [w_pa'; w_pb'] -> In b [w_pa'; w_pb'] -> pkey a = pkey b -> prekey a = prekey b -> a = b) /\
  map pid (ordered_list [w_pa'; w_pb']) = [0; 1] /\ map pid (ordered_list [w_pb'; w_pa']) = [0; 1] /\
  (* the pre-sort by product alone (before the repair) followed the enumeration order *)
  sort_by lt_pp (sort_by (fun a b => pprod a <? pprod b) [w_pa'; w_pb'])
    <> sort_by lt_pp (sort_by (fun a b => pprod a <? pprod b) [w_pb'; w_pa']).
Proof.
  split; [repeat constructor; eexists; eexists; eexists; (split; [reflexivity|lia])|].
  split; [apply perm_swap|].
  split; [reflexivity|]. split; [reflexivity|].
  split.
  { intros a b Ia Ib _ E. cbn in Ia, Ib.
    destruct Ia as [<-|[<-|[]]]; destruct Ib as [<-|[<-|[]]]; try reflexivity; vm_compute in E; discriminate. }
  split; [vm_compute; reflexivity|]. split; [vm_compute; reflexivity|]. vm_compute. discriminate.
Qed.

(* SINGLE candidates of protoclusters with identical coordinates (witness of the repaired finding
   single_candidates_set_order): the two numberings of the same three protoclusters (= the two possible iteration
   orders of set(unassigned)) now give the same candidate list, singles in _ordered order (by product here) *)
Definition w_pa2 := mkProto 1 [mkPart 100 200 1] [mkPart 110 120 1] 0 [].
Definition w_pb2 := mkProto 0 [mkPart 100 200 1] [mkPart 170 180 1] 1 [].
Definition view (r : res (list cand)) : res (list (Z * list Z)) :=
  match r with Ok l => Ok (map (fun c => (ckind c, map pprod (cmem c))) l) | Err k => Err k end.
Lemma singles_order_proof :
  view (create_candidates [w_pa; w_pb; w_pc] None)
    = Ok [(K_NEIGHBOURING, [0; 1; 2]); (K_SINGLE, [0]); (K_SINGLE, [1]); (K_SINGLE, [2])] /\
  view (create_candidates [w_pa2; w_pb2; w_pc] None)
    = Ok [(K_NEIGHBOURING, [0; 1; 2]); (K_SINGLE, [0]); (K_SINGLE, [1]); (K_SINGLE, [2])].
Proof. split; vm_compute; reflexivity. Qed.

(* the singles loop visits set(unassigned) in _ordered order: for every enumeration of that set the same list of
   protoclusters is visited (single-part locations, no two sharing coordinates, product and core) *)
Lemma singles_visit_perm_proof : forall u u', Forall simple u -> Permutation u u' ->
  (forall a b, In a u -> In b u -> pkey a = pkey b -> prekey a = prekey b -> a = b) ->
  forall w ex, singles_go w ex (ordered_list u) = singles_go w ex (ordered_list u').
Proof. intros u u' Hs Hp Hg w ex. rewrite (ordered_perm_proof u u' Hs Hp Hg). reflexivity. Qed.

(* ================================================================== composition *)
Lemma pipeline_partial_proof : forall neighbour table N c nb crossing RN
    (hits hits' : list (Z * C13.Model.hit)) (genes genes' : list agene) (group group' : list proto)
    (protos protos' : list uproto) (names names' notes notes' : list (list Z)),
  Permutation hits hits' -> Permutation genes genes' -> Permutation group group' ->
  Permutation protos protos' -> (forall x, In x names <-> In x names') -> Permutation notes notes' ->
  Forall simple group ->
  (forall a b, In a group -> In b group -> pkey a = pkey b -> prekey a = prekey b -> a = b) ->
  (crossing = true -> forall a b, In a protos -> In b protos -> red_key RN a = red_key RN b -> a = b) ->
  (crossing = false -> Forall wf_u protos /\
                       forall a b, In a protos -> In b protos -> lin_key a = lin_key b -> upre_key a = upre_key b -> a = b) ->
  refine_o neighbour table hits = refine_o neighbour table hits' /\
  find_protoclusters_o N c nb genes = find_protoclusters_o N c nb genes' /\
  ordered_list group = ordered_list group' /\
  unique_protoclusters crossing RN protos = unique_protoclusters crossing RN protos' /\
  sorted_set names = sorted_set names' /\
  sorted_list notes = sorted_list notes'.
Proof.
  intros neighbour table N c nb crossing RN hits hits' genes genes' group group' protos protos' names names' notes notes'
         H1 H2 H3 H4 H5 H6 Hs Hg Hc Hu.
  split; [apply refine_o_perm_proof; exact H1|].
  split; [apply find_protoclusters_perm_proof; exact H2|].
  split; [apply ordered_perm_proof; assumption|].
  split.
  - unfold unique_protoclusters. destruct crossing.
    + apply unique_crossing_perm_proof; [exact H4|apply Hc; reflexivity].
    + destruct (Hu eq_refl) as [Hw Hu']. apply unique_linear_perm_proof; assumption.
  - split; [apply sorted_set_ext_proof; exact H5|apply sorted_list_perm_proof; exact H6].
Qed.
